//! Stream `exprprint` (C01 / C05 on the modelled expression fragment).
//! * op `exprprint`: token list -> `parse_expr` -> `to_string()`, against the model's `showText`;
//! * op `exprtoks`: the non-whitespace tokens the real tokenizer makes of the printed text, against
//!   the model's `showToks` -- only where the real round trip parse(lex(print e)) == e holds (where it
//!   does not, the line is answered UNSUPPORTED and counted in `dist` as `lex-unsafe/…`: those are
//!   the text-level failures of C01 inside the fragment, found on the real code).
use crate::c04::{err_line, expr_sexp, lex_nows};
use crate::canon::toks_canon_noloc;
use crate::common::*;
use sqlparser::ast::Expr;
use sqlparser::dialect::Dialect;
use sqlparser::parser::{Parser, ParserError};
use sqlparser::tokenizer::Token;
use std::collections::BTreeSet;
use std::io::Write;

fn parse_toks(d: &dyn Dialect, limit: usize, toks: &[Token]) -> G<(Result<Expr, ParserError>, usize)> {
    guard(|| {
        let mut p = Parser::new(d).with_recursion_limit(limit).with_tokens(toks.to_vec());
        let e = p.parse_expr();
        let _ = p.peek_token();
        (e, p.verif_state().0)
    })
}

/// head of the outermost nodes, for the distribution
fn shape_class(e: &Expr) -> String {
    variant_of(e)
}

struct St<'a> {
    req: std::io::BufWriter<std::fs::File>,
    real: std::io::BufWriter<std::fs::File>,
    r: &'a mut Report,
    distinct: BTreeSet<u64>,
    seen: BTreeSet<(usize, String)>,
}

fn fnv(s: &str) -> u64 {
    let mut h = 0xcbf29ce484222325u64;
    for b in s.bytes() {
        h ^= b as u64;
        h = h.wrapping_mul(0x100000001b3);
    }
    h
}

impl<'a> St<'a> {
    fn emit(&mut self, k: usize, dn: &str, d: &dyn Dialect, toks: &[Token], class: &str) {
        let canon = toks_canon_noloc(toks);
        if !self.seen.insert((k, canon.clone())) {
            return;
        }
        let lim = 50usize;
        let n = toks.len();
        let parsed = parse_toks(d, lim, toks);
        // ---- text
        writeln!(self.req, "exprprint\t{dn}\t{lim}\t{canon}").unwrap();
        self.r.evaluations += 1;
        self.r.count(&format!("class/{class}"));
        let (ans, tree): (String, Option<Expr>) = match &parsed {
            G::Val((Ok(e), idx)) => match expr_sexp(e) {
                Some(_) => match guard(|| e.to_string()) {
                    G::Val(s) => (format!("OK {} REST {}", hex(&s), n.saturating_sub(*idx)), Some(e.clone())),
                    G::Panic(m) => (format!("PANIC {m}"), None),
                },
                None => ("UNSUPPORTED".into(), None),
            },
            G::Val((Err(e), _)) => (err_line(e), None),
            G::Panic(m) => (format!("PANIC {m}"), None),
        };
        let kind = if ans.starts_with("OK") { "ok" } else if ans.starts_with("ERR") { "err" } else if ans.starts_with("UNSUPPORTED") { "unsupported" } else { "panic" };
        self.r.count(&format!("answer/{kind}"));
        if kind == "panic" {
            self.r.panic(dn, Opts::DEFAULT, &canon, ans.clone());
        }
        if let Some(e) = &tree {
            self.r.count(&format!("root/{}", shape_class(e)));
        }
        self.distinct.insert(fnv(&format!("{dn}{ans}")));
        writeln!(self.real, "{ans}").unwrap();
        // ---- printed tokens, where the text survives the real lexer and parser
        let e = match tree {
            Some(e) => e,
            None => return,
        };
        writeln!(self.req, "exprtoks\t{dn}\t{lim}\t{canon}").unwrap();
        self.r.evaluations += 1;
        let text = e.to_string();
        let ans2 = match lex_nows(d, &text) {
            None => { self.r.count(&format!("lex-unsafe/{}/does-not-lex", shape_class(&e))); "UNSUPPORTED lex".to_string() }
            Some(t2) => match parse_toks(d, lim, &t2) {
                G::Val((Ok(e2), idx)) if e2 == e && idx >= t2.len() => {
                    self.r.count("lex-safe");
                    format!("TOKS {}", toks_canon_noloc(&t2))
                }
                G::Val((Ok(_), _)) => { self.r.count(&format!("lex-unsafe/{}/different-tree", shape_class(&e))); "UNSUPPORTED lexunsafe".into() }
                G::Val((Err(_), _)) => { self.r.count(&format!("lex-unsafe/{}/rejected", shape_class(&e))); "UNSUPPORTED lexunsafe".into() }
                G::Panic(m) => { self.r.panic(dn, Opts::DEFAULT, &text, m); "UNSUPPORTED panic".into() }
            },
        };
        if ans2.starts_with("UNSUPPORTED") && self.r.samples.len() < 8 {
            self.r.sample(serde_json::json!({"dialect": dn, "lex_unsafe": true, "input": toks.iter().map(|t| t.to_string()).collect::<Vec<_>>().join(" "), "printed": text}));
        }
        self.distinct.insert(fnv(&format!("{dn}{ans2}")));
        writeln!(self.real, "{ans2}").unwrap();
    }
    fn sql(&mut self, k: usize, dn: &str, d: &dyn Dialect, sql: &str, class: &str) {
        if let Some(t) = lex_nows(d, sql) {
            self.emit(k, dn, d, &t, class);
        }
    }
}

const ATOMS: [&str; 40] = [
    "a", "A", "a.b", "a.b.c", "\"a\"", "\"a b\"", "\"a\"\"b\"", "`a`", "[a]", "[a b]", "a.\"b\".c", "a.'b'", "a.'b''c'", "1", "1.5", "1e3", "1L", ".5",
    "'s'", "'it''s'", "''", "'a\\b'", "\"s\"", "\"d\"\"q\"", "?", "$1", ":x", "@x", "TRUE", "true", "False", "NULL", "null", "and", "select", "AT", "zone", "x_1", "_x", "é",
];

const INFIX: [&str; 62] = [
    "+", "-", "*", "/", "%", "||", "|", "&", "^", "#", "<<", ">>", "&&", "^@", "=", "==", "<>", "!=", "<", ">", "<=", ">=", "<=>", "~", "~*", "!~", "!~*",
    "~~", "~~*", "!~~", "!~~*", "->", "->>", "#>", "#>>", "@>", "<@", "#-", "@?", "@@", "?", "?&", "?|", "//", "~@", "<->", "AND", "and", "Or", "XOR", "DIV",
    "div", "IS DISTINCT FROM", "is not distinct from", "LIKE", "not like", "ILIKE", "SIMILAR TO", "RLIKE", "NOT REGEXP", "REGEXP RLIKE", "AT TIME ZONE",
];

const POSTFIX: [&str; 22] = [
    "IS NULL", "is not null", "IS TRUE", "IS NOT TRUE", "IS FALSE", "IS NOT FALSE", "IS UNKNOWN", "is not unknown", "IN (x, y)", "NOT IN (x)", "in ()",
    "NOT IN ()", "IN (x + y, NOT z, (w))", "::INT", "::text", "::BOOLEAN", "!", "= ANY (z)", "< all (x + y)", "<> SOME (z)", "== any (z)", "!= ALL (z)",
];

const TERNARY: [&str; 14] = [
    "BETWEEN x AND", "not between x and", "BETWEEN x + y AND", "LIKE x ESCAPE '!' AND", "LIKE ANY x ESCAPE '!' OR", "ILIKE ANY x ESCAPE '!' OR",
    "NOT ILIKE x ESCAPE c AND", "SIMILAR TO x ESCAPE \"q\" AND", "LIKE x ESCAPE '''' AND", "like any", "ILIKE ANY", "NOT SIMILAR TO x ESCAPE '\\' OR",
    "= ANY (z) AND", "IN (x) OR",
];

fn rand_expr(rng: &mut Rng, depth: usize, pg: bool) -> String {
    if depth == 0 || rng.chance(1, 4) {
        return rng.pick(&ATOMS[..]).to_string();
    }
    let d = depth - 1;
    match rng.below(14) {
        0 => format!("({})", rand_expr(rng, d, pg)),
        1 => format!("NOT {}", rand_expr(rng, d, pg)),
        2 => format!("{} {}", rng.pick(&["-", "+", "- -", "-+"][..]), rand_expr(rng, d, pg)),
        3 if pg => format!("{} {}", rng.pick(&["~", "@", "|/", "||/", "!!"][..]), rand_expr(rng, d, pg)),
        4 | 5 | 6 | 3 => format!("{} {} {}", rand_expr(rng, d, pg), rng.pick(&INFIX[..]), rand_expr(rng, d, pg)),
        7 | 8 => format!("{} {}", rand_expr(rng, d, pg), rng.pick(&POSTFIX[..])),
        9 | 10 => format!("{} {} {}", rand_expr(rng, d, pg), rng.pick(&TERNARY[..]), rand_expr(rng, d, pg)),
        11 => format!("{} IN ({}, {})", rand_expr(rng, d, pg), rand_expr(rng, d, pg), rand_expr(rng, d, pg)),
        12 => format!("{} = ANY ({})", rand_expr(rng, d, pg), rand_expr(rng, d, pg)),
        _ => format!("{} BETWEEN {} AND {}", rand_expr(rng, d, pg), rand_expr(rng, d, pg), rand_expr(rng, d, pg)),
    }
}

/// requests `exprprint|exprtoks \t dialect \t limit \t tokens`
pub fn corr(dir: &str, seed: u64, tier: &str) -> Report {
    let mut r = Report::new("C01", "corr.exprprint", "Display of the modelled expression fragment: per dialect, every atom form (identifiers in every quoting style with embedded quotes, compound identifiers, numbers, strings with embedded quotes/backslashes, placeholders, booleans/NULL in any letter case, keywords used as identifiers) alone, under every prefix operator and in parentheses; every operator spelling (symbolic, keyword in any case, == / !=, REGEXP RLIKE, IS-forms, IN lists incl. empty, casts, ANY/ALL/SOME, BETWEEN, LIKE family with ESCAPE operand as word / '..' / \"..\", AT TIME ZONE) between atoms, all ordered pairs of operators, prefix operators at each operand, parenthesised sub-chains; random nested expressions (quick 1500, thorough 20000 per dialect). Line 1: real parse_expr(tokens).to_string() vs model showText (text equal byte for byte); line 2: real tokenizer on the printed text vs model showToks, only where the real round trip holds (others counted as lex-unsafe/…); non-trivial = distinct (dialect, answer)");
    let thorough = tier == "thorough";
    let mut st = St {
        req: std::io::BufWriter::new(std::fs::File::create(format!("{dir}/exprprint.req")).unwrap()),
        real: std::io::BufWriter::new(std::fs::File::create(format!("{dir}/exprprint.real")).unwrap()),
        r: &mut r,
        distinct: BTreeSet::new(),
        seen: BTreeSet::new(),
    };
    let mut rng = Rng(seed ^ 0xC01);
    for (k, (dn, d)) in all_dialects().into_iter().enumerate() {
        let d = d.as_ref();
        let pg = dn == "postgresql" || dn == "generic";
        let mut prefixes: Vec<&str> = vec!["NOT", "not", "-", "+", "- -", "- +", "NOT NOT", "- NOT"];
        if pg {
            prefixes.extend(["~", "@", "|/", "||/", "!!", "@ -", "- @"]);
        }
        for a in ATOMS {
            st.sql(k, dn, d, a, "atom");
            st.sql(k, dn, d, &format!("({a})"), "atom.paren");
            st.sql(k, dn, d, &format!("(({a}))"), "atom.paren");
            for p in &prefixes {
                st.sql(k, dn, d, &format!("{p} {a}"), "atom.prefix");
                st.sql(k, dn, d, &format!("{p} ({a})"), "atom.prefix");
            }
        }
        // single operators over rotating atoms
        let mut ai = 0usize;
        let atom = |ai: &mut usize| { *ai += 1; ATOMS[(*ai * 7) % ATOMS.len()] };
        for o in INFIX {
            for _ in 0..3 {
                let (x, y) = (atom(&mut ai), atom(&mut ai));
                st.sql(k, dn, d, &format!("{x} {o} {y}"), "single");
            }
            for p in prefixes.iter().take(5) {
                st.sql(k, dn, d, &format!("{p} a {o} b"), "single.prefix");
                st.sql(k, dn, d, &format!("a {o} {p} b"), "single.prefix");
            }
            st.sql(k, dn, d, &format!("(a {o} b)"), "single.paren");
            st.sql(k, dn, d, &format!("(a) {o} (b)"), "single.paren");
        }
        for o in POSTFIX {
            for _ in 0..3 {
                let x = atom(&mut ai);
                st.sql(k, dn, d, &format!("{x} {o}"), "single");
            }
            for p in prefixes.iter().take(5) {
                st.sql(k, dn, d, &format!("{p} a {o}"), "single.prefix");
            }
            st.sql(k, dn, d, &format!("(a {o})"), "single.paren");
        }
        for o in TERNARY {
            let (x, y) = (atom(&mut ai), atom(&mut ai));
            st.sql(k, dn, d, &format!("{x} {o} {y}"), "single");
            st.sql(k, dn, d, &format!("a {o} b"), "single");
            st.sql(k, dn, d, &format!("NOT a {o} - b"), "single.prefix");
        }
        // all ordered pairs
        let mut all: Vec<(String, u8)> = vec![];
        all.extend(INFIX.iter().map(|s| (s.to_string(), 2u8)));
        all.extend(POSTFIX.iter().map(|s| (s.to_string(), 1u8)));
        all.extend(TERNARY.iter().map(|s| (s.to_string(), 2u8)));
        let mut idx = 0usize;
        let phase = (seed % 3) as usize;
        for (o1, k1) in &all {
            for (o2, k2) in &all {
                idx += 1;
                if !thorough && idx % 3 != phase {
                    continue;
                }
                let mut s = format!("a {o1}");
                if *k1 == 2 { s.push_str(" b"); }
                s.push_str(&format!(" {o2}"));
                if *k2 == 2 { s.push_str(" c"); }
                st.sql(k, dn, d, &s, "pair");
                if thorough || idx % 9 == phase {
                    // right group
                    let mut s = format!("a {o1}");
                    if *k1 == 2 {
                        s.push_str(&format!(" (b {o2}"));
                        if *k2 == 2 { s.push_str(" c"); }
                        s.push(')');
                        st.sql(k, dn, d, &s, "pair.paren");
                    }
                }
            }
        }
        let nrand = if thorough { 20000 } else { 1500 };
        for _ in 0..nrand {
            let depth = 1 + rng.below(5);
            let s = rand_expr(&mut rng, depth, pg);
            st.sql(k, dn, d, &s, "random");
        }
    }
    let distinct = st.distinct.len() as u64;
    st.req.flush().unwrap();
    st.real.flush().unwrap();
    drop(st);
    r.distinct_nontrivial = distinct;
    r
}

//! C16: visitors.  Correspondence stream `visit` (real `Visit` / `VisitMut` callback sequences vs the
//! Lean traversal model over the reflected tree, with a visitor that breaks at a given callback)
//! and the oracle on the real code (balanced, same node on pre/post, each node once, counts equal
//! the number of nodes of that type, Visit == VisitMut, identity mutation, Break stops, relation
//! coverage of FROM/JOIN/DML target positions).
use crate::common::*;
use crate::reflect::{self, Node, SchemaJ};
use sqlparser::ast::*;
use std::collections::{BTreeMap, BTreeSet, HashSet};
use std::io::Write;
use std::ops::ControlFlow;

pub const HOOK_NAMES: [&str; 5] = ["query", "relation", "table_factor", "expr", "statement"];

#[derive(Clone, Debug, PartialEq)]
pub struct Ev {
    pub hook: u8,
    pub post: bool,
    pub addr: usize,
    pub disp: String,
}

/// A visitor implementing all ten callbacks; returns Break at the `brk`-th callback (0-based).
pub struct Rec {
    pub brk: Option<usize>,
    pub n: usize,
    pub evs: Vec<Ev>,
    pub with_disp: bool,
    /// relation positions found by pattern matching on statements / table factors (oracle only)
    pub collect_rel: bool,
    pub expected_rel: Vec<(usize, &'static str, String)>,
}

impl Rec {
    pub fn new(brk: Option<usize>, with_disp: bool, collect_rel: bool) -> Rec {
        Rec { brk, n: 0, evs: vec![], with_disp, collect_rel, expected_rel: vec![] }
    }
    fn on<T: std::fmt::Display>(&mut self, hook: u8, post: bool, x: &T) -> ControlFlow<()> {
        let disp = if self.with_disp {
            match guard(|| x.to_string()) {
                G::Val(s) => s,
                G::Panic(_) => "<display panics>".to_string(),
            }
        } else {
            String::new()
        };
        self.evs.push(Ev { hook, post, addr: x as *const T as usize, disp });
        let k = self.n;
        self.n += 1;
        if self.brk == Some(k) {
            ControlFlow::Break(())
        } else {
            ControlFlow::Continue(())
        }
    }
    fn rel(&mut self, name: &ObjectName, label: &'static str) {
        self.expected_rel.push((name as *const ObjectName as usize, label, format!("{name:?}")));
    }
    /// The relation-position specification, read off the AST by pattern matching (independent of
    /// the `visit(with = ...)` attributes): FROM/JOIN table factors, INSERT/REPLACE, DELETE (MySQL
    /// multi-table targets), TRUNCATE, COPY ... FROM, COPY INTO targets, plus the statement kinds
    /// whose table name is hooked today.  Every position listed here is expected to be reported by
    /// `pre_visit_relation`; for a `Vec<ObjectName>` position (DELETE targets, hooked per element by the
    /// derive) that means every element, each at its own address.
    fn stmt_relations(&mut self, s: &Statement) {
        match s {
            Statement::Insert(i) => self.rel(&i.table_name, "Insert.table_name"),
            Statement::Delete(d) => {
                for t in &d.tables {
                    self.rel(t, "Delete.tables");
                }
            }
            Statement::Truncate { table_names, .. } => {
                for t in table_names {
                    self.rel(&t.name, "TruncateTableTarget.name");
                }
            }
            Statement::Copy { source: CopySource::Table { table_name, .. }, to: false, .. } => self.rel(table_name, "CopySource::Table.table_name"),
            Statement::CopyIntoSnowflake { into, .. } => self.rel(into, "Statement::CopyIntoSnowflake.into"),
            Statement::Analyze { table_name, .. } => self.rel(table_name, "Statement::Analyze.table_name"),
            Statement::Msck { table_name, .. } => self.rel(table_name, "Statement::Msck.table_name"),
            Statement::CreateVirtualTable { name, .. } => self.rel(name, "Statement::CreateVirtualTable.name"),
            Statement::CreatePolicy { table_name, .. } => self.rel(table_name, "Statement::CreatePolicy.table_name"),
            Statement::AlterTable { name, .. } => self.rel(name, "Statement::AlterTable.name"),
            Statement::AlterView { name, .. } => self.rel(name, "Statement::AlterView.name"),
            Statement::AlterPolicy { table_name, .. } => self.rel(table_name, "Statement::AlterPolicy.table_name"),
            Statement::ShowColumns { table_name, .. } => self.rel(table_name, "Statement::ShowColumns.table_name"),
            Statement::ExplainTable { table_name, .. } => self.rel(table_name, "Statement::ExplainTable.table_name"),
            Statement::Cache { table_name, .. } => self.rel(table_name, "Statement::Cache.table_name"),
            Statement::UNCache { table_name, .. } => self.rel(table_name, "Statement::UNCache.table_name"),
            Statement::CreateTable(ct) => self.rel(&ct.name, "CreateTable.name"),
            Statement::CreateIndex(ci) => self.rel(&ci.table_name, "CreateIndex.table_name"),
            _ => {}
        }
    }
    fn tf_relations(&mut self, t: &TableFactor) {
        if let TableFactor::Table { name, .. } = t {
            self.rel(name, "TableFactor::Table.name");
        }
    }
}

impl Visitor for Rec {
    type Break = ();
    fn pre_visit_query(&mut self, x: &Query) -> ControlFlow<()> { self.on(0, false, x) }
    fn post_visit_query(&mut self, x: &Query) -> ControlFlow<()> { self.on(0, true, x) }
    fn pre_visit_relation(&mut self, x: &ObjectName) -> ControlFlow<()> { self.on(1, false, x) }
    fn post_visit_relation(&mut self, x: &ObjectName) -> ControlFlow<()> { self.on(1, true, x) }
    fn pre_visit_table_factor(&mut self, x: &TableFactor) -> ControlFlow<()> {
        if self.collect_rel {
            self.tf_relations(x);
        }
        self.on(2, false, x)
    }
    fn post_visit_table_factor(&mut self, x: &TableFactor) -> ControlFlow<()> { self.on(2, true, x) }
    fn pre_visit_expr(&mut self, x: &Expr) -> ControlFlow<()> { self.on(3, false, x) }
    fn post_visit_expr(&mut self, x: &Expr) -> ControlFlow<()> { self.on(3, true, x) }
    fn pre_visit_statement(&mut self, x: &Statement) -> ControlFlow<()> {
        if self.collect_rel {
            self.stmt_relations(x);
        }
        self.on(4, false, x)
    }
    fn post_visit_statement(&mut self, x: &Statement) -> ControlFlow<()> { self.on(4, true, x) }
}

impl VisitorMut for Rec {
    type Break = ();
    fn pre_visit_query(&mut self, x: &mut Query) -> ControlFlow<()> { self.on(0, false, &*x) }
    fn post_visit_query(&mut self, x: &mut Query) -> ControlFlow<()> { self.on(0, true, &*x) }
    fn pre_visit_relation(&mut self, x: &mut ObjectName) -> ControlFlow<()> { self.on(1, false, &*x) }
    fn post_visit_relation(&mut self, x: &mut ObjectName) -> ControlFlow<()> { self.on(1, true, &*x) }
    fn pre_visit_table_factor(&mut self, x: &mut TableFactor) -> ControlFlow<()> { self.on(2, false, &*x) }
    fn post_visit_table_factor(&mut self, x: &mut TableFactor) -> ControlFlow<()> { self.on(2, true, &*x) }
    fn pre_visit_expr(&mut self, x: &mut Expr) -> ControlFlow<()> { self.on(3, false, &*x) }
    fn post_visit_expr(&mut self, x: &mut Expr) -> ControlFlow<()> { self.on(3, true, &*x) }
    fn pre_visit_statement(&mut self, x: &mut Statement) -> ControlFlow<()> { self.on(4, false, &*x) }
    fn post_visit_statement(&mut self, x: &mut Statement) -> ControlFlow<()> { self.on(4, true, &*x) }
}

fn render_events(evs: &[Ev]) -> String {
    let mut s = String::with_capacity(evs.len() * 2);
    for e in evs {
        s.push((b'0' + e.hook) as char);
        s.push(if e.post { '-' } else { '+' });
    }
    s
}
fn render_run(broke: bool, r: &Rec) -> String {
    format!("{}{}:{}", if broke { 'B' } else { 'C' }, r.n, render_events(&r.evs))
}

pub fn walk_ro(st: &Statement, brk: Option<usize>, disp: bool, rel: bool) -> (bool, Rec) {
    let mut r = Rec::new(brk, disp, rel);
    let b = Visit::visit(st, &mut r).is_break();
    (b, r)
}
pub fn walk_mut(st: &mut Statement, brk: Option<usize>, disp: bool) -> (bool, Rec) {
    let mut r = Rec::new(brk, disp, false);
    let b = VisitMut::visit(st, &mut r).is_break();
    (b, r)
}

/// answer of the real code for one break spec, in the format of lean/Driver/Visit.lean
fn real_one(st: &Statement, brk: Option<usize>) -> String {
    let (b, r) = walk_ro(st, brk, false, false);
    let mut copy = st.clone();
    let (bm, rm) = walk_mut(&mut copy, brk, false);
    let run = render_run(b, &r);
    let runm = render_run(bm, &rm);
    let m = if run == runm && copy == *st { "=".to_string() } else { format!("{runm}{}", if copy == *st { "" } else { "/tree-changed" }) };
    format!("{run}/{m}")
}

pub struct Case {
    pub st: Statement,
    pub tree: String,
    pub node: Node,
    pub variant: String,
    pub sql: String,
    pub dialect: &'static str,
}

/// every distinct statement tree the corpus parses to (deduplicated on the reflected encoding)
pub fn distinct_statements(c: &Corpus, sch: &SchemaJ, errs: &mut Vec<(String, String, String)>) -> Vec<Case> {
    let ds = all_dialects();
    let mut seen: HashSet<String> = HashSet::new();
    let mut out = vec![];
    for &(i, k) in &c.accepted {
        let s = &c.literals[i];
        let (dn, d) = (ds[k].0, ds[k].1.as_ref());
        let stmts = match parse(d, Opts::DEFAULT, s) {
            G::Val(Ok(v)) => v,
            _ => continue,
        };
        for st in stmts {
            let node = match reflect::reflect(&st) {
                Ok(n) => n,
                Err(e) => {
                    errs.push((dn.to_string(), s.clone(), format!("reflect: {e}")));
                    continue;
                }
            };
            let mut tree = String::new();
            if let Err(e) = reflect::encode(&node, sch, &mut tree) {
                errs.push((dn.to_string(), s.clone(), e));
                continue;
            }
            if seen.insert(tree.clone()) {
                let variant = variant_of(&st);
                out.push(Case { st, tree, node, variant, sql: s.clone(), dialect: dn });
            }
        }
    }
    out
}

/// AST-first cases: statements built from random documents of the schema through the crate's own
/// Deserialize (every Statement variant in turn); input of such a case = its JSON document
pub fn generated_statements(sch: &SchemaJ, count: usize, seed: u64, seen: &mut HashSet<String>, errs: &mut Vec<(String, String, String)>) -> Vec<Case> {
    let g = crate::astgen::AstGen::load();
    let mut gen_errs = vec![];
    let sts = g.statements(count, seed, &mut gen_errs);
    for e in gen_errs {
        errs.push(("gen".into(), String::new(), format!("generated document rejected by Deserialize: {e}")));
    }
    let mut out = vec![];
    for st in sts {
        let doc = serde_json::to_string(&st).unwrap_or_default();
        let node = match reflect::reflect(&st) {
            Ok(n) => n,
            Err(e) => {
                errs.push(("gen".into(), doc, format!("reflect: {e}")));
                continue;
            }
        };
        let mut tree = String::new();
        if let Err(e) = reflect::encode(&node, sch, &mut tree) {
            errs.push(("gen".into(), doc, e));
            continue;
        }
        if seen.insert(tree.clone()) {
            let variant = variant_of(&st);
            out.push(Case { st, tree, node, variant, sql: doc, dialect: "gen" });
        }
    }
    out
}

pub fn corr(dir: &str, seed: u64, tier: &str) -> Report {
    let mut r = Report::new("C16", "corr.visit", "AST-first: statements deserialised from random documents of the schema (every Statement variant in turn; quick 1500, thorough 8000) and every distinct statement tree of the parsed corpus (13 dialects; quick: a seeded sample of about 4000 covering every Statement variant) is reflected through serde, checked against the schema and sent with a list of break indices (none, 0, 1, middle, last; thorough: every index for walks of at most 48 callbacks); real = callback sequence + Break/Continue of the real Visit walk and whether the real VisitMut walk (identity visitor) gives the same and leaves the tree ==; model = Lean traversal with hooks looked up in Gen/Schema (a field-level hook on a Vec field fires around each element); non-trivial = distinct callback sequences");
    let c = load_corpus();
    let sch = reflect::load_schema();
    let mut errs = vec![];
    let mut all = distinct_statements(&c, &sch, &mut errs);
    r.dist.insert("distinct-trees".into(), all.len() as u64);
    let mut seen_gen: HashSet<String> = all.iter().map(|c| c.tree.clone()).collect();
    let gen = generated_statements(&sch, if tier == "thorough" { 8000 } else { 1500 }, seed, &mut seen_gen, &mut errs);
    r.dist.insert("generated-trees".into(), gen.len() as u64);
    all.extend(gen);
    let mut req = std::io::BufWriter::new(std::fs::File::create(format!("{dir}/visit.req")).unwrap());
    let mut real = std::io::BufWriter::new(std::fs::File::create(format!("{dir}/visit.real")).unwrap());
    // reflection errors are disagreements by construction: the model never answers with this text
    for (dn, s, e) in &errs {
        writeln!(req, "visit\t-\tU").unwrap();
        writeln!(real, "ERR:reflect-vs-schema:{}:{}:{}", dn, hex(e), hex(&trunc(s, 200))).unwrap();
        r.count("reflect-error");
    }
    let mut rng = Rng(seed ^ 0xC16);
    let target = 4000usize;
    let mut per_variant: BTreeMap<String, usize> = BTreeMap::new();
    let mut distinct = BTreeSet::new();
    let n_all = all.len();
    for case in all {
        let cnt = per_variant.entry(case.variant.clone()).or_insert(0);
        *cnt += 1;
        if tier != "thorough" && *cnt > 3 && n_all > target && !rng.chance(target, n_all) {
            continue;
        }
        let (_, full) = walk_ro(&case.st, None, false, false);
        let n = full.n;
        let mut specs: Vec<Option<usize>> = vec![None];
        if tier == "thorough" && n <= 48 {
            specs.extend((0..n).map(Some));
        } else {
            for k in [0, 1, n / 2, n.saturating_sub(1)] {
                if k < n && !specs.contains(&Some(k)) {
                    specs.push(Some(k));
                }
            }
            if tier == "thorough" {
                for _ in 0..6 {
                    let k = rng.below(n.max(1));
                    if k < n && !specs.contains(&Some(k)) {
                        specs.push(Some(k));
                    }
                }
            }
        }
        // one index beyond the walk: never reached, same as no break
        specs.push(Some(n));
        let spec_txt = specs.iter().map(|s| s.map(|k| k.to_string()).unwrap_or("-".into())).collect::<Vec<_>>().join(",");
        writeln!(req, "visit\t{spec_txt}\t{}", case.tree).unwrap();
        let answers: Vec<String> = specs.iter().map(|s| real_one(&case.st, *s)).collect();
        writeln!(real, "{}", answers.join("|")).unwrap();
        r.evaluations += specs.len() as u64;
        distinct.insert(render_events(&full.evs));
        r.count(&format!("stmt/{}", case.variant));
        r.count(match n { 0..=2 => "callbacks/0-2", 3..=10 => "callbacks/3-10", 11..=40 => "callbacks/11-40", 41..=200 => "callbacks/41-200", _ => "callbacks/200+" });
        if r.evaluations % 997 < specs.len() as u64 {
            r.sample(serde_json::json!({"dialect": case.dialect, "sql": trunc(&case.sql, 160), "breaks": spec_txt, "answer": trunc(&answers[0], 160)}));
        }
    }
    r.exhaustive = tier == "thorough";
    r.distinct_nontrivial = distinct.len() as u64;
    r
}

// ------------------------------------------------------------------ oracle
pub fn oracle(c: &Corpus, _seed: u64, tier: &str) -> Vec<Report> {
    let sch = reflect::load_schema();
    let mut r = Report::new("C16", "oracle.visit-laws", "every distinct statement tree of the parsed corpus plus AST-first generated statements (random documents of the schema through Deserialize, every Statement variant), real code only: callbacks well nested; each post gets the node (address and Display) of its pre; pre addresses distinct per kind; number of pre_expr/statement/query/table_factor callbacks = number of nodes of that type in the serde-reflected tree; Visit and VisitMut deliver the same sequence; identity VisitMut leaves the tree ==; a REWRITING VisitMut (pre hook strips Expr::Nested, a variant change) gets balanced pre/post callbacks and leaves no Nested behind (the walk continues inside the replacement); Break at k delivers exactly k+1 callbacks (k = 0, 1, middle, last; thorough: all k up to 64); non-trivial = distinct callback sequences");
    let mut r2 = Report::new("C16", "oracle.relation-coverage", "every ObjectName in a FROM/JOIN (TableFactor::Table), INSERT, DELETE-target (each element of Delete.tables), TRUNCATE, COPY FROM / COPY INTO target position or in one of the statement kinds hooked today, found by pattern matching on the real AST (independent of the visit attributes), must be reported by pre_visit_relation (compared by address), the elements of a Vec position in the order of the Vec; non-trivial = distinct (position, statement variant)");
    r.exhaustive = true;
    r2.exhaustive = true;
    let mut errs = vec![];
    let mut all = distinct_statements(c, &sch, &mut errs);
    let mut seen_gen: HashSet<String> = all.iter().map(|c| c.tree.clone()).collect();
    let gen = generated_statements(&sch, if tier == "thorough" { 8000 } else { 1500 }, _seed, &mut seen_gen, &mut errs);
    r.dist.insert("corpus-trees".into(), all.len() as u64);
    r.dist.insert("generated-trees".into(), gen.len() as u64);
    all.extend(gen);
    for (dn, s, e) in &errs {
        r.fail("reflect-vs-schema".into(), dn, Opts::DEFAULT, s, e.clone());
    }
    let mut distinct = BTreeSet::new();
    let mut d2 = BTreeSet::new();
    for case in &all {
        let (dn, s, st) = (case.dialect, &case.sql, &case.st);
        r.evaluations += 1;
        match guard(|| rewrite_laws(st)) {
            G::Val(None) => {}
            G::Val(Some(e)) => r.fail("rewriting-visitor".into(), dn, Opts::DEFAULT, s, e),
            G::Panic(m) => r.panic(dn, Opts::DEFAULT, s, format!("rewriting visitor: {m}")),
        }
        let res = guard(|| {
            let (b, rec) = walk_ro(st, None, true, true);
            let mut copy = st.clone();
            let (bm, recm) = walk_mut(&mut copy, None, true);
            (b, rec, bm, recm, copy)
        });
        let (b, rec, bm, recm, copy) = match res {
            G::Val(x) => x,
            G::Panic(m) => {
                r.panic(dn, Opts::DEFAULT, s, m);
                continue;
            }
        };
        let var = &case.variant;
        distinct.insert(render_events(&rec.evs));
        if b || bm {
            r.fail(format!("{var}/break-without-request"), dn, Opts::DEFAULT, s, String::new());
        }
        // balanced, post node == pre node
        let mut stack: Vec<&Ev> = vec![];
        let mut ok = true;
        for e in &rec.evs {
            if !e.post {
                stack.push(e);
            } else {
                match stack.pop() {
                    Some(p) if p.hook == e.hook => {
                        if p.addr != e.addr || p.disp != e.disp {
                            r.fail(format!("{}/post-node-differs", HOOK_NAMES[e.hook as usize]), dn, Opts::DEFAULT, s, format!("pre={} post={}", p.disp, e.disp));
                        }
                    }
                    _ => ok = false,
                }
            }
        }
        if !ok || !stack.is_empty() {
            r.fail(format!("{var}/unbalanced"), dn, Opts::DEFAULT, s, render_events(&rec.evs));
        }
        // every node once
        for h in 0..5u8 {
            let mut addrs = HashSet::new();
            for e in rec.evs.iter().filter(|e| !e.post && e.hook == h) {
                if !addrs.insert(e.addr) {
                    r.fail(format!("{}/pre-address-repeated", HOOK_NAMES[h as usize]), dn, Opts::DEFAULT, s, e.disp.clone());
                }
            }
        }
        for (h, ty) in [(0u8, "Query"), (2, "TableFactor"), (3, "Expr"), (4, "Statement")] {
            let got = rec.evs.iter().filter(|e| !e.post && e.hook == h).count();
            let want = reflect::count_type(&case.node, ty);
            if got != want {
                r.fail(format!("{ty}/count-mismatch"), dn, Opts::DEFAULT, s, format!("pre callbacks={got} nodes in the reflected tree={want}"));
            }
        }
        // Visit == VisitMut, identity
        let same = rec.evs.len() == recm.evs.len() && rec.evs.iter().zip(&recm.evs).all(|(a, b)| a.hook == b.hook && a.post == b.post && a.disp == b.disp);
        if !same {
            r.fail(format!("{var}/visit-vs-visitmut"), dn, Opts::DEFAULT, s, format!("{} vs {}", render_events(&rec.evs), render_events(&recm.evs)));
        }
        if copy != *st {
            r.fail(format!("{var}/identity-mut-changed"), dn, Opts::DEFAULT, s, String::new());
        }
        // Break at k
        let n = rec.n;
        let ks: Vec<usize> = if tier == "thorough" && n <= 64 { (0..n).collect() } else { let mut v = vec![0, 1, n / 2, n.saturating_sub(1)]; v.retain(|k| *k < n); v.dedup(); v };
        for k in ks {
            let (bk, rk) = walk_ro(st, Some(k), false, false);
            let mut c2 = st.clone();
            let (bmk, rmk) = walk_mut(&mut c2, Some(k), false);
            r.evaluations += 1;
            if !bk || rk.n != k + 1 || render_events(&rk.evs) != render_events(&rec.evs[..k + 1]) {
                r.fail(format!("{var}/break-not-stopping"), dn, Opts::DEFAULT, s, format!("k={k} delivered={} break={bk}", rk.n));
            }
            if !bmk || rmk.n != k + 1 || render_events(&rmk.evs) != render_events(&rec.evs[..k + 1]) {
                r.fail(format!("{var}/break-not-stopping-mut"), dn, Opts::DEFAULT, s, format!("k={k} delivered={} break={bmk}", rmk.n));
            }
        }
        let (bn, rn) = walk_ro(st, Some(n), false, false);
        if bn || rn.n != n {
            r.fail(format!("{var}/break-beyond-end"), dn, Opts::DEFAULT, s, String::new());
        }
        // relation coverage
        let visited: HashSet<usize> = rec.evs.iter().filter(|e| !e.post && e.hook == 1).map(|e| e.addr).collect();
        for (addr, label, dbg) in &rec.expected_rel {
            r2.evaluations += 1;
            d2.insert((label.to_string(), var.clone()));
            if !visited.contains(addr) {
                r2.fail(format!("relation-not-hooked/{label}"), dn, Opts::DEFAULT, s, format!("{dbg} is never passed to pre_visit_relation"));
            } else {
                r2.count(&format!("hooked/{label}"));
            }
        }
        // positions inside a Vec (DELETE targets: hook per element; TRUNCATE targets: hooked field of each
        // element): the callbacks come in the order of the Vec
        for label in ["Delete.tables", "TruncateTableTarget.name"] {
            let want: Vec<usize> = rec.expected_rel.iter().filter(|x| x.1 == label).map(|x| x.0).collect();
            if want.len() < 2 {
                continue;
            }
            let set: HashSet<usize> = want.iter().cloned().collect();
            let got: Vec<usize> = rec.evs.iter().filter(|e| !e.post && e.hook == 1 && set.contains(&e.addr)).map(|e| e.addr).collect();
            r2.evaluations += 1;
            if got.len() == want.len() && got != want {
                r2.fail(format!("relation-order/{label}"), dn, Opts::DEFAULT, s, "relation callbacks of the elements are not in the order of the Vec".to_string());
            } else {
                r2.count(&format!("in-order/{label}"));
            }
        }
        // and nothing else is reported as a relation
        let expected: HashSet<usize> = rec.expected_rel.iter().map(|x| x.0).collect();
        for e in rec.evs.iter().filter(|e| !e.post && e.hook == 1) {
            if !expected.contains(&e.addr) {
                r2.count("relation-callback-outside-spec");
                r2.sample(serde_json::json!({"note": "relation callback on a position outside the spec table", "sql": trunc(s, 120), "relation": e.disp}));
            }
        }
        if r.evaluations % 1499 < 3 {
            r.sample(serde_json::json!({"dialect": dn, "sql": trunc(s, 160), "callbacks": n, "events": trunc(&render_events(&rec.evs), 120)}));
        }
    }
    r.distinct_nontrivial = distinct.len() as u64;
    r2.distinct_nontrivial = d2.len() as u64;
    vec![r, r2]
}

// ---------------------------------------------------------------- rewriting visitors
/// A `VisitorMut` that REPLACES nodes from its pre hooks (variant changes): `(e)` by `e`
/// (`Expr::Nested` stripped, repeatedly), and counts its callbacks.  The walk must continue inside the
/// replacement: afterwards no `Expr::Nested` may be left anywhere the expression hooks reach, and pre
/// and post callbacks must be balanced per family.
#[derive(Default)]
struct StripNested { pre_e: usize, post_e: usize, pre_q: usize, post_q: usize, pre_s: usize, post_s: usize, pre_t: usize, post_t: usize }
impl VisitorMut for StripNested {
    type Break = ();
    fn pre_visit_expr(&mut self, e: &mut sqlparser::ast::Expr) -> ControlFlow<()> {
        self.pre_e += 1;
        while let sqlparser::ast::Expr::Nested(inner) = e {
            let taken = std::mem::replace(inner.as_mut(), sqlparser::ast::Expr::Wildcard);
            *e = taken;
        }
        ControlFlow::Continue(())
    }
    fn post_visit_expr(&mut self, _e: &mut sqlparser::ast::Expr) -> ControlFlow<()> { self.post_e += 1; ControlFlow::Continue(()) }
    fn pre_visit_query(&mut self, _q: &mut sqlparser::ast::Query) -> ControlFlow<()> { self.pre_q += 1; ControlFlow::Continue(()) }
    fn post_visit_query(&mut self, _q: &mut sqlparser::ast::Query) -> ControlFlow<()> { self.post_q += 1; ControlFlow::Continue(()) }
    fn pre_visit_statement(&mut self, _s: &mut Statement) -> ControlFlow<()> { self.pre_s += 1; ControlFlow::Continue(()) }
    fn post_visit_statement(&mut self, _s: &mut Statement) -> ControlFlow<()> { self.post_s += 1; ControlFlow::Continue(()) }
    fn pre_visit_table_factor(&mut self, _t: &mut sqlparser::ast::TableFactor) -> ControlFlow<()> { self.pre_t += 1; ControlFlow::Continue(()) }
    fn post_visit_table_factor(&mut self, _t: &mut sqlparser::ast::TableFactor) -> ControlFlow<()> { self.post_t += 1; ControlFlow::Continue(()) }
}
#[derive(Default)]
struct CountNested(usize);
impl Visitor for CountNested {
    type Break = ();
    fn pre_visit_expr(&mut self, e: &sqlparser::ast::Expr) -> ControlFlow<()> {
        if matches!(e, sqlparser::ast::Expr::Nested(_)) { self.0 += 1; }
        ControlFlow::Continue(())
    }
}
/// `None` = all laws hold
fn rewrite_laws(st: &Statement) -> Option<String> {
    let mut before = CountNested::default();
    let _ = st.visit(&mut before);
    let mut copy = st.clone();
    let mut v = StripNested::default();
    let _ = VisitMut::visit(&mut copy, &mut v);
    if v.pre_e != v.post_e || v.pre_q != v.post_q || v.pre_s != v.post_s || v.pre_t != v.post_t {
        return Some(format!("unbalanced callbacks of a rewriting visitor: expr {}/{} query {}/{} statement {}/{} table_factor {}/{}", v.pre_e, v.post_e, v.pre_q, v.post_q, v.pre_s, v.post_s, v.pre_t, v.post_t));
    }
    let mut after = CountNested::default();
    let _ = copy.visit(&mut after);
    if after.0 != 0 {
        return Some(format!("{} of {} Expr::Nested nodes survive a pre-hook that strips them: the walk did not continue inside the replacement", after.0, before.0));
    }
    None
}

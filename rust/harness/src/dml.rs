//! Stream `dml` (properties C01 / C05 / C11 / C13 on the modelled DML / DDL fragment):
//! token list -> `parse_statements()` under (dialect, trailing_commas, recursion limit) -> canonical
//! S-expression of every statement (INSERT / UPDATE / DELETE / CREATE TABLE / DROP TABLE / VALUES /
//! query; UNSUPPORTED when a tree leaves the fragment of `lean/SqlVerif/Model/Dml.lean`) and the
//! `to_string()` text; errors as classes.
use crate::c04::{expr_sexp, hx, lex_nows};
use crate::c18::dt_sexp;
use crate::canon::toks_canon_noloc;
use crate::common::*;
use crate::query::query_sexp;
use sqlparser::ast::*;
use sqlparser::dialect::Dialect;
use sqlparser::keywords::Keyword;
use sqlparser::parser::{Parser, ParserError, ParserOptions};
use sqlparser::tokenizer::Token;
use std::collections::BTreeSet;
use std::io::Write;

// ---------------------------------------------------------------- S-expressions (helpers copied from query.rs)
fn b(x: bool) -> u8 {
    x as u8
}

fn id_sexp(i: &Ident) -> String {
    format!("(id {} {})", hx(&i.value), i.quote_style.map(|c| format!("{:x}", c as u32)).unwrap_or("-".into()))
}

fn ids_sexp(v: &[Ident]) -> String {
    v.iter().map(|i| format!(" {}", id_sexp(i))).collect()
}

fn name_sexp(n: &ObjectName) -> String {
    format!("(name{})", ids_sexp(&n.0))
}

fn alias_sexp(a: &Option<TableAlias>) -> Option<String> {
    match a {
        None => Some("none".into()),
        Some(TableAlias { name, columns, .. }) if columns.is_empty() => Some(id_sexp(name)),
        _ => None,
    }
}

fn item_sexp(i: &SelectItem) -> Option<String> {
    let plain = WildcardAdditionalOptions::default();
    Some(match i {
        SelectItem::UnnamedExpr(e) => format!("(item {})", expr_sexp(e)?),
        SelectItem::ExprWithAlias { expr, alias, .. } => format!("(as {} {})", expr_sexp(expr)?, id_sexp(alias)),
        SelectItem::Wildcard(o) if *o == plain => "(star)".into(),
        SelectItem::QualifiedWildcard(n, o) if *o == plain => format!("(qstar{})", ids_sexp(&n.0)),
        _ => return None,
    })
}

fn items(v: &[SelectItem]) -> Option<String> {
    let mut out = String::new();
    for i in v {
        out.push(' ');
        out.push_str(&item_sexp(i)?);
    }
    Some(out)
}

fn ret_sexp(r: &Option<Vec<SelectItem>>) -> Option<String> {
    match r {
        None => Some(String::new()),
        Some(v) => items(v),
    }
}

fn factor_sexp(f: &TableFactor) -> Option<String> {
    Some(match f {
        TableFactor::Table { name, alias, args: None, with_hints, version: None, partitions, with_ordinality: false, .. }
            if with_hints.is_empty() && partitions.is_empty() =>
        {
            format!("(table (name{}) {})", ids_sexp(&name.0), alias_sexp(alias)?)
        }
        TableFactor::Derived { lateral: false, subquery, alias, .. } => format!("(derived {} {})", query_sexp(subquery)?, alias_sexp(alias)?),
        _ => return None,
    })
}

fn cstr_sexp(c: &JoinConstraint) -> Option<String> {
    Some(match c {
        JoinConstraint::On(e) => format!("(on {})", expr_sexp(e)?),
        JoinConstraint::Using(v) => format!("(using{})", ids_sexp(v)),
        JoinConstraint::None => "(none)".into(),
        JoinConstraint::Natural => return None,
    })
}

fn join_sexp(j: &Join) -> Option<String> {
    if j.global {
        return None;
    }
    let (k, c) = match &j.join_operator {
        JoinOperator::Inner(c) => ("Inner", cstr_sexp(c)?),
        JoinOperator::LeftOuter(c) => ("LeftOuter", cstr_sexp(c)?),
        JoinOperator::RightOuter(c) => ("RightOuter", cstr_sexp(c)?),
        JoinOperator::FullOuter(c) => ("FullOuter", cstr_sexp(c)?),
        JoinOperator::CrossJoin => ("CrossJoin", "(none)".to_string()),
        _ => return None,
    };
    Some(format!("(join {k} {} {c})", factor_sexp(&j.relation)?))
}

fn opt_expr(e: &Option<Expr>) -> Option<String> {
    match e {
        Some(e) => expr_sexp(e),
        None => Some("none".into()),
    }
}

fn twj(t: &TableWithJoins) -> Option<String> {
    let mut out = String::from(" (twj ");
    out.push_str(&factor_sexp(&t.relation)?);
    for j in &t.joins {
        out.push(' ');
        out.push_str(&join_sexp(j)?);
    }
    out.push(')');
    Some(out)
}

fn twjs(v: &[TableWithJoins]) -> Option<String> {
    let mut out = String::new();
    for t in v {
        out.push_str(&twj(t)?);
    }
    Some(out)
}

fn ob_sexp(e: &OrderByExpr) -> Option<String> {
    if e.with_fill.is_some() {
        return None;
    }
    Some(format!(
        " (ob {} {} {})",
        expr_sexp(&e.expr)?,
        match e.asc { Some(true) => "asc", Some(false) => "desc", None => "none" },
        match e.nulls_first { Some(true) => "first", Some(false) => "last", None => "none" }
    ))
}

/// a query in statement / INSERT-source position: a top-level VALUES body is inside the fragment
fn source_sexp(q: &Query) -> Option<String> {
    let v = match q.body.as_ref() {
        SetExpr::Values(v) => v,
        _ => return query_sexp(q),
    };
    if q.with.is_some()
        || !q.limit_by.is_empty()
        || q.fetch.is_some()
        || !q.locks.is_empty()
        || q.for_clause.is_some()
        || q.settings.is_some()
        || q.format_clause.is_some()
    {
        return None;
    }
    let mut out = format!("(query (values {}", b(v.explicit_row));
    for row in &v.rows {
        out.push_str(" (row");
        for e in row {
            out.push(' ');
            out.push_str(&expr_sexp(e)?);
        }
        out.push(')');
    }
    out.push_str(") (order");
    if let Some(ob) = &q.order_by {
        if ob.interpolate.is_some() {
            return None;
        }
        for e in &ob.exprs {
            out.push_str(&ob_sexp(e)?);
        }
    }
    out.push_str(&format!(") (limit {}) (offset ", opt_expr(&q.limit)?));
    match &q.offset {
        None => out.push_str("none"),
        Some(o) => out.push_str(&format!("({} {:?})", expr_sexp(&o.value)?, o.rows)),
    }
    out.push_str("))");
    Some(out)
}

fn colopt_sexp(o: &ColumnOptionDef) -> Option<String> {
    if o.name.is_some() {
        return None;
    }
    Some(match &o.option {
        ColumnOption::Null => "null".into(),
        ColumnOption::NotNull => "notnull".into(),
        ColumnOption::Default(e) => format!("(default {})", expr_sexp(e)?),
        ColumnOption::Unique { is_primary: true, characteristics: None, .. } => "primary".into(),
        ColumnOption::Unique { is_primary: false, characteristics: None, .. } => "unique".into(),
        ColumnOption::Check(e) => format!("(check {})", expr_sexp(e)?),
        ColumnOption::Comment(s) => format!("(comment {})", hx(s)),
        ColumnOption::DialectSpecific(v) => match v.as_slice() {
            [Token::Word(w)] => format!("(dialect {})", w.value),
            _ => return None,
        },
        ColumnOption::ForeignKey { foreign_table, referred_columns, on_delete: None, on_update: None, characteristics: None, .. } => {
            format!("(references {} (cols{}))", name_sexp(foreign_table), ids_sexp(referred_columns))
        }
        _ => return None,
    })
}

fn create_sexp(ct: &CreateTable) -> Option<String> {
    // every field except name / columns / temporary / if_not_exists must be at its "absent" value
    let CreateTable {
        or_replace,
        temporary,
        external,
        global,
        if_not_exists,
        transient,
        volatile,
        name,
        columns,
        constraints,
        hive_distribution,
        hive_formats,
        table_properties,
        with_options,
        file_format,
        location,
        query,
        without_rowid,
        like,
        clone,
        engine,
        comment,
        auto_increment_offset,
        default_charset,
        collation,
        on_commit,
        on_cluster,
        primary_key,
        order_by,
        partition_by,
        cluster_by,
        clustered_by,
        options,
        strict,
        copy_grants,
        enable_schema_evolution,
        change_tracking,
        data_retention_time_in_days,
        max_data_extension_time_in_days,
        default_ddl_collation,
        with_aggregation_policy,
        with_row_access_policy,
        with_tags,
    } = ct;
    let hive_ok = match hive_formats {
        None => true,
        Some(h) => *h == HiveFormat::default(),
    };
    if *or_replace
        || *external
        || global.is_some()
        || *transient
        || *volatile
        || !constraints.is_empty()
        || *hive_distribution != HiveDistributionStyle::NONE
        || !hive_ok
        || !table_properties.is_empty()
        || !with_options.is_empty()
        || file_format.is_some()
        || location.is_some()
        || query.is_some()
        || *without_rowid
        || like.is_some()
        || clone.is_some()
        || engine.is_some()
        || comment.is_some()
        || auto_increment_offset.is_some()
        || default_charset.is_some()
        || collation.is_some()
        || on_commit.is_some()
        || on_cluster.is_some()
        || primary_key.is_some()
        || order_by.is_some()
        || partition_by.is_some()
        || cluster_by.is_some()
        || clustered_by.is_some()
        || options.is_some()
        || *strict
        || *copy_grants
        || enable_schema_evolution.is_some()
        || change_tracking.is_some()
        || data_retention_time_in_days.is_some()
        || max_data_extension_time_in_days.is_some()
        || default_ddl_collation.is_some()
        || with_aggregation_policy.is_some()
        || with_row_access_policy.is_some()
        || with_tags.is_some()
    {
        return None;
    }
    let mut cols = String::new();
    for c in columns {
        if c.collation.is_some() {
            return None;
        }
        let mut opts = String::new();
        for o in &c.options {
            opts.push(' ');
            opts.push_str(&colopt_sexp(o)?);
        }
        cols.push_str(&format!(" (col {} {} (opts{opts}))", id_sexp(&c.name), dt_sexp(&c.data_type)));
    }
    Some(format!("(create {} {} {} (cols{cols}))", b(*temporary), b(*if_not_exists), name_sexp(name)))
}

/// None = outside the modelled fragment
pub fn stmt_sexp(s: &Statement) -> Option<String> {
    match s {
        Statement::Query(q) => source_sexp(q),
        Statement::Insert(Insert {
            or,
            ignore,
            into,
            table_name,
            table_alias,
            columns,
            overwrite,
            source,
            partitioned,
            after_columns,
            table,
            on,
            returning,
            replace_into,
            priority,
            insert_alias, .. }) => {
            if or.is_some()
                || *ignore
                || *overwrite
                || partitioned.is_some()
                || !after_columns.is_empty()
                || table_alias.is_some()
                || on.is_some()
                || *replace_into
                || priority.is_some()
                || insert_alias.is_some()
            {
                return None;
            }
            let src = match source {
                None => "default".to_string(),
                Some(q) => source_sexp(q)?,
            };
            Some(format!(
                "(insert {} {} {} (cols{}) {src} (returning{}))",
                b(*into),
                b(*table),
                name_sexp(table_name),
                ids_sexp(columns),
                ret_sexp(returning)?
            ))
        }
        Statement::Update { table, assignments, from, selection, returning, .. } => {
            let mut assigns = String::new();
            for a in assignments {
                let t = match &a.target {
                    AssignmentTarget::ColumnName(n) => format!("(col {})", name_sexp(n)),
                    AssignmentTarget::Tuple(v) => format!("(tuple{})", v.iter().map(|n| format!(" {}", name_sexp(n))).collect::<String>()),
                };
                assigns.push_str(&format!(" (assign {t} {})", expr_sexp(&a.value)?));
            }
            let fr = match from {
                None => String::new(),
                Some(t) => twj(t)?,
            };
            Some(format!(
                "(update (target{}) (set{assigns}) (from{fr}) (where {}) (returning{}))",
                twj(table)?,
                opt_expr(selection)?,
                ret_sexp(returning)?
            ))
        }
        Statement::Delete(Delete { tables, from, using, selection, returning, order_by, limit, .. }) => {
            let fr = match from {
                FromTable::WithFromKeyword(v) => twjs(v)?,
                FromTable::WithoutKeyword(_) => return None,
            };
            let us = match using {
                None => String::new(),
                Some(v) => twjs(v)?,
            };
            let mut obs = String::new();
            for e in order_by {
                obs.push_str(&ob_sexp(e)?);
            }
            Some(format!(
                "(delete (tables{}) (from{fr}) (using{us}) (where {}) (returning{}) (order{obs}) (limit {}))",
                tables.iter().map(|n| format!(" {}", name_sexp(n))).collect::<String>(),
                opt_expr(selection)?,
                ret_sexp(returning)?,
                opt_expr(limit)?
            ))
        }
        Statement::CreateTable(ct) => create_sexp(ct),
        Statement::Drop { object_type: ObjectType::Table, if_exists, names, cascade, restrict, purge, temporary: false, .. } => Some(format!(
            "(drop {} (names{}) {} {} {})",
            b(*if_exists),
            names.iter().map(|n| format!(" {}", name_sexp(n))).collect::<String>(),
            b(*cascade),
            b(*restrict),
            b(*purge)
        )),
        _ => None,
    }
}

// ---------------------------------------------------------------- the real side
pub fn real_dml(d: &dyn Dialect, tc: bool, limit: usize, toks: &[Token]) -> String {
    match guard(|| {
        Parser::new(d)
            .with_options(ParserOptions::new().with_trailing_commas(tc))
            .with_recursion_limit(limit)
            .with_tokens(toks.to_vec())
            .parse_statements()
    }) {
        G::Val(Ok(stmts)) => {
            let mut sexps = vec![];
            for s in &stmts {
                match stmt_sexp(s) {
                    Some(x) => sexps.push(x),
                    None => return "UNSUPPORTED".into(),
                }
            }
            match guard(|| stmts.iter().map(|s| s.to_string()).collect::<Vec<_>>().join("; ")) {
                G::Val(t) => format!("OK {} TEXT {}", sexps.join(";"), hex(&t)),
                G::Panic(m) => format!("PANIC display {m}"),
            }
        }
        G::Val(Err(ParserError::RecursionLimitExceeded)) => "ERR:rle".into(),
        G::Val(Err(_)) => "ERR:syntax".into(),
        G::Panic(m) => format!("PANIC {m}"),
    }
}

struct St<'a> {
    req: std::io::BufWriter<std::fs::File>,
    real: std::io::BufWriter<std::fs::File>,
    /// developer aid: `VERIF_DML_TXT=<path>` writes one line `dialect \t tc \t limit \t token texts \t answer` per request
    txt: Option<std::io::BufWriter<std::fs::File>>,
    r: &'a mut Report,
    distinct: BTreeSet<u64>,
    seen: BTreeSet<u64>,
}

fn fnv(s: &str) -> u64 {
    let mut h = 0xcbf29ce484222325u64;
    for b in s.bytes() {
        h ^= b as u64;
        h = h.wrapping_mul(0x100000001b3);
    }
    h
}

const HEADS: &[&str] = &[
    "(insert ", "(update ", "(delete ", "(create ", "(drop ", "(values ", "(select ", "(row", "(assign ", "(tuple", "(col (id", "(references ", "(default ", "(check ", "(comment ", "(dialect ",
    "(twj ", "(join ", "(derived ", "(ob ", "(returning (", "(returning (star)",
];

impl<'a> St<'a> {
    fn emit(&mut self, dn: &str, d: &dyn Dialect, tc: bool, limit: usize, toks: &[Token], class: &str) -> String {
        let line = format!("dml\t{dn}\t{}\t{limit}\t{}", tc as u8, toks_canon_noloc(toks));
        if !self.seen.insert(fnv(&line)) {
            return String::new();
        }
        let ans = real_dml(d, tc, limit, toks);
        writeln!(self.req, "{line}").unwrap();
        writeln!(self.real, "{ans}").unwrap();
        if let Some(t) = &mut self.txt {
            writeln!(t, "{dn}\t{}\t{limit}\t{}\t{ans}", tc as u8, toks.iter().map(|t| t.to_string()).collect::<Vec<_>>().join(" ")).unwrap();
        }
        self.r.evaluations += 1;
        self.r.count(&format!("class/{class}"));
        let k = if ans.starts_with("OK") {
            "ok"
        } else if ans.starts_with("ERR:rle") {
            "err.rle"
        } else if ans.starts_with("ERR") {
            "err.syntax"
        } else if ans.starts_with("UNSUPPORTED") {
            "unsupported"
        } else {
            "panic"
        };
        self.r.count(&format!("answer/{k}"));
        self.r.count(&format!("answer.{class}/{k}"));
        if k == "panic" {
            self.r.panic(dn, Opts::DEFAULT, &line, ans.clone());
        }
        if k == "ok" {
            let tree = ans.split(" TEXT ").next().unwrap_or("");
            for h in HEADS {
                let c = tree.matches(h).count() as u64;
                if c > 0 {
                    *self.r.dist.entry(format!("node/{}", h.trim_start_matches('(').trim_end())).or_insert(0) += c;
                }
            }
        }
        self.distinct.insert(fnv(&format!("{dn}{}", ans.split(" TEXT ").next().unwrap_or(""))));
        if self.r.evaluations % 30011 == 17 {
            self.r.sample(serde_json::json!({"dialect": dn, "tc": tc, "limit": limit, "tokens": toks.iter().map(|t| t.to_string()).collect::<Vec<_>>().join(" "), "answer": trunc(&ans, 300)}));
        }
        ans
    }
    fn sql(&mut self, dn: &str, d: &dyn Dialect, tc: bool, limit: usize, sql: &str, class: &str) -> Option<Vec<Token>> {
        let t = lex_nows(d, sql)?;
        self.emit(dn, d, tc, limit, &t, class);
        Some(t)
    }
    /// both option values
    fn sql2(&mut self, dn: &str, d: &dyn Dialect, limit: usize, sql: &str, class: &str) -> Option<Vec<Token>> {
        let t = lex_nows(d, sql)?;
        self.emit(dn, d, false, limit, &t, class);
        self.emit(dn, d, true, limit, &t, class);
        Some(t)
    }
}

/// all sequences without repetition of at most `k` of `n` indices
fn arrangements(n: usize, k: usize) -> Vec<Vec<usize>> {
    let mut out = vec![vec![]];
    let mut frontier = vec![vec![]];
    for _ in 0..k {
        let mut next = vec![];
        for p in &frontier {
            for i in 0..n {
                if !p.contains(&i) {
                    let mut q: Vec<usize> = p.clone();
                    q.push(i);
                    next.push(q);
                }
            }
        }
        out.extend(next.iter().cloned());
        frontier = next;
    }
    out
}

// ---------------------------------------------------------------- generator vocabulary
// query part (copied from query.rs)
const ITEMS: &[&str] = &[
    "a", "a AS x", "a x", "a AS select", "a AS from", "a 'lit'", "a \"dq\"", "*", "t.*", "s.t.*", "t.a", "a + 1", "a = b AND c", "NOT a", "(a)", "a IS NULL", "1", "'s'", "a IN (1, 2) y",
    "a BETWEEN 1 AND 2", "x.y.z AS w", "a::INT i",
];
const FROMS: &[&str] = &[
    "", "FROM t", "FROM t AS u", "FROM t u", "FROM s.t", "FROM s.t AS u", "FROM t, u", "FROM t v, u AS w", "FROM \"T\" \"U\"", "FROM (SELECT 1) AS d", "FROM (SELECT a FROM t) d",
    "FROM (SELECT 1 UNION SELECT 2) x", "FROM t, (SELECT 2) AS e",
];
const JOINS: &[&str] = &["JOIN", "INNER JOIN", "LEFT JOIN", "LEFT OUTER JOIN", "RIGHT JOIN", "RIGHT OUTER JOIN", "FULL JOIN", "FULL OUTER JOIN", "CROSS JOIN"];
const CSTRS: &[&str] = &["", "ON t.a = u.a", "USING (a)", "USING (a, b)", "AS x ON t.a = x.a", "y USING (\"C\")", "ON a AND b"];
const CLAUSES: &[&str] = &["WHERE a > 1", "GROUP BY a, b", "HAVING c"];
const TAILS: &[&str] = &[
    "ORDER BY a", "ORDER BY a ASC", "ORDER BY a DESC NULLS LAST", "ORDER BY a NULLS FIRST, b DESC", "ORDER BY a + 1, b", "LIMIT 1", "LIMIT ALL", "LIMIT 1, 2", "LIMIT 1 OFFSET 2", "OFFSET 2",
    "OFFSET 2 ROW", "OFFSET 2 ROWS LIMIT 1", "ORDER BY a LIMIT 2 OFFSET 1",
];

/// expressions inside the fragment of `expr_sexp`
const EXPRS: &[&str] = &[
    "a", "t.a", "1", "'s'", "a + 1", "a = b AND c", "NOT a", "(a)", "a IS NULL", "a IN (1, 2)", "a BETWEEN 1 AND 2", "a::INT", "- 1", "a LIKE 'x'", "NULL", "TRUE", "2.5", "a > 0", "b",
];
/// expressions outside it (probes)
const EXPR_PROBES: &[&str] = &["f(1)", "(SELECT 1)", "CASE WHEN a THEN 1 END", "DEFAULT", "now()", "EXISTS (SELECT 1)", "a IN (SELECT 1)", "CAST(a AS INT)"];

const NAMES: &[&str] = &["t", "s.t", "\"T\"", "a.b.c"];

const TYPES: &[&str] = &[
    "INT", "INTEGER", "BIGINT", "SMALLINT(5)", "INT UNSIGNED", "INT(11) UNSIGNED", "TEXT", "VARCHAR(10)", "VARCHAR", "CHARACTER VARYING(20)", "CHAR(3)", "NVARCHAR(MAX)", "BOOLEAN", "BOOL", "DATE",
    "TIME", "TIMESTAMP", "TIMESTAMP(3) WITH TIME ZONE", "TIMESTAMPTZ", "TIME WITHOUT TIME ZONE", "NUMERIC", "NUMERIC(10)", "DECIMAL(10,2)", "DOUBLE", "DOUBLE PRECISION", "FLOAT", "FLOAT(8)", "REAL",
    "UUID", "JSON", "JSONB", "BYTEA", "BLOB", "STRING", "geometry", "my.type", "foo(1, 'a')", "INT[]", "TEXT[3]", "ENUM('a','b')", "VARCHAR(010)",
];
const TYPE_PROBES: &[&str] = &[
    "ARRAY<INT>", "STRUCT<a INT>", "Nullable(String)", "Map(String, Int)", "DATETIME64(3)", "ARRAY(INT)", "LowCardinality(String)", "Tuple(a INT, b TEXT)", "Nested(a INT)", "SET('a')", "INT[][]",
    "FixedString(3)", "VARCHAR(10 CHARACTERS)", "DATETIME(3)", "BLOB(10)", "TINYINT(1) UNSIGNED", "UNSIGNED", "INT4", "INTERVAL", "CLOB(3)", "DEC(3,1)", "NUMERIC(3,)", "VARCHAR()", "VARCHAR(a)",
];

const OPTS_OK: &[&str] = &[
    "NULL", "NOT NULL", "DEFAULT 1", "DEFAULT 'x'", "DEFAULT a + 1", "PRIMARY KEY", "UNIQUE", "CHECK (a > 0)", "COMMENT 'c'", "COMMENT 'it''s'", "REFERENCES u", "REFERENCES u (id)",
    "REFERENCES s.u (a, b)", "AUTO_INCREMENT", "AUTOINCREMENT", "ASC", "DESC",
];
const OPT_PROBES: &[&str] = &[
    "CONSTRAINT n NOT NULL", "CONSTRAINT n", "CONSTRAINT", "COLLATE x", "COLLATE x NOT NULL", "NOT NULL COLLATE x", "GENERATED ALWAYS AS IDENTITY", "GENERATED BY DEFAULT AS IDENTITY", "GENERATED ALWAYS AS (a + 1) STORED",
    "GENERATED", "ON UPDATE x", "ON UPDATE", "CHARACTER SET utf8", "CHARACTER", "PRIMARY KEY DEFERRABLE", "UNIQUE NOT DEFERRABLE INITIALLY DEFERRED", "PRIMARY KEY ENFORCED", "UNIQUE KEY", "REFERENCES u ON DELETE CASCADE",
    "REFERENCES u (a) ON UPDATE SET NULL ON DELETE NO ACTION", "REFERENCES u ON DELETE", "REFERENCES", "REFERENCES u ()", "REFERENCES u (a", "REFERENCES u (a) DEFERRABLE", "REFERENCES u (a) (b)", "DEFAULT f(1)", "DEFAULT (SELECT 1)",
    "DEFAULT NULL", "DEFAULT NOT NULL", "DEFAULT 1 NOT NULL", "DEFAULT - 1", "DEFAULT (1)", "DEFAULT TRUE", "DEFAULT a IS NULL", "DEFAULT a NOT NULL", "DEFAULT 1 COMMENT 'c'", "CHECK (f(a))", "CHECK ()", "CHECK (a", "CHECK (a, b)",
    "COMMENT \"c\"", "COMMENT", "MATERIALIZED a", "ALIAS a", "EPHEMERAL", "AS (a + 1)", "IDENTITY", "IDENTITY(1, 1)", "ON CONFLICT IGNORE", "OPTIONS (x = 1)", "NOT", "PRIMARY", "NULL NULL", "NOT NULL NOT NULL", "KEY", "AUTO_INCREMENT = 3",
];
const TABLE_PROBES: &[&str] = &[
    "CREATE TABLE t (a INT, PRIMARY KEY (a))", "CREATE TABLE t (a INT, UNIQUE (a))", "CREATE TABLE t (a INT, FOREIGN KEY (a) REFERENCES u (b))", "CREATE TABLE t (a INT, CHECK (a > 0))",
    "CREATE TABLE t (a INT, CONSTRAINT c CHECK (a > 0))", "CREATE TABLE t (a INT, CONSTRAINT c PRIMARY KEY (a))", "CREATE TABLE t (PRIMARY KEY (a))", "CREATE TABLE t (a INT, INDEX i (a))", "CREATE TABLE t (a INT, KEY (a))",
    "CREATE TABLE t (a INT, CONSTRAINT c)", "CREATE TABLE t (primary INT)", "CREATE TABLE t (unique INT)", "CREATE TABLE t (check INT)", "CREATE TABLE t (constraint INT)", "CREATE TABLE t (index INT)", "CREATE TABLE t (key INT)",
    "CREATE TABLE t (a INT) ENGINE=InnoDB", "CREATE TABLE t (a INT) ENGINE = MergeTree ORDER BY a", "CREATE TABLE t (a INT) WITH (x = 1)", "CREATE TABLE t (a INT) AS SELECT 1", "CREATE TABLE t AS SELECT 1", "CREATE TABLE t (a INT) COMMENT 'x'",
    "CREATE TABLE t (a INT) COMMENT = 'x'", "CREATE TABLE t (a INT) WITHOUT ROWID", "CREATE TABLE t (a INT) STRICT", "CREATE TABLE t LIKE u", "CREATE TABLE t (a INT) LIKE u", "CREATE TABLE t CLONE u", "CREATE TABLE t (a INT) ON COMMIT DROP",
    "CREATE TABLE t (a INT) ON COMMIT DELETE ROWS", "CREATE TABLE t (a INT) AUTO_INCREMENT = 5", "CREATE TABLE t (a INT) DEFAULT CHARSET = utf8", "CREATE TABLE t (a INT) COLLATE = x", "CREATE TABLE t (a INT) ORDER BY (a)",
    "CREATE TABLE t (a INT) PRIMARY KEY a", "CREATE TABLE t (a INT) PARTITION BY a", "CREATE TABLE t (a INT) PARTITIONED BY (b INT)", "CREATE TABLE t (a INT) CLUSTER BY a", "CREATE TABLE t (a INT) CLUSTER BY (a, b)",
    "CREATE TABLE t (a INT) OPTIONS (x = 1)", "CREATE TABLE t (a INT) TBLPROPERTIES ('x' = 'y')", "CREATE TABLE t (a INT) STORED AS ORC", "CREATE TABLE t (a INT) ROW FORMAT DELIMITED", "CREATE TABLE t (a INT) LOCATION 'x'",
    "CREATE TABLE t ON CLUSTER c (a INT)", "CREATE TABLE t (a INT) CLUSTERED BY (a) INTO 4 BUCKETS", "CREATE TABLE t (a INT) COPY GRANTS", "CREATE TABLE t (a INT) CHANGE_TRACKING = TRUE", "CREATE TABLE t (a INT) DATA_RETENTION_TIME_IN_DAYS = 1",
    "CREATE TABLE t (a INT) WITH TAG (x = 'y')", "CREATE TRANSIENT TABLE t (a INT)", "CREATE VOLATILE TABLE t (a INT)", "CREATE LOCAL TEMPORARY TABLE t (a INT)", "CREATE TABLE t (a INT) x", "CREATE TABLE t (a INT) (b INT)", "CREATE TABLE t (a INT) ;",
    "CREATE TABLE t (a INT) AS", "CREATE TABLE t (a INT) WITH", "CREATE TABLE t (a INT) ENGINE", "CREATE TABLE t (a INT) ON COMMIT",
];

const PROBES: &[&str] = &[
    "", ";", "INSERT", "INSERT INTO", "INSERT INTO t", "INSERT t VALUES (1)", "INSERT INTO TABLE t VALUES (1)", "INSERT OVERWRITE TABLE t SELECT 1", "INSERT INTO t (SELECT 1)", "INSERT INTO t (a) (SELECT 1)",
    "INSERT INTO t PARTITION (a = 1) SELECT 1", "INSERT INTO t PARTITION (a = 1) (b) SELECT 1", "INSERT IGNORE INTO t VALUES (1)", "INSERT OR REPLACE INTO t VALUES (1)", "INSERT OR IGNORE INTO t VALUES (1)", "INSERT REPLACE INTO t VALUES (1)",
    "REPLACE INTO t VALUES (1)", "INSERT LOW_PRIORITY INTO t VALUES (1)", "INSERT INTO t AS x VALUES (1)", "INSERT INTO t VALUES (1) AS x", "INSERT INTO t VALUES (1) AS x (a)", "INSERT INTO t VALUES (1) ON CONFLICT DO NOTHING",
    "INSERT INTO t VALUES (1) ON CONFLICT (a) DO UPDATE SET a = 1", "INSERT INTO t VALUES (1) ON DUPLICATE KEY UPDATE a = 1", "INSERT INTO t VALUES (1) ON", "INSERT INTO t VALUES", "INSERT INTO t VALUES ()", "INSERT INTO t () VALUES ()",
    "INSERT INTO t () VALUES (1)", "INSERT INTO t (a) VALUES ()", "INSERT INTO t VALUES (), ()", "INSERT INTO t VALUES (1) UNION SELECT 2", "INSERT INTO t VALUES (DEFAULT)", "INSERT INTO t VALUES (1, DEFAULT)", "INSERT INTO t DEFAULT",
    "INSERT INTO t (a) DEFAULT VALUES", "INSERT INTO t DEFAULT VALUES RETURNING a", "INSERT INTO t DEFAULT VALUES (1)", "INSERT INTO default VALUES (1)", "INSERT INTO values VALUES (1)", "INSERT LOCAL t VALUES (1)",
    "INSERT INTO DIRECTORY 'x' SELECT 1", "INSERT OVERWRITE LOCAL DIRECTORY 'x' SELECT 1", "INSERT INTO t WITH c AS (SELECT 1) SELECT * FROM c", "INSERT INTO t TABLE u", "INSERT INTO TABLE", "INSERT INTO TABLE TABLE VALUES (1)",
    "INSERT INTO table VALUES (1)", "INSERT INTO t (a b) VALUES (1)", "INSERT INTO t (a.b) VALUES (1)", "INSERT INTO t (1) VALUES (1)", "INSERT INTO t ('a') VALUES (1)", "INSERT INTO t (\"a\") VALUES (1)", "INSERT INTO t (a) (b) VALUES (1)",
    "INSERT INTO t VALUES (1) (2)", "INSERT INTO t VALUES (1),", "INSERT INTO t VALUES (1) RETURNING", "INSERT INTO t VALUES (1) RETURNING a RETURNING b", "INSERT INTO t VALUES (1) LIMIT 1 RETURNING a", "INSERT INTO t VALUES (1) ORDER BY 1",
    "INSERT INTO t VALUES ROW (1)", "INSERT INTO t VALUES ROW(1), (2)", "INSERT INTO t VALUES (1), ROW(2)", "INSERT INTO t VALUES ((1))", "INSERT INTO t VALUES (1 2)", "INSERT INTO t VALUES (1", "INSERT INTO t VALUES 1", "INSERT INTO t VALUE (1)",
    "INSERT INTO t SELECT", "INSERT INTO t SELECT 1 RETURNING a", "INSERT INTO t SELECT a FROM u RETURNING *", "INSERT INTO t (SELECT 1) RETURNING a", "INSERT INTO t SELECT 1; SELECT 2", "INSERT INTO t UPDATE u SET a = 1", "INSERT INTO t INSERT INTO u VALUES (1)",
    "INSERT INTO 1 VALUES (1)", "INSERT INTO 't' VALUES (1)", "INSERT INTO t. VALUES (1)", "INSERT INTO t.1 VALUES (1)", "INSERT INTO a-b VALUES (1)", "INSERT INTO select VALUES (1)", "INSERT INTO t x VALUES (1)",
    "VALUES (1)", "VALUES (1), (2) ORDER BY 1 LIMIT 1", "VALUES ROW(1), (2)", "VALUES ROW(1), ROW(2)", "VALUES (1) UNION VALUES (2)", "VALUES", "VALUES 1", "(VALUES (1))", "VALUES ()", "VALUES (1,)", "VALUES (1), ", "VALUES (1) (2)", "VALUES (1) x",
    "VALUES (1) LIMIT 1", "VALUES (1) OFFSET 1", "VALUES (1) LIMIT 1, 2", "VALUES (1) FETCH FIRST 1 ROW ONLY", "VALUES (1) FOR UPDATE", "VALUES (1) ORDER BY 1 WITH FILL", "VALUES (1); VALUES (2)", "VALUES (a, t.b, 'c', NULL)", "VALUES (f(1))",
    "VALUES ((SELECT 1))", "VALUES ROW", "VALUES ROW 1", "VALUES row", "WITH c AS (SELECT 1) VALUES (1)", "SELECT * FROM (VALUES (1)) v", "SELECT 1", "SELECT a FROM t; VALUES (1)", "(SELECT 1)", "TABLE t",
    "UPDATE", "UPDATE t", "UPDATE t SET", "UPDATE t SET a", "UPDATE t SET a =", "UPDATE t SET a == 1", "UPDATE t SET a := 1", "UPDATE t, u SET a = 1", "UPDATE t SET a = 1 FROM u, v", "UPDATE t SET a = 1 FROM WHERE b",
    "UPDATE t SET a = 1 FROM u WHERE b", "UPDATE t SET a = 1 FROM", "UPDATE t SET a = 1 FROM u FROM v", "UPDATE t SET a = 1 WHERE", "UPDATE t SET a = 1 WHERE b WHERE c", "UPDATE t SET a = 1 RETURNING", "UPDATE t SET a = 1 RETURNING a WHERE b",
    "UPDATE (SELECT 1) AS s SET a = 1", "UPDATE (SELECT 1) SET a = 1", "UPDATE t SET () = 1", "UPDATE t SET (a) = 1", "UPDATE t SET (a, b) = (1, 2)", "UPDATE t SET (a, b) = 1", "UPDATE t SET (a.b, c) = 1", "UPDATE t SET (a = 1",
    "UPDATE t SET (a) (b) = 1", "UPDATE t SET ((a)) = 1", "UPDATE t SET a.b.c = 1", "UPDATE t SET \"a\" = 1", "UPDATE t SET 'a' = 1", "UPDATE t SET 1 = 1", "UPDATE t SET a = 1 LIMIT 2", "UPDATE t SET a = 1 ORDER BY a",
    "UPDATE t SET a = 1, b = 2; SELECT 1", "UPDATE t SET a = DEFAULT", "UPDATE t SET a = f(1)", "UPDATE t SET a = (SELECT 1)", "UPDATE t SET a = b = c", "UPDATE t SET a = 1 b = 2", "UPDATE t SET a = 1,, b = 2", "UPDATE t SET , a = 1",
    "UPDATE t SET set = 1", "UPDATE set SET a = 1", "UPDATE t set SET a = 1", "UPDATE t AS SET a = 1", "UPDATE t AS set SET a = 1", "UPDATE ONLY t SET a = 1", "UPDATE t * SET a = 1", "UPDATE t NATURAL JOIN u SET a = 1", "UPDATE t JOIN u SET a = 1",
    "UPDATE t CROSS JOIN u SET a = 1", "UPDATE t u (c) SET a = 1", "UPDATE t WITH (NOLOCK) SET a = 1", "UPDATE t PARTITION (p) SET a = 1", "UPDATE f(1) SET a = 1", "UPDATE t SET a = 1 FROM f(1)", "UPDATE t SET a = 1 FROM u NATURAL JOIN v",
    "UPDATE OR REPLACE t SET a = 1", "UPDATE t SET a = 1 FROM u AS v (c)", "UPDATE t SET a = 1 FROM (SELECT 1)", "UPDATE t SET a = 1 FROM (VALUES (1)) v", "UPDATE t SET a = 1 FROM u, ", "UPDATE t SET a = 1 FROM u RETURNING *",
    "DELETE", "DELETE FROM", "DELETE FROM t", "DELETE t", "DELETE t FROM", "DELETE t FROM t", "DELETE t WHERE a", "DELETE t u WHERE a", "DELETE t, u WHERE a", "DELETE FROM t USING", "DELETE FROM t USING u", "DELETE FROM t USING u USING v",
    "DELETE FROM t WHERE", "DELETE FROM t ORDER", "DELETE FROM t ORDER BY", "DELETE FROM t ORDER a", "DELETE FROM t LIMIT", "DELETE FROM t LIMIT 1, 2", "DELETE FROM t LIMIT 1 OFFSET 2", "DELETE FROM t LIMIT ALL", "DELETE FROM t LIMIT ALL ALL",
    "DELETE FROM t LIMIT 1 LIMIT 2", "DELETE FROM t ORDER BY a WITH FILL", "DELETE FROM t ORDER BY a ASC NULLS LAST", "DELETE FROM t ORDER BY a ORDER BY b", "DELETE FROM t LIMIT 1 ORDER BY a", "DELETE FROM t ORDER BY a RETURNING *",
    "DELETE FROM t RETURNING * EXCEPT (a)", "DELETE FROM t RETURNING", "DELETE FROM t RETURNING a WHERE b", "DELETE FROM t WHERE a USING u", "DELETE FROM (SELECT 1) x", "DELETE FROM (SELECT 1)", "DELETE FROM t AS u (c)", "DELETE FROM f(1)",
    "DELETE FROM t NATURAL JOIN u", "DELETE FROM t JOIN u", "DELETE FROM t CROSS JOIN u USING v", "DELETE FROM t JOIN u USING (a) USING v", "DELETE FROM FROM t", "DELETE t1, FROM t1", "DELETE t1 t2 FROM t1", "DELETE t1.* FROM t1", "DELETE * FROM t",
    "DELETE 1 FROM t", "DELETE 't' FROM t", "DELETE \"t\" FROM t", "DELETE from FROM t", "DELETE FROM from", "DELETE FROM t WHERE f(a)", "DELETE FROM t WHERE a IN (SELECT 1)", "DELETE FROM t LIMIT f(1)", "DELETE FROM t; DELETE FROM u",
    "DELETE FROM t DELETE FROM u", "DELETE FROM t, ", "DELETE FROM t,, u", "DELETE FROM t u v", "DELETE FROM t WHERE a ORDER BY b LIMIT 1 x", "DELETE ONLY FROM t", "DELETE FROM ONLY t",
    "CREATE", "CREATE TABLE", "CREATE TABLE t", "CREATE TABLE t ()", "CREATE TABLE t (", "CREATE TABLE t (a", "CREATE TABLE t (a INT", "CREATE TABLE t (a INT b INT)", "CREATE TABLE t (1 INT)", "CREATE TABLE t ('a' INT)", "CREATE TABLE t (\"a\" INT)",
    "CREATE TABLE t (a)", "CREATE TABLE t (a, b)", "CREATE TABLE t (a PRIMARY KEY)", "CREATE TABLE t (a NULL)", "CREATE TABLE t (a NOT NULL, b)", "CREATE TABLE t (a DEFAULT 1)", "CREATE TABLE t (a REFERENCES u)", "CREATE TABLE t (a UNIQUE CHECK (a))",
    "CREATE TABLE t (a INT AUTO_INCREMENT NOT NULL)", "CREATE TABLE t (a INT AUTOINCREMENT, b INT ASC, c INT DESC)", "CREATE TABLE t (a INT PRIMARY)", "CREATE TABLE t (a INT NOT)", "CREATE TABLE t (a INT COMMENT 1)", "CREATE TABLE t (a INT CHECK a)",
    "CREATE TABLE t (a INT DEFAULT)", "CREATE TABLE t (a INT DEFAULT,)", "CREATE TABLE t (a INT,)", "CREATE TABLE t (a INT,,)", "CREATE TABLE t (,)", "CREATE TABLE t (, a INT)", "CREATE TABLE t (a INT))", "CREATE TABLE t ((a INT))", "CREATE TABLE t (a.b INT)",
    "CREATE TABLE t (a INT INT)", "CREATE TABLE t (a INT b)", "CREATE TABLE t (a a a)", "CREATE TABLE t (int int)", "CREATE TABLE t (a INT NOT NULL NULL DEFAULT 1 DEFAULT 2)", "CREATE OR REPLACE TABLE t (a INT)", "CREATE OR TABLE t (a INT)",
    "CREATE GLOBAL TEMPORARY TABLE t (a INT)", "CREATE TEMP TABLE t (a INT)", "CREATE TEMPORARY TEMP TABLE t (a INT)", "CREATE TABLE IF NOT t (a INT)", "CREATE TABLE IF t (a INT)", "CREATE TABLE IF NOT EXISTS", "CREATE TABLE IF NOT EXISTS t",
    "CREATE TABLE if (a INT)", "CREATE TABLE t.u.v (a INT)", "CREATE TABLE t.u.v.w (a INT)", "CREATE TABLE a-b (c INT)", "CREATE TABLE a-b.c-d (e INT)", "CREATE TABLE a - b (c INT)", "CREATE TABLE 1 (a INT)", "CREATE TABLE 't' (a INT)", "CREATE TABLE `t` (a INT)",
    "CREATE TABLE [t] (a INT)", "CREATE TABLE table (a INT)", "CREATE TABLE t; CREATE TABLE u", "CREATE TABLE t CREATE TABLE u", "CREATE TABLE t (a INT); DROP TABLE t", "CREATE VIEW v AS SELECT 1", "CREATE INDEX i ON t (a)", "CREATE UNIQUE INDEX i ON t (a)",
    "CREATE EXTERNAL TABLE t (a INT) STORED AS TEXTFILE LOCATION 'x'", "CREATE SCHEMA s", "CREATE DATABASE d", "CREATE TEMPORARY VIEW v AS SELECT 1", "CREATE TEMPORARY", "CREATE TEMPORARY x", "CREATE x", "CREATE TABLE t (a INT) b",
    "DROP", "DROP TABLE", "DROP TABLE IF", "DROP TABLE IF EXISTS", "DROP TABLE t", "DROP TABLE t CASCADE PURGE", "DROP TABLE a CASCADE RESTRICT", "DROP TABLE a RESTRICT CASCADE", "DROP TABLE a PURGE CASCADE", "DROP TABLE a CASCADE CASCADE", "DROP TABLE IF EXISTS t",
    "DROP TABLE IF NOT EXISTS t", "DROP TABLE if", "DROP TABLE t u", "DROP TABLE t, ", "DROP TABLE t,, u", "DROP TABLE , t", "DROP TABLE 1", "DROP TABLE 't'", "DROP TABLE t.", "DROP TABLE t.u.v, \"W\"", "DROP TABLE cascade", "DROP TABLE cascade CASCADE",
    "DROP TABLE t; DROP TABLE u", "DROP TABLE t DROP TABLE u", "DROP VIEW v", "DROP TEMPORARY TABLE t", "DROP PERSISTENT TABLE t", "DROP INDEX i", "DROP SCHEMA s CASCADE", "DROP ROLE r", "DROP ROLE r CASCADE", "DROP FUNCTION f", "DROP TABLE TABLE t", "DROP t",
    "DROP TABLE IF EXISTS IF EXISTS t", "DROP TABLE t IF EXISTS", "DROP TABLE t RESTRICT PURGE x", "DROP TABLE (t)",
    "TRUNCATE TABLE t", "ALTER TABLE t ADD COLUMN a INT", "MERGE INTO t USING u ON a WHEN MATCHED THEN DELETE", "COMMIT", "a", "1", "(", ")", ";;", "; ;INSERT INTO t VALUES (1)", "INSERT INTO t VALUES (1) END", "DELETE FROM t END", "DROP TABLE t END",
    "CREATE TABLE t (a INT) END", "UPDATE t SET a = 1 END", "END", "DROP TABLE t;;", ";;DROP TABLE t", "DROP TABLE t;;DROP TABLE u",
];

const TRAILING: &[&str] = &[
    "INSERT INTO t (a, b,) VALUES (1, 2)", "INSERT INTO t (a,) VALUES (1)", "INSERT INTO t (,) VALUES (1)", "INSERT INTO t (a,, b) VALUES (1)", "INSERT INTO t VALUES (1, 2,)", "INSERT INTO t VALUES (1,), (2,)", "INSERT INTO t VALUES (1), (2),",
    "INSERT INTO t VALUES (1), (2), ;", "INSERT INTO t VALUES (1), RETURNING a", "INSERT INTO t VALUES (1), ORDER BY 1", "INSERT INTO t VALUES (1), LIMIT 1", "INSERT INTO t VALUES (1), (2), RETURNING a, b,", "INSERT INTO t VALUES (,)", "INSERT INTO t VALUES (1,,2)",
    "INSERT INTO t VALUES ROW(1,), ROW(2),", "INSERT INTO t SELECT a, FROM u", "INSERT INTO t SELECT a, b, RETURNING c", "INSERT INTO t DEFAULT VALUES RETURNING a,", "INSERT INTO t VALUES (1) RETURNING a, b,", "INSERT INTO t VALUES (1) RETURNING a, ;",
    "INSERT INTO t VALUES (1) RETURNING a, b, ; SELECT 1", "INSERT INTO t VALUES (1) ORDER BY 1, LIMIT 2", "INSERT INTO t VALUES (1) ORDER BY 1,", "VALUES (1, 2,)", "VALUES (1), (2),", "VALUES (1,), (2,),", "VALUES (1), ORDER BY 1", "VALUES (1), ; VALUES (2),",
    "VALUES (1), (2) ORDER BY 1, 2,", "UPDATE t SET a = 1, WHERE b", "UPDATE t SET a = 1,", "UPDATE t SET a = 1, ;", "UPDATE t SET a = 1, FROM u", "UPDATE t SET a = 1, RETURNING a", "UPDATE t SET a = 1, b = 2, WHERE c", "UPDATE t SET a = 1, b = 2, RETURNING c,",
    "UPDATE t SET (a, b,) = 1", "UPDATE t SET (a,) = 1", "UPDATE t SET (a, b,) = 1, c = 2,", "UPDATE t SET (,) = 1", "UPDATE t SET a = 1 RETURNING a, b,", "UPDATE t SET a = 1 RETURNING a, ; SELECT 1", "UPDATE t SET a = 1 FROM u, WHERE b", "UPDATE t SET a = 1, from",
    "UPDATE t SET a = 1, where", "UPDATE t SET a = 1, returning", "UPDATE t SET a = 1, set", "UPDATE t SET a = 1, limit", "UPDATE t SET a = 1 WHERE a IN (1, 2,)", "UPDATE t JOIN u USING (a, b,) SET a = 1", "CREATE TABLE t (a INT, b TEXT,)", "CREATE TABLE t (a INT,, b INT)",
    "CREATE TABLE t (a INT, )", "CREATE TABLE t (a INT NOT NULL, b TEXT DEFAULT 'x',)", "CREATE TABLE t (a INT, b INT,) ;", "CREATE TABLE t (a INT,", "CREATE TABLE t (a INT, b", "CREATE TABLE t (a INT REFERENCES u (a,))", "CREATE TABLE t (a INT REFERENCES u (a, b,), c INT,)",
    "CREATE TABLE t (a DECIMAL(10,2,))", "CREATE TABLE t (a DECIMAL(10,))", "CREATE TABLE t (a foo(1, 'a',))", "CREATE TABLE t (a ENUM('a','b',))", "CREATE TABLE t (a ENUM('a',), b SET('x','y',))", "CREATE TABLE t (a SET('a',) NOT NULL, b INT,)", "CREATE TABLE t (a ENUM('a' 'b'))", "CREATE TABLE t (a ENUM('a',,))", "CREATE TABLE t (a ENUM('a', from))",
    "CREATE TABLE t (a ENUM(,))", "CREATE TABLE t (a ENUM('a',", "CREATE TABLE t (a ENUM('a', b))", "CREATE TABLE t (a SET('a','b' 'c'), b INT)", "CREATE TABLE t (a INT DEFAULT 1,)", "CREATE TABLE t (a INT CHECK (a IN (1, 2,)),)", "CREATE TABLE t (a INT, PRIMARY KEY (a),)",
    "CREATE TABLE t (a INT, PRIMARY KEY (a,))", "DELETE FROM t, u, WHERE a", "DELETE FROM t, u,", "DELETE FROM t, ;", "DELETE FROM t, USING a", "DELETE FROM t USING a, WHERE b", "DELETE FROM t USING a, b,", "DELETE FROM t USING a, RETURNING *", "DELETE FROM t ORDER BY a, LIMIT 1",
    "DELETE FROM t ORDER BY a,", "DELETE FROM t ORDER BY a DESC, b, ;", "DELETE FROM t RETURNING a, b, ORDER BY c", "DELETE FROM t RETURNING a, LIMIT 1", "DELETE FROM t RETURNING *,", "DELETE a, b, FROM t", "DELETE a, FROM t", "DELETE FROM t, using", "DELETE FROM t, where",
    "DELETE FROM t, limit", "DELETE FROM t, order", "DELETE FROM t, returning", "DELETE t, WHERE a", "DROP TABLE a, b,", "DROP TABLE a,", "DROP TABLE a, ;", "DROP TABLE a, b, CASCADE", "DROP TABLE a, RESTRICT", "DROP TABLE a, PURGE", "DROP TABLE IF EXISTS a, ; DROP TABLE b,",
    "DROP TABLE a, cascade", "DROP TABLE a, b, c", "DROP TABLE a,, b",
];

const BASES: &[&str] = &[
    "INSERT INTO s.t (a, b, c) VALUES (1, 'x', a + 1), (2, NULL, TRUE) ORDER BY 1 LIMIT 2 RETURNING a, b AS c, *",
    "INSERT INTO TABLE t (a) SELECT DISTINCT x, t.* FROM u AS v LEFT JOIN w ON v.a = w.a WHERE y IS NULL UNION ALL SELECT 1, 2 ORDER BY 1 LIMIT 3 RETURNING a",
    "INSERT t DEFAULT VALUES RETURNING *; INSERT INTO \"T\" VALUES ROW(1), ROW(2)",
    "UPDATE s.t AS u JOIN v ON u.a = v.a SET a = 1, u.b = b + 1, (c, d) = (e) FROM w x LEFT JOIN (SELECT 1) AS y USING (k) WHERE a BETWEEN 1 AND 2 RETURNING a, u.*",
    "UPDATE t SET a = 'x', b = NOT c WHERE a IN (1, 2) AND b LIKE 'y'; SELECT 1",
    "DELETE FROM t u, s.v JOIN w ON u.a = w.a USING a, b AS c WHERE a = b AND c RETURNING * ORDER BY a DESC, b NULLS FIRST LIMIT 3",
    "DELETE t1, s.t2 FROM t1 INNER JOIN t2 ON t1.a = t2.a WHERE t1.a > 1 LIMIT ALL",
    "DELETE FROM t WHERE a::INT = - 1 ORDER BY a; DROP TABLE t",
    "CREATE TEMPORARY TABLE IF NOT EXISTS s.t (a INT NOT NULL PRIMARY KEY, b VARCHAR(10) DEFAULT 'x' NULL, c DECIMAL(10,2) CHECK (c > 0) UNIQUE, d TIMESTAMP(3) WITH TIME ZONE REFERENCES s.u (a, b) COMMENT 'it''s', e INT[])",
    "CREATE TABLE \"T\" (a INT(11) UNSIGNED AUTO_INCREMENT, b CHARACTER VARYING(20) DEFAULT a + 1 NOT NULL, c foo(1, 'a') REFERENCES u, d DOUBLE PRECISION ASC)",
    "DROP TABLE IF EXISTS a, s.b, \"C\" CASCADE; DROP TABLE x RESTRICT PURGE",
    "VALUES (1, 'a'), (2, 'b') ORDER BY 1 DESC LIMIT 1 OFFSET 2; CREATE TABLE t (a TEXT)",
];

const LIMITED: &[&str] = &[
    "INSERT INTO t VALUES (1)", "INSERT INTO t SELECT (a)", "UPDATE t SET a = (1)", "UPDATE t SET a = 1 FROM (SELECT 1) AS d", "DELETE FROM t WHERE (a)", "CREATE TABLE t (a INT DEFAULT (1))", "CREATE TABLE t (a INT)", "DROP TABLE t", "VALUES ((1))",
    "INSERT INTO t VALUES (1) RETURNING (a)", "DELETE FROM t USING (SELECT (1)) AS d", "CREATE TABLE t (a INT CHECK ((a)))", "DROP TABLE t; DROP TABLE u", "UPDATE t JOIN (SELECT 1) AS d ON (a) SET a = 1",
];

// ---------------------------------------------------------------- random grammar
fn rand_select(rng: &mut Rng, depth: usize) -> String {
    let n = 1 + rng.below(3);
    let items: Vec<&str> = (0..n).map(|_| *rng.pick(&ITEMS[..])).collect();
    let mut s = format!("SELECT {}{}", ["", "", "DISTINCT ", "ALL "][rng.below(4)], items.join(", "));
    if rng.chance(3, 4) {
        if depth > 0 && rng.chance(1, 3) {
            s.push_str(&format!(" FROM ({}) {}", rand_query(rng, depth - 1), ["AS d", "d", ""][rng.below(3)]));
        } else {
            s.push(' ');
            s.push_str(*rng.pick(&FROMS[1..]));
        }
        for _ in 0..rng.below(3) {
            if depth > 0 && rng.chance(1, 5) {
                s.push_str(&format!(" {} ({}) AS j {}", rng.pick(&JOINS[..]), rand_query(rng, depth - 1), rng.pick(&CSTRS[..3])));
            } else {
                s.push_str(&format!(" {} u {}", rng.pick(&JOINS[..]), rng.pick(&CSTRS[..])));
            }
        }
    }
    for c in CLAUSES {
        if rng.chance(1, 3) {
            s.push(' ');
            s.push_str(c);
        }
    }
    s
}

fn rand_body(rng: &mut Rng, depth: usize) -> String {
    let mut s = if depth > 0 && rng.chance(1, 5) { format!("({})", rand_query(rng, depth - 1)) } else { rand_select(rng, depth) };
    while rng.chance(1, 4) {
        let op = ["UNION", "EXCEPT", "INTERSECT"][rng.below(3)];
        let q = ["", "", "ALL", "DISTINCT", "BY NAME", "ALL BY NAME", "DISTINCT BY NAME"][rng.below(7)];
        let r = if depth > 0 && rng.chance(1, 4) { format!("({})", rand_query(rng, depth - 1)) } else { rand_select(rng, depth.saturating_sub(1)) };
        s = format!("{s} {op} {q} {r}");
    }
    s
}

fn rand_query(rng: &mut Rng, depth: usize) -> String {
    let mut s = rand_body(rng, depth);
    if rng.chance(1, 3) {
        s.push(' ');
        s.push_str(*rng.pick(&TAILS[..]));
    }
    s
}

fn rand_expr(rng: &mut Rng) -> String {
    if rng.chance(1, 30) {
        rng.pick(EXPR_PROBES).to_string()
    } else {
        rng.pick(EXPRS).to_string()
    }
}

fn rand_name(rng: &mut Rng) -> &'static str {
    ["t", "t", "s.t", "\"T\"", "a.b.c", "u"][rng.below(6)]
}

fn rand_values(rng: &mut Rng) -> String {
    let row = rng.chance(1, 6);
    let width = 1 + rng.below(3);
    let rows: Vec<String> = (0..1 + rng.below(3))
        .map(|_| format!("{}({})", if row { "ROW" } else { "" }, (0..width).map(|_| rand_expr(rng)).collect::<Vec<_>>().join(", ")))
        .collect();
    let mut s = format!("VALUES {}", rows.join(", "));
    if rng.chance(1, 5) {
        s.push(' ');
        s.push_str(["ORDER BY 1", "LIMIT 2", "ORDER BY 1 DESC LIMIT 1", "LIMIT 1 OFFSET 1", "OFFSET 2 ROWS", "ORDER BY 1, 2 NULLS LAST"][rng.below(6)]);
    }
    s
}

fn rand_returning(rng: &mut Rng) -> String {
    if rng.chance(2, 3) {
        return String::new();
    }
    let n = 1 + rng.below(2);
    format!(" RETURNING {}", (0..n).map(|_| *rng.pick(&ITEMS[..])).collect::<Vec<_>>().join(", "))
}

fn rand_twj(rng: &mut Rng, derived: bool) -> String {
    let mut s = if derived && rng.chance(1, 6) {
        format!("(SELECT {}) AS d", rng.pick(&["1", "a FROM t", "a, b FROM t WHERE c"]))
    } else {
        format!("{}{}", rand_name(rng), ["", "", " AS u", " u", " AS \"U\""][rng.below(5)])
    };
    for _ in 0..[0, 0, 0, 1, 1, 2][rng.below(6)] {
        s.push_str(&format!(" {} {} {}", rng.pick(JOINS), ["v", "w", "s.v"][rng.below(3)], rng.pick(CSTRS)));
    }
    s
}

fn rand_insert(rng: &mut Rng) -> String {
    let mut s = String::from("INSERT");
    if rng.chance(5, 6) {
        s.push_str(" INTO");
    }
    if rng.chance(1, 6) {
        s.push_str(" TABLE");
    }
    s.push(' ');
    s.push_str(rand_name(rng));
    if rng.chance(1, 8) {
        s.push_str(" DEFAULT VALUES");
    } else {
        match rng.below(8) {
            0 | 1 | 2 => {}
            3 => s.push_str(" (a)"),
            4 | 5 => s.push_str(" (a, b)"),
            6 => s.push_str(" (\"A\", b, c)"),
            _ => s.push_str(" ()"),
        }
        s.push(' ');
        if rng.chance(3, 5) {
            s.push_str(&rand_values(rng));
        } else {
            s.push_str(&rand_query(rng, 1));
        }
    }
    s.push_str(&rand_returning(rng));
    s
}

fn rand_assign(rng: &mut Rng) -> String {
    let t = match rng.below(8) {
        0 | 1 | 2 | 3 => "a".to_string(),
        4 => "t.b".to_string(),
        5 => "s.t.c".to_string(),
        6 => "(c, d)".to_string(),
        _ => format!("({})", ["a", "t.a, b", "a, b, c"][rng.below(3)]),
    };
    format!("{t} = {}", rand_expr(rng))
}

fn rand_update(rng: &mut Rng) -> String {
    let mut s = format!("UPDATE {} SET ", rand_twj(rng, false));
    let n = 1 + rng.below(3);
    s.push_str(&(0..n).map(|_| rand_assign(rng)).collect::<Vec<_>>().join(", "));
    if rng.chance(1, 3) {
        s.push_str(" FROM ");
        s.push_str(&rand_twj(rng, true));
    }
    if rng.chance(1, 2) {
        s.push_str(" WHERE ");
        s.push_str(&rand_expr(rng));
    }
    s.push_str(&rand_returning(rng));
    s
}

fn rand_delete(rng: &mut Rng) -> String {
    let mut s = String::from("DELETE ");
    match rng.below(12) {
        0 => s.push_str("t1, t2 FROM t1 JOIN t2 ON x"),
        1 => s.push_str("t1 FROM t1"),
        2 => {
            // BigQuery / generic form without FROM
            s.push_str(&rand_twj(rng, false));
        }
        _ => {
            s.push_str("FROM ");
            let n = 1 + [0, 0, 0, 1, 2][rng.below(5)];
            s.push_str(&(0..n).map(|_| rand_twj(rng, false)).collect::<Vec<_>>().join(", "));
        }
    }
    if rng.chance(1, 4) {
        s.push_str(" USING ");
        let n = 1 + rng.below(2);
        s.push_str(&(0..n).map(|_| rand_twj(rng, true)).collect::<Vec<_>>().join(", "));
    }
    if rng.chance(1, 2) {
        s.push_str(" WHERE ");
        s.push_str(&rand_expr(rng));
    }
    s.push_str(&rand_returning(rng));
    if rng.chance(1, 4) {
        s.push_str([" ORDER BY a", " ORDER BY a DESC, b", " ORDER BY a ASC NULLS FIRST", " ORDER BY a + 1 NULLS LAST, t.b DESC"][rng.below(4)]);
    }
    if rng.chance(1, 4) {
        s.push_str([" LIMIT 3", " LIMIT ALL", " LIMIT a + 1", " LIMIT NULL"][rng.below(4)]);
    }
    s
}

fn rand_coldef(rng: &mut Rng, i: usize) -> String {
    let name = ["a", "b", "c", "d", "\"E\""][i % 5];
    let ty = if rng.chance(1, 30) { *rng.pick(TYPE_PROBES) } else { *rng.pick(TYPES) };
    let mut s = format!("{name} {ty}");
    for _ in 0..[0, 0, 1, 1, 2, 3][rng.below(6)] {
        s.push(' ');
        s.push_str(if rng.chance(1, 25) { *rng.pick(OPT_PROBES) } else { *rng.pick(OPTS_OK) });
    }
    s
}

fn rand_create(rng: &mut Rng) -> String {
    let mut s = format!("CREATE {}TABLE {}{}", ["", "", "", "TEMP ", "TEMPORARY "][rng.below(5)], if rng.chance(1, 4) { "IF NOT EXISTS " } else { "" }, rand_name(rng));
    match rng.below(20) {
        0 => {}
        1 => s.push_str(" ()"),
        _ => {
            let n = 1 + rng.below(4);
            s.push_str(&format!(" ({})", (0..n).map(|i| rand_coldef(rng, i)).collect::<Vec<_>>().join(", ")));
        }
    }
    if rng.chance(1, 40) {
        s.push_str([" ENGINE=InnoDB", " WITH (x = 1)", " AS SELECT 1", " COMMENT 'x'", " WITHOUT ROWID", " STRICT", " ON COMMIT DROP"][rng.below(7)]);
    }
    s
}

fn rand_drop(rng: &mut Rng) -> String {
    let n = 1 + rng.below(3);
    format!(
        "DROP TABLE {}{}{}",
        if rng.chance(1, 3) { "IF EXISTS " } else { "" },
        (0..n).map(|_| rand_name(rng)).collect::<Vec<_>>().join(", "),
        ["", "", "", " CASCADE", " RESTRICT", " PURGE", " CASCADE PURGE", " RESTRICT PURGE", " CASCADE RESTRICT"][rng.below(9)]
    )
}

fn rand_stmt(rng: &mut Rng) -> String {
    match rng.below(100) {
        0..=24 => rand_insert(rng),
        25..=44 => rand_update(rng),
        45..=64 => rand_delete(rng),
        65..=84 => rand_create(rng),
        85..=91 => rand_drop(rng),
        92..=95 => rand_values(rng),
        _ => rand_query(rng, 1),
    }
}

fn rand_script(rng: &mut Rng) -> String {
    if rng.chance(4, 5) {
        return rand_stmt(rng);
    }
    let n = 2 + rng.below(2);
    let mut s = String::new();
    if rng.chance(1, 8) {
        s.push_str("; ");
    }
    for i in 0..n {
        if i > 0 {
            s.push_str(match rng.below(12) {
                0 => " ;; ",
                1 => " ",
                2 => " END ",
                _ => "; ",
            });
        }
        s.push_str(&rand_stmt(rng));
    }
    if rng.chance(1, 4) {
        s.push_str([";", ";;", " END", "; END"][rng.below(4)]);
    }
    s
}

fn first_kw(toks: &[Token]) -> Option<Keyword> {
    match toks.first() {
        Some(Token::Word(w)) if w.quote_style.is_none() => Some(w.keyword),
        _ => None,
    }
}

/// request `dml \t dialect \t tc \t limit \t tokens`;
/// answer `OK <sexp>;<sexp>… TEXT <hex>` | `ERR:rle` | `ERR:syntax` | `UNSUPPORTED`
pub fn corr(dir: &str, seed: u64, tier: &str) -> Report {
    let mut r = Report::new("C11", "corr.dml", "parse_statements on token lists of the modelled DML / DDL fragment (INSERT, UPDATE, DELETE, CREATE TABLE, DROP TABLE, VALUES, queries, scripts) under (dialect, trailing_commas, recursion limit): S-expression of every statement and to_string() text, errors as classes. Deterministic: ~600 probes, one for every branch of parse_insert / parse_update / parse_delete / parse_create_table / parse_columns / parse_column_def / parse_optional_column_option / parse_drop / parse_values that stays in or leaves the fragment, x option on/off; INSERT name x column list x source (query, VALUES [ROW], DEFAULT VALUES) x INTO/TABLE x RETURNING; UPDATE target (aliases, joins) x assignment list (column, qualified, tuple) x FROM x WHERE x RETURNING; DELETE FROM lists x USING x WHERE / RETURNING / ORDER BY / LIMIT, multi-table and FROM-less forms; CREATE TABLE header forms, every data type of the list, every column option alone, every ordered pair and a slice of the triples, probes for unsupported types / options / table constraints / table options; DROP TABLE name lists x IF EXISTS x CASCADE/RESTRICT/PURGE arrangements; scripts with every separator shape; trailing commas at every list end x option; 12 base statements with every truncation and single-token drop (thorough: adjacent swaps, duplicated tokens); recursion limits 0..6 on 14 small statements; every corpus text starting with INSERT/UPDATE/DELETE/CREATE/DROP/VALUES (default option value and its negation). Seeded: random statements / scripts from a weighted grammar with token swap / drop / truncation / duplication and small recursion limits. All 13 dialects; non-trivial = distinct (dialect, answer tree)");
    let thorough = tier == "thorough";
    let mut s = St {
        req: std::io::BufWriter::new(std::fs::File::create(format!("{dir}/dml.req")).unwrap()),
        real: std::io::BufWriter::new(std::fs::File::create(format!("{dir}/dml.real")).unwrap()),
        txt: std::env::var("VERIF_DML_TXT").ok().map(|p| std::io::BufWriter::new(std::fs::File::create(p).unwrap())),
        r: &mut r,
        distinct: BTreeSet::new(),
        seen: BTreeSet::new(),
    };
    let mut rng = Rng(seed ^ 0xD31);
    let lim = 50usize;
    let corpus = load_corpus();
    for (k, (dn, d)) in all_dialects().into_iter().enumerate() {
        let d = d.as_ref();
        // ---- probes and odd inputs, both option values
        for p in PROBES.iter().chain(TABLE_PROBES.iter()) {
            s.sql2(dn, d, lim, p, "probe");
        }
        for p in TRAILING {
            s.sql2(dn, d, lim, p, "trailing");
        }
        // ---- INSERT
        let cols = ["", "(a)", "(a, b)", "(\"A\", b, c)", "()"];
        let srcs = [
            "SELECT 1", "SELECT a, b FROM u WHERE c", "VALUES (1)", "VALUES (1, 'a'), (2, 'b')", "VALUES ROW(1), ROW(2)", "VALUES (1), (2) ORDER BY 1 LIMIT 1", "DEFAULT VALUES", "(SELECT 1)", "SELECT 1 UNION SELECT 2",
            "VALUES (a + 1, NULL, TRUE)", "VALUES (1) LIMIT 1 OFFSET 2", "VALUES ()", "SELECT * FROM u JOIN v USING (a) ORDER BY 1", "VALUES (t.a, - 1, a::INT)", "(SELECT 1) UNION (SELECT 2) LIMIT 1",
        ];
        let rets = ["", "RETURNING a", "RETURNING *, b AS c", "RETURNING t.*, a + 1 x"];
        let heads = ["INSERT INTO", "INSERT", "INSERT INTO TABLE", "INSERT TABLE"];
        for (i, n) in NAMES.iter().enumerate() {
            for (j, c) in cols.iter().enumerate() {
                for (l, src) in srcs.iter().enumerate() {
                    let h = heads[(i + j + l) % 4];
                    let ret = rets[(i + 2 * j + l) % 4];
                    s.sql(dn, d, (i + j + l) % 2 == 0, lim, &format!("{h} {n} {c} {src} {ret}"), "insert");
                }
            }
        }
        for h in heads {
            for ret in rets {
                for src in [srcs[0], srcs[3], srcs[6]] {
                    s.sql2(dn, d, lim, &format!("{h} t (a, b) {src} {ret}"), "insert");
                    s.sql(dn, d, false, lim, &format!("{h} s.t {src} {ret}"), "insert");
                }
            }
        }
        for e in EXPRS.iter().chain(EXPR_PROBES.iter()) {
            s.sql(dn, d, false, lim, &format!("INSERT INTO t VALUES ({e}, 1)"), "insert.expr");
            s.sql(dn, d, true, lim, &format!("VALUES ({e}), ({e}, {e})"), "values.expr");
        }
        // ---- UPDATE
        let targets = ["t", "t AS u", "t u", "s.t", "t JOIN v ON t.a = v.a", "t AS x LEFT JOIN v USING (a)", "\"T\" \"U\" CROSS JOIN w"];
        let sets = ["a = 1", "a = 1, b = 'x'", "t.b = a + 1", "(c, d) = e", "a = 1, t.b = 2, (c, d) = (e)", "(a) = 1", "s.t.a = NULL, b = NOT c"];
        let ufroms = ["", "FROM u", "FROM u JOIN w ON u.a = w.a", "FROM (SELECT 1) AS d", "FROM u AS x", "FROM (SELECT a FROM t) d RIGHT JOIN w USING (a, b)"];
        let wheres = ["", "WHERE a = b AND c", "WHERE a IN (1, 2)", "WHERE t.a IS NULL"];
        for (i, t) in targets.iter().enumerate() {
            for (j, st) in sets.iter().enumerate() {
                for (l, f) in ufroms.iter().enumerate() {
                    let w = wheres[(i + j + l) % 4];
                    let ret = rets[(i + 2 * j + 3 * l) % 4];
                    s.sql(dn, d, (i + j + l) % 2 == 1, lim, &format!("UPDATE {t} SET {st} {f} {w} {ret}"), "update");
                }
            }
        }
        for f in ufroms {
            for w in wheres {
                for ret in rets {
                    s.sql2(dn, d, lim, &format!("UPDATE t SET a = 1 {f} {w} {ret}"), "update");
                }
            }
        }
        for e in EXPRS.iter().chain(EXPR_PROBES.iter()) {
            s.sql(dn, d, false, lim, &format!("UPDATE t SET a = {e}, b = {e} WHERE {e}"), "update.expr");
        }
        // ---- DELETE
        let dfroms = ["t", "t u", "t AS u", "t, v", "t u, v JOIN w ON a", "s.t", "t JOIN v USING (a)", "\"T\", a.b.c AS x, y"];
        let usings = ["", "USING a", "USING a, b", "USING a JOIN b ON c", "USING (SELECT 1) AS d, e f"];
        let orders = ["", "ORDER BY a", "ORDER BY a DESC, b", "ORDER BY a NULLS FIRST", "ORDER BY a + 1 ASC NULLS LAST, t.b"];
        let limits = ["", "LIMIT 3", "LIMIT ALL", "LIMIT a + 1"];
        let drets = ["", "RETURNING *", "RETURNING a, b AS c", "RETURNING t.*"];
        for (i, f) in dfroms.iter().enumerate() {
            for (j, u) in usings.iter().enumerate() {
                for (l, w) in wheres.iter().enumerate() {
                    let ret = drets[(i + j + l) % 4];
                    let o = orders[(i + 2 * j + l) % 5];
                    let li = limits[(2 * i + j + l) % 4];
                    s.sql(dn, d, (i + j + l) % 2 == 0, lim, &format!("DELETE FROM {f} {u} {w} {ret} {o} {li}"), "delete");
                }
            }
        }
        for ret in drets {
            for o in orders {
                for li in limits {
                    s.sql2(dn, d, lim, &format!("DELETE FROM t {ret} {o} {li}"), "delete");
                }
            }
        }
        for (i, t) in ["t1, t2 FROM t1 JOIN t2 ON x", "t1 FROM t1", "s.t1, \"T2\" FROM t1, t2", "t1 FROM t1 USING t2", "t", "t u", "t, u", "t JOIN u ON a", "s.t AS x"].iter().enumerate() {
            for (j, w) in wheres.iter().enumerate() {
                s.sql2(dn, d, lim, &format!("DELETE {t} {w} {}", limits[(i + j) % 4]), "delete.multi");
            }
        }
        for e in EXPRS.iter().chain(EXPR_PROBES.iter()) {
            s.sql(dn, d, false, lim, &format!("DELETE FROM t WHERE {e} ORDER BY {e} LIMIT {e}"), "delete.expr");
        }
        // ---- CREATE TABLE
        for pre in ["", "TEMP ", "TEMPORARY "] {
            for ine in ["", "IF NOT EXISTS "] {
                for n in NAMES {
                    s.sql2(dn, d, lim, &format!("CREATE {pre}TABLE {ine}{n} (a INT)"), "create.head");
                    s.sql(dn, d, false, lim, &format!("CREATE {pre}TABLE {ine}{n}"), "create.head");
                    s.sql(dn, d, true, lim, &format!("CREATE {pre}TABLE {ine}{n} ()"), "create.head");
                }
            }
        }
        for (i, t) in TYPES.iter().chain(TYPE_PROBES.iter()).enumerate() {
            s.sql2(dn, d, lim, &format!("CREATE TABLE t (a {t})"), "create.type");
            s.sql(dn, d, i % 2 == 0, lim, &format!("CREATE TABLE t (a {t} NOT NULL, \"B\" {t})"), "create.type");
            s.sql(dn, d, i % 2 == 1, lim, &format!("CREATE TABLE t (x INT, a {t} DEFAULT 1 COMMENT 'c', b {})", TYPES[(i * 7 + 3) % TYPES.len()]), "create.type");
        }
        for o in OPTS_OK.iter().chain(OPT_PROBES.iter()) {
            s.sql2(dn, d, lim, &format!("CREATE TABLE t (a INT {o})"), "create.opt");
            s.sql(dn, d, false, lim, &format!("CREATE TABLE t (a INT {o}, b TEXT {o})"), "create.opt");
            s.sql(dn, d, true, lim, &format!("CREATE TABLE t (a {o})"), "create.opt");
        }
        for (i, o1) in OPTS_OK.iter().enumerate() {
            for (j, o2) in OPTS_OK.iter().enumerate() {
                if i == j {
                    continue;
                }
                s.sql(dn, d, (i + j) % 2 == 0, lim, &format!("CREATE TABLE t (a INT {o1} {o2})"), "create.opt2");
                for (l, o3) in OPTS_OK.iter().enumerate() {
                    if l == i || l == j {
                        continue;
                    }
                    if (i + 2 * j + 3 * l + k) % (if thorough { 5 } else { 31 }) == 0 {
                        s.sql(dn, d, (i + j + l) % 2 == 0, lim, &format!("CREATE TABLE t (a VARCHAR(10) {o1} {o2} {o3}, b INT)"), "create.opt3");
                    }
                }
            }
            for (j, p) in OPT_PROBES.iter().enumerate() {
                if (i + j + k) % 13 == 0 || thorough {
                    s.sql(dn, d, false, lim, &format!("CREATE TABLE t (a INT {o1} {p})"), "create.optprobe");
                    s.sql(dn, d, false, lim, &format!("CREATE TABLE t (a INT {p} {o1})"), "create.optprobe");
                }
            }
        }
        // ---- DROP
        for ie in ["", "IF EXISTS "] {
            for names in ["a", "a, s.b", "\"T\"", "a.b.c, d, e"] {
                // every arrangement of the three trailing keywords (only CASCADE? RESTRICT? PURGE? in this order can parse)
                let kws = ["CASCADE", "RESTRICT", "PURGE"];
                for arr in arrangements(3, 3) {
                    let tail = arr.iter().map(|&i| kws[i]).collect::<Vec<_>>().join(" ");
                    s.sql2(dn, d, lim, &format!("DROP TABLE {ie}{names} {tail}"), "drop");
                }
            }
        }
        for ot in ["VIEW", "INDEX", "SCHEMA", "DATABASE", "SEQUENCE", "ROLE", "TYPE", "STAGE", "TEMPORARY TABLE", "TEMPORARY VIEW"] {
            s.sql(dn, d, false, lim, &format!("DROP {ot} a"), "drop.other");
            s.sql(dn, d, true, lim, &format!("DROP {ot} IF EXISTS a, b CASCADE"), "drop.other");
        }
        // ---- scripts
        let unit = [
            "INSERT INTO t VALUES (1)", "INSERT INTO t DEFAULT VALUES", "UPDATE t SET a = 1", "UPDATE t SET a = 1 WHERE b", "DELETE FROM t", "DELETE FROM t LIMIT 1", "CREATE TABLE t (a INT)", "CREATE TABLE t", "DROP TABLE t",
            "DROP TABLE t CASCADE", "VALUES (1)", "SELECT 1",
        ];
        let seps = ["; ", " ;; ", " ", " END ", " ; END ; "];
        for (i, a) in unit.iter().enumerate() {
            for (j, c) in unit.iter().enumerate() {
                let sep = seps[(i + 2 * j) % seps.len()];
                if sep == "; " || (i + j + k) % 3 == 0 || thorough {
                    s.sql(dn, d, (i + j) % 2 == 0, lim, &format!("{a}{sep}{c}"), "script.two");
                }
            }
            for sep in seps {
                s.sql(dn, d, false, lim, &format!("{a}{sep}{}", unit[(i + 5) % unit.len()]), "script.sep");
            }
            s.sql2(dn, d, lim, &format!(";{a};"), "script.edge");
            s.sql(dn, d, false, lim, &format!("{a}; {}; {};", unit[(i + 3) % unit.len()], unit[(i + 7) % unit.len()]), "script.three");
            s.sql(dn, d, false, lim, &format!("{a} END"), "script.edge");
            s.sql(dn, d, false, lim, &format!("{a};;"), "script.edge");
        }
        // ---- truncations and single-token drops of base statements
        for (bi, bs) in BASES.iter().enumerate() {
            if let Some(toks) = lex_nows(d, bs) {
                s.emit(dn, d, false, lim, &toks, "base");
                s.emit(dn, d, true, lim, &toks, "base");
                for i in 0..toks.len() {
                    s.emit(dn, d, (i + bi) % 2 == 0, lim, &toks[..i], "truncated");
                    let mut t = toks.clone();
                    t.remove(i);
                    s.emit(dn, d, (i + bi) % 2 == 1, lim, &t, "dropped");
                    if thorough {
                        if i + 1 < toks.len() {
                            let mut t = toks.clone();
                            t.swap(i, i + 1);
                            s.emit(dn, d, i % 2 == 0, lim, &t, "swapped");
                        }
                        let mut t = toks.clone();
                        t.insert(i, toks[i].clone());
                        s.emit(dn, d, i % 2 == 1, lim, &t, "duplicated");
                    }
                }
            }
        }
        // ---- recursion limits
        for limit in 0usize..=6 {
            for q in LIMITED {
                s.sql(dn, d, false, limit, q, "limit");
            }
        }
        // ---- corpus texts that start with one of the statement keywords
        for &(i, kk) in &corpus.accepted {
            if kk != k {
                continue;
            }
            let text = &corpus.literals[i];
            if let Some(toks) = lex_nows(d, text) {
                if toks.len() > 400 {
                    continue;
                }
                if !matches!(first_kw(&toks), Some(Keyword::INSERT | Keyword::UPDATE | Keyword::DELETE | Keyword::CREATE | Keyword::DROP | Keyword::VALUES)) {
                    continue;
                }
                let dflt = d.supports_trailing_commas();
                let a = s.emit(dn, d, dflt, lim, &toks, "corpus");
                s.emit(dn, d, !dflt, lim, &toks, "corpus");
                if a.starts_with("OK") {
                    s.r.count("corpus/inside");
                } else if !a.is_empty() {
                    s.r.count("corpus/outside");
                }
            }
        }
        // ---- random statements and scripts
        let nrand = if thorough { 10000 } else { 1500 };
        for n in 0..nrand {
            let q = rand_script(&mut rng);
            let tc = rng.chance(1, 2);
            if let Some(toks) = s.sql(dn, d, tc, lim, &q, "random") {
                if n % 4 == 0 && toks.len() > 1 {
                    let i = rng.below(toks.len());
                    let j = rng.below(toks.len());
                    let mut t = toks.clone();
                    t.swap(i, j);
                    s.emit(dn, d, tc, lim, &t, "random.swapped");
                    let mut t = toks.clone();
                    t.remove(i);
                    s.emit(dn, d, tc, lim, &t, "random.dropped");
                    s.emit(dn, d, tc, lim, &toks[..i], "random.truncated");
                    let mut t = toks.clone();
                    t.insert(j, toks[j].clone());
                    s.emit(dn, d, tc, lim, &t, "random.duplicated");
                    let small = 2 + rng.below(7);
                    s.emit(dn, d, tc, small, &toks, "random.limit");
                }
            }
        }
    }
    let distinct = s.distinct.len() as u64;
    s.req.flush().unwrap();
    s.real.flush().unwrap();
    if let Some(t) = &mut s.txt {
        t.flush().unwrap();
    }
    drop(s);
    r.distinct_nontrivial = distinct;
    r
}

//! C19: CREATE TABLE builder round trip and setter locality on the real code.
use crate::common::*;
use sqlparser::ast::helpers::stmt_create_table::CreateTableBuilder;
use sqlparser::ast::{CreateTable, Statement};
use std::collections::BTreeSet;
include!(concat!(env!("OUT_DIR"), "/builder_setters.rs"));

/// Extra CREATE TABLE texts so that every option of every dialect is exercised beyond the corpus.
const EXTRA: &[&str] = &[
    "CREATE OR REPLACE TEMPORARY TABLE t (a INT)",
    "CREATE GLOBAL TEMPORARY TABLE t (a INT) ON COMMIT DELETE ROWS",
    "CREATE LOCAL TEMPORARY TABLE IF NOT EXISTS t (a INT)",
    "CREATE TRANSIENT TABLE t (a INT)",
    "CREATE VOLATILE TABLE t (a INT)",
    "CREATE TABLE t (a INT) WITHOUT ROWID",
    "CREATE TABLE t (a INT) STRICT",
    "CREATE TABLE t LIKE u",
    "CREATE TABLE t CLONE u",
    "CREATE TABLE t (a INT) ENGINE=InnoDB AUTO_INCREMENT=5 DEFAULT CHARSET=utf8 COLLATE=utf8_bin COMMENT 'c'",
    "CREATE TABLE t (a INT) AS SELECT 1",
    "CREATE TABLE t (a INT) ON CLUSTER c ENGINE=MergeTree ORDER BY (a) PRIMARY KEY (a)",
    "CREATE TABLE t (a INT) ENGINE=MergeTree PRIMARY KEY (a)",
    "CREATE TABLE t (a INT) ENGINE=MergeTree PRIMARY KEY a ORDER BY a",
    "CREATE TABLE t (a INT) PARTITION BY a CLUSTER BY a, b OPTIONS(description = 'x')",
    "CREATE TABLE t (a INT) COPY GRANTS CHANGE_TRACKING=TRUE DATA_RETENTION_TIME_IN_DAYS=1 MAX_DATA_EXTENSION_TIME_IN_DAYS=2 DEFAULT_DDL_COLLATION='de' ENABLE_SCHEMA_EVOLUTION=TRUE",
    "CREATE TABLE t (a INT) WITH AGGREGATION POLICY p WITH ROW ACCESS POLICY r ON (a) WITH TAG (k='v')",
    "CREATE TABLE t (a INT) CLUSTERED BY (a) SORTED BY (a ASC) INTO 4 BUCKETS",
    "CREATE EXTERNAL TABLE t (a INT) STORED AS TEXTFILE LOCATION '/x'",
    "CREATE TABLE t (a INT) PARTITIONED BY (b INT) ROW FORMAT DELIMITED STORED AS ORC TBLPROPERTIES ('k' = 'v')",
    "CREATE TABLE t (a INT, CONSTRAINT pk PRIMARY KEY (a)) WITH (fillfactor = 70)",
];

pub fn oracle(c: &Corpus, _seed: u64, _tier: &str) -> Vec<Report> {
    let ds = all_dialects();
    let o = Opts::DEFAULT;
    let mut r = Report::new("C19", "oracle.builder-roundtrip", "every statement of every accepted corpus text (+ option-rich extra CREATE TABLE texts) x dialect: CREATE TABLE -> try_from -> build == original; any other kind -> Err without panic; non-trivial = distinct CREATE TABLE statements (by Debug)");
    r.exhaustive = true;
    let mut tables: Vec<CreateTable> = vec![];
    let mut seen = BTreeSet::new();
    let mut texts: Vec<(String, usize)> = c.accepted.iter().map(|&(i, k)| (c.literals[i].clone(), k)).collect();
    for e in EXTRA {
        for k in 0..ds.len() {
            texts.push((e.to_string(), k));
        }
    }
    for (s, k) in &texts {
        let (dn, d) = (&ds[*k].0, ds[*k].1.as_ref());
        let v = match parse(d, o, s) { G::Val(Ok(v)) => v, _ => continue };
        for st in v {
            r.evaluations += 1;
            let is_ct = matches!(st, Statement::CreateTable(_));
            let st2 = st.clone();
            match guard(move || CreateTableBuilder::try_from(st2).map(|b| b.build())) {
                G::Val(Ok(back)) => {
                    if !is_ct {
                        r.fail(format!("{}/accepted-by-builder", variant_of(&st)), dn, o, s, String::new());
                    } else if back != st {
                        r.fail("CreateTable/roundtrip-differs".into(), dn, o, s, format!("orig={} back={}", trunc(&format!("{st:?}"), 250), trunc(&format!("{back:?}"), 250)));
                    } else {
                        r.count("roundtrip-ok");
                        if let Statement::CreateTable(ct) = &st {
                            if seen.insert(format!("{ct:?}")) {
                                tables.push(ct.clone());
                            }
                        }
                    }
                }
                G::Val(Err(_)) => {
                    if is_ct {
                        r.fail("CreateTable/builder-rejects".into(), dn, o, s, String::new());
                    } else {
                        r.count("other-kind-err");
                    }
                }
                G::Panic(m) => r.panic(dn, o, s, m),
            }
        }
    }
    // other statement kinds of every length, with multi-byte characters at every offset of the text
    for k in (0..600).step_by(1) {
        let sql = format!("SELECT '{}{}'", "a".repeat(k), "é𝒳é中");
        let d = sqlparser::dialect::GenericDialect {};
        if let G::Val(Ok(v)) = parse(&d, o, &sql) {
            for st in v {
                r.evaluations += 1;
                match guard(move || CreateTableBuilder::try_from(st).map(|b| b.build())) {
                    G::Val(Err(_)) => r.count("other-kind-err"),
                    G::Val(Ok(_)) => r.fail("Query/accepted-by-builder".into(), "generic", o, &sql, String::new()),
                    G::Panic(m) => r.panic("generic", o, &sql, m),
                }
            }
        }
    }
    // hand-built statements (AST-first generator, every Statement variant with random field
    // combinations the parser may never produce): try_from must answer, never panic — its error
    // path formats the rejected statement
    if std::path::Path::new(&format!("{}/schema.json", gen_dir())).exists() {
        let mut g = crate::astgen::AstGen::load();
        g.realistic = true;
        g.strict = true;
        let mut errs = vec![];
        for st in g.statements(3000, 777, &mut errs) {
            r.evaluations += 1;
            let is_ct = matches!(st, Statement::CreateTable(_));
            let label = format!("generated {}", variant_of(&st));
            // only statements whose own Display is defined (a panic there is C02's, not the builder's)
            let st2 = st.clone();
            match guard(move || CreateTableBuilder::try_from(st2).map(|b| b.build())) {
                G::Val(Ok(back)) => { if !is_ct { r.fail(format!("{}/accepted-by-builder", variant_of(&st)), "generic", o, &label, String::new()); } else if back != st { r.fail("CreateTable/roundtrip-differs".into(), "generic", o, &label, String::new()); } else { r.count("generated-roundtrip-ok"); } }
                G::Val(Err(_)) => { if is_ct { r.fail("CreateTable/builder-rejects".into(), "generic", o, &label, String::new()); } else { r.count("generated-other-kind-err"); } }
                G::Panic(m) => r.panic("generic", o, &format!("{label}: {}", trunc(&format!("{st:?}"), 6000)), m),
            }
        }
    }
    r.distinct_nontrivial = tables.len() as u64;
    if let Some(t) = tables.first() { r.sample(serde_json::json!({"create_table": Statement::CreateTable(t.clone()).to_string()})); }

    // setters: apply every setter with the field value of a *different* statement
    let mut r2 = Report::new("C19", "oracle.setters", "every generated setter closure x pairs (s1, s2) of distinct parsed CREATE TABLE statements: try_from(s1).setter(s2.field).build() == s1 with exactly that field replaced; non-trivial = (setter, pair) where s1.field != s2.field");
    let cases = setter_cases();
    let mut nontrivial = 0u64;
    let n = tables.len();
    for sc in &cases {
        let mut hits = 0;
        for i in 0..n {
            // pair with a few partners: next ones and a far one
            for j in [(i + 1) % n, (i + 7) % n, (i * 31 + 11) % n] {
                if i == j { continue; }
                let (s1, s2) = (&tables[i], &tables[j]);
                let mut expect = s1.clone();
                (sc.expect)(&mut expect, s2);
                if expect == *s1 && hits > 3 { continue; }
                r2.evaluations += 1;
                if expect != *s1 { nontrivial += 1; hits += 1; }
                let s1c = s1.clone();
                let got = guard(|| CreateTableBuilder::try_from(Statement::CreateTable(s1c)).map(|b| (sc.apply)(b, s2).build()));
                match got {
                    G::Val(Ok(Statement::CreateTable(g))) => {
                        if g != expect {
                            r2.fail(format!("setter/{}/wrong-field", sc.name), "-", o, &Statement::CreateTable(s1.clone()).to_string(), format!("partner={}", trunc(&Statement::CreateTable(s2.clone()).to_string(), 200)));
                        }
                    }
                    G::Val(_) => r2.fail(format!("setter/{}/not-a-create-table", sc.name), "-", o, "", String::new()),
                    G::Panic(m) => r2.panic("-", o, sc.name, m),
                }
            }
        }
        if hits == 0 { r2.count(&format!("setter-never-distinguished/{}", sc.name)); }
    }
    for s in SETTERS_NOT_GENERATED { r2.count(&format!("setter-not-generated/{s}")); }
    r2.distinct_nontrivial = nontrivial;
    r2.sample(serde_json::json!({"setters": cases.iter().map(|c| c.name).collect::<Vec<_>>() }));
    vec![r, r2]
}

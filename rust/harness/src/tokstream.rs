//! Correspondence stream `tok`: the real `Tokenizer::tokenize_with_location` against the Lean
//! tokenizer model (`lean/SqlVerif/Model/Tokenizer.lean`, driver op `tok`).
//!
//! Request: `tok \t dialect \t unescape \t hex text \t char table`.  The char table carries, for
//! every distinct character of the text, the answers of the real Unicode predicates and of the
//! real dialect object (`cp=bits=upper`, see `Driver/Tok.lean`), so the model never re-implements
//! Unicode tables or the 13 dialect files.
//! Answer: `OK <toks_canon>` | `ERR:lex:<hex message>@line:col` | `PANIC:<site>`.
use crate::canon::{tok_variant, toks_canon};
use crate::common::*;
use sqlparser::dialect::Dialect;
use sqlparser::tokenizer::{Token, Whitespace};
use std::collections::{BTreeMap, BTreeSet};
use std::io::{BufWriter, Write};

/// every operator spelling of `impl Display for Token`, plus PostgreSQL custom-operator material
const OPERATORS: &[&str] = &[
    "=", "==", "=>", "<>", "!=", "<", ">", "<=", ">=", "<=>", "+", "-", "*", "/", "//", "%", "||", "(", ")", ".", ":", "::", ":=",
    ";", "\\", "[", "]", "&", "|", "^", "{", "}", "#", "~", "~*", "!~", "!~*", "~~", "~~*", "!~~", "!~~*", "<<", ">>", "&&", "!",
    "!!", "@", "^@", "|/", "||/", "?", "->", "->>", "#>", "#>>", "@>", "<@", "#-", "@?", "@@", "?&", "?|", ",", "<->", "+*", "`",
];
const OPENERS: &[&str] = &[
    "'", "\"", "N'", "X'", "E'", "e'", "U&'", "u&'", "U&", "B'", "b'", "R'", "r\"", "b\"", "'''", "\"\"\"", "''", "\"\"", "$$", "$tag$", "$a$",
    "$ab$", "$a", "$ab", "$1", "$", "$_", "--", "/*", "*/", "/*/", "-- c\n", "/* c */",
    // complete literals, so that the success paths are followed by every other fragment
    "'a''b'", "'a\\'b'", "\"a\"\"b\"", "`a``b`", "[a b]", "'''a'b'''", "\"\"\"a\"\"b\"\"\"", "U&'\\0041'", "E'\\n'", "$a$x$a$", "$$x$y$$", "N'a'", "x'1F'",
];
const NUMBERS: &[&str] = &[
    "0", "1", "42", "1e", "1e+", "1e5", "1E-3", "1.", ".5", "1.e5", "0x1F", "0x", "0xg", "1L", "1.5L", "12abc", "1_a", "..", "1.2.3", "٣", "²",
];
const LAYOUT: &[&str] = &[" ", "\t", "\n", "\r", "\r\n", "\u{a0}", "\u{3000}", "\u{b}", "\u{85}", "\u{2028}"];
const WORDS: &[&str] = &[
    "a", "SELECT", "select", "ſelect", "_x", "a@b", "a#b", "a$b", "@v", "@@g", "#t", "é", "日本", "𝒳", "L", "e", "E", "eL", "N", "x", "u", "U", "b",
    "r", "B", "R", "n", "ß", "ǆ", "%x", "a-b",
];
const ESCAPES: &[&str] = &[
    "\\'", "\\\\", "\\n", "\\x41", "\\x", "\\xg", "\\101", "\\0", "\\400", "\\8", "\\u0041", "\\u+041", "\\u-041", "\\U00000041", "\\UFFFFFFFF",
    "\\uD800", "\\u000", "\\+000041", "\\+110000", "\\+00D800", "\\+00004", "\\0041", "\\00g1", "\\004", "\\Z", "\\%", "\\\"", "\\b", "\\a",
];
const OTHER: &[&str] = &["€", "\u{0}", "\u{7f}", "§", "\u{feff}", "\u{200b}", "\u{2029}", "\u{1680}", "\u{fffd}", "\u{1a}"];

fn fragments() -> Vec<&'static str> {
    let mut v: Vec<&'static str> = vec![];
    for g in [OPERATORS, OPENERS, NUMBERS, LAYOUT, WORDS, ESCAPES, OTHER] {
        v.extend_from_slice(g);
    }
    let mut seen = BTreeSet::new();
    v.retain(|s| seen.insert(*s));
    v
}

/// `cp=bits=upper` for every distinct character of `text`
pub fn char_table(d: &dyn Dialect, text: &str) -> String {
    let set: BTreeSet<char> = text.chars().collect();
    if set.is_empty() {
        return "-".into();
    }
    set.iter()
        .map(|&c| {
            let bits = (c.is_whitespace() as u32)
                | (c.is_alphabetic() as u32) << 1
                | (c.is_numeric() as u32) << 2
                | (c.is_alphanumeric() as u32) << 3
                | (d.is_identifier_start(c) as u32) << 4
                | (d.is_identifier_part(c) as u32) << 5
                | (d.is_delimited_identifier_start(c) as u32) << 6
                | (d.is_custom_operator_part(c) as u32) << 7;
            let up = format!("{:x}", c.to_ascii_uppercase() as u32); // make_word upper-cases with ASCII rules
            format!("{:x}={}={}", c as u32, bits, up)
        })
        .collect::<Vec<_>>()
        .join(",")
}

fn token_class(t: &Token) -> String {
    match t {
        Token::Whitespace(w) => match w {
            Whitespace::Space => "tok/WS:Space".into(),
            Whitespace::Newline => "tok/WS:Newline".into(),
            Whitespace::Tab => "tok/WS:Tab".into(),
            Whitespace::SingleLineComment { prefix, .. } => format!("tok/WS:SLC{prefix}"),
            Whitespace::MultiLineComment(_) => "tok/WS:MLC".into(),
        },
        Token::Word(w) => match (w.quote_style, w.keyword != sqlparser::keywords::Keyword::NoKeyword) {
            (Some(q), _) => format!("tok/Word:quoted{q}"),
            (None, true) => "tok/Word:keyword".into(),
            (None, false) => "tok/Word:plain".into(),
        },
        Token::Number(_, l) => format!("tok/Number:{}", *l as u8),
        Token::DollarQuotedString(d) => format!("tok/DollarQuotedString:{}", if d.tag.is_some() { "tagged" } else { "untagged" }),
        other => format!("tok/{}", tok_variant(other)),
    }
}

fn error_class(msg: &str) -> String {
    let head: String = msg.split(|c| c == ':' || c == '\'').next().unwrap_or("").trim().to_string();
    format!("err/{head}")
}

pub fn corr(dir: &str, seed: u64, tier: &str) -> Report {
    let mut r = Report::new(
        "C09",
        "corr.tok",
        "tokenize_with_location (tokens, locations, error values) of the real crate vs the Lean model: every corpus literal under rotating dialects x both unescape modes; fragment soup (operators, quote/prefix/dollar/comment openers, numbers, exponents, all whitespace kinds, identifiers with @ # $ _, non-ASCII and astral characters, backslash escapes): every single fragment x 13 dialects x 2 modes, all ordered pairs (adjacent and one space apart), random concatenations of 3-8 fragments; non-trivial = distinct answer lines",
    );
    let thorough = tier == "thorough";
    let mut rng = Rng(seed ^ 0x70C0);
    let ds = all_dialects();
    let nd = ds.len();
    let frs = fragments();
    // (text, dialect index, unescape)
    let mut inputs: Vec<(String, usize, bool)> = vec![];

    // (a) corpus literals, rotating dialects (all 13 over the run), both modes
    let corpus = load_corpus();
    let per_lit = if thorough { nd } else { 1 };
    for (i, s) in corpus.literals.iter().enumerate() {
        let base = rng.below(nd);
        for k in 0..per_lit {
            let di = (base + i + k * 4) % nd;
            for un in [true, false] {
                inputs.push((s.clone(), di, un));
            }
        }
    }
    let n_corpus = inputs.len();

    // (b1) every fragment alone, every dialect, both modes; the empty text too
    for (di, _) in ds.iter().enumerate() {
        inputs.push((String::new(), di, true));
        for f in &frs {
            for un in [true, false] {
                inputs.push((f.to_string(), di, un));
            }
        }
    }
    // (b2) all ordered pairs, adjacent and one space apart
    for a in &frs {
        for b in &frs {
            for sep in ["", " "] {
                let text = format!("{a}{sep}{b}");
                if thorough && sep.is_empty() {
                    for di in 0..nd {
                        inputs.push((text.clone(), di, rng.chance(1, 2)));
                    }
                } else {
                    let reps = if thorough { 4 } else { 1 };
                    for _ in 0..reps {
                        inputs.push((text.clone(), rng.below(nd), rng.chance(1, 2)));
                    }
                }
            }
        }
    }
    // (b4) literal grid: prefix x quote x body x (closed | unclosed); generic, bigquery and one
    //      more dialect per text (quick) or all 13 (thorough)
    let prefixes = ["", "b", "B", "r", "R", "N", "n", "X", "x", "E", "e", "U&", "u&"];
    let quotes = ["'", "\"", "'''", "\"\"\"", "`"];
    let mut bodies: Vec<&str> = ESCAPES.to_vec();
    bodies.extend_from_slice(&["", "a", "''", "\"\"", "'", "\"", "a''b", "\n", "é𝒳", "\\", "''''", "a\"\"\"\"b", "``"]);
    for p in prefixes {
        for q in quotes {
            for b in &bodies {
                for closed in [true, false] {
                    let text = format!("{p}{q}{b}{}{}", if closed { q } else { "" }, if rng.chance(1, 3) { "x" } else { "" });
                    let mut dis: Vec<usize> = if thorough { (0..nd).collect() } else { vec![0, 2, rng.below(nd)] };
                    dis.dedup();
                    for di in dis {
                        inputs.push((text.clone(), di, rng.chance(1, 2)));
                    }
                }
            }
        }
    }
    // (b5) dollar-quote grid: tag x body x closer
    for tag in ["", "a", "ab", "_1", "é"] {
        for body in ["", "x", "$", "$a", "$a$", "$ab", "x$a$y", "$$", "a$", "$ab$", "\n", "$é", "x$a$ab$", "$$$", "x$a", "x$abc"] {
            for closer in [format!("${tag}$"), String::new(), format!("${tag}"), "$".to_string()] {
                let text = format!("${tag}${body}{closer}{}", if rng.chance(1, 3) { " z" } else { "" });
                let n = if thorough { 6 } else { 2 };
                for _ in 0..n {
                    inputs.push((text.clone(), rng.below(nd), rng.chance(1, 2)));
                }
            }
        }
    }
    // (b6) nested comments and multi-line locations
    for a in ["/*", "/*/", "/**/", "/* /* */", "/*\n*/", "/* a */ */", "/*/*/*/", "--\n", "--", "-- é\r\n", "//x\n", "#x\n"] {
        for b in ["", "*/", "/", "*", "\n", "a", "*/*/", " */ x"] {
            for _ in 0..(if thorough { 6 } else { 2 }) {
                inputs.push((format!("{a}{b}"), rng.below(nd), rng.chance(1, 2)));
            }
        }
    }
    // (b3) random concatenations of 3-8 fragments
    let n_rand = if thorough { 120_000 } else { 12_000 };
    for _ in 0..n_rand {
        let n = 3 + rng.below(6);
        let mut text = String::new();
        for _ in 0..n {
            text.push_str(frs[rng.below(frs.len())]);
            if rng.chance(1, 5) {
                text.push(' ');
            }
        }
        inputs.push((text, rng.below(nd), rng.chance(1, 2)));
    }
    r.dist.insert("inputs/corpus".into(), n_corpus as u64);
    r.dist.insert("inputs/fragments".into(), frs.len() as u64);
    r.dist.insert("inputs/soup".into(), (inputs.len() - n_corpus) as u64);

    let mut req = BufWriter::new(std::fs::File::create(format!("{dir}/tok.req")).unwrap());
    let mut real = BufWriter::new(std::fs::File::create(format!("{dir}/tok.real")).unwrap());
    let mut distinct = BTreeSet::new();
    let mut per_dialect: BTreeMap<&str, u64> = BTreeMap::new();
    for (text, di, un) in &inputs {
        let (dn, d) = (ds[*di].0, ds[*di].1.as_ref());
        writeln!(req, "tok\t{}\t{}\t{}\t{}", dn, *un as u8, hex(text), char_table(d, text)).unwrap();
        let mut classes: BTreeSet<String> = BTreeSet::new();
        let ans = match tokenize(d, *un, text) {
            G::Val(Ok(ts)) => {
                for t in &ts {
                    classes.insert(token_class(&t.token));
                }
                if ts.is_empty() {
                    classes.insert("tok/(none)".into());
                }
                format!("OK {}", toks_canon(&ts))
            }
            G::Val(Err(e)) => {
                classes.insert(error_class(&e.message));
                format!("ERR:lex:{}@{}:{}", hex(&e.message), e.location.line, e.location.column)
            }
            G::Panic(m) => {
                let site = m.split(": ").next().unwrap_or("").to_string();
                r.panic(dn, Opts { unescape: *un, trailing: None, limit: None }, text, m.clone());
                format!("PANIC:{site}")
            }
        };
        for c in classes {
            r.count(&c);
        }
        *per_dialect.entry(dn).or_insert(0) += 1;
        writeln!(real, "{ans}").unwrap();
        r.evaluations += 1;
        if r.evaluations % 9973 == 11 {
            r.sample(serde_json::json!({"dialect": dn, "unescape": un, "text": text, "answer": trunc(&ans, 300)}));
        }
        distinct.insert(ans);
    }
    for (k, v) in per_dialect {
        r.dist.insert(format!("dialect/{k}"), v);
    }
    r.distinct_nontrivial = distinct.len() as u64;
    r
}

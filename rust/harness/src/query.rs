//! Stream `queries` (properties C01 / C05 / C11 / C13 on the modelled QUERY fragment):
//! token list -> `parse_statements()` under (dialect, trailing_commas, recursion limit) -> canonical
//! S-expression of every statement (or UNSUPPORTED when a tree leaves the fragment of
//! `lean/SqlVerif/Model/Query.lean`) and the `to_string()` text; errors as classes.
use crate::c04::{expr_sexp, hx, lex_nows};
use crate::canon::toks_canon_noloc;
use crate::common::*;
use sqlparser::ast::*;
use sqlparser::dialect::Dialect;
use sqlparser::parser::{Parser, ParserError, ParserOptions};
use sqlparser::tokenizer::Token;
use std::collections::BTreeSet;
use std::io::Write;

// ---------------------------------------------------------------- S-expressions
fn id_sexp(i: &Ident) -> String {
    format!("(id {} {})", hx(&i.value), i.quote_style.map(|c| format!("{:x}", c as u32)).unwrap_or("-".into()))
}

fn ids_sexp(v: &[Ident]) -> String {
    v.iter().map(|i| format!(" {}", id_sexp(i))).collect()
}

fn alias_sexp(a: &Option<TableAlias>) -> Option<String> {
    match a {
        None => Some("none".into()),
        Some(TableAlias { name, columns, .. }) if columns.is_empty() => Some(id_sexp(name)),
        _ => None,
    }
}

fn item_sexp(i: &SelectItem) -> Option<String> {
    let plain = WildcardAdditionalOptions::default();
    Some(match i {
        SelectItem::UnnamedExpr(e) => format!("(item {})", expr_sexp(e)?),
        SelectItem::ExprWithAlias { expr, alias, .. } => format!("(as {} {})", expr_sexp(expr)?, id_sexp(alias)),
        SelectItem::Wildcard(o) if *o == plain => "(star)".into(),
        SelectItem::QualifiedWildcard(n, o) if *o == plain => format!("(qstar{})", ids_sexp(&n.0)),
        _ => return None,
    })
}

fn factor_sexp(f: &TableFactor) -> Option<String> {
    Some(match f {
        TableFactor::Table { name, alias, args: None, with_hints, version: None, partitions, with_ordinality: false, .. }
            if with_hints.is_empty() && partitions.is_empty() =>
        {
            format!("(table (name{}) {})", ids_sexp(&name.0), alias_sexp(alias)?)
        }
        TableFactor::Derived { lateral: false, subquery, alias, .. } => format!("(derived {} {})", query_sexp(subquery)?, alias_sexp(alias)?),
        _ => return None,
    })
}

fn cstr_sexp(c: &JoinConstraint) -> Option<String> {
    Some(match c {
        JoinConstraint::On(e) => format!("(on {})", expr_sexp(e)?),
        JoinConstraint::Using(v) => format!("(using{})", ids_sexp(v)),
        JoinConstraint::None => "(none)".into(),
        JoinConstraint::Natural => return None,
    })
}

fn join_sexp(j: &Join) -> Option<String> {
    if j.global {
        return None;
    }
    let (k, c) = match &j.join_operator {
        JoinOperator::Inner(c) => ("Inner", cstr_sexp(c)?),
        JoinOperator::LeftOuter(c) => ("LeftOuter", cstr_sexp(c)?),
        JoinOperator::RightOuter(c) => ("RightOuter", cstr_sexp(c)?),
        JoinOperator::FullOuter(c) => ("FullOuter", cstr_sexp(c)?),
        JoinOperator::CrossJoin => ("CrossJoin", "(none)".to_string()),
        _ => return None,
    };
    Some(format!("(join {k} {} {c})", factor_sexp(&j.relation)?))
}

fn opt_expr(e: &Option<Expr>) -> Option<String> {
    match e {
        Some(e) => expr_sexp(e),
        None => Some("none".into()),
    }
}

fn select_sexp(s: &Select) -> Option<String> {
    if s.top.is_some()
        || s.into.is_some()
        || !s.lateral_views.is_empty()
        || s.prewhere.is_some()
        || !s.cluster_by.is_empty()
        || !s.distribute_by.is_empty()
        || !s.sort_by.is_empty()
        || !s.named_window.is_empty()
        || s.qualify.is_some()
        || s.value_table_mode.is_some()
        || s.connect_by.is_some()
    {
        return None;
    }
    let distinct = match &s.distinct {
        None => 0,
        Some(Distinct::Distinct) => 1,
        Some(Distinct::On(_)) => return None,
    };
    let mut out = format!("(select {distinct} (proj");
    for i in &s.projection {
        out.push(' ');
        out.push_str(&item_sexp(i)?);
    }
    out.push_str(") (from");
    for t in &s.from {
        out.push_str(" (twj ");
        out.push_str(&factor_sexp(&t.relation)?);
        for j in &t.joins {
            out.push(' ');
            out.push_str(&join_sexp(j)?);
        }
        out.push(')');
    }
    out.push_str(&format!(") (where {}) (group", opt_expr(&s.selection)?));
    match &s.group_by {
        GroupByExpr::Expressions(es, mods) if mods.is_empty() => {
            for e in es {
                out.push(' ');
                out.push_str(&expr_sexp(e)?);
            }
        }
        _ => return None,
    }
    out.push_str(&format!(") (having {}))", opt_expr(&s.having)?));
    Some(out)
}

fn body_sexp(b: &SetExpr) -> Option<String> {
    Some(match b {
        SetExpr::Select(s) => select_sexp(s)?,
        SetExpr::Query(q) => format!("(paren {})", query_sexp(q)?),
        SetExpr::SetOperation { op, set_quantifier, left, right, .. } => {
            let o = match op {
                SetOperator::Union => "union",
                SetOperator::Except => "except",
                SetOperator::Intersect => "intersect",
            };
            let q = match set_quantifier {
                SetQuantifier::All => "all",
                SetQuantifier::Distinct => "distinct",
                SetQuantifier::ByName => "byName",
                SetQuantifier::AllByName => "allByName",
                SetQuantifier::DistinctByName => "distinctByName",
                SetQuantifier::None => "none",
            };
            format!("(setop {o} {q} {} {})", body_sexp(left)?, body_sexp(right)?)
        }
        _ => return None,
    })
}

pub fn query_sexp(q: &Query) -> Option<String> {
    if q.with.is_some()
        || !q.limit_by.is_empty()
        || q.fetch.is_some()
        || !q.locks.is_empty()
        || q.for_clause.is_some()
        || q.settings.is_some()
        || q.format_clause.is_some()
    {
        return None;
    }
    let mut out = format!("(query {} (order", body_sexp(&q.body)?);
    if let Some(ob) = &q.order_by {
        if ob.interpolate.is_some() {
            return None;
        }
        for e in &ob.exprs {
            if e.with_fill.is_some() {
                return None;
            }
            out.push_str(&format!(
                " (ob {} {} {})",
                expr_sexp(&e.expr)?,
                match e.asc { Some(true) => "asc", Some(false) => "desc", None => "none" },
                match e.nulls_first { Some(true) => "first", Some(false) => "last", None => "none" }
            ));
        }
    }
    out.push_str(&format!(") (limit {}) (offset ", opt_expr(&q.limit)?));
    match &q.offset {
        None => out.push_str("none"),
        Some(o) => out.push_str(&format!("({} {:?})", expr_sexp(&o.value)?, o.rows)),
    }
    out.push_str("))");
    Some(out)
}

// ---------------------------------------------------------------- the real side
pub fn real_queries(d: &dyn Dialect, tc: bool, limit: usize, toks: &[Token]) -> String {
    match guard(|| {
        Parser::new(d)
            .with_options(ParserOptions::new().with_trailing_commas(tc))
            .with_recursion_limit(limit)
            .with_tokens(toks.to_vec())
            .parse_statements()
    }) {
        G::Val(Ok(stmts)) => {
            let mut sexps = vec![];
            for s in &stmts {
                match s {
                    Statement::Query(q) => match query_sexp(q) {
                        Some(x) => sexps.push(x),
                        None => return "UNSUPPORTED".into(),
                    },
                    _ => return "UNSUPPORTED".into(),
                }
            }
            match guard(|| stmts.iter().map(|s| s.to_string()).collect::<Vec<_>>().join("; ")) {
                G::Val(t) => format!("OK {} TEXT {}", sexps.join(";"), hex(&t)),
                G::Panic(m) => format!("PANIC display {m}"),
            }
        }
        G::Val(Err(ParserError::RecursionLimitExceeded)) => "ERR:rle".into(),
        G::Val(Err(_)) => "ERR:syntax".into(),
        G::Panic(m) => format!("PANIC {m}"),
    }
}

struct St<'a> {
    req: std::io::BufWriter<std::fs::File>,
    real: std::io::BufWriter<std::fs::File>,
    r: &'a mut Report,
    distinct: BTreeSet<u64>,
    seen: BTreeSet<u64>,
}

fn fnv(s: &str) -> u64 {
    let mut h = 0xcbf29ce484222325u64;
    for b in s.bytes() {
        h ^= b as u64;
        h = h.wrapping_mul(0x100000001b3);
    }
    h
}

impl<'a> St<'a> {
    fn emit(&mut self, dn: &str, d: &dyn Dialect, tc: bool, limit: usize, toks: &[Token], class: &str) -> String {
        let line = format!("queries\t{dn}\t{}\t{limit}\t{}", tc as u8, toks_canon_noloc(toks));
        if !self.seen.insert(fnv(&line)) {
            return String::new();
        }
        let ans = real_queries(d, tc, limit, toks);
        writeln!(self.req, "{line}").unwrap();
        writeln!(self.real, "{ans}").unwrap();
        self.r.evaluations += 1;
        self.r.count(&format!("class/{class}"));
        let k = if ans.starts_with("OK") {
            "ok"
        } else if ans.starts_with("ERR:rle") {
            "err.rle"
        } else if ans.starts_with("ERR") {
            "err.syntax"
        } else if ans.starts_with("UNSUPPORTED") {
            "unsupported"
        } else {
            "panic"
        };
        self.r.count(&format!("answer/{k}"));
        self.r.count(&format!("answer.{class}/{k}"));
        if k == "panic" {
            self.r.panic(dn, Opts::DEFAULT, &line, ans.clone());
        }
        if k == "ok" {
            // C01 on the real code, inside the fragment: does the printed text parse back to the same trees?
            let opts = ParserOptions::new().with_trailing_commas(tc);
            if let G::Val(Ok(stmts)) = guard(|| Parser::new(d).with_options(opts.clone()).with_recursion_limit(limit).with_tokens(toks.to_vec()).parse_statements()) {
                let text = stmts.iter().map(|s| s.to_string()).collect::<Vec<_>>().join("; ");
                let back = guard(|| Parser::new(d).with_options(opts.clone()).with_recursion_limit(limit.max(50)).try_with_sql(&text).and_then(|mut p| p.parse_statements()));
                let verdict = match back {
                    G::Val(Ok(again)) if again == stmts => "same",
                    G::Val(Ok(_)) => "different-tree",
                    G::Val(Err(_)) => "rejected",
                    G::Panic(_) => "panic",
                };
                self.r.count(&format!("reparse/{verdict}"));
                if verdict != "same" {
                    let n = self.r.dist.keys().filter(|k| k.starts_with("reparse.example/")).count();
                    if n < 12 {
                        self.r.count(&format!("reparse.example/{dn}/{verdict}/{}", trunc(&text, 700)));
                    }
                }
            }
            for h in ["(select ", "(paren ", "(setop ", "(join ", "(derived ", "(as ", "(star)", "(qstar", "(ob ", "(using", "(on "] {
                let c = ans.matches(h).count() as u64;
                if c > 0 {
                    *self.r.dist.entry(format!("node/{}", h.trim_matches(|c| c == '(' || c == ' ' || c == ')'))).or_insert(0) += c;
                }
            }
        }
        self.distinct.insert(fnv(&format!("{dn}{}", ans.split(" TEXT ").next().unwrap_or(""))));
        if self.r.evaluations % 30011 == 17 {
            self.r.sample(serde_json::json!({"dialect": dn, "tc": tc, "limit": limit, "tokens": toks.iter().map(|t| t.to_string()).collect::<Vec<_>>().join(" "), "answer": trunc(&ans, 300)}));
        }
        ans
    }
    fn sql(&mut self, dn: &str, d: &dyn Dialect, tc: bool, limit: usize, sql: &str, class: &str) -> Option<Vec<Token>> {
        let t = lex_nows(d, sql)?;
        self.emit(dn, d, tc, limit, &t, class);
        Some(t)
    }
    /// both option values
    fn sql2(&mut self, dn: &str, d: &dyn Dialect, limit: usize, sql: &str, class: &str) -> Option<Vec<Token>> {
        let t = lex_nows(d, sql)?;
        self.emit(dn, d, false, limit, &t, class);
        self.emit(dn, d, true, limit, &t, class);
        Some(t)
    }
}

/// all sequences without repetition of at most `k` of `n` indices
fn arrangements(n: usize, k: usize) -> Vec<Vec<usize>> {
    let mut out = vec![vec![]];
    let mut frontier = vec![vec![]];
    for _ in 0..k {
        let mut next = vec![];
        for p in &frontier {
            for i in 0..n {
                if !p.contains(&i) {
                    let mut q: Vec<usize> = p.clone();
                    q.push(i);
                    next.push(q);
                }
            }
        }
        out.extend(next.iter().cloned());
        frontier = next;
    }
    out
}

const ITEMS: &[&str] = &[
    "a", "a AS x", "a x", "a AS select", "a AS from", "a window", "a 'lit'", "a \"dq\"", "a AS 'lit'", "*", "t.*", "s.t.*", "t.a", "a + 1", "a = b AND c",
    "NOT a", "(a)", "a IS NULL", "1", "'s'", "a IN (1, 2) y", "a BETWEEN 1 AND 2", "x.y.z AS w", "a::INT i",
];

const FROMS: &[&str] = &[
    "", "FROM t", "FROM t AS u", "FROM t u", "FROM s.t", "FROM s.t AS u", "FROM t, u", "FROM t v, u AS w", "FROM t, u, v", "FROM \"T\" \"U\"", "FROM t 'u'",
    "FROM (SELECT 1) AS d", "FROM (SELECT a FROM t) d", "FROM (SELECT 1 UNION SELECT 2) x", "FROM (SELECT 1)", "FROM t, (SELECT 2) AS e",
    "FROM (SELECT * FROM (SELECT 1) a) b", "FROM t AS outer", "FROM t outer", "FROM t format", "FROM t AS left", "FROM t1 t2 t3",
];

const JOINS: &[&str] = &["JOIN", "INNER JOIN", "LEFT JOIN", "LEFT OUTER JOIN", "RIGHT JOIN", "RIGHT OUTER JOIN", "FULL JOIN", "FULL OUTER JOIN", "CROSS JOIN"];
const CSTRS: &[&str] = &["", "ON t.a = u.a", "USING (a)", "USING (a, b)", "AS x ON t.a = x.a", "y USING (\"C\")", "ON a AND b"];

const CLAUSES: &[&str] = &["WHERE a > 1", "GROUP BY a, b", "HAVING c", "ORDER BY a DESC, b NULLS FIRST", "LIMIT 3", "OFFSET 2 ROWS"];

const TAILS: &[&str] = &[
    "ORDER BY a", "ORDER BY a ASC", "ORDER BY a DESC NULLS LAST", "ORDER BY a NULLS FIRST, b DESC", "ORDER BY a + 1, b", "LIMIT 1", "LIMIT ALL", "LIMIT 1, 2",
    "LIMIT 1 OFFSET 2", "OFFSET 2", "OFFSET 2 ROW", "OFFSET 2 ROWS LIMIT 1", "LIMIT 1, 2 OFFSET 3", "OFFSET 3 LIMIT 1, 2", "LIMIT ALL LIMIT 2", "LIMIT 1 LIMIT 2",
    "LIMIT ALL OFFSET 1 LIMIT 3", "LIMIT 1, 2, 3", "OFFSET 1 OFFSET 2", "ORDER BY a LIMIT 2 OFFSET 1",
];

/// inputs that reach every branch of the real functions that leaves the fragment, and odd shapes
const PROBES: &[&str] = &[
    "", ";", ";;", "SELECT", "SELECT 1", "SELECT 1;", "SELECT 1; SELECT 2", ";SELECT 1;;SELECT 2;", "SELECT 1 SELECT 2", "SELECT 1 END", "SELECT 1 END x", "SELECT 1; END",
    "(SELECT 1)", "((SELECT 1))", "(SELECT 1) LIMIT 1", "(SELECT 1 LIMIT 1) LIMIT 2", "(SELECT 1", "SELECT 1)", "()", "(", ")", "a", "1", "COMMIT", "VALUES (1)", "WITH x AS (SELECT 1) SELECT 2",
    "SELECT 1 UNION VALUES (2)", "TABLE t", "SELECT 1 UNION TABLE t", "INSERT INTO t VALUES (1)", "SELECT ALL a", "SELECT DISTINCT a", "SELECT ALL DISTINCT a", "SELECT DISTINCT ALL a",
    "SELECT DISTINCT ON (a) b", "SELECT DISTINCT DISTINCT a", "SELECT ALL ALL a", "SELECT TOP 1 a", "SELECT a INTO t", "SELECT a INTO t FROM u", "SELECT AS STRUCT 1", "SELECT AS VALUE a", "SELECT AS x",
    "SELECT FROM t", "SELECT from", "SELECT \"from\" FROM t", "SELECT a FROM", "SELECT a FROM FROM", "SELECT a, FROM t", "SELECT a,", "SELECT a, b,", "SELECT a,, b", "SELECT , a", "SELECT a b c", "SELECT a AS",
    "SELECT a AS 1", "SELECT a AS AS", "SELECT a.", "SELECT a.1", "SELECT a.*.*", "SELECT a.* b", "SELECT * x", "SELECT * AS x", "SELECT 'a'.*", "SELECT 'a'.b", "SELECT *, a", "SELECT * EXCEPT (a) FROM t",
    "SELECT * EXCEPT SELECT 1", "SELECT * EXCLUDE (a) FROM t", "SELECT * REPLACE (1 AS a) FROM t", "SELECT * ILIKE 'x' FROM t", "SELECT * RENAME a AS b FROM t", "SELECT t.* EXCEPT (a) FROM t",
    "SELECT a FROM t PARTITION (p)", "SELECT a FROM t (1)", "SELECT a FROM f(1) AS x", "SELECT a FROM UNNEST(b)", "SELECT a FROM unnest", "SELECT a FROM TABLE(f)", "SELECT a FROM LATERAL (SELECT 1) x",
    "SELECT a FROM (t)", "SELECT a FROM (t) x", "SELECT a FROM (t JOIN u)", "SELECT a FROM ((SELECT 1))", "SELECT a FROM ((SELECT 1) x)", "SELECT a FROM (SELECT 1) AS", "SELECT a FROM (SELECT 1) AS 1",
    "SELECT a FROM (SELECT 1) x (c)", "SELECT a FROM t AS u (c1, c2)", "SELECT a FROM t u (c)", "SELECT a FROM t WITH (NOLOCK)", "SELECT a FROM t WITH ORDINALITY", "SELECT a FROM t FOR SYSTEM_TIME AS OF x",
    "SELECT a FROM t PIVOT (sum(b) FOR c IN (1))", "SELECT a FROM (SELECT 1) x PIVOT (sum(b) FOR c IN (1))", "SELECT a FROM t MATCH_RECOGNIZE (PATTERN (a))", "SELECT a FROM VALUES (1) v", "SELECT a FROM values",
    "SELECT a FROM JSON_TABLE(x, '$' COLUMNS (a INT PATH '$'))", "SELECT a FROM x-y", "SELECT a FROM x - y", "SELECT a FROM `x.y`", "SELECT a FROM t.", "SELECT a FROM t.1", "SELECT a FROM 1", "SELECT a FROM 's'",
    "SELECT a FROM t, ", "SELECT a FROM t,, u", "SELECT a FROM t, WHERE b", "SELECT a FROM t WHERE", "SELECT a FROM t GROUP", "SELECT a FROM t GROUP a", "SELECT a FROM t GROUP BY", "SELECT a FROM t GROUP BY ALL",
    "SELECT a FROM t GROUP BY ()", "SELECT a FROM t GROUP BY (), a", "SELECT a FROM t GROUP BY ROLLUP (a)", "SELECT a FROM t GROUP BY CUBE (a), b", "SELECT a FROM t GROUP BY GROUPING SETS ((a))",
];

const PROBES2: &[&str] = &[
    "SELECT a FROM t GROUP BY a WITH ROLLUP", "SELECT a FROM t GROUP BY a, HAVING b", "SELECT a FROM t GROUP BY a, ", "SELECT a FROM t HAVING", "SELECT a FROM t LATERAL VIEW explode(b) x AS y",
    "SELECT a FROM t PREWHERE b", "SELECT a FROM t CLUSTER BY a", "SELECT a FROM t DISTRIBUTE BY a", "SELECT a FROM t SORT BY a", "SELECT a FROM t WINDOW w AS (PARTITION BY a)", "SELECT a FROM t QUALIFY b",
    "SELECT a FROM t START WITH b CONNECT BY c", "SELECT a FROM t CONNECT BY c", "SELECT a window", "SELECT a qualify", "SELECT a FROM t ORDER", "SELECT a FROM t ORDER a", "SELECT a FROM t ORDER BY",
    "SELECT a FROM t ORDER BY a,", "SELECT a FROM t ORDER BY a, LIMIT 1", "SELECT a FROM t ORDER BY a ASC DESC", "SELECT a FROM t ORDER BY a NULLS", "SELECT a FROM t ORDER BY a NULLS b", "SELECT a FROM t ORDER BY a DESC NULLS FIRST NULLS LAST",
    "SELECT a FROM t ORDER BY a WITH FILL", "SELECT a FROM t ORDER BY a WITH FILL FROM 1 TO 2", "SELECT a FROM t ORDER BY a WITH x", "SELECT a FROM t ORDER BY a INTERPOLATE", "SELECT a FROM t ORDER BY a INTERPOLATE (b AS c)",
    "SELECT a FROM t LIMIT", "SELECT a FROM t LIMIT 1,", "SELECT a FROM t LIMIT ,1", "SELECT a FROM t LIMIT 1 BY a", "SELECT a FROM t OFFSET", "SELECT a FROM t OFFSET 1 ROW ROWS", "SELECT a FROM t SETTINGS x = 1",
    "SELECT a FROM t FETCH FIRST 1 ROWS ONLY", "SELECT a FROM t FOR UPDATE", "SELECT a FROM t FOR XML AUTO", "SELECT a FROM t FORMAT JSON", "SELECT a FROM t LIMIT 1 FETCH FIRST ROW ONLY", "SELECT a UNION", "SELECT a UNION ALL", "UNION SELECT a",
    "SELECT a UNION UNION SELECT b", "SELECT a UNION ALL ALL SELECT b", "SELECT a UNION BY SELECT b", "SELECT a UNION (SELECT b", "SELECT a UNION (SELECT b) c", "SELECT a FROM t NATURAL JOIN u", "SELECT a FROM t NATURAL u",
    "SELECT a FROM t LEFT SEMI JOIN u ON b", "SELECT a FROM t RIGHT ANTI JOIN u", "SELECT a FROM t CROSS APPLY u", "SELECT a FROM t OUTER APPLY u", "SELECT a FROM t OUTER JOIN u", "SELECT a FROM t GLOBAL JOIN u", "SELECT a FROM t GLOBAL",
    "SELECT a FROM t ASOF JOIN u MATCH_CONDITION (b) ON c", "SELECT a FROM t CROSS u", "SELECT a FROM t CROSS JOIN u ON b", "SELECT a FROM t INNER u", "SELECT a FROM t LEFT u", "SELECT a FROM t LEFT OUTER u", "SELECT a FROM t FULL u", "SELECT a FROM t FULL OUTER u",
    "SELECT a FROM t JOIN", "SELECT a FROM t JOIN u USING", "SELECT a FROM t JOIN u USING ()", "SELECT a FROM t JOIN u USING (a,) WHERE b",
];

fn mk_select(items: &[&str], from: &str, tail: &str) -> String {
    let mut s = format!("SELECT {}", items.join(", "));
    if !from.is_empty() {
        s.push(' ');
        s.push_str(from);
    }
    if !tail.is_empty() {
        s.push(' ');
        s.push_str(tail);
    }
    s
}

fn rand_select(rng: &mut Rng, depth: usize) -> String {
    let n = 1 + rng.below(3);
    let items: Vec<&str> = (0..n).map(|_| *rng.pick(&ITEMS[..])).collect();
    let mut s = format!("SELECT {}{}", ["", "", "DISTINCT ", "ALL "][rng.below(4)], items.join(", "));
    if rng.chance(3, 4) {
        if depth > 0 && rng.chance(1, 3) {
            s.push_str(&format!(" FROM ({}) {}", rand_query(rng, depth - 1), ["AS d", "d", ""][rng.below(3)]));
        } else {
            s.push(' ');
            s.push_str(*rng.pick(&FROMS[1..]));
        }
        for _ in 0..rng.below(3) {
            if depth > 0 && rng.chance(1, 5) {
                s.push_str(&format!(" {} ({}) AS j {}", rng.pick(&JOINS[..]), rand_query(rng, depth - 1), rng.pick(&CSTRS[..3])));
            } else {
                s.push_str(&format!(" {} u {}", rng.pick(&JOINS[..]), rng.pick(&CSTRS[..])));
            }
        }
    }
    for c in &CLAUSES[..3] {
        if rng.chance(1, 3) {
            s.push(' ');
            s.push_str(c);
        }
    }
    s
}

fn rand_body(rng: &mut Rng, depth: usize) -> String {
    let mut s = if depth > 0 && rng.chance(1, 5) { format!("({})", rand_query(rng, depth - 1)) } else { rand_select(rng, depth) };
    while rng.chance(1, 3) {
        let op = ["UNION", "EXCEPT", "INTERSECT"][rng.below(3)];
        let q = ["", "", "ALL", "DISTINCT", "BY NAME", "ALL BY NAME", "DISTINCT BY NAME"][rng.below(7)];
        let r = if depth > 0 && rng.chance(1, 4) { format!("({})", rand_query(rng, depth - 1)) } else { rand_select(rng, depth.saturating_sub(1)) };
        s = format!("{s} {op} {q} {r}");
    }
    s
}

fn rand_query(rng: &mut Rng, depth: usize) -> String {
    let mut s = rand_body(rng, depth);
    if rng.chance(1, 3) {
        s.push(' ');
        s.push_str(*rng.pick(&TAILS[..]));
    }
    s
}

/// request `queries \t dialect \t tc \t limit \t tokens`;
/// answer `OK <sexp>;<sexp>… TEXT <hex>` | `ERR:rle` | `ERR:syntax` | `UNSUPPORTED`
pub fn corr(dir: &str, seed: u64, tier: &str) -> Report {
    let mut r = Report::new("C01", "corr.queries", "parse_statements on token lists of the modelled query fragment under (dialect, trailing_commas, recursion limit): S-expression of every statement and to_string() text, errors as classes. Deterministic: every arrangement of the six optional clauses after SELECT a FROM t (quick: up to 4, thorough: all 1957) x option on/off; 1-3 projection items (aliases that are / are not reserved words, wildcards) x FROM forms (1-3 tables, aliases, derived tables); every join kind x constraint form; LIMIT/OFFSET/ORDER BY tails; set operations between two or three selects with every quantifier and parentheses; trailing commas at every list end x option; probes for every branch that leaves the fragment; every truncation and single-token drop of the base queries; derived-table / parenthesis / expression nesting around recursion limits 0..9; every corpus text whose real tree stays inside the fragment (both option values). Seeded: random nested queries with token swaps. All 13 dialects; non-trivial = distinct (dialect, answer tree)");
    let thorough = tier == "thorough";
    let mut s = St {
        req: std::io::BufWriter::new(std::fs::File::create(format!("{dir}/queries.req")).unwrap()),
        real: std::io::BufWriter::new(std::fs::File::create(format!("{dir}/queries.real")).unwrap()),
        r: &mut r,
        distinct: BTreeSet::new(),
        seen: BTreeSet::new(),
    };
    let mut rng = Rng(seed ^ 0x9E41);
    let lim = 50usize;
    let corpus = load_corpus();
    for (k, (dn, d)) in all_dialects().into_iter().enumerate() {
        let d = d.as_ref();
        // ---- probes and odd inputs, both option values
        for p in PROBES.iter().chain(PROBES2.iter()) {
            s.sql2(dn, d, lim, p, "probe");
        }
        // ---- clause arrangements
        let maxk = if thorough { 6 } else { 4 };
        for (i, arr) in arrangements(CLAUSES.len(), maxk).iter().enumerate() {
            let tail = arr.iter().map(|&i| CLAUSES[i]).collect::<Vec<_>>().join(" ");
            let q = mk_select(&["a"], "FROM t", &tail);
            // the option only matters at list ends: alternate, and take both for short ones
            if arr.len() <= 2 || thorough {
                s.sql2(dn, d, lim, &q, "clauses");
            } else {
                s.sql(dn, d, i % 2 == 0, lim, &q, "clauses");
            }
        }
        // ---- projections x FROM forms
        for (i, a) in ITEMS.iter().enumerate() {
            for (j, f) in FROMS.iter().enumerate() {
                s.sql(dn, d, (i + j) % 2 == 0, lim, &mk_select(&[a], f, ""), "proj.from");
            }
            for (j, b) in ITEMS.iter().enumerate() {
                s.sql(dn, d, (i + j) % 2 == 1, lim, &mk_select(&[a, b], "FROM t", ""), "proj.two");
                if thorough || (i + 2 * j + k) % 7 == 0 {
                    let c3 = ITEMS[(i + j) % ITEMS.len()];
                    s.sql(dn, d, (i + j) % 2 == 0, lim, &mk_select(&[a, b, c3], "", "WHERE x"), "proj.three");
                }
            }
        }
        // ---- joins
        for j in JOINS {
            for c in CSTRS {
                s.sql(dn, d, false, lim, &format!("SELECT * FROM t {j} u {c}"), "join");
                s.sql(dn, d, true, lim, &format!("SELECT * FROM t AS v {j} u {c} WHERE k"), "join");
                s.sql(dn, d, false, lim, &format!("SELECT * FROM t {j} (SELECT 1) AS u {c}, w"), "join");
                for j2 in [JOINS[0], JOINS[3], JOINS[8]] {
                    s.sql(dn, d, false, lim, &format!("SELECT * FROM t {j} u {c} {j2} v ON p, w {j2} x"), "join.two");
                }
            }
        }
        // ---- query tails
        for t in TAILS {
            s.sql2(dn, d, lim, &format!("SELECT a FROM t {t}"), "tail");
            s.sql(dn, d, false, lim, &format!("(SELECT a {t}) {t}"), "tail");
            s.sql(dn, d, false, lim, &format!("SELECT a UNION SELECT b {t}"), "tail");
            s.sql(dn, d, false, lim, &format!("SELECT a FROM (SELECT b {t}) x {t}"), "tail");
        }
        // ---- set operations
        let ops = ["UNION", "EXCEPT", "INTERSECT"];
        let quants = ["", "ALL", "DISTINCT", "BY NAME", "ALL BY NAME", "DISTINCT BY NAME"];
        let sels = ["SELECT a", "SELECT a FROM t", "SELECT a, b FROM t WHERE c", "SELECT * FROM t u GROUP BY a HAVING b"];
        for (i, o1) in ops.iter().enumerate() {
            for (j, q1) in quants.iter().enumerate() {
                let (s1, s2, s3) = (sels[(i + j) % 4], sels[(i + 2 * j + 1) % 4], sels[(2 * i + j + 2) % 4]);
                s.sql(dn, d, false, lim, &format!("{s1} {o1} {q1} {s2}"), "setop.two");
                s.sql(dn, d, false, lim, &format!("({s1}) {o1} {q1} ({s2})"), "setop.two");
                s.sql(dn, d, false, lim, &format!("{s1} {o1} {q1} {s2} ORDER BY a LIMIT 1"), "setop.two");
                for (i2, o2) in ops.iter().enumerate() {
                    let q2 = quants[(i2 + j + 1) % 6];
                    s.sql(dn, d, false, lim, &format!("{s1} {o1} {q1} {s2} {o2} {q2} {s3}"), "setop.three");
                    s.sql(dn, d, false, lim, &format!("{s1} {o1} {q1} ({s2} {o2} {q2} {s3})"), "setop.three");
                    s.sql(dn, d, false, lim, &format!("({s1} {o1} {q1} {s2}) {o2} {q2} {s3} LIMIT 2"), "setop.three");
                }
            }
        }
        // ---- trailing commas at every list end
        for q in [
            "SELECT a, FROM t", "SELECT a, b, FROM t", "SELECT a,", "SELECT a, ;", "SELECT a, WHERE b", "SELECT (SELECT a,)", "SELECT a FROM (SELECT b,) x", "SELECT a FROM (SELECT b, FROM t) x", "SELECT a, )",
            "SELECT a FROM t, WHERE b", "SELECT a FROM t, u, ORDER BY a", "SELECT a FROM t, ", "SELECT a FROM t, ;", "SELECT a FROM t GROUP BY a, HAVING b", "SELECT a FROM t GROUP BY a, b, ORDER BY c",
            "SELECT a FROM t GROUP BY a,", "SELECT a FROM t ORDER BY a, LIMIT 1", "SELECT a FROM t ORDER BY a DESC, ", "SELECT a FROM t ORDER BY a, OFFSET 1", "SELECT a FROM t JOIN u USING (a,)", "SELECT a FROM t JOIN u USING (a, b,) WHERE c",
            "SELECT a, UNION SELECT b", "SELECT a, b, EXCEPT SELECT c", "SELECT a FROM t, UNION SELECT b", "SELECT a, from", "SELECT a, limit", "SELECT a, top", "SELECT a, x, FROM t", "SELECT a, window", "SELECT a FROM t, window",
            "SELECT a FROM t ORDER BY a, FOR UPDATE", "SELECT a FROM t GROUP BY a, QUALIFY x", "SELECT a, b AS c, FROM t", "SELECT *, FROM t", "SELECT t.*, FROM t", "(SELECT a,) UNION SELECT b", "SELECT a,; SELECT b,",
        ] {
            s.sql2(dn, d, lim, q, "trailing");
        }
        // ---- truncations and single-token drops of base queries
        let bases = [
            "SELECT DISTINCT a AS x, t.*, b + 1 c FROM s.t AS u LEFT OUTER JOIN (SELECT 1 UNION ALL SELECT 2) v ON u.a = v.a, w WHERE a > 1 GROUP BY a, b HAVING c ORDER BY a DESC NULLS LAST, b LIMIT 3 OFFSET 2 ROWS",
            "(SELECT a FROM t) UNION ALL BY NAME (SELECT b FROM u CROSS JOIN v) INTERSECT SELECT c ORDER BY 1 LIMIT 1, 2; SELECT 2",
            "SELECT * FROM t FULL JOIN u USING (a, b) WHERE x IN (1, 2) OFFSET 1 LIMIT 2",
            "SELECT a FROM (SELECT b FROM (SELECT c) x) AS y WHERE NOT a",
        ];
        for b in bases {
            if let Some(toks) = lex_nows(d, b) {
                s.emit(dn, d, false, lim, &toks, "base");
                s.emit(dn, d, true, lim, &toks, "base");
                for i in 0..toks.len() {
                    s.emit(dn, d, i % 2 == 0, lim, &toks[..i], "truncated");
                    let mut t = toks.clone();
                    t.remove(i);
                    s.emit(dn, d, i % 2 == 1, lim, &t, "dropped");
                    if thorough && i + 1 < toks.len() {
                        let mut t = toks.clone();
                        t.swap(i, i + 1);
                        s.emit(dn, d, false, lim, &t, "swapped");
                        let mut t = toks.clone();
                        t.insert(i, toks[(i * 7 + 3) % toks.len()].clone());
                        s.emit(dn, d, false, lim, &t, "inserted");
                    }
                }
            }
        }
        // ---- nesting around the recursion limit
        for limit in 0usize..=9 {
            for depth in 0..=5usize {
                let mut q = String::from("SELECT 1");
                for i in 0..depth {
                    q = format!("SELECT * FROM ({q}) AS t{i}");
                }
                s.sql(dn, d, false, limit, &q, "deep.derived");
                let mut q = String::from("SELECT a FROM t");
                for _ in 0..depth {
                    q = format!("({q})");
                }
                s.sql(dn, d, false, limit, &q, "deep.paren");
                s.sql(dn, d, false, limit, &format!("{q} UNION {q}"), "deep.paren");
                let e = format!("{}a{}", "(".repeat(depth), ")".repeat(depth));
                s.sql(dn, d, false, limit, &format!("SELECT {e}"), "deep.expr");
                s.sql(dn, d, false, limit, &format!("SELECT a FROM t WHERE {e} ORDER BY {e} LIMIT {e}"), "deep.expr");
                s.sql(dn, d, false, limit, &format!("SELECT 1 FROM t JOIN (SELECT {e}) x ON {e}"), "deep.mixed");
                let mut q = String::from("SELECT 1");
                for i in 0..depth {
                    q = format!("SELECT 1 UNION (SELECT 2 FROM ({q}) y{i})");
                }
                s.sql(dn, d, false, limit, &q, "deep.mixed");
            }
            s.sql(dn, d, false, limit, "SELECT 1; SELECT 2 FROM t", "deep.script");
            s.sql(dn, d, false, limit, &(0..40).map(|i| format!("SELECT {i}")).collect::<Vec<_>>().join(" UNION "), "deep.siblings");
            s.sql(dn, d, false, limit, &format!("SELECT a FROM t{}", (0..30).map(|i| format!(" JOIN u{i} ON a")).collect::<String>()), "deep.siblings");
        }
        // ---- corpus texts whose real tree stays inside the fragment
        for &(i, kk) in &corpus.accepted {
            if kk != k {
                continue;
            }
            let text = &corpus.literals[i];
            if let Some(toks) = lex_nows(d, text) {
                if toks.len() > 400 {
                    continue;
                }
                let dflt = d.supports_trailing_commas();
                if real_queries(d, dflt, lim, &toks).starts_with("OK") {
                    s.emit(dn, d, dflt, lim, &toks, "corpus");
                    s.emit(dn, d, !dflt, lim, &toks, "corpus");
                } else {
                    s.r.count("corpus/outside-fragment");
                }
            }
        }
        // ---- random nested queries
        let nrand = if thorough { 12000 } else { 1500 };
        for n in 0..nrand {
            let q = rand_query(&mut rng, 2);
            let tc = rng.chance(1, 2);
            if let Some(toks) = s.sql(dn, d, tc, lim, &q, "random") {
                if n % 4 == 0 && toks.len() > 1 {
                    let i = rng.below(toks.len());
                    let j = rng.below(toks.len());
                    let mut t = toks.clone();
                    t.swap(i, j);
                    s.emit(dn, d, tc, lim, &t, "random.swapped");
                    let mut t = toks.clone();
                    t.remove(i);
                    s.emit(dn, d, tc, lim, &t, "random.dropped");
                    s.emit(dn, d, tc, lim, &toks[..i], "random.truncated");
                    let small = 2 + rng.below(7);
                    s.emit(dn, d, tc, small, &toks, "random.limit");
                }
            }
        }
    }
    let distinct = s.distinct.len() as u64;
    s.req.flush().unwrap();
    s.real.flush().unwrap();
    drop(s);
    r.distinct_nontrivial = distinct;
    r
}

//! C17: serde round trip.  Correspondence stream `serde` (the model's `ser` of the reflected value,
//! printed as canonical JSON text, vs `serde_json::to_value` of the real value printed the same
//! way; plus the round-trip verdict) and the oracle on the real code
//! (`from_value(to_value(x)) == x`, `from_str(to_string(x)) == x`, equal trees give equal documents)
//! for every parsed corpus statement list x dialect and every token vector.
use crate::common::*;
use crate::reflect;
use sqlparser::ast::Statement;
use sqlparser::tokenizer::Token;
use std::collections::{BTreeSet, HashMap, HashSet};
use std::io::Write;

/// Canonical JSON text, the same as lean/Driver/Serde.lean `renderJson`:
/// `n`, `t`/`f`, `#<decimal>`, `"<hex code points joined by .>"`, `[a,b]`, `{key:value,...}` keys sorted.
pub fn canon(v: &serde_json::Value, out: &mut String) {
    use serde_json::Value::*;
    match v {
        Null => out.push('n'),
        Bool(b) => out.push(if *b { 't' } else { 'f' }),
        Number(n) => {
            if n.is_f64() {
                out.push_str("~float:");
            } else {
                out.push('#');
            }
            out.push_str(&n.to_string());
        }
        String(s) => {
            out.push('"');
            out.push_str(&s.chars().map(|c| format!("{:x}", c as u32)).collect::<Vec<_>>().join("."));
            out.push('"');
        }
        Array(xs) => {
            out.push('[');
            for (i, x) in xs.iter().enumerate() {
                if i > 0 {
                    out.push(',');
                }
                canon(x, out);
            }
            out.push(']');
        }
        Object(m) => {
            let mut ks: Vec<&std::string::String> = m.keys().collect();
            ks.sort();
            out.push('{');
            for (i, k) in ks.iter().enumerate() {
                if i > 0 {
                    out.push(',');
                }
                out.push_str(k);
                out.push(':');
                canon(&m[*k], out);
            }
            out.push('}');
        }
    }
}

fn real_answer<T: serde::Serialize + serde::de::DeserializeOwned + PartialEq>(x: &T) -> String {
    match guard(|| {
        let v = serde_json::to_value(x).map_err(|e| e.to_string())?;
        let mut s = String::new();
        canon(&v, &mut s);
        let rt = match serde_json::from_value::<T>(v) {
            Ok(y) => (y == *x) as u8,
            Err(_) => 0,
        };
        Ok::<_, String>(format!("OK {s} WT1 RT{rt}"))
    }) {
        G::Val(Ok(s)) => s,
        G::Val(Err(e)) => format!("ERR:to_value:{}", hex(&e)),
        G::Panic(m) => format!("PANIC:{}", hex(&m)),
    }
}

pub fn corr(dir: &str, seed: u64, tier: &str) -> Report {
    let mut r = Report::new("C17", "corr.serde", "every distinct statement tree of the parsed corpus, AST-first generated statements (random documents of the schema through Deserialize, every Statement variant; quick 1500, thorough 8000) and distinct token vectors of corpus texts (Vec<Token>; quick: about 1500), reflected through serde and checked against the schema; model = canonical text of the Lean `ser` on the decoded value + well-typedness + model round trip; real = canonical text of serde_json::to_value + from_value(to_value(x)) == x; non-trivial = distinct documents");
    let c = load_corpus();
    let sch = reflect::load_schema();
    let mut errs = vec![];
    let mut all = crate::c16::distinct_statements(&c, &sch, &mut errs);
    let mut seen_gen: HashSet<String> = all.iter().map(|c| c.tree.clone()).collect();
    let gen = crate::c16::generated_statements(&sch, if tier == "thorough" { 8000 } else { 1500 }, seed, &mut seen_gen, &mut errs);
    r.dist.insert("corpus-trees".into(), all.len() as u64);
    r.dist.insert("generated-trees".into(), gen.len() as u64);
    all.extend(gen);
    let mut req = std::io::BufWriter::new(std::fs::File::create(format!("{dir}/serde.req")).unwrap());
    let mut real = std::io::BufWriter::new(std::fs::File::create(format!("{dir}/serde.real")).unwrap());
    for (dn, s, e) in &errs {
        writeln!(req, "serde\tS\tU").unwrap();
        writeln!(real, "ERR:reflect-vs-schema:{}:{}:{}", dn, hex(e), hex(&trunc(s, 200))).unwrap();
        r.count("reflect-error");
    }
    let mut rng = Rng(seed ^ 0xC17);
    let mut distinct: HashSet<u64> = HashSet::new();
    let mut hash = |s: &str| -> u64 {
        use std::hash::{Hash, Hasher};
        let mut h = std::collections::hash_map::DefaultHasher::new();
        s.hash(&mut h);
        h.finish()
    };
    let target = 4000usize;
    let n_all = all.len();
    let mut per_variant: HashMap<String, usize> = HashMap::new();
    for case in &all {
        let cnt = per_variant.entry(case.variant.clone()).or_insert(0);
        *cnt += 1;
        if tier != "thorough" && *cnt > 3 && n_all > target && !rng.chance(target, n_all) {
            continue;
        }
        writeln!(req, "serde\tS\t{}", case.tree).unwrap();
        let a = real_answer(&case.st);
        distinct.insert(hash(&a));
        r.count(&format!("stmt/{}", case.variant));
        if r.evaluations % 701 == 5 {
            r.sample(serde_json::json!({"dialect": case.dialect, "sql": trunc(&case.sql, 120), "answer": trunc(&a, 200)}));
        }
        writeln!(real, "{a}").unwrap();
        r.evaluations += 1;
    }
    // token vectors
    let ds = all_dialects();
    let mut seen: HashSet<String> = HashSet::new();
    let mut toks_cases: Vec<(Vec<Token>, String)> = vec![];
    for (i, s) in c.literals.iter().enumerate() {
        for (_, d) in ds.iter() {
            for unescape in [true, false] {
                if let G::Val(Ok(t)) = guard(|| sqlparser::tokenizer::Tokenizer::new(d.as_ref(), s).with_unescape(unescape).tokenize()) {
                    if let Ok(node) = reflect::reflect(&t) {
                        let mut enc = String::new();
                        match reflect::encode(&node, &sch, &mut enc) {
                            Ok(()) => {
                                if seen.insert(enc.clone()) {
                                    toks_cases.push((t, enc));
                                }
                            }
                            Err(e) => {
                                writeln!(req, "serde\tT\tU").unwrap();
                                writeln!(real, "ERR:reflect-vs-schema:{}:{}", hex(&e), i).unwrap();
                                r.count("reflect-error");
                            }
                        }
                    }
                }
            }
        }
    }
    r.dist.insert("distinct-token-vectors".into(), toks_cases.len() as u64);
    let tt = 1500usize;
    let nt = toks_cases.len();
    for (t, enc) in &toks_cases {
        if tier != "thorough" && nt > tt && !rng.chance(tt, nt) {
            continue;
        }
        writeln!(req, "serde\tT\t{enc}").unwrap();
        let a = real_answer(t);
        distinct.insert(hash(&a));
        writeln!(real, "{a}").unwrap();
        r.count("tokens");
        r.evaluations += 1;
    }
    r.exhaustive = tier == "thorough";
    r.distinct_nontrivial = distinct.len() as u64;
    r
}

pub fn oracle(c: &Corpus, _seed: u64, _tier: &str) -> Vec<Report> {
    let sch = reflect::load_schema();
    let ds = all_dialects();
    let mut r = Report::new("C17", "oracle.statement-roundtrip", "every accepted (corpus text, dialect) pair: x = parsed Vec<Statement>; from_value(to_value(x)) == x; from_str(to_string(x)) == x; to_string(x) == to_string(x.clone()); statement lists that are == across dialects give identical documents; non-trivial = distinct documents");
    r.exhaustive = true;
    let mut docs: HashSet<String> = HashSet::new();
    // text -> list of (parse result, document) seen under other dialects
    let mut by_text: HashMap<usize, Vec<(Vec<Statement>, String)>> = HashMap::new();
    for &(i, k) in &c.accepted {
        let s = &c.literals[i];
        let (dn, d) = (ds[k].0, ds[k].1.as_ref());
        let x = match parse(d, Opts::DEFAULT, s) {
            G::Val(Ok(v)) => v,
            _ => continue,
        };
        r.evaluations += 1;
        let var = variant_of(&x[0]);
        let res = guard(|| {
            let v = serde_json::to_value(&x).map_err(|e| format!("to_value: {e}"))?;
            let y: Vec<Statement> = serde_json::from_value(v).map_err(|e| format!("from_value: {e}"))?;
            let t = serde_json::to_string(&x).map_err(|e| format!("to_string: {e}"))?;
            let z: Vec<Statement> = serde_json::from_str(&t).map_err(|e| format!("from_str: {e}"))?;
            let t2 = serde_json::to_string(&x.clone()).map_err(|e| format!("to_string: {e}"))?;
            Ok::<_, String>((y, z, t, t2))
        });
        match res {
            G::Panic(m) => r.panic(dn, Opts::DEFAULT, s, m),
            G::Val(Err(e)) => r.fail(format!("{var}/serde-error"), dn, Opts::DEFAULT, s, e),
            G::Val(Ok((y, z, t, t2))) => {
                if y != x {
                    r.fail(format!("{var}/value-roundtrip-differs"), dn, Opts::DEFAULT, s, String::new());
                }
                if z != x {
                    r.fail(format!("{var}/string-roundtrip-differs"), dn, Opts::DEFAULT, s, String::new());
                }
                if t != t2 {
                    r.fail(format!("{var}/clone-serialises-differently"), dn, Opts::DEFAULT, s, String::new());
                }
                let e = by_text.entry(i).or_default();
                for (ox, ot) in e.iter() {
                    if *ox == x && *ot != t {
                        r.fail(format!("{var}/equal-trees-different-documents"), dn, Opts::DEFAULT, s, String::new());
                    }
                    if *ox != x && *ot == t {
                        r.fail(format!("{var}/different-trees-equal-documents"), dn, Opts::DEFAULT, s, String::new());
                    }
                }
                if !e.iter().any(|(ox, _)| *ox == x) {
                    e.push((x, t.clone()));
                }
                if r.evaluations % 2999 == 7 {
                    r.sample(serde_json::json!({"dialect": dn, "sql": trunc(s, 120), "json": trunc(&t, 160)}));
                }
                docs.insert(t);
            }
        }
    }
    r.distinct_nontrivial = docs.len() as u64;

    // AST-first: values no corpus text parses to
    let mut r3 = Report::new("C17", "oracle.generated-roundtrip", "statements deserialised from random documents of the schema (every Statement variant in turn): from_value(to_value(x)) == x and from_str(to_string(x)) == x; non-trivial = distinct documents");
    {
        let mut errs = vec![];
        let mut seen = HashSet::new();
        let gen = crate::c16::generated_statements(&sch, if _tier == "thorough" { 8000 } else { 1500 }, _seed, &mut seen, &mut errs);
        for (dn, s, e) in &errs {
            r3.fail("generator/rejected".into(), dn, Opts::DEFAULT, s, e.clone());
        }
        for case in &gen {
            r3.evaluations += 1;
            let x = &case.st;
            let res = guard(|| {
                let v = serde_json::to_value(x).map_err(|e| format!("to_value: {e}"))?;
                let y: Statement = serde_json::from_value(v).map_err(|e| format!("from_value: {e}"))?;
                let t = serde_json::to_string(x).map_err(|e| format!("to_string: {e}"))?;
                let z: Statement = serde_json::from_str(&t).map_err(|e| format!("from_str: {e}"))?;
                Ok::<_, String>((y, z))
            });
            match res {
                G::Panic(m) => r3.panic("gen", Opts::DEFAULT, &case.sql, m),
                G::Val(Err(e)) => r3.fail(format!("{}/serde-error", case.variant), "gen", Opts::DEFAULT, &case.sql, e),
                G::Val(Ok((y, z))) => {
                    if y != *x {
                        r3.fail(format!("{}/value-roundtrip-differs", case.variant), "gen", Opts::DEFAULT, &case.sql, String::new());
                    }
                    if z != *x {
                        r3.fail(format!("{}/string-roundtrip-differs", case.variant), "gen", Opts::DEFAULT, &case.sql, String::new());
                    }
                    r3.count(&format!("stmt/{}", case.variant));
                }
            }
        }
        r3.distinct_nontrivial = gen.len() as u64;
    }

    let mut r2 = Report::new("C17", "oracle.token-roundtrip", "every corpus text x dialect x unescape that tokenizes: x = Vec<Token>; from_value(to_value(x)) == x; from_str(to_string(x)) == x; non-trivial = distinct token vectors");
    r2.exhaustive = true;
    let mut seen: BTreeSet<u64> = BTreeSet::new();
    for s in &c.literals {
        for (dn, d) in ds.iter() {
            for unescape in [true, false] {
                let x: Vec<Token> = match guard(|| sqlparser::tokenizer::Tokenizer::new(d.as_ref(), s).with_unescape(unescape).tokenize()) {
                    G::Val(Ok(t)) => t,
                    _ => continue,
                };
                r2.evaluations += 1;
                let o = Opts { unescape, trailing: None, limit: None };
                let res = guard(|| {
                    let v = serde_json::to_value(&x).map_err(|e| format!("to_value: {e}"))?;
                    let y: Vec<Token> = serde_json::from_value(v).map_err(|e| format!("from_value: {e}"))?;
                    let t = serde_json::to_string(&x).map_err(|e| format!("to_string: {e}"))?;
                    let z: Vec<Token> = serde_json::from_str(&t).map_err(|e| format!("from_str: {e}"))?;
                    Ok::<_, String>((y, z, t))
                });
                match res {
                    G::Panic(m) => r2.panic(dn, o, s, m),
                    G::Val(Err(e)) => r2.fail("tokens/serde-error".into(), dn, o, s, e),
                    G::Val(Ok((y, z, t))) => {
                        if y != x {
                            r2.fail("tokens/value-roundtrip-differs".into(), dn, o, s, String::new());
                        }
                        if z != x {
                            r2.fail("tokens/string-roundtrip-differs".into(), dn, o, s, String::new());
                        }
                        use std::hash::{Hash, Hasher};
                        let mut h = std::collections::hash_map::DefaultHasher::new();
                        t.hash(&mut h);
                        seen.insert(h.finish());
                    }
                }
            }
        }
    }
    r2.distinct_nontrivial = seen.len() as u64;
    // every keyword of the table as a token (`Token::make_keyword`, public): the corpus does not
    // contain every keyword, and a user-defined dialect can lex spellings no built-in one does
    // (`END-EXEC` needs `-` as an identifier part)
    for kw in sqlparser::keywords::ALL_KEYWORDS {
        for quoted in [None, Some('"')] {
            let x: Vec<Token> = vec![Token::make_word(kw, quoted), Token::EOF];
            r2.evaluations += 1;
            let res = guard(|| {
                let v = serde_json::to_value(&x).map_err(|e| format!("to_value: {e}"))?;
                let y: Vec<Token> = serde_json::from_value(v).map_err(|e| format!("from_value: {e}"))?;
                Ok::<_, String>(y)
            });
            match res {
                G::Panic(m) => r2.panic("generic", Opts::DEFAULT, kw, m),
                G::Val(Err(e)) => r2.fail("keyword-token/serde-error".into(), "generic", Opts::DEFAULT, kw, e),
                G::Val(Ok(y)) => { if y != x { r2.fail("keyword-token/value-roundtrip-differs".into(), "generic", Opts::DEFAULT, kw, String::new()); } }
            }
        }
    }
    // informational: public tokenizer types that do not derive Serialize (outside the property's
    // `Vec<Token>`; `tokenize_with_location` results cannot be serialised at all)
    for (n, f) in &sch.underived_pub_types {
        if f.ends_with("tokenizer.rs") {
            r2.count(&format!("note/not-Serialize/{n}"));
        }
    }
    vec![r, r3, r2]
}

//! Correspondence stream `cursorstate`: the three idioms by which the parser writes its mutable
//! flags (`options.trailing_commas` in `parse_projection`, `state` in `with_state`, the recursion
//! counter with its `DepthGuard`), exercised through the real public API on small token vectors —
//! `parse_projection`, `parse_expr` (small recursion limits), `parse_connect_by` and `parse_query`
//! with a CONNECT BY clause — each call followed by `verif_state()`; against the model programs of
//! `Model/CursorState.lean` run by `runS`.  One `Parser` value is re-targeted over a batch of
//! requests (`with_tokens_with_locations`); the model answers every request from the configured
//! flags (theorem `flags_do_not_leak_between_runs`).
use crate::common::*;
use sqlparser::ast::SetExpr;
use sqlparser::keywords::{Keyword, RESERVED_FOR_COLUMN_ALIAS};
use sqlparser::parser::{Parser, ParserError, ParserOptions};
use sqlparser::tokenizer::{Location, Token, TokenWithLocation, Whitespace};
use std::collections::BTreeSet;
use std::io::Write;

const KWS: [(&str, u32); 8] = [("FROM", 1), ("PRIOR", 2), ("CONNECT", 3), ("BY", 4), ("START", 5), ("WITH", 6), ("AS", 7), ("SELECT", 8)];

/// symbol -> (real token, wire code)
fn mk(sym: &str, flip: bool) -> (Token, String) {
    match sym {
        "w" => (Token::Whitespace(Whitespace::Space), "w".into()),
        "i" => (Token::make_word(if flip { "b" } else { "a" }, None), "i".into()),
        "q" => (Token::make_word("from", Some('"')), "q".into()),
        "," => (Token::Comma, ",".into()),
        "(" => (Token::LParen, "(".into()),
        ")" => (Token::RParen, ")".into()),
        ";" => (Token::SemiColon, ";".into()),
        k => {
            let code = KWS.iter().find(|(n, _)| *n == k).unwrap().1;
            // table keywords in either capitalisation: recognition is by `keyword`, not by spelling
            let t = Token::make_word(&if flip { k.to_lowercase() } else { k.to_string() }, None);
            let resv = match &t { Token::Word(w) => RESERVED_FOR_COLUMN_ALIAS.contains(&w.keyword) && w.keyword != Keyword::NoKeyword, _ => false };
            (t, format!("k{code}{}", if resv { "r" } else { "n" }))
        }
    }
}

fn class(e: &ParserError) -> &'static str {
    match e { ParserError::RecursionLimitExceeded => "rle", _ => "err" }
}

fn st(p: &Parser) -> String {
    let (i, n, t, _u, d) = p.verif_state();
    format!("{i} {} {} {d}", n as u8, t as u8)
}

pub fn corr(dir: &str, seed: u64, tier: &str) -> Report {
    let mut r = Report::new("C14", "corr.cursorstate", "real parse_projection / parse_expr / parse_connect_by / parse_query(CONNECT BY) on small token vectors (exhaustive <= 4 symbols for projections, random and templated otherwise; whitespace interleaved; dialects with and without projection trailing commas; option on/off; recursion limits 0..6 and 50; one Parser value re-targeted over batches), outcome class, item count, index and verif_state() flags vs the model programs under runS; non-trivial = distinct (scenario, outcome, limit class, option, dialect flag)");
    let mut rng = Rng(seed ^ 0xC145);
    let mut req = std::fs::File::create(format!("{dir}/cursorstate.req")).unwrap();
    let mut real = std::fs::File::create(format!("{dir}/cursorstate.real")).unwrap();
    let thorough = tier == "thorough";
    let mut distinct = BTreeSet::new();

    // ---- request list: (scenario, dialect, symbols)
    let mut cases: Vec<(&'static str, &'static str, Vec<String>)> = vec![];
    let s = |v: &[&str]| v.iter().map(|x| x.to_string()).collect::<Vec<String>>();
    let proj_d = ["generic", "bigquery", "snowflake", "duckdb"];
    // named cases first
    for d in proj_d {
        for c in [&["i", ",", "i", ",", "FROM"][..], &["i", ",", ",", "i"], &["i", ",", "i"], &["i", "i", ",", "i", "AS", "i", "FROM"], &["i", ",", ")"], &["FROM"], &["i", "AS", "FROM"], &["i", "AS", ","], &["(", "i", ",", ")", ",", "FROM"], &["q", ",", "q"], &[]] {
            cases.push(("proj", d, s(c)));
        }
    }
    // exhaustive projections
    let alpha = ["i", ",", "FROM", ")", "(", "AS"];
    let maxlen = if thorough { 5 } else { 4 };
    for len in 0..=maxlen {
        let mut idx = vec![0usize; len];
        loop {
            let v: Vec<String> = idx.iter().map(|i| alpha[*i].to_string()).collect();
            cases.push(("proj", proj_d[cases.len() % 4], v));
            let mut k = 0;
            while k < len { idx[k] += 1; if idx[k] < alpha.len() { break; } idx[k] = 0; k += 1; }
            if k == len { break; }
        }
    }
    let nrand = if thorough { 60_000 } else { 12_000 };
    let proj_w = ["i", "i", "i", "i", ",", ",", ",", "FROM", "FROM", "AS", "(", ")", ";", "q", "w", "w"];
    let expr_w = ["i", "i", "i", "(", "(", ")", ")", ",", ",", "PRIOR", "w", "q", ";"];
    for _ in 0..nrand {
        let n = rng.below(9);
        cases.push(("proj", *rng.pick(&proj_d), (0..n).map(|_| rng.pick(&proj_w).to_string()).collect()));
        // expressions: random, and well-nested ones
        let v: Vec<String> = if rng.chance(1, 2) {
            let n = rng.below(10);
            (0..n).map(|_| rng.pick(&expr_w).to_string()).collect()
        } else {
            fn nest(rng: &mut Rng, depth: usize, out: &mut Vec<String>) {
                if depth == 0 || rng.chance(1, 3) { if rng.chance(1, 6) { out.push("PRIOR".into()); } out.push("i".into()); return; }
                out.push("(".into());
                let n = 1 + rng.below(3);
                for k in 0..n { if k > 0 { out.push(",".into()); } nest(rng, depth - 1, out); }
                if rng.chance(1, 5) { out.push(",".into()); }
                if !rng.chance(1, 8) { out.push(")".into()); }
            }
            let mut out = vec![];
            let dep = rng.below(5);
            nest(&mut rng, dep, &mut out);
            out
        };
        cases.push(("expr", *rng.pick(&["generic", "snowflake", "duckdb", "postgresql", "bigquery"]), v));
        // CONNECT BY clauses from a template, then mutated
        let mut c: Vec<String> = vec![];
        let list = |rng: &mut Rng, c: &mut Vec<String>| {
            let n = 1 + rng.below(3);
            for k in 0..n {
                if k > 0 { c.push(",".into()); }
                for _ in 0..rng.below(3) { c.push("PRIOR".into()); }
                c.push((*rng.pick(&["i", "i", "i", "q", "START", "BY"])).to_string());
            }
            if rng.chance(1, 6) { c.push(",".into()); }
        };
        if rng.chance(1, 2) {
            c.extend(s(&["CONNECT", "BY"])); list(&mut rng, &mut c); c.extend(s(&["START", "WITH"]));
            if rng.chance(1, 4) { c.push("PRIOR".into()); }
            c.push("i".into());
        } else {
            c.extend(s(&["START", "WITH"]));
            if rng.chance(1, 4) { c.push("PRIOR".into()); }
            c.push("i".into());
            c.extend(s(&["CONNECT", "BY"])); list(&mut rng, &mut c);
        }
        for _ in 0..rng.below(3) {
            if c.is_empty() { break; }
            let at = rng.below(c.len());
            match rng.below(4) {
                0 => { c.remove(at); }
                1 => { let x = c[at].clone(); c.insert(at, x); }
                2 => { c.insert(at, (*rng.pick(&["i", ",", "PRIOR", "WITH", "CONNECT", "(", ")"])).to_string()); }
                _ => { c.truncate(at); }
            }
        }
        if rng.chance(1, 5) { c.push((*rng.pick(&["i", ",", ";", "FROM"])).to_string()); }
        let d = *rng.pick(&["generic", "snowflake", "mssql", "redshift"]);
        if rng.chance(1, 2) {
            cases.push(("cby", d, c));
        } else if c.first().map(|x| x == "START" || x == "CONNECT").unwrap_or(false) {
            let mut q = s(&["SELECT", "i", "FROM", "i"]);
            q.extend(c);
            cases.push(("query", d, q));
        }
    }

    // ---- run in batches that share one parser value (same dialect, same limit regime)
    cases.sort_by_key(|c| (c.1, c.0 == "query"));
    let mut i = 0;
    while i < cases.len() {
        let (_, dname, _) = cases[i];
        let d = dialect(dname);
        let tc = rng.chance(1, 2);
        let scen0 = cases[i].0;
        let limit: usize = if scen0 == "query" { *rng.pick(&[50, 50, 50, 0]) } else { *rng.pick(&[0, 1, 2, 3, 4, 5, 6, 50, 50, 50]) };
        let v = d.supports_projection_trailing_commas();
        let mut p = Parser::new(d.as_ref()).with_options(ParserOptions::new().with_trailing_commas(tc)).with_recursion_limit(limit);
        let batch = 1 + rng.below(6);
        let mut j = i;
        while j < cases.len() && j < i + batch && cases[j].1 == dname && (cases[j].0 == "query") == (scen0 == "query") {
            let (scen, _, syms) = &cases[j];
            // interleave whitespace
            let mut toks = vec![];
            let mut wire = vec![];
            let ws = rng.below(3);
            for sy in syms {
                if ws > 0 && rng.chance(ws, 4) { let (t, c) = mk("w", false); toks.push(t); wire.push(c); }
                let (t, c) = mk(sy, rng.chance(1, 2));
                toks.push(t);
                wire.push(c);
            }
            if ws > 0 && rng.chance(1, 3) { let (t, c) = mk("w", false); toks.push(t); wire.push(c); }
            let twl: Vec<TokenWithLocation> = toks.into_iter().enumerate().map(|(k, t)| TokenWithLocation { token: t, location: Location { line: 1, column: k as u64 + 1 } }).collect();
            let wire_t = if wire.is_empty() { "-".to_string() } else { wire.join(" ") };
            writeln!(req, "cursorstate\t{scen}\t{wire_t}\t{}\t{limit}\t{}", tc as u8, v as u8).unwrap();
            p = p.with_tokens_with_locations(twl);
            let out = guard(|| match *scen {
                "proj" => match p.parse_projection() { Ok(v) => format!("ok:{}", v.len()), Err(e) => class(&e).to_string() },
                "expr" => match p.parse_expr() { Ok(_) => "ok".to_string(), Err(e) => class(&e).to_string() },
                "cby" => match p.parse_connect_by() { Ok(c) => format!("ok:{}", c.relationships.len()), Err(e) => class(&e).to_string() },
                _ => match p.parse_query() {
                    Ok(q) => match q.body.as_ref() {
                        SetExpr::Select(s) => match &s.connect_by { Some(c) => format!("ok:{}", c.relationships.len()), None => "ok:none".to_string() },
                        _ => "ok:?".to_string(),
                    },
                    Err(e) => class(&e).to_string(),
                },
            });
            let line = match out {
                G::Val(c) => {
                    let l = format!("{c} {}", st(&p));
                    distinct.insert((scen.to_string(), c.split(':').next().unwrap().to_string(), limit.min(7), tc, v));
                    r.count(&format!("{scen}/{}", c.split(':').next().unwrap()));
                    l
                }
                G::Panic(m) => {
                    r.count(&format!("{scen}/panic"));
                    r.panic(dname, Opts::DEFAULT, &wire_t, m);
                    // a panicking parser value is abandoned
                    p = Parser::new(d.as_ref()).with_options(ParserOptions::new().with_trailing_commas(tc)).with_recursion_limit(limit);
                    "PANIC".to_string()
                }
            };
            writeln!(real, "{line}").unwrap();
            r.evaluations += 1;
            if j % 4001 == 7 { r.sample(serde_json::json!({"scenario": scen, "dialect": dname, "tokens": wire_t, "trailing": tc, "limit": limit, "answer": line})); }
            j += 1;
        }
        r.count(&format!("batch/{}", j - i));
        i = j;
    }
    r.distinct_nontrivial = distinct.len() as u64;
    r
}

//! C03 oracle: nesting families run in child processes (a stack overflow kills only the child).
use crate::common::*;
use sqlparser::parser::ParserError;
use std::process::Command;

pub struct Family {
    pub name: &'static str,
    pub dialects: &'static [&'static str],
    pub build: fn(usize) -> String,
    /// sibling form: m copies of a shallow instance
    pub siblings: Option<fn(usize) -> String>,
}

fn rep(s: &str, n: usize) -> String {
    s.repeat(n)
}

pub fn families() -> Vec<Family> {
    vec![
        Family { name: "parens", dialects: &["generic", "postgresql", "mysql"], build: |n| format!("SELECT {}1{}", rep("(", n), rep(")", n)), siblings: Some(|m| format!("SELECT {}", vec!["((1))"; m].join(", "))) },
        Family { name: "scalar-subquery", dialects: &["generic", "ansi"], build: |n| format!("SELECT {}1{}", rep("(SELECT ", n), rep(")", n)), siblings: Some(|m| format!("SELECT {}", vec!["(SELECT (SELECT 1))"; m].join(", "))) },
        Family { name: "derived-table", dialects: &["generic", "snowflake"], build: |n| format!("SELECT * FROM {}t{}", rep("(SELECT * FROM ", n), rep(") AS x", n)), siblings: Some(|m| format!("SELECT * FROM {}", vec!["(SELECT * FROM (SELECT 1) AS a) AS b"; m].join(", "))) },
        Family { name: "nested-join", dialects: &["generic", "postgresql"], build: |n| format!("SELECT * FROM {}t{}", rep("(", n), rep(" JOIN u ON 1 = 1)", n)), siblings: Some(|m| format!("SELECT * FROM {}", vec!["((t JOIN u ON 1 = 1) JOIN v ON 1 = 1)"; m].join(", "))) },
        Family { name: "right-nested-join", dialects: &["generic", "mysql"], build: |n| format!("SELECT * FROM a{} JOIN c ON 1 = 1{}", rep(" JOIN (b", n), rep(") ON 1 = 1", n)), siblings: None },
        Family { name: "table-parens", dialects: &["snowflake"], build: |n| format!("SELECT * FROM {}t{}", rep("(", n), rep(")", n)), siblings: None },
        Family { name: "case", dialects: &["generic", "mssql"], build: |n| format!("SELECT {}1{}", rep("CASE WHEN ", n), rep(" THEN 1 END", n)), siblings: Some(|m| format!("SELECT {}", vec!["CASE WHEN CASE WHEN 1 THEN 1 END THEN 1 END"; m].join(", "))) },
        Family { name: "call", dialects: &["generic", "duckdb", "hive"], build: |n| format!("SELECT {}1{}", rep("f(", n), rep(")", n)), siblings: Some(|m| format!("SELECT {}", vec!["f(f(1))"; m].join(", "))) },
        Family { name: "array-literal", dialects: &["generic", "postgresql", "duckdb"], build: |n| format!("SELECT {}1{}", rep("[", n), rep("]", n)), siblings: Some(|m| format!("SELECT {}", vec!["[[1]]"; m].join(", "))) },
        Family { name: "array-keyword", dialects: &["generic", "postgresql"], build: |n| format!("SELECT {}1{}", rep("ARRAY[", n), rep("]", n)), siblings: None },
        Family { name: "struct-literal", dialects: &["duckdb", "generic"], build: |n| format!("SELECT {}1{}", rep("{'a': ", n), rep("}", n)), siblings: Some(|m| format!("SELECT {}", vec!["{'a': {'a': 1}}"; m].join(", "))) },
        Family { name: "map-literal", dialects: &["duckdb"], build: |n| format!("SELECT {}1{}", rep("MAP {'a': ", n), rep("}", n)), siblings: None },
        Family { name: "tuple", dialects: &["generic", "clickhouse"], build: |n| format!("SELECT {}1, 2{}", rep("(", n), rep(", 3)", n)), siblings: None },
        Family { name: "datatype-angle", dialects: &["generic", "bigquery", "hive"], build: |n| format!("SELECT CAST(x AS {}INT{})", rep("ARRAY<", n), rep(">", n)), siblings: Some(|m| format!("CREATE TABLE t ({})", (0..m).map(|i| format!("c{i} ARRAY<ARRAY<INT>>")).collect::<Vec<_>>().join(", "))) },
        Family { name: "datatype-struct", dialects: &["generic", "bigquery"], build: |n| format!("SELECT CAST(x AS {}INT{})", rep("STRUCT<a ", n), rep(">", n)), siblings: None },
        Family { name: "datatype-paren", dialects: &["clickhouse", "generic"], build: |n| format!("CREATE TABLE t (c {}Int32{})", rep("Nullable(", n), rep(")", n)), siblings: None },
        Family { name: "datatype-nested", dialects: &["clickhouse"], build: |n| format!("CREATE TABLE t (c {}Int32{})", rep("Nested(a ", n), rep(")", n)), siblings: None },
        Family { name: "interval", dialects: &["generic", "postgresql"], build: |n| format!("SELECT {}'1' DAY", rep("INTERVAL ", n)), siblings: Some(|m| format!("SELECT {}", vec!["INTERVAL '1' DAY"; m].join(", "))) },
        Family { name: "row-pattern", dialects: &["snowflake", "generic"], build: |n| format!("SELECT * FROM t MATCH_RECOGNIZE(PATTERN ({}A{}) DEFINE A AS true)", rep("(", n), rep(")", n)), siblings: None },
        Family { name: "row-pattern-alt", dialects: &["snowflake"], build: |n| format!("SELECT * FROM t MATCH_RECOGNIZE(PATTERN ({}A) DEFINE A AS true)", rep("A | ", n)), siblings: None },
        Family { name: "unary-minus", dialects: &["generic", "mysql"], build: |n| format!("SELECT {}1", rep("- ", n)), siblings: None },
        Family { name: "not", dialects: &["generic", "sqlite"], build: |n| format!("SELECT {}x", rep("NOT ", n)), siblings: None },
        Family { name: "pg-prefix-op", dialects: &["postgresql"], build: |n| format!("SELECT {}1", rep("~ ", n)), siblings: None },
        Family { name: "exists", dialects: &["generic"], build: |n| format!("SELECT {}1{}", rep("EXISTS (SELECT ", n), rep(")", n)), siblings: None },
        Family { name: "prepare-nested-statement", dialects: &["generic", "postgresql"], build: |n| format!("{}SELECT 1", (0..n).map(|i| format!("PREPARE p{i} AS ")).collect::<String>()), siblings: None },
        Family { name: "cte", dialects: &["generic"], build: |n| format!("{}SELECT 1{} SELECT 2", rep("WITH a AS (", n), rep(") SELECT 2", n).strip_suffix(" SELECT 2").unwrap().to_string()), siblings: Some(|m| format!("WITH {} SELECT 1", (0..m).map(|i| format!("a{i} AS (SELECT 1)")).collect::<Vec<_>>().join(", "))) },
        Family { name: "in-subquery", dialects: &["generic"], build: |n| format!("SELECT 1 WHERE {}SELECT 1{}", rep("1 IN (", n), rep(")", n)), siblings: None },
        Family { name: "window-frame-interval", dialects: &["generic"], build: |n| format!("SELECT {}1{}", rep("f(1) OVER (ORDER BY x RANGE BETWEEN INTERVAL ", n), rep(" PRECEDING AND CURRENT ROW)", n)), siblings: None },
        Family { name: "create-view-query", dialects: &["generic"], build: |n| format!("CREATE VIEW v AS {}SELECT 1{}", rep("(", n), rep(")", n)), siblings: None },
        Family { name: "union-parens", dialects: &["generic"], build: |n| format!("{}SELECT 1{}", rep("(", n), rep(" UNION SELECT 2)", n)), siblings: None },
        Family { name: "lambda", dialects: &["databricks"], build: |n| format!("SELECT {}1{}", rep("f(x -> ", n), rep(")", n)), siblings: None },
    ]
}

/// child: parse one case, print `outcome remaining_before remaining_after steps`
pub fn child(args: &[String]) {
    let fam = &args[0];
    let dn = &args[1];
    let limit: Option<usize> = args[2].parse().ok();
    let n: usize = args[3].parse().unwrap();
    let sib = args.get(4).map(|s| s == "sib").unwrap_or(false);
    let f = families().into_iter().find(|f| f.name == fam).expect("family");
    let sql = if sib { (f.siblings.unwrap())(n) } else { (f.build)(n) };
    let d = dialect(dn);
    let o = Opts { unescape: true, trailing: None, limit };
    sqlparser::parser::verif_hooks::reset(50_000_000);
    let mut p = match mk_parser(d.as_ref(), o).try_with_sql(&sql) {
        Ok(p) => p,
        Err(e) => { println!("lexerr {e}"); return; }
    };
    let before = p.verif_state().4;
    let r = guard(|| p.parse_statements());
    let after = p.verif_state().4;
    let steps = sqlparser::parser::verif_hooks::steps();
    let out = match &r {
        G::Val(Ok(v)) => format!("ok stmts={}", v.len()),
        G::Val(Err(ParserError::RecursionLimitExceeded)) => "rle".to_string(),
        G::Val(Err(e)) => format!("err {}", trunc(&e.to_string(), 120)),
        G::Panic(m) => format!("panic {m}"),
    };
    println!("{out} | before={before} after={after} steps={steps} chars={}", sql.len());
    // tree operations (print, clone, compare, drop) on deep trees are C02's business: leak the result
    std::mem::forget(r);
}

fn run_child(fam: &str, dn: &str, limit: Option<usize>, n: usize, sib: bool) -> (String, Option<i32>) {
    let exe = std::env::current_exe().unwrap();
    let out = Command::new(exe)
        .args(["nest-child", fam, dn, &limit.map(|l| l.to_string()).unwrap_or("-".into()), &n.to_string(), if sib { "sib" } else { "nest" }])
        .output()
        .expect("spawn");
    let code = out.status.code();
    let s = String::from_utf8_lossy(&out.stdout).trim().to_string();
    if code.is_none() || code != Some(0) {
        let err = String::from_utf8_lossy(&out.stderr);
        let kind = if err.contains("overflowed its stack") { "stack-overflow" } else { "abnormal-exit" };
        return (format!("{kind} {}", trunc(err.trim(), 100)), code);
    }
    (s, code)
}

pub fn oracle(_seed: u64, tier: &str) -> Vec<Report> {
    let mut r = Report::new("C03", "oracle.nest", "every nesting family x its dialects x limits {default 50, 10, 0} x depths {1,2,3,L/2,L-1,L,L+1,2L+2,1000,100000}: the child process must exit normally; depth > 2L+2 must give RecursionLimitExceeded when the shallow instance is accepted; shallow depths (<= 3 with default limit) must be accepted; the counter must be restored after Ok and Err; sibling forms with 3000 shallow instances must not trip the limit. non-trivial = distinct (family, dialect, outcome class)");
    r.exhaustive = true;
    let fams = families();
    let mut jobs: Vec<(usize, String, Option<usize>, usize, bool)> = vec![];
    for (fi, f) in fams.iter().enumerate() {
        for dn in f.dialects {
            for limit in [None, Some(10usize), Some(0)] {
                let l = limit.unwrap_or(50);
                let mut depths = vec![1, 2, 3, l / 2, l.saturating_sub(1), l, l + 1, 2 * l + 2, 1000, 100_000];
                if tier == "thorough" { depths.extend([4, 5, 7, l / 3, 3 * l, 10_000, 1_000_000]); }
                depths.sort();
                depths.dedup();
                for n in depths {
                    if n == 0 { continue; }
                    jobs.push((fi, dn.to_string(), limit, n, false));
                }
            }
            if f.siblings.is_some() {
                jobs.push((fi, dn.to_string(), None, 3000, true));
                jobs.push((fi, dn.to_string(), Some(16), 3000, true));
            }
        }
    }
    // run children in parallel
    let results = std::sync::Mutex::new(vec![(String::new(), None); jobs.len()]);
    let next = std::sync::atomic::AtomicUsize::new(0);
    std::thread::scope(|s| {
        for _ in 0..16 {
            s.spawn(|| loop {
                let i = next.fetch_add(1, std::sync::atomic::Ordering::SeqCst);
                if i >= jobs.len() { break; }
                let (fi, dn, limit, n, sib) = &jobs[i];
                let res = run_child(fams[*fi].name, dn, *limit, *n, *sib);
                results.lock().unwrap()[i] = res;
            });
        }
    });
    let results = results.into_inner().unwrap();
    let mut distinct = std::collections::BTreeSet::new();
    // does the family parse at depth 1 under (dialect, limit=default)?
    let mut base_ok = std::collections::BTreeMap::new();
    for (i, (fi, dn, limit, n, sib)) in jobs.iter().enumerate() {
        if !*sib && *n == 1 && limit.is_none() {
            base_ok.insert((*fi, dn.clone()), results[i].0.starts_with("ok"));
        }
    }
    for (i, (fi, dn, limit, n, sib)) in jobs.iter().enumerate() {
        let f = &fams[*fi];
        let (out, _code) = &results[i];
        r.evaluations += 1;
        let l = limit.unwrap_or(50);
        let o = Opts { unescape: true, trailing: None, limit: *limit };
        let input = format!("{}({}){}", f.name, n, if *sib { " siblings" } else { "" });
        let class: String = out.split(' ').next().unwrap_or("").to_string();
        distinct.insert((f.name, dn.clone(), class.clone()));
        r.count(&format!("outcome/{class}"));
        let accepted = *base_ok.get(&(*fi, dn.clone())).unwrap_or(&false);
        if class == "stack-overflow" || class == "abnormal-exit" {
            r.fail(format!("{}/{class}", f.name), dn, o, &input, out.clone());
            continue;
        }
        if class == "panic" {
            let sig = if out.contains("step budget") { format!("{}/work-explosion", f.name) } else { format!("{}/panic", f.name) };
            r.fail(sig, dn, o, &input, out.clone());
            continue;
        }
        // counter restored
        if let (Some(b), Some(a)) = (field(out, "before="), field(out, "after=")) {
            if a != b { r.fail(format!("{}/depth-not-restored", f.name), dn, o, &input, out.clone()); }
        }
        if !accepted { r.count("not-accepted-at-depth-1"); continue; }
        if *sib {
            if class != "ok" { r.fail(format!("{}/siblings-rejected", f.name), dn, o, &input, out.clone()); }
            continue;
        }
        if *n > 2 * l + 2 && class != "rle" {
            r.fail(format!("{}/no-limit-error", f.name), dn, o, &input, out.clone());
        }
        if limit.is_none() && *n <= 3 && class != "ok" {
            r.fail(format!("{}/shallow-rejected", f.name), dn, o, &input, out.clone());
        }
        if r.evaluations % 97 == 1 { r.sample(serde_json::json!({"family": f.name, "dialect": dn, "limit": limit, "depth": n, "outcome": out})); }
    }
    r.distinct_nontrivial = distinct.len() as u64;
    vec![r, chains(tier)]
}

/// "for all m: m sibling constructs of depth <= L/2 parse Ok": the iterative constructs of the grammar
/// (operator, set-operation, join, postfix chains, flat lists; the families of the C02 deep oracle)
/// with m up to 10^5 must PARSE without exhausting the stack and without the limit error; what
/// happens to the resulting left-deep tree afterwards (print, clone, drop) is C02's business.
fn chains(tier: &str) -> Report {
    let mut r = Report::new("C03", "oracle.chains", "every iterative construct (chain/* and siblings/* families of the C02 deep oracle) at m in {20000, 100000} (thorough: also 300000) elements, default limit and limit 8, in child processes: the parse must return normally (no stack overflow) and must not report the recursion limit; non-trivial = distinct (family, outcome class)");
    r.exhaustive = true;
    let fams: Vec<_> = crate::c02::deep_families().into_iter().filter(|f| f.name.starts_with("chain/") || f.name.starts_with("siblings/")).collect();
    let sizes: Vec<usize> = if tier == "thorough" { vec![20_000, 100_000, 300_000] } else { vec![20_000, 100_000] };
    let mut jobs = vec![];
    for (fi, _) in fams.iter().enumerate() {
        for &n in &sizes {
            jobs.push((fi, n, None::<usize>));
        }
        jobs.push((fi, 3000, Some(8usize)));
    }
    let results = std::sync::Mutex::new(vec![String::new(); jobs.len()]);
    let next = std::sync::atomic::AtomicUsize::new(0);
    std::thread::scope(|s| {
        for _ in 0..12 {
            s.spawn(|| loop {
                let i = next.fetch_add(1, std::sync::atomic::Ordering::SeqCst);
                if i >= jobs.len() { break; }
                let (fi, n, lim) = jobs[i];
                let exe = std::env::current_exe().unwrap();
                let out = Command::new(exe).args(["deep-child", fams[fi].name, &n.to_string(), &lim.map(|l| l.to_string()).unwrap_or("-".into()), "parse-only"]).output().expect("spawn");
                let so = String::from_utf8_lossy(&out.stdout).to_string();
                let se = String::from_utf8_lossy(&out.stderr).to_string();
                let first = so.lines().next().unwrap_or("").to_string();
                let res = if !first.is_empty() { first } else if se.contains("overflowed its stack") { "stack-overflow in parse".to_string() } else { format!("abnormal {}", trunc(se.trim(), 80)) };
                results.lock().unwrap()[i] = res;
            });
        }
    });
    let results = results.into_inner().unwrap();
    let mut distinct = std::collections::BTreeSet::new();
    for (i, (fi, n, lim)) in jobs.iter().enumerate() {
        let f = &fams[*fi];
        let out = &results[i];
        r.evaluations += 1;
        let o = Opts { unescape: true, trailing: None, limit: *lim };
        let input = format!("{}({})", f.name, n);
        let class = out.split(' ').next().unwrap_or("").to_string();
        distinct.insert((f.name, class.clone()));
        r.count(&format!("outcome/{class}"));
        if class == "stack-overflow" || class == "abnormal" {
            r.fail(format!("{}/{class}", f.name), f.dialect, o, &input, out.clone());
        } else if out.contains("recursion limit") || out.contains("Recursion limit") {
            r.fail(format!("{}/siblings-hit-limit", f.name), f.dialect, o, &input, out.clone());
        } else if class == "panic" {
            r.fail(format!("{}/panic", f.name), f.dialect, o, &input, out.clone());
        }
        if i % 11 == 0 { r.sample(serde_json::json!({"family": f.name, "m": n, "limit": lim, "outcome": out})); }
    }
    r.distinct_nontrivial = distinct.len() as u64;
    r
}

fn field(s: &str, key: &str) -> Option<u64> {
    let p = s.find(key)? + key.len();
    s[p..].split(' ').next()?.parse().ok()
}

// ---------------------------------------------------------------- dynamic ⊆ static call edges
thread_local! {
    static SAMPLES: std::cell::RefCell<Vec<Vec<String>>> = const { std::cell::RefCell::new(Vec::new()) };
}

fn frame_to_node(sym: &str) -> Option<String> {
    // strip generic arguments and closure suffixes
    let mut s = sym.trim().to_string();
    while let Some(p) = s.find("::{{closure}}") { s.replace_range(p..p + "::{{closure}}".len(), ""); }
    while let Some(p) = s.find("::{closure") { let e = s[p..].find('}').map(|e| p + e + 1).unwrap_or(s.len()); s.replace_range(p..e, ""); }
    // drop `::<…>` generic instantiations
    loop {
        match s.find("::<") {
            Some(p) => {
                let mut depth = 0; let mut e = p + 2;
                for (i, ch) in s[p + 2..].char_indices() { if ch == '<' { depth += 1 } else if ch == '>' { depth -= 1; if depth == 0 { e = p + 2 + i + 1; break; } } }
                s.replace_range(p..e, "");
            }
            None => break,
        }
    }
    if let Some(rest) = s.strip_prefix("sqlparser::parser::Parser::") { return Some(format!("Parser::{}", rest.split("::").next().unwrap_or(rest))); }
    if let Some(rest) = s.strip_prefix("sqlparser::parser::alter::<impl sqlparser::parser::Parser>::") { return Some(format!("Parser::{}", rest.split("::").next().unwrap_or(rest))); }
    if s.starts_with('<') && s.contains(" as sqlparser::dialect::Dialect>::") {
        let ty = s[1..].split(" as ").next()?.rsplit("::").next()?.to_string();
        let name = s.rsplit(">::").next()?.split("::").next()?.to_string();
        return Some(format!("{ty} as Dialect::{name}"));
    }
    if let Some(rest) = s.strip_prefix("sqlparser::dialect::Dialect::") { return Some(format!("trait Dialect::{}", rest.split("::").next().unwrap_or(rest))); }
    if let Some(rest) = s.strip_prefix("sqlparser::dialect::") {
        let parts: Vec<&str> = rest.split("::").collect();
        if parts.len() == 2 { return Some(format!("free:dialect_{}::{}", parts[0], parts[1])); }
    }
    None
}

fn sampler() {
    let bt = std::backtrace::Backtrace::force_capture().to_string();
    let mut frames = vec![];
    for line in bt.lines() {
        let l = line.trim();
        // lines look like `12: sqlparser::parser::Parser::parse_query`
        if let Some(p) = l.find(": ") {
            if l[..p].chars().all(|c| c.is_ascii_digit()) {
                if let Some(n) = frame_to_node(&l[p + 2..]) { if frames.last() != Some(&n) { frames.push(n); } }
            }
        }
    }
    SAMPLES.with(|s| s.borrow_mut().push(frames));
}

pub fn dyn_edges(c: &Corpus, tier: &str) -> Report {
    let mut r = Report::new("C03", "oracle.dyn-edges", "call stacks sampled (hook: every N cursor steps) while parsing every accepted corpus (text, dialect) pair: after removing the frames of the higher-order helpers (transparent in the static graph) each pair of adjacent parser/dialect frames (outer, inner) must be connected in the call graph extracted by the translator by a path of at most 6 edges (intermediate functions may be inlined in the release build); a missing connection means the static graph, on which the C03 certificate is checked, misses a call. non-trivial = distinct dynamic (outer, inner) pairs");
    let cg: serde_json::Value = match std::fs::read_to_string(format!("{}/callgraph.json", gen_dir())).ok().and_then(|t| serde_json::from_str(&t).ok()) { Some(v) => v, None => { r.fail("callgraph/unreadable".into(), "-", Opts::DEFAULT, "", String::new()); return r; } };
    let nodes: std::collections::BTreeSet<String> = cg["nodes"].as_array().unwrap().iter().map(|x| x.as_str().unwrap().to_string()).collect();
    let ho: std::collections::BTreeSet<String> = cg["ho_helpers"].as_array().map(|a| a.iter().map(|x| x.as_str().unwrap().to_string()).collect()).unwrap_or_default();
    let mut adj: std::collections::BTreeMap<String, Vec<String>> = Default::default();
    for e in cg["edges"].as_array().unwrap() { adj.entry(e[0].as_str().unwrap().to_string()).or_default().push(e[1].as_str().unwrap().to_string()); }
    let reach = |a: &str, b: &str| -> bool {
        let mut frontier = vec![a.to_string()];
        let mut seen: std::collections::BTreeSet<String> = Default::default();
        for _ in 0..6 {
            let mut next = vec![];
            for x in &frontier { for y in adj.get(x).map(|v| v.as_slice()).unwrap_or(&[]) { if y == b { return true; } if seen.insert(y.clone()) { next.push(y.clone()); } } }
            frontier = next;
        }
        false
    };
    let ds = all_dialects();
    let every = if tier == "thorough" { 13 } else { 101 };
    let mut pairs: std::collections::BTreeMap<(String, String), String> = Default::default();
    sqlparser::parser::verif_hooks::reset(u64::MAX);
    sqlparser::parser::verif_hooks::set_sampler(every, Some(sampler));
    for &(i, k) in &c.accepted {
        let s = &c.literals[i];
        let _ = parse(ds[k].1.as_ref(), Opts::DEFAULT, s);
        let got: Vec<Vec<String>> = SAMPLES.with(|x| std::mem::take(&mut *x.borrow_mut()));
        for frames in got {
            r.evaluations += 1;
            // higher-order helpers (parse_comma_separated, maybe_parse, …) are transparent in the
            // static graph: drop their frames; frames are innermost first
            let frames: Vec<String> = frames.into_iter().filter(|f| !ho.contains(f)).collect();
            let mut dedup: Vec<String> = vec![];
            for f in frames { if dedup.last() != Some(&f) { dedup.push(f); } }
            let frames = dedup;
            for w in frames.windows(2) {
                let (inner, outer) = (&w[0], &w[1]);
                pairs.entry((outer.clone(), inner.clone())).or_insert_with(|| format!("{}: {}", ds[k].0, trunc(s, 120)));
            }
        }
    }
    sqlparser::parser::verif_hooks::set_sampler(0, None);
    for ((outer, inner), wit) in &pairs {
        if !nodes.contains(outer) { r.count("frame-not-a-node"); r.fail(format!("callgraph/unknown-function/{outer}"), "-", Opts::DEFAULT, wit, format!("frame {outer} is not a node of the extracted graph")); continue; }
        if !nodes.contains(inner) { r.fail(format!("callgraph/unknown-function/{inner}"), "-", Opts::DEFAULT, wit, format!("frame {inner} is not a node of the extracted graph")); continue; }
        if outer == inner { continue; }
        if !reach(outer, inner) { r.fail(format!("callgraph/missing-edge/{outer}->{inner}"), "-", Opts::DEFAULT, wit, "no static path of length <= 6".into()); }
    }
    r.distinct_nontrivial = pairs.len() as u64;
    for (p, w) in pairs.iter().take(3) { r.sample(serde_json::json!({"outer": p.0, "inner": p.1, "seen_in": w})); }
    r
}

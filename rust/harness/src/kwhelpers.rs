//! Correspondence stream `kwhelpers`: the real keyword-testing helpers of the parser
//! (`parse_keyword`, `parse_keywords`, `parse_one_of_keywords`, `expect_keyword`, `expect_keywords`,
//! the peek test `Token::Word(w) if w.keyword == K`, `consume_token`, `next_token`) driven as op
//! sequences on token vectors whose words are table keywords in random capitalisation,
//! non-keywords, quoted words and "spoofed" words (arbitrary spelling, keyword field set) — result
//! and `verif_state().0` (index), error position for the expect_* ops — against the helper
//! programs of `Model/CursorKw.lean` under `Cursor.runC`.
use crate::canon::{kw_pos, tok_canon};
use crate::common::*;
use sqlparser::dialect::GenericDialect;
use sqlparser::keywords::{Keyword, ALL_KEYWORDS, ALL_KEYWORDS_INDEX};
use sqlparser::parser::{Parser, ParserError};
use sqlparser::tokenizer::{Location, Token, TokenWithLocation, Whitespace, Word};
use std::collections::BTreeSet;
use std::io::Write;

fn kw_of(i: Option<usize>) -> Keyword {
    match i { Some(i) => ALL_KEYWORDS_INDEX[i], None => Keyword::NoKeyword }
}
fn kw_wire(i: Option<usize>) -> String {
    i.map(|x| x.to_string()).unwrap_or("none".into())
}
fn recase(k: &str, rng: &mut Rng) -> String {
    match rng.below(4) {
        0 => k.to_string(),
        1 => k.to_lowercase(),
        _ => k.chars().map(|c| if rng.chance(1, 2) { c.to_ascii_lowercase() } else { c }).collect(),
    }
}
fn err_pos(e: &ParserError) -> String {
    let m = e.to_string();
    match m.rfind(" at Line: ") {
        Some(p) => {
            let t = &m[p + 10..];
            let mut it = t.split(", Column: ");
            let l = it.next().unwrap_or("0");
            let c = it.next().unwrap_or("0");
            format!("{l}:{c}")
        }
        None => "0:0".into(),
    }
}

pub fn corr(dir: &str, seed: u64, tier: &str) -> Report {
    let mut r = Report::new("C08", "corr.kwhelpers", "random token vectors (table keywords in random capitalisation, non-keywords, quoted words, words with arbitrary spelling and a set keyword field, punctuation, whitespace) x random op sequences over the real parse_keyword / parse_keywords / parse_one_of_keywords / expect_keyword / expect_keywords / peek keyword test / consume_token / next_token; each op's result, index and error position compared; non-trivial = distinct (op kind, outcome, kind of the token under the cursor)");
    let mut rng = Rng(seed ^ 0xC08A);
    let mut req = std::fs::File::create(format!("{dir}/kwhelpers.req")).unwrap();
    let mut real = std::fs::File::create(format!("{dir}/kwhelpers.real")).unwrap();
    let d = GenericDialect {};
    let n = if tier == "thorough" { 150_000 } else { 25_000 };
    let mut distinct = BTreeSet::new();
    let nkw = ALL_KEYWORDS.len();
    for case in 0..n {
        // a small pool of keywords per case so that tests hit
        let pool: Vec<usize> = (0..(2 + rng.below(4))).map(|_| rng.below(nkw)).collect();
        let pick_kw = |rng: &mut Rng| -> Option<usize> {
            match rng.below(12) { 0 => None, 1 => Some(rng.below(nkw)), _ => Some(*rng.pick(&pool)) }
        };
        let len = match case % 9 { 0 => 0, 1 => 1, _ => 1 + rng.below(9) };
        let mut toks: Vec<Token> = vec![];
        for _ in 0..len {
            let t = match rng.below(16) {
                0..=6 => Token::make_word(&recase(ALL_KEYWORDS[*rng.pick(&pool)], &mut rng), None),
                7 => Token::make_word(*rng.pick(&["foo", "x1", "selec", "SELECTS", "é", "_"]), None),
                8 => Token::make_word(&recase(ALL_KEYWORDS[*rng.pick(&pool)], &mut rng), Some(*rng.pick(&['"', '`', '['])) ),
                // spelling and keyword field disagree: only the field may count
                9 => Token::Word(Word { value: (*rng.pick(&["foo", "SELECT", "from"])).to_string(), quote_style: None, keyword: kw_of(Some(*rng.pick(&pool))) }),
                10 => Token::Comma,
                11 => rng.pick(&[Token::LParen, Token::RParen, Token::SemiColon, Token::Period]).clone(),
                12 => Token::Number("1".into(), false),
                _ => Token::Whitespace(Whitespace::Space),
            };
            toks.push(t);
        }
        let nops = 1 + rng.below(8);
        let mut ops: Vec<String> = vec![];
        for _ in 0..nops {
            let list = |rng: &mut Rng, max: usize| -> String { (0..(rng.below(max + 1))).map(|_| kw_wire(pick_kw(rng))).collect::<Vec<_>>().join(",") };
            ops.push(match rng.below(16) {
                0..=2 => format!("K{}", kw_wire(pick_kw(&mut rng))),
                3..=5 => format!("S{}", list(&mut rng, 3)),
                6..=7 => format!("O{}", list(&mut rng, 4)),
                8..=9 => format!("E{}", kw_wire(pick_kw(&mut rng))),
                10..=11 => format!("X{}", list(&mut rng, 3)),
                12 => format!("P{},{}", rng.below(3), kw_wire(pick_kw(&mut rng))),
                13 => {
                    // consume_token with a token of the vector, a fresh keyword word, punctuation or EOF
                    let t = match rng.below(5) {
                        0 if !toks.is_empty() => rng.pick(&toks).clone(),
                        1 => Token::make_word(ALL_KEYWORDS[*rng.pick(&pool)], None),
                        2 => Token::EOF,
                        _ => Token::Comma,
                    };
                    format!("C{}", tok_canon(&t))
                }
                _ => "N".to_string(),
            });
        }
        let wire_t = if toks.is_empty() { "-".to_string() } else { toks.iter().map(tok_canon).collect::<Vec<_>>().join(";") };
        writeln!(req, "kwhelpers\t{wire_t}\t{}", ops.join("|")).unwrap();
        let twl: Vec<TokenWithLocation> = toks.iter().enumerate().map(|(i, t)| TokenWithLocation { token: t.clone(), location: Location { line: 1, column: i as u64 + 1 } }).collect();
        let mut p = Parser::new(&d).with_tokens_with_locations(twl);
        let parse_list = |s: &str| -> Vec<Keyword> { if s.is_empty() { vec![] } else { s.split(',').map(|x| kw_of(x.parse().ok())).collect() } };
        let mut outs: Vec<String> = vec![];
        for op in &ops {
            let c = op.chars().next().unwrap();
            let arg = &op[1..];
            let under = match p.peek_token().token { Token::Word(w) => if w.quote_style.is_some() { "quoted" } else if w.keyword == Keyword::NoKeyword { "ident" } else { "kw" }, Token::EOF => "eof", _ => "other" };
            let res = guard(|| match c {
                'K' => format!("{}", p.parse_keyword(kw_of(arg.parse().ok()))),
                'S' => format!("{}", p.parse_keywords(&parse_list(arg))),
                'O' => match p.parse_one_of_keywords(&parse_list(arg)) { Some(k) => kw_pos(k), None => "nomatch".into() },
                'E' => match p.expect_keyword(kw_of(arg.parse().ok())) { Ok(()) => "ok".into(), Err(e) => format!("err@{}", err_pos(&e)) },
                'X' => match p.expect_keywords(&parse_list(arg)) { Ok(()) => "ok".into(), Err(e) => format!("err@{}", err_pos(&e)) },
                'P' => {
                    let mut it = arg.split(',');
                    let nth: usize = it.next().unwrap().parse().unwrap();
                    let k = kw_of(it.next().unwrap().parse().ok());
                    format!("{}", matches!(p.peek_nth_token(nth).token, Token::Word(w) if w.keyword == k))
                }
                'C' => {
                    let t = if arg == "EOF" { Token::EOF } else { toks.iter().find(|t| tok_canon(t) == arg).cloned().unwrap_or_else(|| decode_tok(arg)) };
                    format!("{}", p.consume_token(&t))
                }
                _ => tok_canon(&p.next_token().token).replace(' ', "."),
            });
            match res {
                G::Val(s) => {
                    let cls = s.split('@').next().unwrap().chars().take(5).collect::<String>();
                    distinct.insert((c, if c == 'N' || c == 'O' { String::new() } else { cls }, under));
                    outs.push(format!("{s}/{}", p.verif_state().0));
                }
                G::Panic(m) => { r.panic("generic", Opts::DEFAULT, &wire_t, m); outs.push("PANIC".into()); break; }
            }
            r.count(&format!("op/{c}"));
        }
        writeln!(real, "{}", outs.join(" ")).unwrap();
        r.evaluations += 1;
        if case % 6001 == 11 { r.sample(serde_json::json!({"tokens": wire_t, "ops": ops, "answers": outs})); }
    }
    r.distinct_nontrivial = distinct.len() as u64;
    r
}

/// the tokens `C` ops can name besides those of the vector
fn decode_tok(canon: &str) -> Token {
    if canon == "Comma" { return Token::Comma; }
    if let Some(rest) = canon.strip_prefix("Word:") {
        let f: Vec<&str> = rest.split(':').collect();
        let value = unhex(f[0]);
        let q = if f[1] == "-" { None } else { char::from_u32(u32::from_str_radix(f[1], 16).unwrap()) };
        return Token::make_word(&value, q);
    }
    Token::SemiColon
}

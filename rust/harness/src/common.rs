//! Shared pieces: dialect list, panic isolation, PRNG, corpus, result records.
use sqlparser::ast::Statement;
use sqlparser::dialect::*;
use sqlparser::parser::{Parser, ParserError, ParserOptions};
use sqlparser::tokenizer::{Token, TokenWithLocation, Tokenizer, TokenizerError, Whitespace};
use std::collections::{BTreeMap, BTreeSet};
use std::panic::{catch_unwind, AssertUnwindSafe};

pub const DIALECT_NAMES: [&str; 13] = [
    "generic", "ansi", "bigquery", "clickhouse", "databricks", "duckdb", "hive", "mssql", "mysql",
    "postgresql", "redshift", "snowflake", "sqlite",
];

/// With VERIF_WRAP=1 every dialect handed to the real code is the generated forwarding wrapper
/// around the built-in one (C15: real code under the wrapper vs model under the built-in's record).
pub fn dialect(name: &str) -> Box<dyn Dialect> {
    if std::env::var("VERIF_WRAP").map(|v| v == "1").unwrap_or(false) {
        return Box::new(crate::wrap::Wrapped(plain_dialect(name)));
    }
    plain_dialect(name)
}

pub fn plain_dialect(name: &str) -> Box<dyn Dialect> {
    match name {
        "generic" => Box::new(GenericDialect {}),
        "ansi" => Box::new(AnsiDialect {}),
        "bigquery" => Box::new(BigQueryDialect {}),
        "clickhouse" => Box::new(ClickHouseDialect {}),
        "databricks" => Box::new(DatabricksDialect {}),
        "duckdb" => Box::new(DuckDbDialect {}),
        "hive" => Box::new(HiveDialect {}),
        "mssql" => Box::new(MsSqlDialect {}),
        "mysql" => Box::new(MySqlDialect {}),
        "postgresql" => Box::new(PostgreSqlDialect {}),
        "redshift" => Box::new(RedshiftSqlDialect {}),
        "snowflake" => Box::new(SnowflakeDialect {}),
        "sqlite" => Box::new(SQLiteDialect {}),
        _ => panic!("unknown dialect {name}"),
    }
}

pub fn all_dialects() -> Vec<(&'static str, Box<dyn Dialect>)> {
    DIALECT_NAMES.iter().map(|n| (*n, dialect(n))).collect()
}

#[derive(Clone, Copy, Debug, PartialEq, Eq, PartialOrd, Ord)]
pub struct Opts {
    pub unescape: bool,
    /// None = dialect default
    pub trailing: Option<bool>,
    pub limit: Option<usize>,
}
impl Opts {
    pub const DEFAULT: Opts = Opts { unescape: true, trailing: None, limit: None };
    pub fn tag(&self) -> String {
        format!(
            "u{}t{}{}",
            self.unescape as u8,
            match self.trailing { None => "d", Some(true) => "1", Some(false) => "0" },
            match self.limit { None => String::new(), Some(l) => format!("L{l}") }
        )
    }
}
pub const OPTSETS: [Opts; 4] = [
    Opts { unescape: true, trailing: None, limit: None },
    Opts { unescape: false, trailing: None, limit: None },
    Opts { unescape: true, trailing: Some(true), limit: None },
    Opts { unescape: false, trailing: Some(true), limit: None },
];

pub fn mk_parser<'a>(d: &'a dyn Dialect, o: Opts) -> Parser<'a> {
    let mut p = Parser::new(d);
    let tc = o.trailing.unwrap_or(d.supports_trailing_commas());
    // the two builder orders are equivalent by contract (C14 checks that explicitly); the harness
    // uses both, so that an order-dependent builder shows in every oracle
    static FLIP: std::sync::atomic::AtomicUsize = std::sync::atomic::AtomicUsize::new(0);
    let opts = if FLIP.fetch_add(1, std::sync::atomic::Ordering::Relaxed) % 2 == 0 {
        ParserOptions::new().with_trailing_commas(tc).with_unescape(o.unescape)
    } else {
        ParserOptions::new().with_unescape(o.unescape).with_trailing_commas(tc)
    };
    p = p.with_options(opts);
    if let Some(l) = o.limit {
        p = p.with_recursion_limit(l);
    }
    p
}

/// Outcome of a guarded call.
pub enum G<T> {
    Val(T),
    Panic(String),
}

thread_local! {
    static LAST_PANIC: std::cell::RefCell<String> = std::cell::RefCell::new(String::new());
}

pub fn install_panic_hook() {
    std::panic::set_hook(Box::new(|info| {
        let loc = info.location().map(|l| format!("{}:{}", l.file(), l.line())).unwrap_or_default();
        let msg = if let Some(s) = info.payload().downcast_ref::<&str>() {
            s.to_string()
        } else if let Some(s) = info.payload().downcast_ref::<String>() {
            s.clone()
        } else {
            "?".to_string()
        };
        LAST_PANIC.with(|c| *c.borrow_mut() = format!("{loc}: {msg}"));
    }));
}

pub fn guard<T>(f: impl FnOnce() -> T) -> G<T> {
    match catch_unwind(AssertUnwindSafe(f)) {
        Ok(v) => G::Val(v),
        Err(_) => G::Panic(LAST_PANIC.with(|c| c.borrow().clone())),
    }
}

pub type PResult = Result<Vec<Statement>, ParserError>;

pub fn parse(d: &dyn Dialect, o: Opts, sql: &str) -> G<PResult> {
    guard(|| mk_parser(d, o).try_with_sql(sql).and_then(|mut p| p.parse_statements()))
}

pub fn tokenize(d: &dyn Dialect, unescape: bool, sql: &str) -> G<Result<Vec<TokenWithLocation>, TokenizerError>> {
    guard(|| Tokenizer::new(d, sql).with_unescape(unescape).tokenize_with_location())
}

pub fn is_ws(t: &Token) -> bool {
    matches!(t, Token::Whitespace(_))
}
pub fn is_line_comment(t: &Token) -> bool {
    matches!(t, Token::Whitespace(Whitespace::SingleLineComment { .. }))
}

/// Name of the enum variant at the head of a Debug rendering.
pub fn variant_of<T: std::fmt::Debug>(x: &T) -> String {
    let s = format!("{x:?}");
    s.chars().take_while(|c| c.is_alphanumeric() || *c == '_').collect()
}

pub fn err_class(e: &ParserError) -> &'static str {
    match e {
        ParserError::TokenizerError(_) => "lex",
        ParserError::ParserError(_) => "syntax",
        ParserError::RecursionLimitExceeded => "rle",
    }
}

// ---------------------------------------------------------------- PRNG
#[derive(Clone)]
pub struct Rng(pub u64);
impl Rng {
    pub fn next(&mut self) -> u64 {
        self.0 = self.0.wrapping_add(0x9E3779B97F4A7C15);
        let mut z = self.0;
        z = (z ^ (z >> 30)).wrapping_mul(0xBF58476D1CE4E5B9);
        z = (z ^ (z >> 27)).wrapping_mul(0x94D049BB133111EB);
        z ^ (z >> 31)
    }
    pub fn below(&mut self, n: usize) -> usize {
        if n == 0 { 0 } else { (self.next() % n as u64) as usize }
    }
    pub fn pick<'a, T>(&mut self, v: &'a [T]) -> &'a T {
        &v[self.below(v.len())]
    }
    pub fn chance(&mut self, num: usize, den: usize) -> bool {
        self.below(den) < num
    }
}

// ---------------------------------------------------------------- hex strings
pub fn hex(s: &str) -> String {
    if s.is_empty() {
        return "-".to_string();
    }
    s.chars().map(|c| format!("{:x}", c as u32)).collect::<Vec<_>>().join(" ")
}
pub fn unhex(s: &str) -> String {
    if s == "-" {
        return String::new();
    }
    s.split(' ').filter(|x| !x.is_empty()).map(|x| char::from_u32(u32::from_str_radix(x, 16).unwrap()).unwrap()).collect()
}

// ---------------------------------------------------------------- corpus
pub struct Corpus {
    pub literals: Vec<String>,
    /// (literal index, dialect index) pairs accepted under default options
    pub accepted: Vec<(usize, usize)>,
}

pub fn gen_dir() -> String {
    std::env::var("VERIF_GEN").unwrap_or_else(|_| "/verif/.build/gen".to_string())
}

pub fn load_corpus() -> Corpus {
    let p = format!("{}/corpus.json", gen_dir());
    let txt = std::fs::read_to_string(&p).unwrap_or_else(|e| panic!("{p}: {e}"));
    let j: serde_json::Value = serde_json::from_str(&txt).unwrap();
    let mut literals: Vec<String> = j["literals"].as_array().unwrap().iter().map(|v| v.as_str().unwrap().to_string()).collect();
    // committed regression corpus runs first
    let root = std::env::var("VERIF_ROOT").unwrap_or_else(|_| "/verif".to_string());
    let mut extra = std::fs::read_to_string(format!("{root}/corpus/regress.jsonl")).unwrap_or_default();
    // texts added after a seeded change was missed; VERIF_NO_SEEDCORPUS=1 leaves them out (used to
    // test whether a seeded change is detected without them)
    if std::env::var("VERIF_NO_SEEDCORPUS").is_err() {
        extra.push_str(&std::fs::read_to_string(format!("{root}/corpus/seed_inspired.jsonl")).unwrap_or_default());
    }
    if !extra.is_empty() {
        let t = extra;
        let mut pre = vec![];
        for l in t.lines() {
            if let Ok(v) = serde_json::from_str::<serde_json::Value>(l) {
                if let Some(s) = v["sql"].as_str() {
                    pre.push(s.to_string());
                }
            }
        }
        pre.extend(literals);
        literals = pre;
    }
    // deterministic clause-order enumeration (see gen_sql.rs)
    literals.extend(crate::gen_sql::enumerate());
    // AST-first: statements generated from the AST schema through the crate's own Deserialize
    // (fixed seed: the set is a function of the schema only), printed; a printed text that some
    // dialect accepts is an accepted text like any other
    if std::path::Path::new(&format!("{}/schema.json", gen_dir())).exists() && std::env::var("VERIF_NO_ASTGEN").is_err() {
        let mut g = crate::astgen::AstGen::load();
        g.realistic = true;
        let mut errs = vec![];
        let n = if std::env::var("VERIF_TIER").map(|t| t == "thorough").unwrap_or(false) { 16000 } else { 5000 };
        for st in g.statements(n, 12345, &mut errs) {
            if let G::Val(p) = guard(|| st.to_string()) {
                if p.len() < 600 && !p.trim().is_empty() { literals.push(p); }
            }
        }
    }
    let mut seen = BTreeSet::new();
    literals.retain(|s| seen.insert(s.clone()));
    let ds = all_dialects();
    let mut accepted = vec![];
    for (i, s) in literals.iter().enumerate() {
        // cheap filter: must contain a letter
        if !s.chars().any(|c| c.is_alphabetic()) {
            continue;
        }
        for (k, (_, d)) in ds.iter().enumerate() {
            if let G::Val(Ok(v)) = parse(d.as_ref(), Opts::DEFAULT, s) {
                if !v.is_empty() {
                    accepted.push((i, k));
                }
            }
        }
    }
    Corpus { literals, accepted }
}

// ---------------------------------------------------------------- results
#[derive(serde::Serialize, Clone, Debug)]
pub struct Failure {
    pub sig: String,
    pub dialect: String,
    pub opts: String,
    pub input: String,
    pub detail: String,
}

#[derive(serde::Serialize, Default)]
pub struct Report {
    pub property: String,
    pub stream: String,
    pub evaluations: u64,
    pub distinct_nontrivial: u64,
    pub rule: String,
    pub exhaustive: bool,
    pub failures: Vec<Failure>,
    pub panics: Vec<Failure>,
    pub samples: Vec<serde_json::Value>,
    pub dist: BTreeMap<String, u64>,
}

impl Report {
    pub fn new(property: &str, stream: &str, rule: &str) -> Self {
        Report { property: property.into(), stream: stream.into(), rule: rule.into(), ..Default::default() }
    }
    pub fn count(&mut self, k: &str) {
        *self.dist.entry(k.to_string()).or_insert(0) += 1;
    }
    pub fn fail(&mut self, sig: String, d: &str, o: Opts, input: &str, detail: String) {
        self.count(&format!("fail/{sig}"));
        self.failures.push(Failure { sig, dialect: d.into(), opts: o.tag(), input: input.into(), detail: trunc(&detail, 600) });
    }
    pub fn panic(&mut self, d: &str, o: Opts, input: &str, msg: String) {
        let site = msg.split(": ").next().unwrap_or("").to_string();
        self.count(&format!("panic/{site}"));
        self.panics.push(Failure { sig: format!("panic/{site}"), dialect: d.into(), opts: o.tag(), input: input.into(), detail: trunc(&msg, 300) });
    }
    pub fn sample(&mut self, v: serde_json::Value) {
        if self.samples.len() < 8 {
            self.samples.push(v);
        }
    }
    pub fn emit(&self) {
        println!("{}", serde_json::to_string(self).unwrap());
    }
}

pub fn trunc(s: &str, n: usize) -> String {
    if s.chars().count() <= n { s.to_string() } else { s.chars().take(n).collect::<String>() + "…" }
}

/// Char offset of each (line, col) pair of `s`: returns a function table.
pub struct LineIndex {
    /// char offset of the start of each line (1-based lines => index line-1)
    pub starts: Vec<usize>,
    pub nchars: usize,
}
impl LineIndex {
    pub fn new(s: &str) -> Self {
        let mut starts = vec![0usize];
        let mut n = 0;
        for c in s.chars() {
            n += 1;
            if c == '\n' {
                starts.push(n);
            }
        }
        LineIndex { starts, nchars: n }
    }
    pub fn offset(&self, line: u64, col: u64) -> Option<usize> {
        if line == 0 || col == 0 {
            return None;
        }
        let st = *self.starts.get(line as usize - 1)?;
        Some(st + col as usize - 1)
    }
}


// ---------------------------------------------------------------- token-level mutants of the corpus
/// Keyword swaps between words that are syntactic siblings somewhere in the grammar: a text that
/// was rejected with one spelling and is accepted with the other is an ACCEPTED text like any other.
const KW_SWAPS: &[(&str, &str)] = &[
    ("IN", "FROM"), ("FROM", "IN"), ("ALL", "DISTINCT"), ("DISTINCT", "ALL"), ("ASC", "DESC"), ("FIRST", "LAST"), ("LAST", "FIRST"),
    ("CASCADE", "RESTRICT"), ("RESTRICT", "CASCADE"), ("FORWARD", "BACKWARD"), ("NEXT", "PRIOR"), ("ABSOLUTE", "RELATIVE"), ("UNION", "EXCEPT"), ("EXCEPT", "INTERSECT"),
    ("AND", "OR"), ("LEFT", "RIGHT"), ("INNER", "CROSS"), ("ON", "USING"), ("ROWS", "RANGE"), ("RANGE", "GROUPS"), ("PRECEDING", "FOLLOWING"),
    ("TABLE", "VIEW"), ("VIEW", "TABLE"), ("TEMPORARY", "TEMP"), ("IF", "OR"), ("WITH", "WITHOUT"), ("TO", "FROM"), ("INTO", "FROM"), ("SET", "RESET"),
    ("LIKE", "ILIKE"), ("ANY", "ALL"), ("SOME", "ANY"), ("NULL", "TRUE"), ("TRUE", "FALSE"), ("NOT", "IS"), ("AS", "IS"), ("BY", "ON"), ("LIMIT", "OFFSET"), ("OFFSET", "LIMIT"),
    ("GRANT", "REVOKE"), ("COMMIT", "ROLLBACK"), ("BEGIN", "START"), ("LOCAL", "SESSION"), ("GLOBAL", "SESSION"), ("BEFORE", "AFTER"), ("INSERT", "REPLACE"),
    ("ADD", "DROP"), ("DROP", "ADD"), ("COLUMN", "CONSTRAINT"), ("PRIMARY", "FOREIGN"), ("UNIQUE", "PRIMARY"), ("KEY", "INDEX"), ("DEFAULT", "NULL"),
];

/// Deterministic single-token mutants (delete one token, duplicate one token, swap a keyword for a
/// sibling, drop one `(..)`-free token pair) of the corpus texts with at most 40 tokens, rendered
/// from the REAL tokenizer's tokens joined by single blanks.
pub fn mutants(c: &Corpus, tier: &str) -> Vec<String> {
    let d = GenericDialect {};
    let cap = if tier == "thorough" { usize::MAX } else { 200_000 };
    let mut seen: BTreeSet<String> = c.literals.iter().cloned().collect();
    let mut out = vec![];
    let mut push = |toks: Vec<String>, out: &mut Vec<String>| {
        let s = toks.join(" ");
        if !s.is_empty() && seen.insert(s.clone()) { out.push(s); }
    };
    // stride so that the cap spreads over the whole corpus instead of its head
    let n = c.literals.len().max(1);
    let stride = if tier == "thorough" { 1 } else { 3 };
    for (li, s) in c.literals.iter().enumerate() {
        if out.len() >= cap { break; }
        if s.len() > 400 { continue; }
        let real: Vec<Token> = match tokenize(&d, false, s) {
            G::Val(Ok(t)) => t.into_iter().map(|t| t.token).filter(|t| !is_ws(t) && *t != Token::EOF).collect(),
            _ => continue,
        };
        let toks: Vec<String> = real.iter().map(|t| t.to_string()).collect();
        // plain identifiers (unquoted non-keyword words) that are not already the tail of a dotted name
        let plain_ident: Vec<bool> = real.iter().enumerate().map(|(i, t)| matches!(t, Token::Word(w) if w.quote_style.is_none() && w.keyword == sqlparser::keywords::Keyword::NoKeyword) && (i == 0 || real[i - 1] != Token::Period)).collect();
        if toks.len() < 2 || toks.len() > 40 { continue; }
        let _ = n;
        for i in 0..toks.len() {
            // all deletions for every `stride`-th text, every third position otherwise
            if stride == 1 || li % stride == 0 || i % 3 == li % 3 {
                let mut t = toks.clone(); t.remove(i); push(t, &mut out);
            }
            let up = toks[i].to_ascii_uppercase();
            for (a, b) in KW_SWAPS {
                if up == *a { let mut t = toks.clone(); t[i] = b.to_string(); push(t, &mut out); }
            }
            if li % 5 == 0 && i % 4 == 0 { let mut t = toks.clone(); t.insert(i, toks[i].clone()); push(t, &mut out); }
            // a name gets a qualifier (`x` -> `zq . x`): one more identifier the statement has to keep
            if plain_ident[i] && (toks.len() <= 14 || (li + i) % 2 == 0) {
                let mut t = toks.clone(); t.insert(i, ".".to_string()); t.insert(i, "zq".to_string()); push(t, &mut out);
            }
            // a literal swapped for a keyword that can stand in its place somewhere in the grammar
            let first = toks[i].chars().next().unwrap_or(' ');
            if first.is_ascii_digit() {
                for b in ["ALL", "NULL", "DEFAULT"] { let mut t = toks.clone(); t[i] = b.to_string(); push(t, &mut out); }
            } else if first == '\'' {
                if (li + i) % 2 == 0 { let mut t = toks.clone(); t[i] = "NULL".to_string(); push(t, &mut out); }
                // a longer payload: the body of a plain string literal written twice
                let w = &toks[i];
                if w.len() >= 3 && w.len() <= 12 && w.ends_with('\'') && !w[1..w.len() - 1].contains('\'') {
                    let body = &w[1..w.len() - 1];
                    let mut t = toks.clone(); t[i] = format!("'{body}{body}'"); push(t, &mut out);
                }
            }
        }
    }
    out
}

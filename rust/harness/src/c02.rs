//! C02 oracle on the real code: no panic, no stall, polynomial work; tree operations never panic.
use crate::common::*;
use sqlparser::parser::verif_hooks;
use sqlparser::tokenizer::{Token, TokenWithLocation};
use std::collections::BTreeSet;
use std::process::Command;

/// tokenize + parse + (print, debug, clone, compare) under a step budget; returns a class string
fn exercise(r: &mut Report, dn: &str, d: &dyn sqlparser::dialect::Dialect, o: Opts, s: &str, distinct: &mut BTreeSet<(String, String)>) {
    r.evaluations += 1;
    let toks = match tokenize(d, o.unescape, s) {
        G::Val(Ok(t)) => t,
        G::Val(Err(_)) => { distinct.insert(("lex-error".into(), dn.into())); return; }
        G::Panic(m) => { r.panic(dn, o, s, m); return; }
    };
    let n = toks.iter().filter(|t| !is_ws(&t.token)).count() as u64;
    let budget = 20_000 + 400 * n * n.max(1);
    verif_hooks::reset(budget);
    let res = parse(d, o, s);
    let steps = verif_hooks::steps();
    verif_hooks::reset(u64::MAX);
    match res {
        G::Val(Ok(v)) => {
            distinct.insert((format!("ok/{}", v.first().map(variant_of).unwrap_or_default()), dn.into()));
            let ops = guard(|| {
                let p: Vec<String> = v.iter().map(|x| x.to_string()).collect();
                let dbg = format!("{v:?}").len();
                let c = v.clone();
                (p.len(), dbg, c == v)
            });
            match ops {
                G::Val((_, _, true)) => {}
                G::Val(_) => r.fail("clone-not-equal".into(), dn, o, s, String::new()),
                G::Panic(m) => r.panic(dn, o, s, format!("tree-op: {m}")),
            }
        }
        G::Val(Err(_)) => { distinct.insert(("err".into(), dn.into())); }
        G::Panic(m) => {
            if m.contains("step budget") {
                r.fail("work-explosion/text".into(), dn, o, s, format!("more than {budget} cursor steps for {n} tokens"));
            } else {
                r.panic(dn, o, s, m);
            }
        }
    }
    let _ = steps;
}

fn boundaries(s: &str, toks: &[TokenWithLocation]) -> Vec<usize> {
    let li = LineIndex::new(s);
    toks.iter().filter_map(|t| li.offset(t.location.line, t.location.column)).collect()
}

pub fn oracle(c: &Corpus, seed: u64, tier: &str) -> Vec<Report> {
    let ds = all_dialects();
    let mut r = Report::new("C02", "oracle.no-panic", "every corpus literal x dialects (rotating) x option sets x recursion limits {default,0,1,3}: every prefix cut at a token boundary, token deletions/duplications/swaps, splices of two texts, and fragment soup (operators, quote/comment openers, exponents, Unicode) — tokenize, parse under a step budget of 20000+400 n^2 cursor operations (hook), then print, debug-format, clone and compare the result; no panic, no budget overrun. non-trivial = distinct (outcome/statement variant, dialect)");
    let mut distinct = BTreeSet::new();
    let mut rng = Rng(seed ^ 0xC02);
    let optsets = [Opts::DEFAULT, Opts { unescape: false, trailing: Some(true), limit: None }, Opts { unescape: true, trailing: None, limit: Some(0) }, Opts { unescape: true, trailing: None, limit: Some(1) }, Opts { unescape: true, trailing: None, limit: Some(3) }];
    let frags = ["SELECT", " ", "\n", "\r", "\r\n", "\t", "//", "#", "'", "\"", "`", "[", "]", "(", ")", ",", ";", "--", "/*", "*/", "$$", "$a$", "N'", "E'", "U&'", "X'", "B'", "R'", "'''", "\"\"\"", "1e", "1e+", ".5", "1.", "0x", "@", "@@", "#", "?", "::", ":", "->", "->>", "#>", "<=>", "||", "\\", "é", "𝒳", "\u{0}", "\u{a0}", "DIV", "NOT", "IN", "BETWEEN", "LIKE", "ESCAPE", "IS", "AT TIME ZONE", "INTERVAL", "CASE", "WHEN", "END", "FROM", "JOIN", "ON", "USING", "GROUP BY", "ORDER BY", "FLUSH", "RELAY LOGS FOR CHANNEL", "GRANT", "GRANTED BY", "TO", "CREATE EXTERNAL TABLE t (a INT)", "POSITION(", "SUBSTRING(", "TRIM(", "EXTRACT(", "CAST(", "AS", "ARRAY<", ">>", "STRUCT<", "MAP(", "a", "1", "*", "."];
    for (i, s) in c.literals.iter().enumerate() {
        if s.len() > 1500 { continue; }
        let k = i % ds.len();
        let (dn, d) = (ds[k].0, ds[k].1.as_ref());
        let o = optsets[i % optsets.len()];
        exercise(&mut r, dn, d, o, s, &mut distinct);
        // second dialect in thorough
        let toks = match tokenize(d, true, s) { G::Val(Ok(t)) => t, _ => continue };
        let chars: Vec<char> = s.chars().collect();
        let bs = boundaries(s, &toks);
        let step = if tier == "thorough" { 1 } else { (bs.len() / 6).max(1) };
        for (bi, &b) in bs.iter().enumerate().step_by(step) {
            if b > chars.len() { continue; }
            let prefix: String = chars[..b].iter().collect();
            exercise(&mut r, dn, d, o, &prefix, &mut distinct);
            if bi + 1 < bs.len() && bs[bi + 1] <= chars.len() && b <= bs[bi + 1] {
                let (a, e) = (b, bs[bi + 1]);
                let del = format!("{}{}", chars[..a].iter().collect::<String>(), chars[e..].iter().collect::<String>());
                exercise(&mut r, dn, d, o, &del, &mut distinct);
                if tier == "thorough" || bi % 3 == 0 {
                    let dup = format!("{}{}{}", chars[..e].iter().collect::<String>(), chars[a..e].iter().collect::<String>(), chars[e..].iter().collect::<String>());
                    exercise(&mut r, dn, d, o, &dup, &mut distinct);
                }
            }
        }
        // splice with another literal
        if i % 3 == 0 {
            let other = &c.literals[rng.below(c.literals.len())];
            if other.len() < 400 && !bs.is_empty() {
                let cut = bs[rng.below(bs.len())].min(chars.len());
                let sp = format!("{} {}", chars[..cut].iter().collect::<String>(), other);
                exercise(&mut r, dn, d, o, &sp, &mut distinct);
            }
        }
        if r.evaluations % 30011 < 3 { r.sample(serde_json::json!({"dialect": dn, "opts": o.tag(), "text": s})); }
    }
    let nsoup = if tier == "thorough" { 200_000 } else { 25_000 };
    for j in 0..nsoup {
        let k = 1 + rng.below(9);
        let s: String = (0..k).map(|_| *rng.pick(&frags)).collect::<Vec<_>>().join(if rng.chance(2, 3) { " " } else { "" });
        let kd = j % ds.len();
        exercise(&mut r, ds[kd].0, ds[kd].1.as_ref(), optsets[j % optsets.len()], &s, &mut distinct);
    }
    r.distinct_nontrivial = distinct.len() as u64;

    // single-token mutants of the corpus (see common::mutants) under every dialect: texts the
    // suite never contained (a token deleted / duplicated, a keyword or literal swapped for a
    // sibling) reach guards that no corpus text exercises
    let mut rm = Report::new("C02", "oracle.no-panic-mutants", "single-token mutants of the corpus texts (delete / duplicate one token, swap a keyword for a sibling keyword, a number for ALL/NULL/DEFAULT, a string for NULL; rendered from the real tokens) x 13 dialects, default options: tokenize, parse under the quadratic step budget, then print, debug-format, clone and compare; no panic, no budget overrun. non-trivial = distinct (outcome/statement variant, dialect)");
    let mut distinct2 = BTreeSet::new();
    let ms = mutants(c, tier);
    rm.count(&format!("mutants/{}", ms.len()));
    for (j, s) in ms.iter().enumerate() {
        for (dn, d) in ds.iter() {
            exercise(&mut rm, dn, d.as_ref(), Opts::DEFAULT, s, &mut distinct2);
        }
        if j % 20011 == 0 { rm.sample(serde_json::json!({"mutant": s})); }
    }
    rm.distinct_nontrivial = distinct2.len() as u64;

    vec![r, rm, deep(tier)]
}

// ---------------------------------------------------------------- deep inputs in child processes
/// `SqlVerif.Props.C02Parser.need` (lean/SqlVerif/Props/C02Parser.lean), re-implemented: the fuel (= call
/// depth of the modelled parser) that the Lean theorems `pratt_never_out_of_fuel` /
/// `query_never_out_of_fuel` prove sufficient for `n` non-whitespace tokens under recursion limit
/// `limit`; it does not depend on the limit.
pub fn need(n: u64, _limit: u64) -> u64 { 2 * n + 5 }

/// Work tie for the modelled fragment: on the families below (every construct of them is inside the
/// fragment of Model/Pratt.lean + Model/Query.lean, where the model makes a linear number of calls,
/// `pratt_work_polynomial`) the real parser may use at most `WORK_K * need(n, limit)` cursor
/// operations (hook `verif_hooks::steps`).  K = 16: a modelled call performs a bounded number of
/// cursor operations (peeks and keyword probes of parse_statement / parse_select / parse_table_factor
/// are the largest: measured maximum 16.4 operations per TOKEN on `SELECT 1; SELECT 1; ...`, i.e.
/// 8.2 per unit of `need`); 16 leaves a factor 2 and is far below the quadratic budget of the
/// general oracle.
pub const WORK_K: u64 = 16;

fn in_model_fragment(family: &str) -> bool {
    matches!(family, "chain/plus" | "chain/and" | "chain/union" | "chain/cast" | "chain/is-null" | "chain/at-time-zone"
        | "chain/join" | "chain/compound-ident" | "siblings/projection" | "siblings/statements" | "nest/parens"
        | "nest/table-parens-derived")
}

pub struct Deep { pub name: &'static str, pub dialect: &'static str, pub build: fn(usize) -> String }

pub fn deep_families() -> Vec<Deep> {
    fn rep(s: &str, n: usize) -> String { s.repeat(n) }
    vec![
        Deep { name: "chain/plus", dialect: "generic", build: |n| format!("SELECT 1{}", rep(" + 1", n)) },
        Deep { name: "chain/and", dialect: "generic", build: |n| format!("SELECT a{}", rep(" AND a", n)) },
        Deep { name: "chain/union", dialect: "generic", build: |n| format!("SELECT 1{}", rep(" UNION SELECT 1", n)) },
        Deep { name: "chain/subscript", dialect: "postgresql", build: |n| format!("SELECT a{}", rep("[1]", n)) },
        Deep { name: "chain/cast", dialect: "postgresql", build: |n| format!("SELECT a{}", rep("::INT", n)) },
        Deep { name: "chain/is-null", dialect: "generic", build: |n| format!("SELECT a{}", rep(" IS NULL", n)) },
        Deep { name: "chain/array-suffix-type", dialect: "postgresql", build: |n| format!("SELECT CAST(a AS INT{})", rep("[]", n)) },
        Deep { name: "chain/at-time-zone", dialect: "generic", build: |n| format!("SELECT a{}", rep(" AT TIME ZONE 'x'", n)) },
        Deep { name: "chain/join", dialect: "generic", build: |n| format!("SELECT * FROM t{}", rep(" JOIN t ON 1 = 1", n)) },
        Deep { name: "chain/join-bare", dialect: "generic", build: |n| format!("SELECT * FROM t{}", rep(" JOIN t", n)) },
        Deep { name: "chain/cross-join", dialect: "generic", build: |n| format!("SELECT * FROM t{}", rep(" CROSS JOIN t", n)) },
        Deep { name: "chain/natural-join", dialect: "generic", build: |n| format!("SELECT * FROM t{}", rep(" NATURAL JOIN t", n)) },
        Deep { name: "chain/left-join-using", dialect: "generic", build: |n| format!("SELECT * FROM t{}", rep(" LEFT JOIN t USING (a)", n)) },
        Deep { name: "chain/comma-from", dialect: "generic", build: |n| format!("SELECT * FROM t{}", rep(", t", n)) },
        Deep { name: "chain/or", dialect: "generic", build: |n| format!("SELECT a{}", rep(" OR a", n)) },
        Deep { name: "chain/concat", dialect: "generic", build: |n| format!("SELECT a{}", rep(" || a", n)) },
        Deep { name: "chain/json-arrow", dialect: "postgresql", build: |n| format!("SELECT a{}", rep(" -> 'k'", n)) },
        Deep { name: "chain/intersect", dialect: "generic", build: |n| format!("SELECT 1{}", rep(" INTERSECT SELECT 1", n)) },
        Deep { name: "chain/union-all-values", dialect: "generic", build: |n| format!("VALUES (1){}", rep(" UNION ALL VALUES (1)", n)) },
        Deep { name: "chain/lateral-view", dialect: "hive", build: |n| format!("SELECT * FROM t{}", rep(" LATERAL VIEW explode(a) x AS y", n)) },
        Deep { name: "chain/case-when", dialect: "generic", build: |n| format!("SELECT CASE{} END", rep(" WHEN a THEN 1", n)) },
        Deep { name: "chain/alter-table-ops", dialect: "generic", build: |n| format!("ALTER TABLE t ADD COLUMN c0 INT{}", rep(", ADD COLUMN c INT", n)) },
        Deep { name: "chain/map-access", dialect: "generic", build: |n| format!("SELECT a{}", rep("['k']", n)) },
        Deep { name: "siblings/in-list", dialect: "generic", build: |n| format!("SELECT a IN ({}1)", rep("1, ", n)) },
        Deep { name: "siblings/columns", dialect: "generic", build: |n| format!("CREATE TABLE t ({}c INT)", rep("c INT, ", n)) },
        Deep { name: "siblings/ctes", dialect: "generic", build: |n| format!("WITH {}a AS (SELECT 1) SELECT 1", rep("a AS (SELECT 1), ", n)) },
        Deep { name: "siblings/order-by", dialect: "generic", build: |n| format!("SELECT 1 ORDER BY {}a", rep("a, ", n)) },
        Deep { name: "chain/pivot", dialect: "generic", build: |n| format!("SELECT * FROM t{}", rep(" PIVOT(SUM(v) FOR n IN ('c'))", n)) },
        Deep { name: "chain/unpivot", dialect: "generic", build: |n| format!("SELECT * FROM t{}", rep(" UNPIVOT(v FOR n IN (c))", n)) },
        Deep { name: "chain/compound-ident", dialect: "generic", build: |n| format!("SELECT a{}", rep(".a", n)) },
        Deep { name: "siblings/projection", dialect: "generic", build: |n| format!("SELECT {}1", rep("1, ", n)) },
        Deep { name: "siblings/statements", dialect: "generic", build: |n| rep("SELECT 1; ", n) },
        Deep { name: "siblings/values", dialect: "generic", build: |n| format!("INSERT INTO t VALUES {}(1)", rep("(1), ", n)) },
        Deep { name: "nest/position", dialect: "generic", build: |n| format!("SELECT {}'a'{}", rep("POSITION(", n), rep(" IN 'b')", n)) },
        Deep { name: "nest/position-as-function", dialect: "snowflake", build: |n| format!("SELECT {}'a'{}", rep("POSITION(", n), rep(", 'b')", n)) },
        Deep { name: "nest/parens", dialect: "generic", build: |n| format!("SELECT {}1{}", rep("(", n), rep(")", n)) },
        Deep { name: "nest/table-parens-derived", dialect: "generic", build: |n| format!("SELECT * FROM {}SELECT 1{} AS t", rep("(", n), rep(")", n)) },
        Deep { name: "nest/case", dialect: "generic", build: |n| format!("SELECT {}1{}", rep("CASE WHEN ", n), rep(" THEN 1 END", n)) },
        Deep { name: "nest/typed-string-probe", dialect: "generic", build: |n| format!("SELECT {}1{}", rep("f(DATE ", n), rep(")", n)) },
        Deep { name: "nest/lambda", dialect: "databricks", build: |n| format!("SELECT {}1{}", rep("f(x -> ", n), rep(")", n)) },
        Deep { name: "nest/not-exists", dialect: "generic", build: |n| format!("SELECT {}1{}", rep("NOT EXISTS (SELECT ", n), rep(")", n)) },
        Deep { name: "nest/interval", dialect: "generic", build: |n| format!("SELECT {}'1' DAY", rep("INTERVAL ", n)) },
        Deep { name: "nest/struct-literal", dialect: "duckdb", build: |n| format!("SELECT {}1{}", rep("{'a': ", n), rep("}", n)) },
    ]
}

pub fn deep_child(args: &[String]) {
    let name = &args[0];
    let n: usize = args[1].parse().unwrap();
    let limit: Option<usize> = args.get(2).and_then(|x| x.parse().ok());
    let f = deep_families().into_iter().find(|f| f.name == name).expect("family");
    let sql = (f.build)(n);
    let d = dialect(f.dialect);
    let o = Opts { unescape: true, trailing: None, limit };
    let ntok = 4 * n as u64 + 10;
    // real token count for the work tie (tokenizing is not counted by the hook)
    let real_ntok = match tokenize(d.as_ref(), true, &sql) {
        G::Val(Ok(t)) => t.iter().filter(|t| !is_ws(&t.token)).count() as u64,
        _ => ntok,
    };
    verif_hooks::reset(200_000 + 2_000 * ntok);
    let res = parse(d.as_ref(), o, &sql);
    let steps = verif_hooks::steps();
    verif_hooks::reset(u64::MAX);
    let bound = WORK_K * need(real_ntok, limit.unwrap_or(50) as u64);
    let over = in_model_fragment(name) && steps > bound;
    match res {
        G::Val(Ok(v)) => {
            println!("parsed steps={steps}");
            if args.get(3).map(|x| x == "parse-only").unwrap_or(false) { std::mem::forget(v); return; }
            let s: usize = v.iter().map(|x| x.to_string().len()).sum();
            println!("printed len={s}");
            let dl = format!("{v:?}").len();
            println!("debug len={dl}");
            let c = v.clone();
            println!("cloned eq={}", c == v);
            drop(c);
            drop(v);
            println!("dropped");
        }
        G::Val(Err(e)) => println!("err {} steps={steps}", trunc(&e.to_string(), 80)),
        G::Panic(m) => println!("panic {m} steps={steps}"),
    }
    if over { println!("work-bound-exceeded steps={steps} bound={bound} tokens={real_ntok}"); }
}

fn deep(tier: &str) -> Report {
    let mut r = Report::new("C02", "oracle.deep", "long sibling chains (left-deep trees built by loops: `1 + 1 + ...`, UNION, `a[1][1]...`, `::INT::INT...`, IS NULL, JOIN, `.a.a`), flat sibling lists and nested constructs at sizes {10, 100, 1000, 20000, 100000} in child processes under a linear step budget: the child must exit normally after parse, print, debug-format, clone, compare and drop; on the families inside the modelled fragment (plus/and/union/cast/is-null/at-time-zone/join/compound-ident chains, projection and statement lists, nested parentheses and derived tables) additionally real cursor steps <= 16 * need(tokens, limit) with need = 2n+5 of Props/C02Parser.lean (signature work-bound/<family>); non-trivial = distinct (family, size, stage reached)");
    r.exhaustive = true;
    let fams = deep_families();
    let sizes: Vec<usize> = if tier == "thorough" { vec![10, 30, 100, 300, 1000, 5000, 20000, 100_000, 300_000] } else { vec![10, 100, 1000, 20000, 100_000] };
    let mut jobs = vec![];
    for (fi, f) in fams.iter().enumerate() {
        for &n in &sizes {
            // nested families beyond the limit just hit the limit error quickly; still run them
            jobs.push((fi, n, None::<usize>));
            let _ = n;
        }
        if f.name.starts_with("nest/") {
            // work probe below a raised limit (depths the limit admits): 2^n work would blow the budget
            for n in [12usize, 24, 48, 96] { jobs.push((fi, n, Some(400))); }
        }
    }
    let results = std::sync::Mutex::new(vec![String::new(); jobs.len()]);
    let next = std::sync::atomic::AtomicUsize::new(0);
    std::thread::scope(|s| {
        for _ in 0..12 {
            s.spawn(|| loop {
                let i = next.fetch_add(1, std::sync::atomic::Ordering::SeqCst);
                if i >= jobs.len() { break; }
                let (fi, n, lim) = jobs[i];
                let exe = std::env::current_exe().unwrap();
                let out = Command::new(exe).args(["deep-child", fams[fi].name, &n.to_string(), &lim.map(|l| l.to_string()).unwrap_or("-".into())]).output().expect("spawn");
                let so = String::from_utf8_lossy(&out.stdout).to_string();
                let se = String::from_utf8_lossy(&out.stderr).to_string();
                let last = so.lines().last().unwrap_or("").to_string();
                let res = if out.status.code() == Some(0) { format!("exit0 {last}") } else if se.contains("overflowed its stack") { format!("stack-overflow after:{}", last.split(' ').next().unwrap_or("start")) } else { format!("abnormal after:{last} {}", trunc(se.trim(), 80)) };
                results.lock().unwrap()[i] = res;
            });
        }
    });
    let results = results.into_inner().unwrap();
    let mut distinct = BTreeSet::new();
    for (i, (fi, n, lim)) in jobs.iter().enumerate() {
        let f = &fams[*fi];
        let out = &results[i];
        r.evaluations += 1;
        let o = Opts { unescape: true, trailing: None, limit: *lim };
        let input = format!("{}({})", f.name, n);
        distinct.insert((f.name, *n, out.split(' ').take(2).collect::<Vec<_>>().join(" ")));
        if out.starts_with("stack-overflow") {
            let stage = out.split("after:").nth(1).unwrap_or("").split(' ').next().unwrap_or("");
            let what = match stage { "start" | "" => "parse", "parsed" => "print", "printed" => "debug", "debug" => "clone-or-compare", "cloned" => "drop", x => x };
            r.fail(format!("stack-overflow/{}/{}", f.name, what), f.dialect, o, &input, out.clone());
        } else if out.starts_with("abnormal") {
            r.fail(format!("abnormal-exit/{}", f.name), f.dialect, o, &input, out.clone());
        } else if out.contains("work-bound-exceeded") {
            r.fail(format!("work-bound/{}", f.name), f.dialect, o, &input, out.clone());
        } else if out.contains("panic") {
            let sig = if out.contains("step budget") { format!("work-explosion/{}", f.name) } else { format!("panic/{}", f.name) };
            r.fail(sig, f.dialect, o, &input, out.clone());
        }
        if i % 23 == 0 { r.sample(serde_json::json!({"family": f.name, "n": n, "limit": lim, "outcome": out})); }
    }
    r.distinct_nontrivial = distinct.len() as u64;
    r
}

#[allow(dead_code)]
fn unused(_: &Token) {}

//! C06 (printed literals and quoted identifiers denote exactly their payload) and
//! C20 (un-escaping off preserves raw text).
//!
//! * stream `lits` (`corr`): for every payload of `G-payload` x every string kind of `Value`,
//!   `DollarQuotedString` (no tag / tags), `Ident` quote style and `Word` quote style:
//!   - `print` line: the real `to_string()` against the model printers of `Model/Escape.lean`;
//!   - `tok` lines: the real `Tokenizer` (dialect, unescape on/off) on that printed text against
//!     the model tokenizer (same request format as stream `tok`).
//! * `oracle_c06`: on the real code only, `tokens_d(print(k(p))) == [k(p)]` for every dialect
//!   `d` that lexes the trivial instance `k("a")` to `[k("a")]`, then `parse_expr` of the text.
//! * `oracle_c20`: corpus texts and generated literals with doubled quotes / backslashes: raw-mode
//!   payload == source slice between the delimiters, printing the raw-mode tree reproduces the
//!   bodies, and trees of both modes are equal after masking string payloads.
use crate::canon::{tok_variant, toks_canon};
use crate::common::*;
use crate::tokstream::char_table;
use sqlparser::ast::{DollarQuotedString, Expr, Ident, Value};
use sqlparser::dialect::Dialect;
use sqlparser::parser::Parser;
use sqlparser::tokenizer::{Token, TokenWithLocation};
use std::collections::{BTreeMap, BTreeSet};
use std::io::{BufWriter, Write};

type VC = fn(String) -> Value;
type TC = fn(String) -> Token;

/// how the printer/scanner pair of a `Value` kind treats the body
#[derive(Clone, Copy, PartialEq)]
enum Shape {
    /// `EscapeQuotedString` with this quote
    Quoted(char),
    /// printed verbatim between single delimiters
    Verbatim1(char),
    /// printed verbatim between triple delimiters
    Verbatim3(char),
    Escaped,
    Unicode,
}

fn vkinds() -> Vec<(&'static str, VC, TC, Shape)> {
    use Shape::*;
    vec![
        ("SingleQuotedString", Value::SingleQuotedString as VC, Token::SingleQuotedString as TC, Quoted('\'')),
        ("DoubleQuotedString", Value::DoubleQuotedString, Token::DoubleQuotedString, Quoted('"')),
        ("TripleSingleQuotedString", Value::TripleSingleQuotedString, Token::TripleSingleQuotedString, Verbatim3('\'')),
        ("TripleDoubleQuotedString", Value::TripleDoubleQuotedString, Token::TripleDoubleQuotedString, Verbatim3('"')),
        ("EscapedStringLiteral", Value::EscapedStringLiteral, Token::EscapedStringLiteral, Escaped),
        ("UnicodeStringLiteral", Value::UnicodeStringLiteral, Token::UnicodeStringLiteral, Unicode),
        ("SingleQuotedByteStringLiteral", Value::SingleQuotedByteStringLiteral, Token::SingleQuotedByteStringLiteral, Verbatim1('\'')),
        ("DoubleQuotedByteStringLiteral", Value::DoubleQuotedByteStringLiteral, Token::DoubleQuotedByteStringLiteral, Verbatim1('"')),
        ("TripleSingleQuotedByteStringLiteral", Value::TripleSingleQuotedByteStringLiteral, Token::TripleSingleQuotedByteStringLiteral, Verbatim3('\'')),
        ("TripleDoubleQuotedByteStringLiteral", Value::TripleDoubleQuotedByteStringLiteral, Token::TripleDoubleQuotedByteStringLiteral, Verbatim3('"')),
        ("SingleQuotedRawStringLiteral", Value::SingleQuotedRawStringLiteral, Token::SingleQuotedRawStringLiteral, Verbatim1('\'')),
        ("DoubleQuotedRawStringLiteral", Value::DoubleQuotedRawStringLiteral, Token::DoubleQuotedRawStringLiteral, Verbatim1('"')),
        ("TripleSingleQuotedRawStringLiteral", Value::TripleSingleQuotedRawStringLiteral, Token::TripleSingleQuotedRawStringLiteral, Verbatim3('\'')),
        ("TripleDoubleQuotedRawStringLiteral", Value::TripleDoubleQuotedRawStringLiteral, Token::TripleDoubleQuotedRawStringLiteral, Verbatim3('"')),
        ("NationalStringLiteral", Value::NationalStringLiteral, Token::NationalStringLiteral, Verbatim1('\'')),
        ("HexStringLiteral", Value::HexStringLiteral, Token::HexStringLiteral, Verbatim1('\'')),
    ]
}

#[derive(Clone, Debug, PartialEq)]
enum Lit {
    Val(usize),
    Dollar(Option<String>),
    Ident(Option<char>),
    Word(Option<char>),
}

struct Kinds {
    v: Vec<(&'static str, VC, TC, Shape)>,
}

impl Kinds {
    fn name(&self, l: &Lit) -> String {
        match l {
            Lit::Val(i) => self.v[*i].0.to_string(),
            Lit::Dollar(None) => "Dollar:untagged".into(),
            Lit::Dollar(Some(_)) => "Dollar:tagged".into(),
            Lit::Ident(q) => format!("Ident{}", q.map(|c| c.to_string()).unwrap_or("-".into())),
            Lit::Word(q) => format!("Word{}", q.map(|c| c.to_string()).unwrap_or("-".into())),
        }
    }
    /// request line of op `print`
    fn wire(&self, l: &Lit, p: &str) -> String {
        let q = |q: &Option<char>| q.map(|c| format!("{:x}", c as u32)).unwrap_or("-".into());
        match l {
            Lit::Val(i) => format!("print\t{}\t{}\t-", self.v[*i].0, hex(p)),
            Lit::Dollar(None) => format!("print\tDollar\t{}\tN", hex(p)),
            Lit::Dollar(Some(t)) => format!("print\tDollar\t{}\tT{}", hex(p), hex(t)),
            Lit::Ident(x) => format!("print\tIdent\t{}\t{}", hex(p), q(x)),
            Lit::Word(x) => format!("print\tWord\t{}\t{}", hex(p), q(x)),
        }
    }
    /// the real `Display`
    fn print(&self, l: &Lit, p: &str) -> G<String> {
        let p = p.to_string();
        match l {
            Lit::Val(i) => {
                let f = self.v[*i].1;
                guard(move || f(p).to_string())
            }
            Lit::Dollar(t) => {
                let t = t.clone();
                guard(move || Value::DollarQuotedString(DollarQuotedString { value: p, tag: t }).to_string())
            }
            Lit::Ident(q) => {
                let q = *q;
                guard(move || Ident { value: p, quote_style: q }.to_string())
            }
            Lit::Word(q) => {
                let q = *q;
                guard(move || Token::make_word(&p, q).to_string())
            }
        }
    }
    /// the token the printed text has to lex to
    fn expected(&self, l: &Lit, p: &str) -> Option<Token> {
        match l {
            Lit::Val(i) => Some((self.v[*i].2)(p.to_string())),
            Lit::Dollar(t) => Some(Token::DollarQuotedString(DollarQuotedString { value: p.to_string(), tag: t.clone() })),
            Lit::Ident(Some(q)) => Some(Token::make_word(p, Some(*q))),
            _ => None,
        }
    }
    /// the expression `parse_expr` has to return
    fn expected_expr(&self, l: &Lit, p: &str) -> Option<Expr> {
        match l {
            Lit::Val(i) => Some(Expr::Value((self.v[*i].1)(p.to_string()))),
            Lit::Dollar(t) => Some(Expr::Value(Value::DollarQuotedString(DollarQuotedString { value: p.to_string(), tag: t.clone() }))),
            Lit::Ident(Some(q)) => Some(Expr::Identifier(Ident { value: p.to_string(), quote_style: Some(*q) })),
            _ => None,
        }
    }
}

// ---------------------------------------------------------------- G-payload
pub const ALPHABET: [char; 19] =
    ['\'', '"', '\\', '$', '`', ']', '[', '\n', '\0', 'a', 'é', '中', '𝒳', '%', '_', ' ', '\t', '\r', '\u{a0}'];

const PATTERNS: &[&str] = &[
    "''", "''''", "'''", "\\'", "\\\\'", "\\''", "\\'''", "a''b", "a\\'b", "a'b", "\\\\", "\\n", "''a", "a''", "'a'", "it's", "a\\",
    "\"\"", "\"\"\"", "a\"\"b", "\\\"", "a\"b", "\\\"\"", "``", "a``b", "a`b", "\\`", "]]", "a]b", "a]", "[a]",
    "$tag$", "$a$", "x$tag$y", "x$a$y", "$ta", "$t", "$tag", "tag$", "$$", "a$$b", "a$", "$a", "$ab$", "$ab", "x$a", "x$a$ab$", "$x", "a$b", "$$$",
    "'''a", "a'''", "a'''b", "\"\"\"a", "a\"\"\"b", "a''''b",
    "C:\\dir\\", "%_\\%", "line1\nline2", "tab\there", "\r\n", "日本語", "𝒳𝒴", "a\u{0}b", "\u{a0}x", "1F", "abc", "select",
];

/// all strings of length <= 2 (thorough: <= 3) over `ALPHABET`, the patterns, random longer ones;
/// returns (payloads, index of the first length-3 payload of the exhaustive part or usize::MAX)
pub fn payloads(seed: u64, thorough: bool) -> (Vec<String>, Vec<String>) {
    let n = ALPHABET.len();
    let mut base: Vec<String> = vec![];
    for len in 0..=2usize {
        for mut x in 0..n.pow(len as u32) {
            let mut s = String::new();
            for _ in 0..len {
                s.push(ALPHABET[x % n]);
                x /= n;
            }
            base.push(s);
        }
    }
    for p in PATTERNS {
        base.push(p.to_string());
    }
    let mut rng = Rng(seed ^ 0xC06);
    let nrand = if thorough { 3000 } else { 300 };
    for _ in 0..nrand {
        let len = 3 + rng.below(10);
        let mut s = String::new();
        for _ in 0..len {
            // half of the picks from the quote-like characters
            let c = if rng.chance(1, 2) { ALPHABET[rng.below(7)] } else { ALPHABET[rng.below(n)] };
            s.push(c);
        }
        base.push(s);
    }
    let mut seen = BTreeSet::new();
    base.retain(|s| seen.insert(s.clone()));
    let mut extra = vec![];
    if thorough {
        for mut x in 0..n.pow(3) {
            let mut s = String::new();
            for _ in 0..3 {
                s.push(ALPHABET[x % n]);
                x /= n;
            }
            if seen.insert(s.clone()) {
                extra.push(s);
            }
        }
    }
    (base, extra)
}

fn real_tok_answer(d: &dyn Dialect, un: bool, text: &str) -> String {
    match tokenize(d, un, text) {
        G::Val(Ok(ts)) => format!("OK {}", toks_canon(&ts)),
        G::Val(Err(e)) => format!("ERR:lex:{}@{}:{}", hex(&e.message), e.location.line, e.location.column),
        G::Panic(m) => format!("PANIC:{}", m.split(": ").next().unwrap_or("")),
    }
}

// ---------------------------------------------------------------- stream `lits`
pub fn corr(dir: &str, seed: u64, tier: &str) -> Report {
    let mut r = Report::new(
        "C06",
        "corr.lits",
        "G-payload (all strings of length <= 2, thorough <= 3, over {' \" \\ $ ` ] [ LF NUL a e-acute CJK astral % _ space tab CR NBSP}, quote/backslash/dollar-tag patterns, random longer strings) x every string kind of Value, DollarQuotedString (no tag, tags a/ab/tag/empty), Ident quote styles (none \" ` [ ' and an invalid one) and Word quote styles: real to_string() vs model printer (op print), then the real Tokenizer on the printed text (fixed dialects generic/bigquery/mysql/postgresql + one rotating, thorough: all 13; unescape on and off) vs the model tokenizer (op tok); non-trivial = distinct answer lines",
    );
    let thorough = tier == "thorough";
    let kinds = Kinds { v: vkinds() };
    let ds = all_dialects();
    let nd = ds.len();
    let mut lits: Vec<Lit> = (0..kinds.v.len()).map(Lit::Val).collect();
    for t in [None, Some("a"), Some("ab"), Some("tag"), Some("")] {
        lits.push(Lit::Dollar(t.map(|s| s.to_string())));
    }
    for q in [None, Some('"'), Some('`'), Some('['), Some('\''), Some('(')] {
        lits.push(Lit::Ident(q));
    }
    for q in [None, Some('"'), Some('`'), Some('['), Some('\'')] {
        lits.push(Lit::Word(q));
    }
    let (base, extra) = payloads(seed, thorough);
    r.dist.insert("payloads/base".into(), base.len() as u64);
    r.dist.insert("payloads/length3".into(), extra.len() as u64);
    r.dist.insert("kinds".into(), lits.len() as u64);
    let mut rng = Rng(seed ^ 0x1175);
    let mut req = BufWriter::new(std::fs::File::create(format!("{dir}/lits.req")).unwrap());
    let mut real = BufWriter::new(std::fs::File::create(format!("{dir}/lits.real")).unwrap());
    let mut distinct = BTreeSet::new();
    let fixed = [0usize, 2, 8, 9];
    let mut emit = |r: &mut Report, l: &Lit, p: &str, dis: &[usize], modes: &[bool]| {
        writeln!(req, "{}", kinds.wire(l, p)).unwrap();
        r.evaluations += 1;
        let text = match kinds.print(l, p) {
            G::Val(t) => {
                writeln!(real, "OK {}", hex(&t)).unwrap();
                r.count(&format!("print/{}", kinds.name(l)));
                t
            }
            G::Panic(_) => {
                writeln!(real, "PANIC").unwrap();
                r.count(&format!("print-panic/{}", kinds.name(l)));
                return;
            }
        };
        distinct.insert(text.clone());
        let exp = kinds.expected(l, p);
        for &di in dis {
            let (dn, d) = (ds[di].0, ds[di].1.as_ref());
            for &un in modes {
                writeln!(req, "tok\t{}\t{}\t{}\t{}", dn, un as u8, hex(&text), char_table(d, &text)).unwrap();
                let ans = real_tok_answer(d, un, &text);
                if un {
                    if let (Some(e), G::Val(Ok(ts))) = (&exp, tokenize(d, true, &text)) {
                        let ok = ts.len() == 1 && ts[0].token == *e;
                        r.count(if ok { "roundtrip/yes" } else { "roundtrip/no" });
                    }
                }
                r.count(if ans.starts_with("OK") { "tok/ok" } else { "tok/err" });
                writeln!(real, "{ans}").unwrap();
                r.evaluations += 1;
                if r.evaluations % 30011 == 7 {
                    r.sample(serde_json::json!({"kind": kinds.name(l), "payload": p, "text": text, "dialect": dn, "unescape": un, "answer": trunc(&ans, 200)}));
                }
                distinct.insert(ans);
            }
        }
    };
    let all: Vec<usize> = (0..nd).collect();
    for p in &base {
        for l in &lits {
            if thorough {
                emit(&mut r, l, p, &all, &[true, false]);
            } else {
                let mut dis = fixed.to_vec();
                let x = rng.below(nd);
                if !dis.contains(&x) {
                    dis.push(x);
                }
                emit(&mut r, l, p, &dis, &[true, false]);
            }
        }
    }
    for p in &extra {
        for l in &lits {
            let dis = [rng.below(nd), rng.below(nd)];
            let un = rng.chance(1, 2);
            emit(&mut r, l, p, &dis, &[un]);
        }
    }
    r.distinct_nontrivial = distinct.len() as u64;
    r
}

// ---------------------------------------------------------------- oracle C06
/// dialect class used in signatures: the only dialect capability that changes how the characters
/// of a payload are lexed is `supports_string_literal_backslash_escape`; it is part of the
/// signature only for the features that involve a backslash (`any` otherwise)
fn dclass(feature: &str, d: &dyn Dialect) -> &'static str {
    if !feature.starts_with("backslash") {
        "any"
    } else if d.supports_string_literal_backslash_escape() {
        "bs"
    } else {
        "nobs"
    }
}

fn quoted_feature(p: &str, q: char) -> &'static str {
    let qq: String = [q, q].iter().collect();
    let bq: String = ['\\', q].iter().collect();
    if p.contains(&bq) {
        "backslash-before-quote"
    } else if p.contains(&qq) {
        "doubled-quote"
    } else if p.contains('\\') {
        "backslash"
    } else if p.starts_with(q) {
        "leading-quote"
    } else {
        "other"
    }
}

/// the feature of the payload that explains a failed round trip (first that applies)
fn feature(k: &Kinds, l: &Lit, p: &str, dn: &str, d: &dyn Dialect) -> &'static str {
    let not_ident_like = || dn == "redshift" && !p.chars().find(|c| !c.is_whitespace()).map(|c| d.is_identifier_start(c)).unwrap_or(false);
    match l {
        Lit::Val(i) => match k.v[*i].3 {
            Shape::Quoted(q) => quoted_feature(p, q),
            Shape::Verbatim1(q) => {
                if p.contains(q) {
                    "quote-in-verbatim"
                } else if p.contains('\\') {
                    "backslash"
                } else {
                    "other"
                }
            }
            Shape::Verbatim3(q) => {
                let qqq: String = [q, q, q].iter().collect();
                if p.contains(&qqq) {
                    "triple-quote-run"
                } else if p.ends_with(q) {
                    "trailing-quote"
                } else if p.contains('\\') {
                    "backslash"
                } else {
                    "other"
                }
            }
            Shape::Escaped | Shape::Unicode => "other",
        },
        Lit::Dollar(Some(t)) => {
            if p.contains(&format!("${t}$")) {
                "dollar-tag-inside"
            } else if p.ends_with('$') {
                "trailing-dollar"
            } else if p.contains('$') {
                "dollar-inside"
            } else {
                "other"
            }
        }
        Lit::Dollar(None) => {
            if p.contains("$$") {
                "double-dollar-inside"
            } else if p.ends_with('$') {
                "trailing-dollar"
            } else {
                "other"
            }
        }
        Lit::Ident(Some('[')) => {
            if p.contains(']') {
                "closing-bracket"
            } else if not_ident_like() {
                "not-identifier-like"
            } else {
                "other"
            }
        }
        Lit::Ident(Some(q)) => {
            let f = quoted_feature(p, *q);
            if (f == "other" || f == "backslash" || f == "leading-quote") && not_ident_like() {
                "not-identifier-like"
            } else {
                f
            }
        }
        _ => "other",
    }
}

/// record at most `cap` failures per signature, count the rest
fn fail_capped(r: &mut Report, per_sig: &mut BTreeMap<String, u32>, cap: u32, sig: String, dn: &str, o: Opts, input: &str, detail: String) {
    let n = per_sig.entry(sig.clone()).or_insert(0);
    *n += 1;
    if *n <= cap {
        r.fail(sig, dn, o, input, detail);
    } else {
        r.count(&format!("fail-more/{sig}"));
    }
}

pub fn oracle_c06(seed: u64, tier: &str) -> Vec<Report> {
    let mut r = Report::new(
        "C06",
        "oracle.roundtrip",
        "real code only: for every payload p of G-payload and every literal/identifier form k (16 string kinds of Value, DollarQuotedString without tag and with tags a/ab/tag, Ident quoted with \" ` [) and every dialect d that lexes print(k(\"a\")) to exactly [k(\"a\")]: Tokenizer(d, unescape on) on print(k(p)) must return exactly one token, equal to k(p); when it does, Parser::parse_expr of the text must return the node k(p) (dialects where it does for \"a\"). Signature = kind/payload feature/dialect class, class = bs|nobs (backslash escapes in plain strings) for the backslash features, `any` otherwise (at most 3 cases recorded per signature, all counted). non-trivial = distinct (kind, dialect, payload) triples that round-trip",
    );
    let thorough = tier == "thorough";
    let kinds = Kinds { v: vkinds() };
    let ds = all_dialects();
    let mut lits: Vec<Lit> = (0..kinds.v.len()).map(Lit::Val).collect();
    for t in [None, Some("a"), Some("ab"), Some("tag")] {
        lits.push(Lit::Dollar(t.map(|s| s.to_string())));
    }
    for q in ['"', '`', '['] {
        lits.push(Lit::Ident(Some(q)));
    }
    let (base, extra) = payloads(seed, thorough);
    let o = Opts::DEFAULT;
    let mut per_sig: BTreeMap<String, u32> = BTreeMap::new();
    let mut good = 0u64;
    for l in &lits {
        let name = kinds.name(l);
        // support: the trivial instance round-trips
        let triv = match kinds.print(l, "a") { G::Val(t) => t, G::Panic(m) => { r.panic("", o, "a", m); continue; } };
        let mut tok_ok: Vec<usize> = vec![];
        let mut expr_ok: Vec<usize> = vec![];
        for (di, (_, d)) in ds.iter().enumerate() {
            let d = d.as_ref();
            if let G::Val(Ok(ts)) = tokenize(d, true, &triv) {
                if ts.len() == 1 && Some(&ts[0].token) == kinds.expected(l, "a").as_ref() {
                    tok_ok.push(di);
                    if let G::Val(Ok(e)) = guard(|| Parser::new(d).try_with_sql(&triv).and_then(|mut p| p.parse_expr())) {
                        if Some(&e) == kinds.expected_expr(l, "a").as_ref() {
                            expr_ok.push(di);
                        }
                    }
                }
            }
        }
        r.dist.insert(format!("supporting-dialects/{name}"), tok_ok.len() as u64);
        for p in base.iter().chain(extra.iter()) {
            let text = match kinds.print(l, p) { G::Val(t) => t, G::Panic(m) => { r.panic("", o, p, m); continue; } };
            let exp = kinds.expected(l, p).unwrap();
            for &di in &tok_ok {
                let (dn, d) = (ds[di].0, ds[di].1.as_ref());
                r.evaluations += 1;
                let got = tokenize(d, true, &text);
                let ok = matches!(&got, G::Val(Ok(ts)) if ts.len() == 1 && ts[0].token == exp);
                if !ok {
                    let detail = match &got {
                        G::Val(Ok(ts)) => format!("payload={p:?} tokens={}", ts.iter().map(|t| format!("{:?}", t.token)).collect::<Vec<_>>().join(" ")),
                        G::Val(Err(e)) => format!("payload={p:?} error={e}"),
                        G::Panic(m) => format!("payload={p:?} panic={m}"),
                    };
                    let ft = feature(&kinds, l, p, dn, d);
                    let sig = format!("{name}/{ft}/{}", dclass(ft, d));
                    fail_capped(&mut r, &mut per_sig, 3, sig, dn, o, &text, detail);
                    continue;
                }
                good += 1;
                if !expr_ok.contains(&di) {
                    continue;
                }
                let want = kinds.expected_expr(l, p).unwrap();
                match guard(|| Parser::new(d).try_with_sql(&text).and_then(|mut ps| ps.parse_expr())) {
                    G::Val(Ok(e)) if e == want => r.count("expr/same-node"),
                    G::Val(Ok(e)) => fail_capped(&mut r, &mut per_sig, 3, format!("{name}/expr-differs/any"), dn, o, &text, format!("payload={p:?} expr={e:?}")),
                    G::Val(Err(e)) => fail_capped(&mut r, &mut per_sig, 3, format!("{name}/expr-rejected/any"), dn, o, &text, format!("payload={p:?} err={e}")),
                    G::Panic(m) => r.panic(dn, o, &text, m),
                }
                if r.evaluations % 40009 == 5 {
                    r.sample(serde_json::json!({"kind": name, "payload": p, "text": text, "dialect": dn}));
                }
            }
        }
    }
    r.distinct_nontrivial = good;
    vec![r]
}

// ---------------------------------------------------------------- oracle C20
/// (kind, payload, opening length, closing length) of a token whose body is source text
fn lit_parts(t: &Token, slice: &[char]) -> Option<(String, String, usize, usize)> {
    let v = tok_variant(t);
    let r = match t {
        Token::SingleQuotedString(s) | Token::DoubleQuotedString(s) => (s.clone(), 1, 1),
        Token::TripleSingleQuotedString(s) | Token::TripleDoubleQuotedString(s) => (s.clone(), 3, 3),
        Token::SingleQuotedByteStringLiteral(s) | Token::DoubleQuotedByteStringLiteral(s) | Token::SingleQuotedRawStringLiteral(s) | Token::DoubleQuotedRawStringLiteral(s) | Token::NationalStringLiteral(s) | Token::EscapedStringLiteral(s) => (s.clone(), 2, 1),
        Token::TripleSingleQuotedByteStringLiteral(s) | Token::TripleDoubleQuotedByteStringLiteral(s) | Token::TripleSingleQuotedRawStringLiteral(s) | Token::TripleDoubleQuotedRawStringLiteral(s) => (s.clone(), 4, 3),
        Token::UnicodeStringLiteral(s) => (s.clone(), 3, 1),
        Token::HexStringLiteral(s) => {
            if slice.len() >= 2 && slice[0] == '0' && slice[1] == 'x' { (s.clone(), 2, 0) } else { (s.clone(), 2, 1) }
        }
        Token::DollarQuotedString(d) => {
            let n = d.tag.as_ref().map(|t| t.chars().count()).unwrap_or(0) + 2;
            (d.value.clone(), n, n)
        }
        Token::Word(w) if w.quote_style.is_some() => return Some((format!("Word{}", w.quote_style.unwrap()), w.value.clone(), 1, 1)),
        _ => return None,
    };
    Some((v, r.0, r.1, r.2))
}

/// source slices of the tokens (token i spans from its location to the next token's location)
fn slices(text: &str, ts: &[TokenWithLocation]) -> Option<Vec<Vec<char>>> {
    let li = LineIndex::new(text);
    let chars: Vec<char> = text.chars().collect();
    let mut offs = vec![];
    for t in ts {
        offs.push(li.offset(t.location.line, t.location.column)?);
    }
    offs.push(chars.len());
    let mut out = vec![];
    for i in 0..ts.len() {
        if offs[i] > offs[i + 1] || offs[i + 1] > chars.len() {
            return None;
        }
        out.push(chars[offs[i]..offs[i + 1]].to_vec());
    }
    Some(out)
}

/// (kind, body = source text between the delimiters, payload) of every literal token
fn bodies(text: &str, ts: &[TokenWithLocation]) -> Option<Vec<(String, String, String)>> {
    let sl = slices(text, ts)?;
    let mut out = vec![];
    for (t, s) in ts.iter().zip(sl.iter()) {
        if let Some((kind, payload, a, b)) = lit_parts(&t.token, s) {
            if s.len() < a + b {
                return None;
            }
            out.push((kind, s[a..s.len() - b].iter().collect(), payload));
        }
    }
    Some(out)
}

fn body_feature(body: &str) -> &'static str {
    if body.contains('\\') {
        "backslash"
    } else if body.contains("''") || body.contains("\"\"") || body.contains("``") || body.contains("]]") {
        "doubled-quote"
    } else {
        "plain"
    }
}

/// Debug rendering with every string literal emptied (char literals are kept)
pub fn mask_strings(s: &str) -> String {
    let cs: Vec<char> = s.chars().collect();
    let mut out = String::with_capacity(cs.len());
    let mut i = 0;
    while i < cs.len() {
        let c = cs[i];
        if c == '\'' {
            // char literal: 'x' or '\x' or '\u{..}'
            let mut j = i + 1;
            if j < cs.len() && cs[j] == '\\' {
                j += 2;
                while j < cs.len() && cs[j] != '\'' {
                    j += 1;
                }
            } else {
                j += 1;
            }
            if j < cs.len() && cs[j] == '\'' {
                out.extend(cs[i..=j].iter());
                i = j + 1;
                continue;
            }
            out.push(c);
            i += 1;
        } else if c == '"' {
            let mut j = i + 1;
            while j < cs.len() && cs[j] != '"' {
                if cs[j] == '\\' {
                    j += 1;
                }
                j += 1;
            }
            out.push_str("\"\"");
            i = j + 1;
        } else {
            out.push(c);
            i += 1;
        }
    }
    out
}

fn c20_texts(seed: u64, thorough: bool) -> Vec<String> {
    let mut rng = Rng(seed ^ 0xC20);
    let mut lits: Vec<String> = vec![];
    // source bodies; {q} = the quote of the form
    let bodies = ["a", "a{q}{q}b", "{q}{q}", "{q}{q}{q}{q}", "a\\{q}b", "a\\\\b", "\\\\", "a\\nb", "a\nb", "é𝒳", "%_", "a\\%b", "a\\\\{q}{q}b", "{q}{q}a", "a{q}{q}", "\\{q}{q}{q}", "a b", "", "\\t", "\\0", "\\x41", "\\u0041", "C:\\\\dir"];
    let forms: [(&str, &str, &str); 16] = [
        ("'", "'", "'"), ("\"", "\"", "\""), ("N'", "'", "'"), ("n'", "'", "'"), ("B'", "'", "'"), ("b\"", "\"", "\""), ("R'", "'", "'"), ("r\"", "\"", "\""),
        ("'''", "'''", "'"), ("\"\"\"", "\"\"\"", "\""), ("R'''", "'''", "'"), ("B\"\"\"", "\"\"\"", "\""), ("E'", "'", "'"), ("U&'", "'", "'"), ("`", "`", "`"), ("[", "]", "]"),
    ];
    for (op, cl, q) in forms {
        for b in bodies {
            lits.push(format!("{op}{}{cl}", b.replace("{q}", q)));
        }
    }
    for x in ["X'1F'", "x'00ff'", "0x1F", "X''", "$$a$b$$", "$$a''b\\n$$", "$t$a$$b$t$", "$t$a'b$t$", "U&'\\0041\\+01D4B3'", "U&'a\\\\b'", "E'a\\'b'", "E'\\101'"] {
        lits.push(x.to_string());
    }
    let wrappers = ["SELECT {}", "SELECT {} AS x", "SELECT * FROM t WHERE c = {}", "SELECT * FROM t WHERE c LIKE {}", "INSERT INTO t VALUES ({})", "SELECT 1 AS {}", "SELECT {}.c FROM {}", "SELECT f({}, {})", "CREATE TABLE t (c INT COMMENT {})", "SELECT c FROM t AS {}"];
    let mut out = vec![];
    for l in &lits {
        for w in wrappers {
            if thorough || rng.chance(1, 2) || w == "SELECT {}" {
                out.push(w.replace("{}", l));
            }
        }
    }
    // random pairs of literals in one statement
    for _ in 0..(if thorough { 4000 } else { 400 }) {
        let a = rng.pick(&lits).clone();
        let b = rng.pick(&lits).clone();
        out.push(format!("SELECT {a}, {b} FROM t WHERE x = {b}"));
    }
    out
}

pub fn oracle_c20(c: &Corpus, seed: u64, tier: &str) -> Vec<Report> {
    let thorough = tier == "thorough";
    let ds = all_dialects();
    let mut r1 = Report::new("C20", "oracle.raw-body", "every (text, dialect) pair of the accepted corpus and of generated statements around literals with doubled quotes / backslashes / escapes in every literal form, tokenized with unescape off: for each string-literal, dollar-quoted and quoted-identifier token the payload must equal the source text between its delimiters (token extent taken from the token locations). Signature = raw-body/kind/body feature. non-trivial = distinct (kind, dialect, body)");
    let mut r2 = Report::new("C20", "oracle.print-raw", "same pairs, parsed with unescape off: every literal body of the printed tree (tokenized again with unescape off) must occur as a literal body of the source (bag inclusion; literals the parser dropped are counted, not reported). Signature = print-body/kind of the printed literal/feature of its body. non-trivial = distinct statements with at least one literal");
    let mut r3 = Report::new("C20", "oracle.modes-shape", "same pairs: when both modes accept, the two trees must be equal after emptying every string in their Debug rendering; the token vectors must have equal length, variants and locations. Signature = shape/statement variant or token-shape/variant. non-trivial = distinct statements whose trees differ before masking");
    let raw = Opts { unescape: false, trailing: None, limit: None };
    let cooked = Opts::DEFAULT;
    let mut d1 = BTreeSet::new();
    let mut d2 = 0u64;
    let mut d3 = 0u64;
    let mut caps: BTreeMap<String, u32> = BTreeMap::new();
    let gen = c20_texts(seed, thorough);
    r1.dist.insert("inputs/generated-texts".into(), gen.len() as u64);
    r1.dist.insert("inputs/corpus-pairs".into(), c.accepted.len() as u64);
    let mut work: Vec<(String, usize)> = vec![];
    for &(i, k) in &c.accepted {
        work.push((c.literals[i].clone(), k));
    }
    for t in &gen {
        for k in 0..ds.len() {
            work.push((t.clone(), k));
        }
    }
    for (s, k) in &work {
        let (dn, d) = (ds[*k].0, ds[*k].1.as_ref());
        let traw = match tokenize(d, false, s) { G::Val(Ok(t)) => t, G::Val(Err(_)) => continue, G::Panic(m) => { r1.panic(dn, raw, s, m); continue; } };
        // (1) raw bodies
        let bs = match bodies(s, &traw) { Some(b) => b, None => { fail_capped(&mut r1, &mut caps, 3, "raw-body/token-extent-unusable".into(), dn, raw, s, String::new()); continue; } };
        for (kind, body, payload) in &bs {
            r1.evaluations += 1;
            d1.insert((kind.clone(), *k, body.clone()));
            if body != payload {
                fail_capped(&mut r1, &mut caps, 3, format!("raw-body/{kind}/{}", body_feature(body)), dn, raw, s, format!("body={body:?} payload={payload:?}"));
            }
        }
        // token shape in both modes
        if let G::Val(Ok(tc)) = tokenize(d, true, s) {
            r3.evaluations += 1;
            let same = tc.len() == traw.len() && tc.iter().zip(traw.iter()).all(|(a, b)| a.location == b.location && tok_variant(&a.token) == tok_variant(&b.token));
            if !same {
                fail_capped(&mut r3, &mut caps, 3, "token-shape/differs".into(), dn, raw, s, String::new());
            }
        } else {
            fail_capped(&mut r3, &mut caps, 3, "token-shape/one-mode-rejects".into(), dn, raw, s, String::new());
        }
        // (2) printing the raw tree reproduces the bodies
        let praw = parse(d, raw, s);
        if let G::Panic(m) = &praw {
            r2.panic(dn, raw, s, m.clone());
        }
        if let G::Val(Ok(tree)) = &praw {
            if !bs.is_empty() {
                r2.evaluations += 1;
                d2 += 1;
                match guard(|| tree.iter().map(|x| x.to_string()).collect::<Vec<_>>().join("; ")) {
                    G::Panic(m) => r2.panic(dn, raw, s, m),
                    G::Val(printed) => match tokenize(d, false, &printed) {
                        G::Val(Ok(tp)) => match bodies(&printed, &tp) {
                            Some(bp) => {
                                // every literal body of the printed text must be a literal body of the
                                // source (as bags); a literal the parser dropped is not "in the tree"
                                // and is counted, not reported (that is C05's subject)
                                let mut src: Vec<&String> = bs.iter().map(|x| &x.1).collect();
                                let mut alien: Option<&(String, String, String)> = None;
                                for x in &bp {
                                    if let Some(pos) = src.iter().position(|y| **y == x.1) { src.remove(pos); } else if alien.is_none() { alien = Some(x); }
                                }
                                if !src.is_empty() && alien.is_none() {
                                    r2.count("source-literal-not-in-printed-tree");
                                    if r2.samples.len() < 6 {
                                        r2.sample(serde_json::json!({"note": "source literal absent from the printed tree (not reported here)", "dialect": dn, "text": trunc(s, 160), "printed": trunc(&printed, 160), "missing": src.iter().map(|x| x.to_string()).collect::<Vec<_>>()}));
                                    }
                                }
                                match alien {
                                    Some((kind, body, _)) => fail_capped(&mut r2, &mut caps, 3, format!("print-body/{kind}/{}", body_feature(body)), dn, raw, s, format!("printed body={body:?} printed={printed:?}")),
                                    None => r2.count("bodies-reproduced"),
                                }
                            }
                            None => fail_capped(&mut r2, &mut caps, 3, "print-body/token-extent-unusable".into(), dn, raw, s, format!("printed={printed:?}")),
                        },
                        _ => fail_capped(&mut r2, &mut caps, 3, "print-body/printed-text-does-not-lex".into(), dn, raw, s, format!("printed={printed:?}")),
                    },
                }
            }
        }
        // (3) trees of both modes, payloads masked
        let pcooked = parse(d, cooked, s);
        match (&praw, &pcooked) {
            (G::Val(Ok(a)), G::Val(Ok(b))) => {
                r3.evaluations += 1;
                if a != b {
                    d3 += 1;
                    let (da, db) = (format!("{a:?}"), format!("{b:?}"));
                    if mask_strings(&da) != mask_strings(&db) {
                        let var = a.first().map(variant_of).unwrap_or_default();
                        fail_capped(&mut r3, &mut caps, 3, format!("shape/{var}"), dn, raw, s, format!("raw={} cooked={}", trunc(&da, 250), trunc(&db, 250)));
                    } else {
                        r3.count("differ-only-in-strings");
                    }
                } else {
                    r3.count("identical");
                }
            }
            (G::Val(Ok(_)), G::Val(Err(_))) => r3.count("only-raw-accepts"),
            (G::Val(Err(_)), G::Val(Ok(_))) => r3.count("only-cooked-accepts"),
            (_, G::Panic(m)) => r3.panic(dn, cooked, s, m.clone()),
            _ => {}
        }
        if (r1.evaluations + r3.evaluations) % 5003 == 1 {
            r1.sample(serde_json::json!({"dialect": dn, "text": trunc(s, 200), "bodies": bs.iter().map(|x| x.1.clone()).collect::<Vec<_>>()}));
        }
    }
    r1.distinct_nontrivial = d1.len() as u64;
    r2.distinct_nontrivial = d2;
    r3.distinct_nontrivial = d3;
    vec![r1, r2, r3]
}

//! C08: keyword recognition. Correspondence stream for `make_word` and direct oracles.
use crate::common::*;
use sqlparser::keywords::{Keyword, ALL_KEYWORDS, ALL_KEYWORDS_INDEX};
use sqlparser::tokenizer::Token;
use std::collections::BTreeSet;
use std::io::Write;

fn case_variants(k: &str, rng: &mut Rng) -> Vec<String> {
    let up = k.to_string();
    let lo = k.to_lowercase();
    let alt: String = k.chars().enumerate().map(|(i, c)| if i % 2 == 0 { c.to_ascii_lowercase() } else { c }).collect();
    let rnd: String = k.chars().map(|c| if rng.chance(1, 2) { c.to_ascii_lowercase() } else { c }).collect();
    let cap: String = k.chars().enumerate().map(|(i, c)| if i == 0 { c } else { c.to_ascii_lowercase() }).collect();
    vec![up, lo, alt, rnd, cap]
}

fn near_misses(k: &str, rng: &mut Rng) -> Vec<String> {
    let cs: Vec<char> = k.chars().collect();
    let mut v = vec![];
    // delete one char, insert one, substitute one, append underscore/digit, non-ASCII look-alikes
    if cs.len() > 1 {
        let i = rng.below(cs.len());
        let mut d = cs.clone();
        d.remove(i);
        v.push(d.iter().collect());
    }
    let i = rng.below(cs.len() + 1);
    let mut ins = cs.clone();
    ins.insert(i, *rng.pick(&['A', 'x', '_', '0', 'é']));
    v.push(ins.iter().collect());
    let i = rng.below(cs.len());
    let mut su = cs.clone();
    su[i] = if su[i] == 'Q' { 'Z' } else { 'Q' };
    v.push(su.iter().collect());
    v.push(format!("{k}_"));
    v.push(format!("_{k}"));
    v.push(format!("{k}1"));
    // Unicode characters whose upper-casing is ASCII or multi-char
    for (from, to) in [('S', 'ſ'), ('K', 'K'), ('I', 'ı'), ('s', 'ſ')] {
        if k.contains(from) {
            v.push(k.replacen(from, &to.to_string(), 1));
        }
    }
    if k.contains("SS") {
        v.push(k.replacen("SS", "ß", 1));
    }
    if k.contains("FI") {
        v.push(k.replacen("FI", "ﬁ", 1));
    }
    v
}

fn pos_of(k: Keyword) -> Option<usize> {
    if k == Keyword::NoKeyword {
        None
    } else {
        ALL_KEYWORDS_INDEX.iter().position(|x| *x == k)
    }
}

/// corr stream `kw`: request `kw \t word \t upper \t quote`; answer `index|none \t display|PANIC`
pub fn corr(dir: &str, seed: u64, tier: &str) -> Report {
    let mut r = Report::new("C08", "corr.kw", "make_word on every table entry x 5 capitalisations, near misses (delete/insert/substitute/affix, Unicode upper-casing look-alikes), quote styles; non-trivial = distinct answers");
    let mut rng = Rng(seed);
    let mut req = std::fs::File::create(format!("{dir}/kw.req")).unwrap();
    let mut real = std::fs::File::create(format!("{dir}/kw.real")).unwrap();
    let mut words: Vec<(String, Option<char>)> = vec![];
    let reps = if tier == "thorough" { 8 } else { 1 };
    for _ in 0..reps {
        for k in ALL_KEYWORDS.iter() {
            for w in case_variants(k, &mut rng) {
                words.push((w, None));
            }
            for w in near_misses(k, &mut rng) {
                words.push((w, None));
            }
            let q = *rng.pick(&['"', '`', '[', '\'', 'x']);
            words.push((k.to_string(), Some(q)));
        }
    }
    for w in ["", "a", "Z", "ZZZZZZ", "0", "é", "SELECT ", "select\n", "𝒳", "AAAAAAAAAAAAAAAAAAAAAAAAAAAAAAAAA"] {
        words.push((w.to_string(), None));
    }
    let mut distinct = BTreeSet::new();
    for (w, q) in &words {
        let up = w.to_ascii_uppercase();
        writeln!(req, "kw\t{}\t{}\t{}", hex(w), hex(&up), q.map(|c| format!("{:x}", c as u32)).unwrap_or("-".into())).unwrap();
        let ans = match guard(|| {
            let t = Token::make_word(w, *q);
            let (kw, disp) = match &t {
                Token::Word(x) => (x.keyword, guard(|| x.to_string())),
                _ => unreachable!(),
            };
            let k = pos_of(kw).map(|i| i.to_string()).unwrap_or("none".into());
            let d = match disp { G::Val(s) => hex(&s), G::Panic(_) => "PANIC".into() };
            format!("{k}\t{d}")
        }) {
            G::Val(s) => s,
            G::Panic(m) => format!("PANIC {m}"),
        };
        distinct.insert(ans.clone());
        writeln!(real, "{ans}").unwrap();
        r.evaluations += 1;
        if r.evaluations % 2500 == 7 {
            r.sample(serde_json::json!({"word": w, "quote": q.map(|c| c.to_string()), "answer": ans}));
        }
    }
    r.distinct_nontrivial = distinct.len() as u64;
    r
}

/// Direct oracles on the real code.
pub fn oracle(c: &Corpus, seed: u64, tier: &str) -> Vec<Report> {
    let mut out = vec![];
    let ds = all_dialects();
    // (a) table entries in every capitalisation, through the real tokenizer, all dialects
    let mut r = Report::new("C08", "oracle.table", "every ALL_KEYWORDS entry x 5 capitalisations x 13 dialects tokenised as a word must carry ALL_KEYWORDS_INDEX[i] and its spelling; near misses must be NoKeyword; non-trivial = distinct (entry, capitalisation)");
    r.exhaustive = true;
    let mut rng = Rng(seed ^ 0xC08);
    let mut distinct = BTreeSet::new();
    for (i, k) in ALL_KEYWORDS.iter().enumerate() {
        let simple = k.chars().all(|c| c.is_ascii_alphanumeric() || c == '_') && !k.chars().next().unwrap().is_ascii_digit();
        for w in case_variants(k, &mut rng) {
            distinct.insert(w.clone());
            // direct
            r.evaluations += 1;
            match Token::make_word(&w, None) {
                Token::Word(x) => {
                    if x.keyword != ALL_KEYWORDS_INDEX[i] {
                        r.fail("keyword/not-recognised".into(), "-", Opts::DEFAULT, &w, format!("make_word gave {:?}, table says {:?}", x.keyword, ALL_KEYWORDS_INDEX[i]));
                    }
                    if x.value != w {
                        r.fail("keyword/spelling-changed".into(), "-", Opts::DEFAULT, &w, format!("value {:?}", x.value));
                    }
                }
                _ => {}
            }
            if !simple { continue; }
            for (dn, d) in &ds {
                r.evaluations += 1;
                match tokenize(d.as_ref(), true, &w) {
                    G::Val(Ok(ts)) => {
                        let ok = ts.len() == 1 && matches!(&ts[0].token, Token::Word(x) if x.keyword == ALL_KEYWORDS_INDEX[i] && x.value == w && x.quote_style.is_none());
                        if !ok {
                            r.fail("keyword/not-recognised".into(), dn, Opts::DEFAULT, &w, format!("tokens {:?}", ts.iter().map(|t| &t.token).collect::<Vec<_>>()));
                        }
                    }
                    G::Val(Err(e)) => r.fail("keyword/lex-error".into(), dn, Opts::DEFAULT, &w, format!("{e}")),
                    G::Panic(m) => r.panic(dn, Opts::DEFAULT, &w, m),
                }
            }
        }
        for w in near_misses(k, &mut rng) {
            if ALL_KEYWORDS.contains(&w.to_ascii_uppercase().as_str()) { continue; }
            r.evaluations += 1;
            if let Token::Word(x) = Token::make_word(&w, None) {
                if x.keyword != Keyword::NoKeyword {
                    let sig = if w.is_ascii() { "keyword/near-miss-recognised" } else { "keyword/non-ascii-recognised" };
                    r.fail(sig.into(), "-", Opts::DEFAULT, &w, format!("recognised as {:?}", x.keyword));
                }
            }
        }
    }
    r.distinct_nontrivial = distinct.len() as u64;
    r.sample(serde_json::json!({"entry": ALL_KEYWORDS[17], "variants": case_variants(ALL_KEYWORDS[17], &mut rng)}));
    out.push(r);
    out.push(caseflip(c, seed, tier));
    out
}

/// (b) whole-grammar: flipping the case of keyword occurrences never changes the tree.
fn flip(s: &str, mode: usize) -> String {
    match mode {
        0 => s.to_ascii_lowercase(),
        1 => s.to_ascii_uppercase(),
        _ => s.chars().enumerate().map(|(i, c)| if i % 2 == 0 { c.to_ascii_lowercase() } else { c.to_ascii_uppercase() }).collect(),
    }
}

fn caseflip(c: &Corpus, _seed: u64, tier: &str) -> Report {
    let mut r = Report::new("C08", "oracle.caseflip", "accepted corpus (text, dialect) pairs: every unquoted ASCII word token (table keyword or not) is re-capitalised (lower/upper/alternating), one at a time; the tree must not change unless the word is used as an identifier (then only that identifier's spelling changes); non-trivial = distinct (keyword, dialect)");
    let ds = all_dialects();
    let mut distinct = BTreeSet::new();
    let mut seen_kw: BTreeSet<(String, usize, String)> = BTreeSet::new();
    let o = Opts::DEFAULT;
    for &(i, k) in &c.accepted {
        let s = &c.literals[i];
        let (dn, d) = (&ds[k].0, ds[k].1.as_ref());
        let toks = match tokenize(d, true, s) { G::Val(Ok(t)) => t, _ => continue };
        let v0 = match parse(d, o, s) { G::Val(Ok(v)) => v, _ => continue };
        if v0.iter().any(|x| matches!(x, sqlparser::ast::Statement::Copy { .. }) && x.to_string().contains("STDIN")) { r.count("skipped/copy-stdin"); continue; }
        let dbg0 = format!("{v0:?}");
        let li = LineIndex::new(s);
        let chars: Vec<char> = s.chars().collect();
        let first_variant = variant_of(&v0[0]);
        for (ti, t) in toks.iter().enumerate() {
            let w = match &t.token { Token::Word(w) if w.quote_style.is_none() && w.value.is_ascii() => w, _ => continue };
            let kwname = if w.keyword != Keyword::NoKeyword { format!("{:?}", w.keyword) } else { format!("word:{}", w.value.to_ascii_uppercase()) };
            let off = match li.offset(t.location.line, t.location.column) { Some(x) => x, None => continue };
            let n = w.value.chars().count();
            if off + n > chars.len() || chars[off..off + n].iter().collect::<String>() != w.value { continue; }
            // quick tier: each (keyword, previous token, next token, statement variant, dialect) once; thorough: every occurrence
            // context-sensitive key: the same keyword after a different token is a different site
            let prevk = toks[..ti].iter().rev().find(|x| !is_ws(&x.token)).map(|x| match &x.token { Token::Word(pw) if pw.keyword != Keyword::NoKeyword => format!("{:?}", pw.keyword), other => crate::canon::tok_variant(other) }).unwrap_or_default();
            let nextk = toks[ti + 1..].iter().find(|x| !is_ws(&x.token)).map(|x| match &x.token { Token::Word(pw) if pw.keyword != Keyword::NoKeyword => format!("{:?}", pw.keyword), other => crate::canon::tok_variant(other) }).unwrap_or_default();
            let key = (format!("{kwname}<{prevk}>{nextk}"), k, first_variant.clone());
            if tier != "thorough" && !seen_kw.insert(key) { continue; }
            distinct.insert((kwname.clone(), k));
            for mode in 0..3 {
                let fl = flip(&w.value, mode);
                if fl == w.value { continue; }
                let mut t2: String = chars[..off].iter().collect();
                t2.push_str(&fl);
                t2.extend(chars[off + n..].iter());
                r.evaluations += 1;
                match parse(d, o, &t2) {
                    G::Val(Ok(v1)) => {
                        if v1 == v0 { continue; }
                        // identifier use: the only difference is this spelling
                        let dbg1 = format!("{v1:?}");
                        // identifier use: for a table keyword the trees may differ only in the spelling stored in an
                        // `Ident { value: ".." }`; a word outside the table is an identifier-like name wherever it is stored
                        // identifier use: the trees differ only by letter case (the spelling travels into a
                        // name), and no keyword TOKEN kept in the tree changed its spelling
                        let same = dbg0.to_ascii_lowercase() == dbg1.to_ascii_lowercase() && keyword_tokens(&dbg0) == keyword_tokens(&dbg1);
                        if same {
                            r.count("identifier-use");
                            continue;
                        }
                        r.fail(format!("{first_variant}/{kwname}/tree-changed"), dn, o, &t2, format!("orig={s:?}"));
                    }
                    G::Val(Err(e)) => r.fail(format!("{first_variant}/{kwname}/rejected"), dn, o, &t2, format!("orig={s:?} err={e}")),
                    G::Panic(m) => r.panic(dn, o, &t2, m),
                }
            }
        }
        if r.evaluations % 3001 < 3 { r.sample(serde_json::json!({"dialect": dn, "sql": s})); }
    }
    r.distinct_nontrivial = distinct.len() as u64;
    r
}

fn replace_nth(s: &str, a: &str, b: &str, nth: usize) -> String {
    let mut idx = 0;
    let mut count = 0;
    while let Some(p) = s[idx..].find(a) {
        let at = idx + p;
        if count == nth {
            return format!("{}{}{}", &s[..at], b, &s[at + a.len()..]);
        }
        count += 1;
        idx = at + a.len();
    }
    s.to_string()
}

/// lower-case the contents of every `Ident { value: "…"` in a Debug rendering (only there)
fn norm_idents(d: &str) -> String {
    let pat = "Ident { value: \"";
    let mut out = String::with_capacity(d.len());
    let mut rest = d;
    while let Some(p) = rest.find(pat) {
        out.push_str(&rest[..p + pat.len()]);
        rest = &rest[p + pat.len()..];
        // up to the closing quote (Debug escapes inner quotes as \")
        let mut end = 0;
        let b = rest.as_bytes();
        while end < b.len() { if b[end] == b'\\' { end += 2; continue; } if b[end] == b'"' { break; } end += 1; }
        let end = end.min(rest.len());
        out.push_str(&rest[..end].to_ascii_lowercase());
        rest = &rest[end..];
    }
    out.push_str(rest);
    out
}

/// every `Word { value: "…", quote_style: None, keyword: K }` with K != NoKeyword kept in a tree (Debug)
fn keyword_tokens(d: &str) -> Vec<String> {
    let pat = "Word { value: \"";
    let mut out = vec![];
    let mut rest = d;
    while let Some(p) = rest.find(pat) {
        rest = &rest[p + pat.len()..];
        if let Some(e) = rest.find(" }") {
            let item = &rest[..e];
            if item.contains("quote_style: None") && !item.ends_with("keyword: NoKeyword") { out.push(item.to_string()); }
        }
    }
    out.sort();
    out
}

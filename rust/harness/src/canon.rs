//! Canonical one-line renderings shared by every correspondence stream.
//! Strings are hex code points (see common::hex); `;` separates tokens, `:` fields, `@` location.
use crate::common::hex;
use sqlparser::keywords::{Keyword, ALL_KEYWORDS_INDEX};
use sqlparser::tokenizer::{Token, TokenWithLocation, Whitespace};

pub fn kw_pos(k: Keyword) -> String {
    if k == Keyword::NoKeyword {
        "none".into()
    } else {
        ALL_KEYWORDS_INDEX.iter().position(|x| *x == k).map(|i| i.to_string()).unwrap_or("none".into())
    }
}

/// Name of the variant of a token (Debug head).
pub fn tok_variant(t: &Token) -> String {
    let s = format!("{t:?}");
    s.chars().take_while(|c| c.is_alphanumeric() || *c == '_').collect()
}

pub fn tok_canon(t: &Token) -> String {
    match t {
        Token::Word(w) => format!("Word:{}:{}:{}", hex(&w.value), w.quote_style.map(|c| format!("{:x}", c as u32)).unwrap_or("-".into()), kw_pos(w.keyword)),
        Token::Number(s, l) => format!("Number:{}:{}", hex(s), *l as u8),
        Token::Char(c) => format!("Char:{:x}", *c as u32),
        Token::SingleQuotedString(s)
        | Token::DoubleQuotedString(s)
        | Token::TripleSingleQuotedString(s)
        | Token::TripleDoubleQuotedString(s)
        | Token::SingleQuotedByteStringLiteral(s)
        | Token::DoubleQuotedByteStringLiteral(s)
        | Token::TripleSingleQuotedByteStringLiteral(s)
        | Token::TripleDoubleQuotedByteStringLiteral(s)
        | Token::SingleQuotedRawStringLiteral(s)
        | Token::DoubleQuotedRawStringLiteral(s)
        | Token::TripleSingleQuotedRawStringLiteral(s)
        | Token::TripleDoubleQuotedRawStringLiteral(s)
        | Token::NationalStringLiteral(s)
        | Token::EscapedStringLiteral(s)
        | Token::UnicodeStringLiteral(s)
        | Token::HexStringLiteral(s)
        | Token::Placeholder(s)
        | Token::CustomBinaryOperator(s) => format!("{}:{}", tok_variant(t), hex(s)),
        Token::DollarQuotedString(d) => format!("DollarQuotedString:{}:{}", hex(&d.value), d.tag.as_ref().map(|t| format!("T{}", hex(t))).unwrap_or("N".into())),
        Token::Whitespace(w) => match w {
            Whitespace::Space => "WS:Space".into(),
            Whitespace::Newline => "WS:Newline".into(),
            Whitespace::Tab => "WS:Tab".into(),
            Whitespace::SingleLineComment { comment, prefix, .. } => format!("WS:SLC:{}:{}", hex(prefix), hex(comment)),
            Whitespace::MultiLineComment(s) => format!("WS:MLC:{}", hex(s)),
        },
        other => tok_variant(other),
    }
}

pub fn toks_canon(ts: &[TokenWithLocation]) -> String {
    ts.iter().map(|t| format!("{}@{}:{}", tok_canon(&t.token), t.location.line, t.location.column)).collect::<Vec<_>>().join(";")
}

pub fn toks_canon_noloc(ts: &[Token]) -> String {
    ts.iter().map(tok_canon).collect::<Vec<_>>().join(";")
}

//! C18: every data type prints to SQL that parses back.
//! Streams `dtparse` (real `parse_data_type` on token vectors vs `Model/DataType.lean::parseDT`)
//! and `dtprint` (AST-first: real `to_string()` + real lexer vs the model's `printDT`), and the
//! direct oracle `C18` on the real code (stand-alone / column definition / CAST round trip).
use crate::canon::toks_canon_noloc;
use crate::common::*;
use sqlparser::ast::*;
use sqlparser::dialect::Dialect;
use sqlparser::parser::{Parser, ParserError};
use sqlparser::tokenizer::{Token, Tokenizer};
use std::collections::{BTreeMap, BTreeSet};
use std::io::Write;

// ---------------------------------------------------------------- canonical S-expression
fn hx(s: &str) -> String {
    if s.is_empty() {
        "-".into()
    } else {
        s.chars().map(|c| format!("{:x}", c as u32)).collect::<Vec<_>>().join("_")
    }
}
fn on(o: &Option<u64>) -> String {
    o.map(|n| n.to_string()).unwrap_or("none".into())
}
fn id_sexp(i: &Ident) -> String {
    format!("(id {} {})", hx(&i.value), i.quote_style.map(|c| format!("{:x}", c as u32)).unwrap_or("-".into()))
}
fn cl(o: &Option<CharacterLength>) -> String {
    match o {
        None => "none".into(),
        Some(CharacterLength::Max) => "max".into(),
        Some(CharacterLength::IntegerLength { length, unit, .. }) => format!(
            "(len {length} {})",
            match unit { None => "none", Some(CharLengthUnits::Characters) => "Characters", Some(CharLengthUnits::Octets) => "Octets" }
        ),
    }
}
fn ni(i: &ExactNumberInfo) -> String {
    match i {
        ExactNumberInfo::None => "none".into(),
        ExactNumberInfo::Precision(p) => format!("(p {p})"),
        ExactNumberInfo::PrecisionAndScale(p, s) => format!("(ps {p} {s})"),
    }
}
fn tz(t: &TimezoneInfo) -> &'static str {
    match t {
        TimezoneInfo::None => "None",
        TimezoneInfo::WithTimeZone => "WithTimeZone",
        TimezoneInfo::WithoutTimeZone => "WithoutTimeZone",
        TimezoneInfo::Tz => "Tz",
    }
}
fn sf(tag: &str, fs: &[StructField]) -> String {
    fs.iter().map(|f| format!(" ({tag} {} {})", f.field_name.as_ref().map(id_sexp).unwrap_or("none".into()), dt_sexp(&f.field_type))).collect()
}

/// `DT.sexp` of `Model/DataType.lean`
pub fn dt_sexp(t: &DataType) -> String {
    use DataType::*;
    match t {
        Character(l) => format!("(Character {})", cl(l)),
        Char(l) => format!("(Char {})", cl(l)),
        CharacterVarying(l) => format!("(CharacterVarying {})", cl(l)),
        CharVarying(l) => format!("(CharVarying {})", cl(l)),
        Varchar(l) => format!("(Varchar {})", cl(l)),
        Nvarchar(l) => format!("(Nvarchar {})", cl(l)),
        Uuid => "(Uuid)".into(),
        CharacterLargeObject(l) => format!("(CharacterLargeObject {})", on(l)),
        CharLargeObject(l) => format!("(CharLargeObject {})", on(l)),
        Clob(l) => format!("(Clob {})", on(l)),
        Binary(l) => format!("(Binary {})", on(l)),
        Varbinary(l) => format!("(Varbinary {})", on(l)),
        Blob(l) => format!("(Blob {})", on(l)),
        Bytes(l) => format!("(Bytes {})", on(l)),
        Numeric(i) => format!("(Numeric {})", ni(i)),
        Decimal(i) => format!("(Decimal {})", ni(i)),
        BigNumeric(i) => format!("(BigNumeric {})", ni(i)),
        BigDecimal(i) => format!("(BigDecimal {})", ni(i)),
        Dec(i) => format!("(Dec {})", ni(i)),
        Float(l) => format!("(Float {})", on(l)),
        TinyInt(l) => format!("(TinyInt {})", on(l)),
        UnsignedTinyInt(l) => format!("(UnsignedTinyInt {})", on(l)),
        Int2(l) => format!("(Int2 {})", on(l)),
        UnsignedInt2(l) => format!("(UnsignedInt2 {})", on(l)),
        SmallInt(l) => format!("(SmallInt {})", on(l)),
        UnsignedSmallInt(l) => format!("(UnsignedSmallInt {})", on(l)),
        MediumInt(l) => format!("(MediumInt {})", on(l)),
        UnsignedMediumInt(l) => format!("(UnsignedMediumInt {})", on(l)),
        Int(l) => format!("(Int {})", on(l)),
        Int4(l) => format!("(Int4 {})", on(l)),
        Int8(l) => format!("(Int8 {})", on(l)),
        Int16 => "(Int16)".into(),
        Int32 => "(Int32)".into(),
        Int64 => "(Int64)".into(),
        Int128 => "(Int128)".into(),
        Int256 => "(Int256)".into(),
        Integer(l) => format!("(Integer {})", on(l)),
        UnsignedInt(l) => format!("(UnsignedInt {})", on(l)),
        UnsignedInt4(l) => format!("(UnsignedInt4 {})", on(l)),
        UnsignedInteger(l) => format!("(UnsignedInteger {})", on(l)),
        UInt8 => "(UInt8)".into(),
        UInt16 => "(UInt16)".into(),
        UInt32 => "(UInt32)".into(),
        UInt64 => "(UInt64)".into(),
        UInt128 => "(UInt128)".into(),
        UInt256 => "(UInt256)".into(),
        BigInt(l) => format!("(BigInt {})", on(l)),
        UnsignedBigInt(l) => format!("(UnsignedBigInt {})", on(l)),
        UnsignedInt8(l) => format!("(UnsignedInt8 {})", on(l)),
        Float4 => "(Float4)".into(),
        Float32 => "(Float32)".into(),
        Float64 => "(Float64)".into(),
        Real => "(Real)".into(),
        Float8 => "(Float8)".into(),
        Double => "(Double)".into(),
        DoublePrecision => "(DoublePrecision)".into(),
        Bool => "(Bool)".into(),
        Boolean => "(Boolean)".into(),
        Date => "(Date)".into(),
        Date32 => "(Date32)".into(),
        Time(p, z) => format!("(Time {} {})", on(p), tz(z)),
        Datetime(l) => format!("(Datetime {})", on(l)),
        Datetime64(p, z) => format!("(Datetime64 {p} {})", z.as_ref().map(|s| format!("(s {})", hx(s))).unwrap_or("none".into())),
        Timestamp(p, z) => format!("(Timestamp {} {})", on(p), tz(z)),
        Interval => "(Interval)".into(),
        JSON => "(JSON)".into(),
        JSONB => "(JSONB)".into(),
        Regclass => "(Regclass)".into(),
        Text => "(Text)".into(),
        String(l) => format!("(String {})", on(l)),
        FixedString(n) => format!("(FixedString {n})"),
        Bytea => "(Bytea)".into(),
        Custom(name, mods) => format!(
            "(Custom (name{}) (mods{}))",
            name.0.iter().map(|i| format!(" {}", id_sexp(i))).collect::<std::string::String>(),
            mods.iter().map(|m| format!(" {}", hx(m))).collect::<std::string::String>()
        ),
        Array(ArrayElemTypeDef::None) => "(Array None)".into(),
        Array(ArrayElemTypeDef::AngleBracket(t)) => format!("(Array (Angle {}))", dt_sexp(t)),
        Array(ArrayElemTypeDef::SquareBracket(t, n)) => format!("(Array (Square {} {}))", dt_sexp(t), on(n)),
        Array(ArrayElemTypeDef::Parenthesis(t)) => format!("(Array (Paren {}))", dt_sexp(t)),
        Map(k, v) => format!("(Map {} {})", dt_sexp(k), dt_sexp(v)),
        Tuple(fs) => format!("(Tuple{})", sf("f", fs)),
        Nested(cols) => format!(
            "(Nested{})",
            cols.iter()
                .map(|c| {
                    // collation / options are outside the model: an extra element makes the reader refuse
                    let extra = if c.collation.is_some() || !c.options.is_empty() { " (more)" } else { "" };
                    format!(" (col {} {}{extra})", id_sexp(&c.name), dt_sexp(&c.data_type))
                })
                .collect::<std::string::String>()
        ),
        Enum(ls) => format!("(Enum{})", ls.iter().map(|m| format!(" {}", hx(m))).collect::<std::string::String>()),
        Set(ls) => format!("(Set{})", ls.iter().map(|m| format!(" {}", hx(m))).collect::<std::string::String>()),
        Struct(fs, b) => format!("(Struct {}{})", match b { StructBracketKind::Parentheses => "Paren", StructBracketKind::AngleBrackets => "Angle" }, sf("f", fs)),
        Union(fs) => format!("(Union{})", fs.iter().map(|f| format!(" (u {} {})", id_sexp(&f.field_name), dt_sexp(&f.field_type))).collect::<std::string::String>()),
        Nullable(t) => format!("(Nullable {})", dt_sexp(t)),
        LowCardinality(t) => format!("(LowCardinality {})", dt_sexp(t)),
        Unspecified => "(Unspecified)".into(),
        Trigger => "(Trigger)".into(),
        // a constructor added after the model was written: outside the model (and an open
        // obligation of C18 through the `datatype_variants` inventory), but it must not stop the
        // harness of all twenty properties from building
        #[allow(unreachable_patterns)]
        other => format!("(Unmodelled {})", format!("{other:?}").split(|c: char| !c.is_alphanumeric()).next().unwrap_or("")),
    }
}

fn children(t: &DataType) -> Vec<&DataType> {
    use DataType::*;
    match t {
        Array(ArrayElemTypeDef::AngleBracket(x)) | Array(ArrayElemTypeDef::SquareBracket(x, _)) | Array(ArrayElemTypeDef::Parenthesis(x)) => vec![x],
        Map(k, v) => vec![k, v],
        Tuple(fs) | Struct(fs, _) => fs.iter().map(|f| &f.field_type).collect(),
        Nested(cs) => cs.iter().map(|c| &c.data_type).collect(),
        Union(fs) => fs.iter().map(|f| &f.field_type).collect(),
        Nullable(x) | LowCardinality(x) => vec![x],
        _ => vec![],
    }
}

fn modifiers(t: &DataType, out: &mut BTreeSet<String>) {
    if let DataType::Custom(_, ms) = t {
        for m in ms {
            out.insert(m.clone());
        }
    }
    for c in children(t) {
        modifiers(c, out);
    }
}

// ---------------------------------------------------------------- real answers
fn lex(d: &dyn Dialect, s: &str) -> Option<Vec<Token>> {
    match guard(|| Tokenizer::new(d, s).tokenize()) {
        G::Val(Ok(v)) => Some(v.into_iter().filter(|t| !is_ws(t)).collect()),
        _ => None,
    }
}

fn err_line(e: &ParserError) -> String {
    match e {
        ParserError::RecursionLimitExceeded => "ERR:rle".into(),
        ParserError::ParserError(m) if m.starts_with("unmatched > after parsing data type") => "ERR:unmatched-dt".into(),
        ParserError::ParserError(m) if m.starts_with("unmatched > in STRUCT definition") => "ERR:unmatched-struct".into(),
        ParserError::ParserError(m) => format!("ERR:syntax:{}", hex(m)),
        ParserError::TokenizerError(m) => format!("ERR:lex:{}", hex(m)),
    }
}

fn real_parse(d: &dyn Dialect, limit: usize, toks: &[Token], tc: Option<bool>) -> String {
    let n = toks.len();
    match guard(|| {
        let mut p = Parser::new(d).with_recursion_limit(limit);
        if let Some(tc) = tc {
            p = p.with_options(sqlparser::parser::ParserOptions::new().with_trailing_commas(tc));
        }
        let mut p = p.with_tokens(toks.to_vec());
        let r = p.parse_data_type();
        (r, p.verif_state().0)
    }) {
        G::Val((Ok(t), idx)) => format!("OK {} REST {}", dt_sexp(&t), n.saturating_sub(idx)),
        G::Val((Err(e), _)) => err_line(&e),
        G::Panic(m) => format!("PANIC {m}"),
    }
}

// ---------------------------------------------------------------- spelling corpus
const TYPE_KWS: [&str; 73] = [
    "BOOLEAN", "BOOL", "FLOAT", "REAL", "FLOAT4", "FLOAT32", "FLOAT64", "FLOAT8", "DOUBLE", "TINYINT", "INT2", "SMALLINT",
    "MEDIUMINT", "INT", "INT4", "INT8", "INT16", "INT32", "INT64", "INT128", "INT256", "INTEGER", "BIGINT", "UINT8", "UINT16",
    "UINT32", "UINT64", "UINT128", "UINT256", "VARCHAR", "NVARCHAR", "CHARACTER", "CHAR", "CLOB", "BINARY", "VARBINARY",
    "BLOB", "BYTES", "UUID", "DATE", "DATE32", "DATETIME", "DATETIME64", "TIMESTAMP", "TIMESTAMPTZ", "TIME", "TIMETZ",
    "INTERVAL", "JSON", "JSONB", "REGCLASS", "STRING", "FIXEDSTRING", "TEXT", "BYTEA", "NUMERIC", "DECIMAL", "DEC",
    "BIGNUMERIC", "BIGDECIMAL", "ENUM", "SET", "ARRAY", "STRUCT", "UNION", "NULLABLE", "LOWCARDINALITY", "MAP", "NESTED",
    "TUPLE", "TRIGGER", "foo", "\"Foo\"",
];

/// what may follow a type keyword: every optional-parameter form of the grammar, well formed and not
const TAILS: [&str; 81] = [
    "", "(0)", "(1)", "(255)", "(18446744073709551615)", "(18446744073709551616)", "(1.5)", "(1e3)", "(007)", "(abc)", "()", "(",
    "(1", "(1,", "(1,2)", "(0,18446744073709551615)", "(1,2,3)", "(1 2)", " UNSIGNED", "(3) UNSIGNED", " UNSIGNED(3)",
    " PRECISION", " VARYING", " VARYING(5)", " VARYING(MAX)", " LARGE OBJECT", " LARGE OBJECT(5)", " LARGE", " LARGE(5)",
    " WITH TIME ZONE", "(3) WITH TIME ZONE", " WITHOUT TIME ZONE", "(3) WITHOUT TIME ZONE", " WITH TIME", " WITH", " WITHOUT ZONE",
    "(MAX)", "(max)", "(5 CHARACTERS)", "(5 OCTETS)", "(5 BYTES)", "(MAX CHARACTERS)", "('a')", "('a','b')", "('a' 'b')", "('a',)",
    "(,)", "('it''s')", "(3, 'UTC')", "(3, UTC)", "(3, \"UTC\")", "(3, E'UTC')", "(3, U&'UTC')", "(3, N'x')", "(3, INT)", "(3,)",
    "[]", "[5]", "[][]", "[5][6]", "[1.5]", "[", "[5", "[18446744073709551616]", "<INT>", "<INT", "<INT>>", "<>", "(INT)",
    "(INT, TEXT)", ".x", ".",
    // label lists (parse_comma_separated of single-quoted strings, then `)`): trailing comma, missing separator, list ends
    "('a','b',)", "('a',,)", "('a', from)", "('a',", "('a','b'", "('a',]", "('a' = 1)", "('a', 'b' 'c')", "('a', 1)",
];

/// label lists of ENUM / SET under BOTH values of `ParserOptions::trailing_commas` (every dialect):
/// well formed, trailing comma before `)` / EOF / `;` / `]` / `}` / a reserved word / a plain word,
/// doubled comma, missing separator, no label, non-string elements, `'a' = 1`
const LABEL_TAILS: [&str; 30] = [
    "('a')", "('a','b')", "('a','b','c')", "('a',)", "('a','b',)", "('a','b',,)", "('a',,'b')", "('a' 'b')", "('a','b' 'c')", "(,)", "(,'a')", "()", "(", "('a'",
    "('a',", "('a','b'", "('a',;", "('a',;)", "('a',]", "('a',})", "('a', from)", "('a', union)", "('a', with)", "('a', b)", "('a', \"b\")", "('a', 1)", "('a' = 1)",
    "('a',) x", "('a',), 'b'", "('it''s', '',)",
];

/// the same lists inside other types (the closers of the enclosing type follow the label list)
const LABEL_NESTS: [&str; 12] = [
    "Nullable(ENUM('a',))", "Nullable(ENUM('a','b'))", "ARRAY<ENUM('a','b',)>", "ARRAY<SET('a' 'b')>", "STRUCT<a ENUM('a',), b INT>", "Tuple(ENUM('a',), INT)",
    "Map(String, SET('x',))", "ENUM('a',)[]", "Nested(a ENUM('a','b',), b SET('c'))", "UNION(a ENUM('a',), b INT,)", "STRUCT(a SET('x','y',))", "Array(ENUM('a', from))",
];

const TAILS2: [&str; 30] = [
    "(a INT)", "(a INT, b TEXT)", "(a INT,)", "(a INT,,)", "(a INT b TEXT)", "(\"a\" INT, 'b' TEXT)", "(a INT, from TEXT)", "(from INT)",
    "<a INT, b TEXT>", "<a INT, b ARRAY<INT>>", "<a ARRAY<INT>, b INT>", "<a ARRAY<INT>>, b INT>", "<INT, TEXT>", "<a INT,>", "<a INT b>",
    "<DOUBLE PRECISION>", "<a DOUBLE PRECISION>", "<'a' INT>", "<a 'b'>", "(a INT NOT NULL)", "(a INT DEFAULT 1, b INT)", "(a INT COLLATE x)",
    "(a INT foo)", "(a ARRAY<INT>)", "(a)", "(INT a)", "(a.b INT)", "(a b.c)", "(1, 2)", "(a, b)",
];

const CUSTOMS: [&str; 50] = [
    // string-literal modifiers are stored in their SQL spelling: blanks, doubled quotes, the `''` and `\'` quirks of the printer
    "foo('it''s')", "foo('a''''b')", "foo('a\\''b')", "foo('a\\b')", "foo('x y', 1, z)", "foo('a' 'b')", "foo(N'x')", "foo('é 中')",
    // a quoted-word modifier is stored by `Display for Word` (quotes kept, an embedded quote NOT doubled)
    "foo(\"a b\")", "foo(\"a\"\"b\")",
    "foo", "foo.bar", "foo.bar.baz", "\"foo\"", "`foo`", "[foo]", "'foo'", "\"foo\".bar", "foo.\"bar\"", "foo.'bar'", "\"a.b\".c", "a.\"b.c\"",
    "`a.b`", "a.b.", "foo(1)", "foo(1, 2)", "foo(a, b)", "foo(a b)", "foo('a')", "foo('a b')", "foo('')", "foo()", "foo(,)", "foo(,a,,b,)",
    "foo(+)", "foo(1.5, 2L)", "foo(\"q\", `r`)", "foo(INT)", "foo(a(b))", "foo(a", "GEOMETRY(POINT, 4326)", "VARCHAR2(10)", "public.citext",
    "int unsigned", "mytype[]", "mytype[3][]", "select", "from", "NULL", "PRIMARY",
];

/// wrappers of the nesting grid: `@` is the hole
const WRAPS: [&str; 18] = [
    "ARRAY<@>", "ARRAY<@ >", "STRUCT<@>", "STRUCT<a @>", "STRUCT<a INT, b @>", "STRUCT<a @, b INT>", "Array(@)", "Nullable(@)", "LowCardinality(@)",
    "Map(String, @)", "Map(@, INT)", "Tuple(@)", "Tuple(a @, b INT)", "Nested(a @)", "@[]", "@[3]", "STRUCT(a @)", "UNION(a @, b INT)",
];
const BASES: [&str; 3] = ["INT", "VARCHAR(5)", "foo"];

fn wrap(w: &str, inner: &str) -> String {
    w.replace('@', inner)
}

fn nest_texts(depth: usize, bases: &[&str]) -> Vec<String> {
    let mut cur: Vec<String> = bases.iter().map(|s| s.to_string()).collect();
    let mut all = cur.clone();
    for _ in 0..depth {
        let mut next = vec![];
        for t in &cur {
            for w in WRAPS {
                next.push(wrap(w, t));
            }
        }
        all.extend(next.iter().cloned());
        cur = next;
    }
    all
}

struct Stream {
    req: std::io::BufWriter<std::fs::File>,
    real: std::io::BufWriter<std::fs::File>,
    distinct: BTreeSet<(String, String)>,
}

impl Stream {
    fn new(dir: &str, name: &str) -> Stream {
        Stream {
            req: std::io::BufWriter::new(std::fs::File::create(format!("{dir}/{name}.req")).unwrap()),
            real: std::io::BufWriter::new(std::fs::File::create(format!("{dir}/{name}.real")).unwrap()),
            distinct: BTreeSet::new(),
        }
    }
}

fn emit_parse(s: &mut Stream, r: &mut Report, dn: &str, d: &dyn Dialect, limit: usize, toks: &[Token], class: &str) {
    emit_parse_tc(s, r, dn, d, limit, toks, class, None)
}

/// `tc`: `None` = the dialect's own `ParserOptions` (what `Parser::new` sets), `Some(b)` = the option
/// `trailing_commas` forced to `b` (fifth request field `0`/`1`)
#[allow(clippy::too_many_arguments)]
fn emit_parse_tc(s: &mut Stream, r: &mut Report, dn: &str, d: &dyn Dialect, limit: usize, toks: &[Token], class: &str, tc: Option<bool>) {
    let toks_s = if toks.is_empty() { "-".to_string() } else { toks_canon_noloc(toks) };
    match tc {
        None => writeln!(s.req, "dtparse\t{dn}\t{limit}\t{toks_s}").unwrap(),
        Some(b) => writeln!(s.req, "dtparse\t{dn}\t{limit}\t{toks_s}\t{}", b as u8).unwrap(),
    }
    let a = real_parse(d, limit, toks, tc);
    r.evaluations += 1;
    r.count(&format!("class/{class}"));
    let kind = if a.starts_with("OK") {
        let rest0 = a.ends_with("REST 0");
        // constructor heads reached
        for w in a.split('(').skip(1) {
            let head: String = w.chars().take_while(|c| c.is_alphanumeric()).collect();
            if head.chars().next().map(|c| c.is_uppercase()).unwrap_or(false) {
                r.count(&format!("ctor/{head}"));
            }
        }
        if rest0 { "ok.all" } else { "ok.rest" }
    } else if a.starts_with("ERR:syntax") {
        let msg = unhex(a.splitn(3, ':').nth(2).unwrap_or("-"));
        let head: String = msg.split(", found").next().unwrap_or("").chars().take(40).collect();
        let head = if head.starts_with("Could not parse") { msg.split(": ").nth(1).unwrap_or("").to_string() } else { head };
        r.count(&format!("err/{head}"));
        "err"
    } else if a.starts_with("ERR") {
        r.count(&format!("err/{a}"));
        "err"
    } else {
        "other"
    };
    r.count(&format!("answer/{kind}"));
    s.distinct.insert((dn.to_string(), a.clone()));
    if r.evaluations % 20011 == 7 {
        r.sample(serde_json::json!({"dialect": dn, "tokens": toks.iter().map(|t| t.to_string()).collect::<Vec<_>>().join(" "), "answer": trunc(&a, 200)}));
    }
    writeln!(s.real, "{a}").unwrap();
}

fn emit_text(s: &mut Stream, r: &mut Report, dn: &str, d: &dyn Dialect, limit: usize, text: &str, class: &str) -> Option<Vec<Token>> {
    let toks = lex(d, text)?;
    emit_parse(s, r, dn, d, limit, &toks, class);
    Some(toks)
}

fn random_nest(rng: &mut Rng, depth: usize) -> String {
    let leafs = ["INT", "VARCHAR(5)", "foo", "DOUBLE PRECISION", "TIMESTAMP(3) WITH TIME ZONE", "DateTime64(3, 'UTC')", "ENUM('a','b')", "NUMERIC(10,2)", "INT UNSIGNED", "STRUCT", "ARRAY", "a.b(1)"];
    let mut t = rng.pick(&leafs).to_string();
    for _ in 0..depth {
        let w = *rng.pick(&WRAPS);
        t = wrap(w, &t);
        if rng.chance(1, 6) {
            // a sibling to the left or right
            t = if rng.chance(1, 2) { format!("STRUCT<x {t}, y INT>") } else { format!("Tuple(INT, {t})") };
        }
    }
    t
}

pub fn corr_parse(dir: &str, seed: u64, tier: &str) -> Report {
    let mut r = Report::new("C18", "corr.dtparse", "real Parser::parse_data_type on token vectors (real tokenizer, whitespace dropped) vs model parseDT, answer = S-expression of the value + number of tokens left, or the error (message incl. found token; class for the two `unmatched >` errors and the recursion limit): 73 type keywords + plain/quoted custom names x 81 parameter tails (absent/0/1/255/2^64-1/2^64/non-integers, precision+scale, UNSIGNED, PRECISION, VARYING, LARGE OBJECT, WITH/WITHOUT TIME ZONE and their truncations, MAX/CHARACTERS/OCTETS, label lists incl. trailing comma / missing separator / list ends; ENUM/SET label lists x 30 tails + 12 nested forms under BOTH values of ParserOptions::trailing_commas, DateTime64 zones of every string-token kind, [] suffixes, <..> and (..) element forms) + 30 field-list tails, 50 custom-name/modifier forms (string-literal modifiers with blanks, doubled quotes, backslashes), the nesting grid (18 wrappers incl. ARRAY<@>, ARRAY<@ >, STRUCT<..@>, Map, Tuple, Nested, Nullable, [] suffixes, DuckDB STRUCT(..)/UNION(..)) to depth 2 (thorough: 3) over 3 bases, every truncation / single-token deletion / token replacement of the depth-1 and sampled depth-2 texts, nesting around the recursion limit, random deeper nestings; x 13 dialects; non-trivial = distinct (dialect, answer)");
    let thorough = tier == "thorough";
    let mut s = Stream::new(dir, "dtparse");
    let mut rng = Rng(seed ^ 0xC18);
    let ds = all_dialects();
    let lim = 50usize;
    for (dn, d) in &ds {
        let d = d.as_ref();
        for k in TYPE_KWS {
            for t in TAILS {
                emit_text(&mut s, &mut r, dn, d, lim, &format!("{k}{t}"), "kw.tail");
            }
            for t in TAILS2 {
                emit_text(&mut s, &mut r, dn, d, lim, &format!("{k}{t}"), "kw.fields");
            }
            // the keyword in lower / mixed case
            emit_text(&mut s, &mut r, dn, d, lim, &k.to_lowercase(), "kw.case");
        }
        for c in CUSTOMS {
            emit_text(&mut s, &mut r, dn, d, lim, c, "custom");
        }
        emit_parse(&mut s, &mut r, dn, d, lim, &[], "empty");
        for junk in ["1", "'a'", "(", ")", ",", ">", ">>", "<", "[", "]", ".", "*", "$1", "N'x'", "X'1'", "@a", "?", "::", "INT INT", "INT,", "INT)"] {
            emit_text(&mut s, &mut r, dn, d, lim, junk, "junk");
        }
    }
    // label lists under both values of the option, whatever the dialect's default
    for (dn, d) in &ds {
        let d = d.as_ref();
        for tc in [false, true] {
            for k in ["ENUM", "SET", "enum"] {
                for t in LABEL_TAILS {
                    if let Some(toks) = lex(d, &format!("{k}{t}")) {
                        emit_parse_tc(&mut s, &mut r, dn, d, lim, &toks, "labels", Some(tc));
                    }
                }
            }
            for t in LABEL_NESTS {
                if let Some(toks) = lex(d, t) {
                    emit_parse_tc(&mut s, &mut r, dn, d, lim, &toks, "labels.nested", Some(tc));
                }
            }
        }
    }
    r.exhaustive = true;
    // nesting grid
    let depth = if thorough { 3 } else { 2 };
    let texts = nest_texts(depth, &BASES);
    r.dist.insert("nest.texts".into(), texts.len() as u64);
    for (dn, d) in &ds {
        let d = d.as_ref();
        for t in &texts {
            emit_text(&mut s, &mut r, dn, d, lim, t, "nest");
        }
    }
    // quick: depth 3 over one base on the dialects where the wrappers mean something
    if !thorough {
        let t3 = nest_texts(3, &["INT"]);
        for (k, (dn, d)) in ds.iter().enumerate() {
            if !["generic", "bigquery", "clickhouse", "duckdb", "postgresql", "snowflake"].contains(dn) {
                continue;
            }
            for (i, t) in t3.iter().enumerate() {
                if t.matches(|c| c == '<' || c == '(' || c == '[').count() >= 3 && (i + k + seed as usize) % 3 == 0 {
                    emit_text(&mut s, &mut r, dn, d.as_ref(), lim, t, "nest3");
                }
            }
        }
    }
    // mutations
    let mut_texts = nest_texts(if thorough { 2 } else { 1 }, &["INT", "foo(1)"]);
    let repl = [">", ">>", ",", ")", "(", "<", "[", "]", "INT", "a", "'s'", "3"];
    for (dn, d) in &ds {
        if !thorough && !["generic", "bigquery", "clickhouse", "duckdb", "postgresql", "mysql"].contains(dn) {
            continue;
        }
        let d = d.as_ref();
        let rt: Vec<Token> = repl.iter().filter_map(|x| lex(d, x).and_then(|v| v.first().cloned())).collect();
        for t in &mut_texts {
            let toks = match lex(d, t) { Some(x) => x, None => continue };
            for k in 0..toks.len() {
                emit_parse(&mut s, &mut r, dn, d, lim, &toks[..k], "mut.truncated");
                let mut del = toks.clone();
                del.remove(k);
                emit_parse(&mut s, &mut r, dn, d, lim, &del, "mut.deleted");
                for x in &rt {
                    if thorough || rng.chance(1, 3) {
                        let mut m = toks.clone();
                        m[k] = x.clone();
                        emit_parse(&mut s, &mut r, dn, d, lim, &m, "mut.replaced");
                    }
                }
            }
            // a follower after the complete type
            for x in &rt {
                let mut m = toks.clone();
                m.push(x.clone());
                emit_parse(&mut s, &mut r, dn, d, lim, &m, "mut.follower");
            }
        }
    }
    // recursion limit ladder
    for (dn, d) in &ds {
        if !["generic", "bigquery", "clickhouse", "duckdb", "postgresql"].contains(dn) {
            continue;
        }
        let d = d.as_ref();
        for limit in [0usize, 1, 2, 3, 5, 50] {
            let depths: Vec<usize> = if limit == 50 { vec![48, 49, 50, 51, 52] } else { (0..=limit + 2).collect() };
            for n in depths {
                for w in ["ARRAY<@>", "Nullable(@)", "STRUCT<a @>", "@[]", "Tuple(@, INT)", "Map(INT, @)"] {
                    let mut t = "INT".to_string();
                    for _ in 0..n {
                        t = wrap(w, &t);
                    }
                    emit_text(&mut s, &mut r, dn, d, limit, &t, "limit");
                }
            }
        }
    }
    // random deeper
    let extra = if thorough { 40000 } else { 4000 };
    for _ in 0..extra {
        let (dn, d) = &ds[rng.below(ds.len())];
        let depth = 3 + rng.below(6);
        let t = random_nest(&mut rng, depth);
        if let Some(toks) = emit_text(&mut s, &mut r, dn, d.as_ref(), lim, &t, "random") {
            if rng.chance(1, 4) && !toks.is_empty() {
                let k = rng.below(toks.len());
                let mut m = toks.clone();
                m.remove(k);
                emit_parse(&mut s, &mut r, dn, d.as_ref(), lim, &m, "random.deleted");
            }
        }
    }
    r.distinct_nontrivial = s.distinct.len() as u64;
    r
}

// ---------------------------------------------------------------- AST-first values
const NUMS: [u64; 4] = [0, 1, 255, u64::MAX];

fn opt_nums() -> Vec<Option<u64>> {
    let mut v = vec![None];
    v.extend(NUMS.iter().map(|n| Some(*n)));
    v
}

fn idents() -> Vec<Ident> {
    vec![
        Ident::new("a"),
        Ident::new("Foo_1"),
        Ident::new("INT"),
        Ident::new("from"),
        Ident::new("_x"),
        Ident::with_quote('"', "a b"),
        Ident::with_quote('`', "c"),
        Ident::with_quote('[', "d"),
        Ident::with_quote('\'', "e"),
        Ident::with_quote('"', "q\"q"),
        Ident::new("has space"),
        Ident::with_quote('"', "x.y"),
    ]
}

/// every constructor with every combination of its optional parameters (no nesting)
pub fn leaf_values() -> Vec<DataType> {
    use DataType::*;
    let mut v: Vec<DataType> = vec![
        Uuid, Int16, Int32, Int64, Int128, Int256, UInt8, UInt16, UInt32, UInt64, UInt128, UInt256, Float4, Float32, Float64, Real,
        Float8, Double, DoublePrecision, Bool, Boolean, Date, Date32, Interval, JSON, JSONB, Regclass, Text, Bytea, Unspecified, Trigger,
        Array(ArrayElemTypeDef::None),
    ];
    let mut lens: Vec<Option<CharacterLength>> = vec![None, Some(CharacterLength::Max)];
    for n in NUMS {
        for u in [None, Some(CharLengthUnits::Characters), Some(CharLengthUnits::Octets)] {
            lens.push(Some(CharacterLength::IntegerLength { length: n, unit: u }));
        }
    }
    for l in &lens {
        v.extend([Character(*l), Char(*l), CharacterVarying(*l), CharVarying(*l), Varchar(*l), Nvarchar(*l)]);
    }
    for l in opt_nums() {
        v.extend([
            CharacterLargeObject(l), CharLargeObject(l), Clob(l), Binary(l), Varbinary(l), Blob(l), Bytes(l), Float(l), Datetime(l), String(l),
            TinyInt(l), UnsignedTinyInt(l), Int2(l), UnsignedInt2(l), SmallInt(l), UnsignedSmallInt(l), MediumInt(l), UnsignedMediumInt(l),
            Int(l), UnsignedInt(l), Int4(l), UnsignedInt4(l), Int8(l), UnsignedInt8(l), Integer(l), UnsignedInteger(l), BigInt(l), UnsignedBigInt(l),
        ]);
        for z in [TimezoneInfo::None, TimezoneInfo::WithTimeZone, TimezoneInfo::WithoutTimeZone, TimezoneInfo::Tz] {
            v.push(Time(l, z));
            v.push(Timestamp(l, z));
        }
    }
    let mut infos = vec![ExactNumberInfo::None];
    for p in NUMS {
        infos.push(ExactNumberInfo::Precision(p));
        for s in [0, u64::MAX] {
            infos.push(ExactNumberInfo::PrecisionAndScale(p, s));
        }
    }
    for i in infos {
        v.extend([Numeric(i), Decimal(i), BigNumeric(i), BigDecimal(i), Dec(i)]);
    }
    for n in NUMS {
        v.push(FixedString(n));
        for z in [None, Some("UTC"), Some("Europe/Berlin"), Some(""), Some("a'b"), Some("a\\b")] {
            v.push(Datetime64(n, z.map(|s| s.to_string())));
        }
    }
    for ls in [vec![], vec!["a"], vec!["a", "b"], vec!["", "x y"], vec!["it's"], vec!["a\\b"], vec!["é"]] {
        let ls: Vec<std::string::String> = ls.into_iter().map(|s| s.to_string()).collect();
        v.push(Enum(ls.clone()));
        v.push(Set(ls));
    }
    // custom names x modifiers
    let ids = idents();
    let modsets: Vec<Vec<&str>> = vec![vec![], vec!["1"], vec!["a", "b"], vec!["POINT", "4326"], vec!["a b"], vec![""], vec!["'x'"], vec!["\"q\""], vec!["x'y"], vec!["1.5", "2L"], vec!["a", ""],
        // SQL spellings of string literals (what the parser stores for `foo('..')`), and texts that only look like one
        vec!["'a b'"], vec!["''"], vec!["'it''s'", "1"], vec!["'a\\b'"], vec!["'a\\'b'"], vec!["'a'b'"], vec!["'a' 'b'"]];
    for i in &ids {
        for m in &modsets {
            v.push(Custom(ObjectName(vec![i.clone()]), m.iter().map(|s| s.to_string()).collect()));
        }
    }
    for (a, b) in [(0usize, 1usize), (5, 0), (0, 8), (1, 6), (11, 0), (2, 3)] {
        v.push(Custom(ObjectName(vec![ids[a].clone(), ids[b].clone()]), vec![]));
        v.push(Custom(ObjectName(vec![ids[a].clone(), ids[b].clone(), ids[0].clone()]), vec!["1".into()]));
    }
    v.push(Custom(ObjectName(vec![]), vec![]));
    v
}

fn col(name: Ident, t: DataType) -> ColumnDef {
    ColumnDef { name, data_type: t, collation: None, options: vec![] }
}

/// every recursive constructor around `x` (and a sibling `y`)
fn wrap_values(x: &DataType, y: &DataType) -> Vec<DataType> {
    use DataType::*;
    let a = Ident::new("a");
    let b = Ident::with_quote('"', "b");
    let f = |n: Option<Ident>, t: &DataType| StructField { field_name: n, field_type: t.clone() };
    let mut v = vec![
        Array(ArrayElemTypeDef::AngleBracket(Box::new(x.clone()))),
        Array(ArrayElemTypeDef::SquareBracket(Box::new(x.clone()), None)),
        Array(ArrayElemTypeDef::SquareBracket(Box::new(x.clone()), Some(3))),
        Array(ArrayElemTypeDef::Parenthesis(Box::new(x.clone()))),
        Map(Box::new(x.clone()), Box::new(y.clone())),
        Map(Box::new(y.clone()), Box::new(x.clone())),
        Tuple(vec![f(None, x)]),
        Tuple(vec![f(Some(a.clone()), x), f(None, y)]),
        Tuple(vec![f(None, y), f(Some(b.clone()), x)]),
        Tuple(vec![]),
        Nested(vec![col(a.clone(), x.clone())]),
        Nested(vec![col(a.clone(), y.clone()), col(b.clone(), x.clone())]),
        Nested(vec![]),
        Nullable(Box::new(x.clone())),
        LowCardinality(Box::new(x.clone())),
        Union(vec![UnionField { field_name: a.clone(), field_type: x.clone() }]),
        Union(vec![UnionField { field_name: a.clone(), field_type: y.clone() }, UnionField { field_name: b.clone(), field_type: x.clone() }]),
        Union(vec![]),
    ];
    for k in [StructBracketKind::AngleBrackets, StructBracketKind::Parentheses] {
        v.push(Struct(vec![], k.clone()));
        v.push(Struct(vec![f(None, x)], k.clone()));
        v.push(Struct(vec![f(Some(a.clone()), x)], k.clone()));
        v.push(Struct(vec![f(Some(a.clone()), y), f(Some(b.clone()), x)], k.clone()));
        v.push(Struct(vec![f(Some(a.clone()), x), f(None, y)], k.clone()));
    }
    v
}

fn base_values() -> Vec<DataType> {
    use DataType::*;
    vec![
        Int(None),
        Varchar(Some(CharacterLength::IntegerLength { length: 5, unit: None })),
        Custom(ObjectName(vec![Ident::new("foo")]), vec![]),
        DoublePrecision,
        Timestamp(Some(3), TimezoneInfo::WithTimeZone),
        Datetime64(3, Some("UTC".into())),
        Enum(vec!["a".into(), "b".into()]),
    ]
}

pub fn nested_values(depth: usize, nbase: usize) -> Vec<DataType> {
    let bases: Vec<DataType> = base_values().into_iter().take(nbase).collect();
    let y = DataType::Text;
    let mut cur = bases.clone();
    let mut all = vec![];
    for _ in 0..depth {
        let mut next = vec![];
        for x in &cur {
            next.extend(wrap_values(x, &y));
        }
        all.extend(next.iter().cloned());
        cur = next;
    }
    all
}

/// leaves whose payload texts (identifiers, labels, zones, modifiers) print to text that lexes back
/// token by token in every dialect family: the ones worth nesting (the others are covered as leaves)
fn clean_leaves(leaves: &[DataType]) -> Vec<DataType> {
    let bad = |s: &str| s.is_empty() || s.chars().any(|c| c == '\'' || c == '\\' || c == '"' || c == ' ' || !c.is_ascii());
    // `'..'` around a payload without quote, backslash or non-ASCII (blanks and the empty payload are fine inside quotes)
    let clean_spelling = |s: &str| s.len() >= 2 && s.starts_with('\'') && s.ends_with('\'') && !s[1..s.len() - 1].chars().any(|c| c == '\'' || c == '\\' || !c.is_ascii());
    leaves
        .iter()
        .filter(|t| match t {
            DataType::Datetime64(_, Some(z)) => !bad(z),
            DataType::Enum(ls) | DataType::Set(ls) => !ls.is_empty() && !ls.iter().any(|l| bad(l)),
            DataType::Custom(n, ms) => !n.0.is_empty() && n.0.iter().all(|i| !bad(&i.value) && !i.value.starts_with('_') && matches!(i.quote_style, None | Some('"'))) && !ms.iter().any(|m| bad(m) && !clean_spelling(m)),
            _ => true,
        })
        .cloned()
        .collect()
}

fn random_value(rng: &mut Rng, depth: usize, leaves: &[DataType]) -> DataType {
    let mut t = rng.pick(leaves).clone();
    for _ in 0..depth {
        let y = if rng.chance(1, 3) { rng.pick(leaves).clone() } else { DataType::Text };
        let ws = wrap_values(&t, &y);
        t = rng.pick(&ws).clone();
    }
    t
}

/// a column definition the model does not cover (collation, option)
fn odd_nested() -> Vec<DataType> {
    vec![
        DataType::Nested(vec![ColumnDef { name: Ident::new("a"), data_type: DataType::Int(None), collation: Some(ObjectName(vec![Ident::new("x")])), options: vec![] }]),
        DataType::Nested(vec![ColumnDef { name: Ident::new("a"), data_type: DataType::Int(None), collation: None, options: vec![ColumnOptionDef { name: None, option: ColumnOption::NotNull }] }]),
        DataType::Nested(vec![col(Ident::new("a"), DataType::Unspecified)]),
    ]
}

fn real_print(d: &dyn Dialect, t: &DataType) -> String {
    match guard(|| t.to_string()) {
        G::Val(s) => match lex(d, &s) {
            Some(toks) => format!("TOKS {}", if toks.is_empty() { "-".to_string() } else { toks_canon_noloc(&toks) }),
            None => "LEXERR".into(),
        },
        G::Panic(m) => format!("PANIC {m}"),
    }
}

fn emit_print(s: &mut Stream, r: &mut Report, dn: &str, d: &dyn Dialect, t: &DataType, class: &str) {
    let mut ms = BTreeSet::new();
    modifiers(t, &mut ms);
    let mm = if ms.is_empty() {
        "-".to_string()
    } else {
        ms.iter()
            .map(|m| format!("{}={}", hex(m), match lex(d, m) { Some(toks) => if toks.is_empty() { "-".to_string() } else { toks_canon_noloc(&toks) }, None => "ERR".into() }))
            .collect::<Vec<_>>()
            .join("|")
    };
    writeln!(s.req, "dtprint\t{dn}\t{}\t{mm}", dt_sexp(t)).unwrap();
    let a = real_print(d, t);
    r.evaluations += 1;
    r.count(&format!("class/{class}"));
    r.count(&format!("ctor/{}", variant_of(t)));
    s.distinct.insert((String::new(), a.clone()));
    if r.evaluations % 9973 == 5 {
        r.sample(serde_json::json!({"dialect": dn, "value": trunc(&dt_sexp(t), 200), "text": guard(|| t.to_string()).val_or("PANIC"), "answer": trunc(&a, 200)}));
    }
    writeln!(s.real, "{a}").unwrap();
}

trait ValOr {
    fn val_or(self, d: &str) -> String;
}
impl ValOr for G<String> {
    fn val_or(self, d: &str) -> String {
        match self {
            G::Val(s) => s,
            G::Panic(_) => d.to_string(),
        }
    }
}

pub fn corr_print(dir: &str, seed: u64, tier: &str) -> Report {
    let mut r = Report::new("C18", "corr.dtprint", "AST-first: DataType VALUES built directly (every constructor x every combination of optional length/precision/scale/unit/zone/signedness with numbers from {absent,0,1,255,2^64-1}, label lists, 12 identifier shapes x 18 modifier lists (words, numbers, SQL spellings of string literals incl. blank, empty, doubled-quote and backslash payloads, texts that are no single token), every recursive constructor incl. all three array forms, both struct brackets, named/unnamed fields, empty lists; nesting depth <= 2 exhaustively over a small base set (thorough: 3), deeper randomly) -> real to_string() lexed by the real tokenizer of the dialect (whitespace dropped) vs model printDT of the same value (request = S-expression); x 13 dialects for leaves, 5 (thorough 13) for nestings; non-trivial = distinct token lists");
    let thorough = tier == "thorough";
    let mut s = Stream::new(dir, "dtprint");
    let mut rng = Rng(seed ^ 0x18C);
    let ds = all_dialects();
    let leaves = leaf_values();
    r.dist.insert("values.leaf".into(), leaves.len() as u64);
    for (dn, d) in &ds {
        for t in &leaves {
            emit_print(&mut s, &mut r, dn, d.as_ref(), t, "leaf");
        }
        for t in odd_nested() {
            emit_print(&mut s, &mut r, dn, d.as_ref(), &t, "odd");
        }
    }
    r.exhaustive = true;
    let nested = nested_values(if thorough { 3 } else { 2 }, if thorough { 3 } else { 4 });
    r.dist.insert("values.nested".into(), nested.len() as u64);
    for (dn, d) in &ds {
        if !thorough && !["generic", "bigquery", "clickhouse", "duckdb", "mysql"].contains(dn) {
            continue;
        }
        for t in &nested {
            emit_print(&mut s, &mut r, dn, d.as_ref(), t, "nested");
        }
    }
    // one level of every wrapper around every leaf
    let y = DataType::Int(None);
    let clean = clean_leaves(&leaves);
    r.dist.insert("values.leaf.clean".into(), clean.len() as u64);
    for (k, t) in clean.iter().enumerate() {
        let (dn, d) = &ds[(k + seed as usize) % ds.len()];
        for w in wrap_values(t, &y) {
            if thorough || rng.chance(1, 3) {
                emit_print(&mut s, &mut r, dn, d.as_ref(), &w, "leaf.wrapped");
            }
        }
    }
    let extra = if thorough { 30000 } else { 3000 };
    for _ in 0..extra {
        let (dn, d) = &ds[rng.below(ds.len())];
        let depth = 3 + rng.below(5);
        let dirty = rng.chance(1, 20);
        let t = random_value(&mut rng, depth, if dirty { &leaves } else { &clean });
        emit_print(&mut s, &mut r, dn, d.as_ref(), &t, "random");
    }
    r.distinct_nontrivial = s.distinct.len() as u64;
    r
}

// ---------------------------------------------------------------- oracle on the real code
/// parse `s` as exactly one data type (every token consumed)
fn parse_alone(d: &dyn Dialect, s: &str) -> G<Result<DataType, String>> {
    guard(|| {
        let mut p = Parser::new(d).try_with_sql(s).map_err(|e| e.to_string())?;
        let t = p.parse_data_type().map_err(|e| e.to_string())?;
        let next = p.peek_token().token;
        if next != Token::EOF {
            return Err(format!("trailing token {next}"));
        }
        Ok(t)
    })
}

/// the same with `ParserOptions::trailing_commas` switched on: the option must not change how a
/// printed type (which contains no trailing comma) is read
fn parse_alone_tc(d: &dyn Dialect, s: &str) -> G<Result<DataType, String>> {
    guard(|| {
        let mut p = Parser::new(d).with_options(sqlparser::parser::ParserOptions::new().with_trailing_commas(true)).try_with_sql(s).map_err(|e| e.to_string())?;
        let t = p.parse_data_type().map_err(|e| e.to_string())?;
        let next = p.peek_token().token;
        if next != Token::EOF {
            return Err(format!("trailing token {next}"));
        }
        Ok(t)
    })
}

fn parse_column(d: &dyn Dialect, s: &str) -> G<Result<DataType, String>> {
    // a second column follows: the type must also end correctly in front of a comma
    let sql = format!("CREATE TABLE x (c {s}, d INT)");
    guard(|| {
        let v = Parser::parse_sql(d, &sql).map_err(|e| e.to_string())?;
        match v.as_slice() {
            [Statement::CreateTable(ct)] if ct.columns.len() == 2 && ct.constraints.is_empty() && ct.columns[1].data_type == DataType::Int(None) => {
                let c = &ct.columns[0];
                if c.collation.is_some() || !c.options.is_empty() {
                    return Err(format!("column picked up collation/options: {c}"));
                }
                Ok(c.data_type.clone())
            }
            _ => Err("not the two-column CREATE TABLE".into()),
        }
    })
}

fn parse_cast(d: &dyn Dialect, s: &str) -> G<Result<DataType, String>> {
    let sql = format!("SELECT CAST(a AS {s})");
    guard(|| {
        let v = Parser::parse_sql(d, &sql).map_err(|e| e.to_string())?;
        if let [Statement::Query(q)] = v.as_slice() {
            if let SetExpr::Select(sel) = q.body.as_ref() {
                if let [SelectItem::UnnamedExpr(Expr::Cast { data_type, format: None, .. })] = sel.projection.as_slice() {
                    return Ok(data_type.clone());
                }
            }
        }
        Err("not a single CAST".into())
    })
}

/// constructor name of the deepest node at which two values first differ
fn diff_ctor(a: &DataType, b: &DataType) -> String {
    if std::mem::discriminant(a) == std::mem::discriminant(b) {
        let (ca, cb) = (children(a), children(b));
        if ca.len() == cb.len() {
            let bad: Vec<usize> = (0..ca.len()).filter(|&i| ca[i] != cb[i]).collect();
            if bad.len() == 1 {
                return diff_ctor(ca[bad[0]], cb[bad[0]]);
            }
        }
    }
    ctor_name(a)
}

fn ctor_name(a: &DataType) -> String {
    match a {
        DataType::Array(ArrayElemTypeDef::None) => "Array.None".into(),
        DataType::Array(ArrayElemTypeDef::AngleBracket(_)) => "Array.AngleBracket".into(),
        DataType::Array(ArrayElemTypeDef::SquareBracket(..)) => "Array.SquareBracket".into(),
        DataType::Array(ArrayElemTypeDef::Parenthesis(_)) => "Array.Parenthesis".into(),
        x => variant_of(x),
    }
}

pub fn oracle(_c: &Corpus, seed: u64, tier: &str) -> Vec<Report> {
    let mut r = Report::new("C18", "oracle.C18", "REAL code only. Values = (i) everything the real parser returns on the spelling corpus of stream dtparse (every type keyword x parameter tails, custom names/modifiers, the nesting grid to depth 2/3 incl. `> >` spellings, random deeper nestings) under each of the 13 dialects with all tokens consumed, and (ii) generated values (leaf grid, wrappers, random nestings) that re-parse to themselves under at least one dialect. A value is producible under d when d's parser returned it on a corpus spelling, or when parsing its print under d gives it back. For every value t and every dialect d under which t is producible (what other dialects make of the text is only counted): parse_data_type(print t) == t, `CREATE TABLE x (c <print t>, d INT)` has a first column of type t without options (and the second column), `SELECT CAST(a AS <print t>)` is a cast to t Signature = (constructor of the deepest differing / smallest rejected node)/(alone|column|cast)/(differs|rejected); non-trivial = distinct (constructor, dialect) checked");
    let thorough = tier == "thorough";
    let ds = all_dialects();
    let mut rng = Rng(seed ^ 0x0C18);
    // (i) spelling corpus
    let mut texts: BTreeSet<String> = BTreeSet::new();
    for k in TYPE_KWS {
        for t in TAILS.iter().chain(TAILS2.iter()) {
            texts.insert(format!("{k}{t}"));
        }
    }
    for c in CUSTOMS {
        // `c PRIMARY` is an untyped SQLite column followed by a constraint keyword: not a type position
        if c != "PRIMARY" {
            texts.insert(c.to_string());
        }
    }
    for t in ["ARRAY<ARRAY<ARRAY<INT> > >", "ARRAY<ARRAY<ARRAY<ARRAY<INT> > > >", "STRUCT<a STRUCT<b ARRAY<INT> >, c INT>", "ENUM('it''s')", "ENUM('a\\b', 'c')", "SET('a\\b')", "ENUM('x y', '')", "SET('é', '中')", "ENUM('tab\there')", "DateTime64(3, 'a\\b')", "DateTime64(3, 'a''b')", "DateTime64(3, \"a'b\")", "foo('a''b')", "ARRAY<ARRAY<INT> >[]", "STRUCT<a ARRAY<INT> >[]", "ARRAY<ARRAY<ARRAY<INT> > >[]", "ARRAY<INT>[]", "ARRAY<INT[]>", "STRUCT<a INT>[]", "Tuple(DOUBLE PRECISION)", "STRUCT<INT UNSIGNED>"] {
        texts.insert(t.to_string());
    }
    for t in nest_texts(if thorough { 3 } else { 2 }, &BASES) {
        texts.insert(t);
    }
    for _ in 0..(if thorough { 20000 } else { 2000 }) {
        let depth = 3 + rng.below(5);
        texts.insert(random_nest(&mut rng, depth));
    }
    // value -> the dialects under which the parser produces it
    let mut values: BTreeMap<DataType, BTreeSet<usize>> = BTreeMap::new();
    for t in &texts {
        for (k, (_, d)) in ds.iter().enumerate() {
            if let G::Val(Ok(v)) = parse_alone(d.as_ref(), t) {
                values.entry(v).or_default().insert(k);
            }
        }
    }
    r.dist.insert("values.from-spellings".into(), values.len() as u64);
    // (ii) generated values: producible under d iff parsing their print under d gives them back
    let leaves = leaf_values();
    let mut gen: Vec<DataType> = leaves.clone();
    gen.extend(nested_values(2, if thorough { 4 } else { 3 }));
    let y = DataType::Int(None);
    for t in &leaves {
        gen.extend(wrap_values(t, &y));
    }
    for _ in 0..(if thorough { 20000 } else { 2000 }) {
        let depth = 3 + rng.below(4);
        gen.push(random_value(&mut rng, depth, &leaves));
    }
    let mut added = 0u64;
    for t in gen {
        let s = match guard(|| t.to_string()) { G::Val(s) => s, G::Panic(_) => continue };
        for (k, (_, d)) in ds.iter().enumerate() {
            if let G::Val(Ok(v)) = parse_alone(d.as_ref(), &s) {
                if v == t && values.entry(t.clone()).or_default().insert(k) {
                    added += 1;
                }
            }
        }
    }
    r.dist.insert("pairs.generated-reproducible".into(), added);
    let mut distinct = BTreeSet::new();
    type Ctx = (&'static str, fn(&dyn Dialect, &str) -> G<Result<DataType, String>>);
    let ctxs: [Ctx; 4] = [("alone", parse_alone), ("column", parse_column), ("cast", parse_cast), ("alone-trailing-commas-on", parse_alone_tc)];
    // shortest prints first, so that the first example of every signature is a small one
    let mut ordered: Vec<(&DataType, &BTreeSet<usize>)> = values.iter().collect();
    ordered.sort_by_key(|(t, _)| guard(|| t.to_string()).val_or("").len());
    for (t, homes) in ordered {
        let s = match guard(|| t.to_string()) {
            G::Val(s) => s,
            G::Panic(m) => { r.panic(ds[*homes.iter().next().unwrap()].0, Opts::DEFAULT, &dt_sexp(t), m); continue }
        };
        for (k, (dn, d)) in ds.iter().enumerate() {
            let d = d.as_ref();
            if !homes.contains(&k) {
                // not a dialect that produces this value; what it makes of the text is only counted
                match parse_alone(d, &s) {
                    G::Val(Ok(v)) if v == *t => r.count("other-dialect/same"),
                    G::Val(Ok(_)) => r.count("other-dialect/reads-another-type"),
                    _ => r.count("other-dialect/rejects"),
                }
                continue;
            }
            distinct.insert((ctor_name(t), k));
            for (cname, f) in &ctxs {
                r.evaluations += 1;
                match f(d, &s) {
                    G::Val(Ok(v)) if v == *t => r.count(&format!("ok/{cname}")),
                    G::Val(Ok(v)) => r.fail(format!("{}/{cname}/differs", diff_ctor(t, &v)), dn, Opts::DEFAULT, &s, format!("value={} reparsed={}", dt_sexp(t), dt_sexp(&v))),
                    G::Val(Err(e)) => {
                        // smallest sub-value whose own print is rejected in the same context (a sub-value
                        // of a producible value is itself the result of a sub-parse)
                        let mut cur = t;
                        'shrink: loop {
                            for c in children(cur) {
                                // inside its parent a sub-value is followed by `,`, `)` or `>`: the column
                                // context supplies the comma follower
                                let cs = c.to_string();
                                if !matches!(f(d, &cs), G::Val(Ok(_))) || !matches!(parse_column(d, &cs), G::Val(Ok(_))) {
                                    cur = c;
                                    continue 'shrink;
                                }
                            }
                            break;
                        }
                        r.fail(format!("{}/{cname}/rejected", ctor_name(cur)), dn, Opts::DEFAULT, &s, format!("value={} error={e}", dt_sexp(t)))
                    }
                    G::Panic(m) => r.panic(dn, Opts::DEFAULT, &s, m),
                }
            }
            if r.evaluations % 5003 == 2 {
                r.sample(serde_json::json!({"dialect": dn, "text": s, "value": trunc(&dt_sexp(t), 160)}));
            }
        }
    }
    r.dist.insert("values.total".into(), values.len() as u64);
    r.distinct_nontrivial = distinct.len() as u64;
    vec![r]
}

//! C13: comma-separated list helpers. Correspondence stream `lists` (exhaustive over short token
//! sequences) and whole-grammar oracles (trailing comma insertion, option inertness).
use crate::common::*;
use sqlparser::dialect::GenericDialect;
use sqlparser::keywords::{Keyword, ALL_KEYWORDS, ALL_KEYWORDS_INDEX, RESERVED_FOR_COLUMN_ALIAS};
use sqlparser::parser::{Parser, ParserOptions};
use sqlparser::tokenizer::{Token, Whitespace};
use std::collections::BTreeSet;
use std::io::Write;

fn kwpos(k: Keyword) -> usize {
    ALL_KEYWORDS_INDEX.iter().position(|x| *x == k).unwrap()
}

/// alphabet of the stream: (code used on the wire, token)
fn alphabet() -> Vec<(String, Token)> {
    let mut v: Vec<(String, Token)> = vec![
        ("w:61".into(), Token::make_word("a", None)),
        ("w:62".into(), Token::make_word("b", None)),
        (",".into(), Token::Comma),
        (")".into(), Token::RParen),
        (";".into(), Token::SemiColon),
        ("]".into(), Token::RBracket),
        ("}".into(), Token::RBrace),
        ("(".into(), Token::LParen),
        ("n".into(), Token::Number("1".into(), false)),
        ("s".into(), Token::Whitespace(Whitespace::Space)),
    ];
    // two reserved words, one keyword that is not reserved
    for k in [Keyword::FROM, Keyword::WHERE, Keyword::NAME] {
        let i = kwpos(k);
        v.push((format!("k:{i}"), Token::make_word(ALL_KEYWORDS[i], None)));
    }
    v
}

fn real_answer(op: &str, tc: bool, toks: &[Token]) -> String {
    let d = GenericDialect {};
    let r = guard(|| {
        let mut p = Parser::new(&d).with_options(ParserOptions::new().with_trailing_commas(tc)).with_tokens(toks.to_vec());
        let res = match op {
            "cs" => p.parse_comma_separated(|p| p.parse_identifier(false)),
            _ => p.parse_comma_separated0(|p| p.parse_identifier(false), Token::RParen),
        };
        // remaining non-whitespace tokens
        let idx = p.verif_state().0;
        let rest = toks.iter().skip(idx.min(toks.len())).filter(|t| !is_ws(t)).count();
        (res, rest, p.verif_state().2)
    });
    match r {
        G::Val((Ok(v), rest, tc_after)) => format!("OK {} REST {} TC {}", if v.is_empty() { "-".to_string() } else { v.iter().map(|i| hex(&i.value)).collect::<Vec<_>>().join(".") }, rest, tc_after as u8),
        G::Val((Err(_), _, tc_after)) => format!("ERR TC {}", tc_after as u8),
        G::Panic(m) => format!("PANIC {m}"),
    }
}

pub fn corr(dir: &str, seed: u64, tier: &str) -> Report {
    let mut r = Report::new("C13", "corr.lists", "parse_comma_separated / parse_comma_separated0 with element parser parse_identifier on ALL token sequences up to length N over a 13-letter alphabet (words, reserved and non-reserved keywords, comma, the four closers, `(`, number, whitespace) x option on/off, plus random longer sequences; non-trivial = distinct answers");
    let al = alphabet();
    let maxlen = if tier == "thorough" { 5 } else { 4 };
    let mut req = std::fs::File::create(format!("{dir}/lists.req")).unwrap();
    let mut real = std::fs::File::create(format!("{dir}/lists.real")).unwrap();
    let mut distinct = BTreeSet::new();
    let mut emit = |codes: &[usize], r: &mut Report| {
        let toks: Vec<Token> = codes.iter().map(|&i| al[i].1.clone()).collect();
        let wire = if codes.is_empty() { "-".to_string() } else { codes.iter().map(|&i| al[i].0.clone()).collect::<Vec<_>>().join(" ") };
        for op in ["cs", "cs0"] {
            for tc in [false, true] {
                writeln!(req, "lists\t{op}\t{}\t{wire}", tc as u8).unwrap();
                let a = real_answer(op, tc, &toks);
                r.count(if a.starts_with("OK") { "ok" } else { "err" });
                distinct.insert(a.clone());
                writeln!(real, "{a}").unwrap();
                r.evaluations += 1;
                if r.evaluations % 20011 == 3 { r.sample(serde_json::json!({"op": op, "tc": tc, "tokens": wire, "answer": a})); }
            }
        }
    };
    // exhaustive up to maxlen
    let n = al.len();
    for len in 0..=maxlen {
        let total = n.pow(len as u32);
        for mut x in 0..total {
            let mut codes = vec![];
            for _ in 0..len { codes.push(x % n); x /= n; }
            emit(&codes, &mut r);
        }
    }
    r.exhaustive = true;
    // random longer, comma-heavy
    let mut rng = Rng(seed ^ 0xC13);
    let extra = if tier == "thorough" { 60000 } else { 6000 };
    for _ in 0..extra {
        let len = 5 + rng.below(8);
        let codes: Vec<usize> = (0..len).map(|_| if rng.chance(1, 3) { 2 } else if rng.chance(1, 2) { rng.below(2) } else { rng.below(n) }).collect();
        emit(&codes, &mut r);
    }
    r.distinct_nontrivial = distinct.len() as u64;
    r
}

// ---------------------------------------------------------------- whole-grammar oracles
fn is_end_token(t: &Token) -> bool {
    match t {
        Token::RParen | Token::SemiColon | Token::RBracket | Token::RBrace | Token::EOF => true,
        Token::Word(w) => RESERVED_FOR_COLUMN_ALIAS.contains(&w.keyword),
        _ => false,
    }
}

pub fn oracle(c: &Corpus, _seed: u64, tier: &str) -> Vec<Report> {
    let ds = all_dialects();
    // (1) option inertness
    let mut r1 = Report::new("C13", "oracle.option-inert", "accepted corpus (text, dialect) pairs that contain no comma followed by a list-ending token: parse with trailing_commas off == parse with it on; non-trivial = distinct (statement variant, dialect) with at least one comma");
    r1.exhaustive = true;
    let mut d1 = BTreeSet::new();
    // (2) trailing comma insertion
    let mut r2 = Report::new("C13", "oracle.trailing-comma", "accepted corpus texts, option on: one comma is inserted at the end of every list the parser itself reports (hook: token range of each successful parse_comma_separated) and before the closer of every bracket group that contains a top-level comma, whenever the next token is a closer, `;`, EOF or a keyword; the text must still be accepted and give the same tree. non-trivial = distinct (statement variant, end-token kind, dialect)");
    let mut d2 = BTreeSet::new();
    let mut seen_keys: BTreeSet<(String, String, String, usize)> = BTreeSet::new();
    let on = Opts { unescape: true, trailing: Some(true), limit: None };
    let off = Opts { unescape: true, trailing: Some(false), limit: None };
    for &(i, k) in &c.accepted {
        let s = &c.literals[i];
        let (dn, d) = (&ds[k].0, ds[k].1.as_ref());
        let toks = match tokenize(d, true, s) { G::Val(Ok(t)) => t, _ => continue };
        let nows: Vec<&sqlparser::tokenizer::TokenWithLocation> = toks.iter().filter(|t| !is_ws(&t.token)).collect();
        let has_comma = nows.iter().any(|t| t.token == Token::Comma);
        if !has_comma { continue; }
        let comma_before_end = nows.windows(2).any(|w| w[0].token == Token::Comma && is_end_token(&w[1].token))
            || nows.last().map(|t| t.token == Token::Comma).unwrap_or(false);
        let v_on = parse(d, on, s);
        let v_off = parse(d, off, s);
        if !comma_before_end {
            r1.evaluations += 1;
            match (&v_off, &v_on) {
                (G::Val(Ok(a)), G::Val(Ok(b))) => {
                    d1.insert((variant_of(&a[0]), k));
                    if a != b { r1.fail(format!("{}/option-changes-tree", variant_of(&a[0])), dn, on, s, String::new()); }
                }
                (G::Val(Ok(a)), G::Val(Err(e))) => r1.fail(format!("{}/option-rejects", variant_of(&a[0])), dn, on, s, format!("{e}")),
                (G::Val(Err(_)), G::Val(Ok(b))) => r1.fail(format!("{}/option-accepts", variant_of(&b[0])), dn, on, s, String::new()),
                (G::Panic(m), _) | (_, G::Panic(m)) => r1.panic(dn, on, s, m.clone()),
                _ => {}
            }
        }
        // trailing comma insertion: list ends are taken from the hook (every successful
        // parse_comma_separated records its token range) and from bracket groups
        sqlparser::parser::verif_hooks::reset(u64::MAX);
        let base = match parse(d, on, s) { G::Val(Ok(v)) => v, _ => continue };
        let lists = sqlparser::parser::verif_hooks::lists();
        if base.iter().any(|x| matches!(x, sqlparser::ast::Statement::Copy { .. }) && x.to_string().contains("STDIN")) { continue; }
        let li = LineIndex::new(s);
        let chars: Vec<char> = s.chars().collect();
        let var = variant_of(&base[0]);
        // candidate insertion points: raw token index `e` = first raw token after the list
        let mut cands: BTreeSet<(usize, &'static str)> = BTreeSet::new();
        for (_st, e, n) in &lists {
            if *n >= 1 { cands.insert((*e, "helper")); }
        }
        // bracket groups with a top-level comma: before the closer
        // (saw a top-level comma, saw anything but numbers/commas/whitespace): groups made of numbers
        // only are fixed-arity tuples (`DECIMAL(10, 2)`, row-pattern `{2,3}`), not lists
        let mut stack: Vec<(bool, bool, bool)> = vec![];
        for (ri, t) in toks.iter().enumerate() {
            match &t.token {
                Token::LParen | Token::LBracket | Token::LBrace => { if let Some(x) = stack.last_mut() { x.1 = true; } stack.push((false, false, false)) }
                Token::Comma => { if let Some(x) = stack.last_mut() { x.0 = true; } }
                Token::RParen | Token::RBracket | Token::RBrace => {
                    match stack.pop() {
                        // a plain list: top-level commas and no keyword at the top level of the group (clause
                        // keywords mean the commas belong to inner clauses or to a special form)
                        Some((true, true, false)) => {
                            let open = { let mut dpt = 0i32; let mut o = 0usize; for (qi, q) in toks[..ri].iter().enumerate().rev() { match q.token { Token::RParen | Token::RBracket | Token::RBrace => dpt += 1, Token::LParen | Token::LBracket | Token::LBrace => { if dpt == 0 { o = qi; break; } dpt -= 1; } _ => {} } } o };
                            let prev = toks[..open].iter().rev().find(|x| !is_ws(&x.token)).and_then(|x| match &x.token { Token::Word(w) => Some((w.value.clone(), w.keyword)), _ => None });
                            // fixed-arity special forms and type modifier tuples are not lists (label lists of ENUM/SET are)
                            let special = matches!(prev.as_ref().map(|p| p.1), Some(Keyword::SUBSTRING | Keyword::CEIL | Keyword::FLOOR | Keyword::EXTRACT | Keyword::POSITION | Keyword::OVERLAY | Keyword::TRIM | Keyword::CONVERT | Keyword::CAST | Keyword::TRY_CAST | Keyword::SAFE_CAST | Keyword::SECOND | Keyword::IDENTITY | Keyword::AUTOINCREMENT));
                            let all_strings = toks[open + 1..ri].iter().all(|x| matches!(x.token, Token::SingleQuotedString(_) | Token::Comma | Token::Whitespace(_)));
                            let is_type = !all_strings && prev.as_ref().map(|(w, _)| matches!(guard(|| mk_parser(d, Opts::DEFAULT).try_with_sql(&format!("{w}(1)")).and_then(|mut p| { let t = p.parse_data_type()?; if p.peek_token().token != Token::EOF { return Err(sqlparser::parser::ParserError::ParserError("x".into())); } Ok(t) })), G::Val(Ok(t)) if !matches!(t, sqlparser::ast::DataType::Custom(..)))).unwrap_or(false);
                            if !special && !is_type { cands.insert((ri, "bracket")); }
                        }
                        Some((true, false, _)) => {
                            // numbers only: a list unless it is `{n,m}` or the modifier tuple of a data type
                            let open = toks[..ri].iter().rposition(|x| matches!(x.token, Token::LParen | Token::LBracket | Token::LBrace)).unwrap_or(0);
                            let is_brace = matches!(toks[open].token, Token::LBrace);
                            let prev_kw = toks[..open].iter().rev().find(|x| !is_ws(&x.token)).and_then(|x| match &x.token { Token::Word(w) => Some(w.keyword), _ => None });
                            if matches!(prev_kw, Some(Keyword::SUBSTRING | Keyword::CEIL | Keyword::FLOOR | Keyword::EXTRACT | Keyword::POSITION | Keyword::OVERLAY | Keyword::TRIM | Keyword::CONVERT | Keyword::CAST | Keyword::TRY_CAST | Keyword::SAFE_CAST | Keyword::SECOND | Keyword::IDENTITY | Keyword::AUTOINCREMENT)) { continue; }
                            let prev_word = toks[..open].iter().rev().find(|x| !is_ws(&x.token)).and_then(|x| match &x.token { Token::Word(w) => Some(w.value.clone()), _ => None });
                            let is_type = prev_word.map(|w| matches!(guard(|| mk_parser(d, Opts::DEFAULT).try_with_sql(&format!("{w}(1)")).and_then(|mut p| { let t = p.parse_data_type()?; if p.peek_token().token != Token::EOF { return Err(sqlparser::parser::ParserError::ParserError("x".into())); } Ok(t) })), G::Val(Ok(t)) if !matches!(t, sqlparser::ast::DataType::Custom(..)))).unwrap_or(false);
                            if !is_brace && !is_type { cands.insert((ri, "bracket")); }
                        }
                        _ => {}
                    }
                }
                Token::Number(..) | Token::Whitespace(_) => {}
                Token::Word(w) if w.keyword != Keyword::NoKeyword && w.quote_style.is_none() => { if let Some(x) = stack.last_mut() { x.1 = true; x.2 = true; } }
                _ => { if let Some(x) = stack.last_mut() { x.1 = true; } }
            }
        }
        for (e, how) in cands {
            // next non-whitespace token at or after raw index e
            let mut j = e;
            while j < toks.len() && is_ws(&toks[j].token) { j += 1; }
            let next: Token = toks.get(j).map(|x| x.token.clone()).unwrap_or(Token::EOF);
            // previous non-whitespace token must not be a comma or an opener (already trailing / empty)
            let mut pj = e.min(toks.len());
            let mut prev = None;
            while pj > 0 { pj -= 1; if !is_ws(&toks[pj].token) { prev = Some(toks[pj].token.clone()); break; } }
            if matches!(prev, Some(Token::Comma) | Some(Token::LParen) | Some(Token::LBracket) | Some(Token::LBrace) | None) { continue; }
            let follower_kind = match &next {
                Token::Word(w) if w.keyword != Keyword::NoKeyword => format!("kw:{:?}", w.keyword),
                Token::RParen | Token::RBracket | Token::RBrace | Token::SemiColon => next.to_string(),
                Token::EOF => "EOF".into(),
                _ => continue, // followed by something that is neither a closer, `;`, EOF nor a keyword
            };
            // context of the list: token before its opening bracket and the last clause keyword before it
            let mut depth = 0i32;
            let mut open_at = None;
            for (qi, q) in toks[..e.min(toks.len())].iter().enumerate().rev() {
                match q.token { Token::RParen | Token::RBracket | Token::RBrace => depth += 1, Token::LParen | Token::LBracket | Token::LBrace => { if depth == 0 { open_at = Some(qi); break; } depth -= 1; } _ => {} }
            }
            let kwname = |t: &Token| match t { Token::Word(w) if w.keyword != Keyword::NoKeyword => format!("{:?}", w.keyword), Token::Word(_) => "ident".to_string(), other => crate::canon::tok_variant(other) };
            let before_open = open_at.and_then(|o| toks[..o].iter().rev().find(|x| !is_ws(&x.token))).map(|x| kwname(&x.token)).unwrap_or_default();
            let clause = toks[..open_at.unwrap_or(e.min(toks.len()))].iter().rev().find_map(|x| match &x.token { Token::Word(w) if RESERVED_FOR_COLUMN_ALIAS.contains(&w.keyword) || matches!(w.keyword, Keyword::SELECT | Keyword::VALUES | Keyword::SET | Keyword::INTO | Keyword::TABLE | Keyword::JOIN | Keyword::BY) => Some(format!("{:?}", w.keyword)), _ => None }).unwrap_or_default();
            let key = (var.clone(), format!("{follower_kind}<{before_open}<{clause}"), format!("{dn}/{how}"), 0usize);
            if tier != "thorough" && !seen_keys.insert(key) { continue; }
            let pos = toks.get(j).and_then(|x| li.offset(x.location.line, x.location.column)).unwrap_or(chars.len());
            let mut t2: String = chars[..pos].iter().collect();
            // the inserted comma in rotating layouts (C07: the layout around it must not matter)
            let layouts = [", ", " , ", "  ,\n  ", " /* c */ , /* c */ ", ",\t", "\n,"];
            t2.push_str(layouts[(r2.evaluations % layouts.len() as u64) as usize]);
            t2.extend(chars[pos..].iter());
            r2.evaluations += 1;
            d2.insert((var.clone(), follower_kind.clone(), k));
            let listed_end = is_end_token(&next);
            match parse(d, on, &t2) {
                G::Val(Ok(v)) => { if v != base { r2.fail(format!("{how}/{var}/{follower_kind}/tree-changed"), dn, on, &t2, format!("orig={s:?}")); } else { r2.count(&format!("same-tree/{how}")); } }
                G::Val(Err(e)) => {
                    let sig = if how == "helper" && !listed_end { format!("end-set-incomplete/{follower_kind}") } else { format!("{how}/{var}/{follower_kind}/rejected") };
                    r2.fail(sig, dn, on, &t2, format!("orig={s:?} err={e}"))
                }
                G::Panic(m) => r2.panic(dn, on, &t2, m),
            }
            if r2.evaluations % 301 == 1 { r2.sample(serde_json::json!({"dialect": dn, "with_comma": t2, "how": how})); }
        }
    }
    r1.distinct_nontrivial = d1.len() as u64;
    r2.distinct_nontrivial = d2.len() as u64;
    vec![r1, r2]
}

// ---------------------------------------------------------------- C11 stream `stmts`
/// Statements loop: all token sequences up to length N over {SELECT, number, `;`, END, `)`, space}
/// through the real `parse_statements` vs `Model/Stmts.lean` with statements `SELECT n`.
pub fn corr_stmts(dir: &str, seed: u64, tier: &str) -> Report {
    let mut r = Report::new("C11", "corr.stmts", "real Parser::parse_statements on ALL token sequences up to length N over {SELECT, numbers, `;`, END, `)`, whitespace} (statements are `SELECT n`) plus random longer scripts; outcome = list of statement values or error class (statement error / expected end of statement); non-trivial = distinct answers");
    let al: Vec<(&str, Token)> = vec![
        ("S", Token::make_word("SELECT", None)),
        ("n1", Token::Number("1".into(), false)),
        ("n2", Token::Number("2".into(), false)),
        (";", Token::SemiColon),
        ("E", Token::make_word("END", None)),
        (")", Token::RParen),
        ("w", Token::Whitespace(Whitespace::Newline)),
    ];
    let d = GenericDialect {};
    let mut req = std::fs::File::create(format!("{dir}/stmts.req")).unwrap();
    let mut real = std::fs::File::create(format!("{dir}/stmts.real")).unwrap();
    let mut distinct = BTreeSet::new();
    let mut emit = |codes: &[usize], r: &mut Report| {
        let toks: Vec<Token> = codes.iter().map(|&i| al[i].1.clone()).collect();
        let wire = if codes.is_empty() { "-".to_string() } else { codes.iter().map(|&i| al[i].0).collect::<Vec<_>>().join(" ") };
        writeln!(req, "stmts\t{wire}").unwrap();
        let a = match guard(|| Parser::new(&d).with_tokens(toks).parse_statements()) {
            G::Val(Ok(v)) => {
                let vals: Vec<String> = v.iter().map(|s| s.to_string().trim_start_matches("SELECT ").to_string()).collect();
                format!("OK {}", if vals.is_empty() { "-".to_string() } else { vals.join(" ") })
            }
            G::Val(Err(e)) => if e.to_string().contains("Expected: end of statement") { "ERR end".to_string() } else { "ERR stmt".to_string() },
            G::Panic(m) => format!("PANIC {m}"),
        };
        distinct.insert(a.clone());
        r.count(a.split(' ').take(2).collect::<Vec<_>>().join("-").as_str());
        writeln!(real, "{a}").unwrap();
        r.evaluations += 1;
        if r.evaluations % 30011 == 5 { r.sample(serde_json::json!({"tokens": wire, "answer": a})); }
    };
    let n = al.len();
    let maxlen = if tier == "thorough" { 7 } else { 6 };
    for len in 0..=maxlen {
        for mut x in 0..n.pow(len as u32) {
            let mut codes = vec![];
            for _ in 0..len { codes.push(x % n); x /= n; }
            emit(&codes, &mut r);
        }
    }
    r.exhaustive = true;
    let mut rng = Rng(seed ^ 0xC11);
    for _ in 0..(if tier == "thorough" { 50000 } else { 5000 }) {
        // mostly well-formed scripts with random layout
        let k = 1 + rng.below(6);
        let mut codes = vec![];
        for _ in 0..rng.below(3) { codes.push(3); }
        for i in 0..k {
            codes.push(0); codes.push(1 + rng.below(2));
            if rng.chance(1, 12) { codes.push(*rng.pick(&[4, 5, 0])); }
            if i + 1 < k || rng.chance(1, 2) { for _ in 0..(1 + rng.below(3)) { codes.push(3); if rng.chance(1, 3) { codes.push(6); } } }
        }
        emit(&codes, &mut r);
    }
    r.distinct_nontrivial = distinct.len() as u64;
    r
}

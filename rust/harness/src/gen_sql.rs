//! Deterministic (seed-independent) enumeration of statements built from clause pools: every
//! ordering of up to three optional clauses after a statement head. Most orders are rejected; the
//! accepted ones join the corpus, so every corpus-based oracle also sees clause combinations that
//! no test spells out (a parser that starts accepting a new order is exercised at once).
fn perms_upto3(pool: &[&str]) -> Vec<Vec<usize>> {
    let n = pool.len();
    let mut out = vec![vec![]];
    for a in 0..n {
        out.push(vec![a]);
        for b in 0..n {
            if b == a { continue; }
            out.push(vec![a, b]);
            for c in 0..n {
                if c == a || c == b { continue; }
                out.push(vec![a, b, c]);
            }
        }
    }
    out
}

pub fn enumerate() -> Vec<String> {
    let mut v = vec![];
    // ---- queries
    let heads = ["SELECT a, b FROM t", "SELECT DISTINCT x.a FROM t AS x JOIN u ON x.i = u.i WHERE x.a > 1", "SELECT a, count(*) FROM t GROUP BY a HAVING count(*) > 2"];
    let tails = ["ORDER BY a DESC, b", "LIMIT 3", "LIMIT 3, 7", "LIMIT ALL", "OFFSET 5", "OFFSET 5 ROWS", "FETCH FIRST 2 ROWS ONLY", "FOR UPDATE", "FOR SHARE OF t NOWAIT"];
    for h in heads {
        for p in perms_upto3(&tails) {
            let mut s = h.to_string();
            for i in p { s.push(' '); s.push_str(tails[i]); }
            v.push(s);
        }
    }
    let mids = ["WHERE a = 1", "GROUP BY a", "HAVING max(b) > 1", "WINDOW w AS (PARTITION BY a)", "QUALIFY row_number() OVER w = 1", "CONNECT BY PRIOR a = b", "START WITH a = 1", "CLUSTER BY a", "DISTRIBUTE BY a", "SORT BY a"];
    for p in perms_upto3(&mids) {
        if p.len() > 2 { continue; }
        let mut s = "SELECT a, b FROM t".to_string();
        for i in p { s.push(' '); s.push_str(mids[i]); }
        v.push(s);
    }
    // grouping constructs with empty, single and multiple sets
    for g in ["CUBE", "ROLLUP", "GROUPING SETS"] {
        for sets in ["(a)", "(a, b)", "((a), (b))", "((a, b), c)", "(())", "((), a)", "(a, ())", "((), (a, b), ())"] {
            v.push(format!("SELECT a, b FROM t GROUP BY {g} {sets}"));
            v.push(format!("SELECT a, b FROM t GROUP BY a, {g} {sets} HAVING a > 1"));
        }
    }
    for t in ["GROUP BY ALL", "GROUP BY a WITH ROLLUP", "GROUP BY a WITH CUBE", "GROUP BY a WITH TOTALS", "GROUP BY ()"] {
        v.push(format!("SELECT a FROM t {t}"));
    }
    // select-list modifiers in every order
    let mods = ["DISTINCT", "ALL", "AS VALUE", "AS STRUCT", "TOP 3", "DISTINCT ON (a)", "TOP (3) PERCENT WITH TIES"];
    for p in perms_upto3(&mods) {
        if p.len() > 2 || p.is_empty() { continue; }
        let mut s = "SELECT".to_string();
        for i in p { s.push(' '); s.push_str(mods[i]); }
        s.push_str(" a, b FROM t");
        v.push(s.clone());
        v.push(format!("{s} INTO u"));
    }
    // joins of every kind with every constraint form
    for j in ["JOIN", "INNER JOIN", "LEFT JOIN", "LEFT OUTER JOIN", "RIGHT JOIN", "FULL OUTER JOIN", "CROSS JOIN", "NATURAL JOIN", "LEFT SEMI JOIN", "LEFT ANTI JOIN", "CROSS APPLY", "OUTER APPLY", "ASOF JOIN", "GLOBAL JOIN"] {
        for c in ["", " ON t.a = u.a", " USING (a)", " AS x ON t.a = x.a", " MATCH_CONDITION (t.a >= u.a) ON t.b = u.b"] {
            v.push(format!("SELECT * FROM t {j} u{c}"));
        }
    }
    // set operations with quantifiers and trailing clauses
    for op in ["UNION", "UNION ALL", "UNION DISTINCT", "EXCEPT", "INTERSECT", "UNION BY NAME", "UNION ALL BY NAME"] {
        for t in ["", " ORDER BY 1", " LIMIT 1", " ORDER BY 1 LIMIT 1 OFFSET 2"] {
            v.push(format!("SELECT 1 {op} SELECT 2{t}"));
            v.push(format!("(SELECT 1) {op} (SELECT 2 {op} SELECT 3){t}"));
        }
    }
    // ---- DML option orders
    let ins_tails = ["ON CONFLICT DO NOTHING", "ON CONFLICT (id) DO UPDATE SET a = 1", "RETURNING id", "ON DUPLICATE KEY UPDATE a = 2", "AS new_row"];
    for h in ["INSERT INTO t (id, a) VALUES (1, 2)", "INSERT INTO t SELECT * FROM u", "REPLACE INTO t VALUES (1)", "INSERT OVERWRITE TABLE t SELECT 1", "INSERT INTO t DEFAULT VALUES"] {
        for p in perms_upto3(&ins_tails) {
            if p.len() > 2 { continue; }
            let mut s = h.to_string();
            for i in p { s.push(' '); s.push_str(ins_tails[i]); }
            v.push(s);
        }
    }
    let upd_tails = ["FROM u", "WHERE t.a = 1", "RETURNING t.a", "ORDER BY a", "LIMIT 2"];
    for p in perms_upto3(&upd_tails) {
        let mut s = "UPDATE t SET a = 1, b = b + 1".to_string();
        for i in p { s.push(' '); s.push_str(upd_tails[i]); }
        v.push(s);
    }
    let del_tails = ["USING u", "WHERE a = 1", "RETURNING a", "ORDER BY a", "LIMIT 2"];
    for h in ["DELETE FROM t", "DELETE t1, t2 FROM t1 JOIN t2 ON t1.a = t2.a"] {
        for p in perms_upto3(&del_tails) {
            let mut s = h.to_string();
            for i in p { s.push(' '); s.push_str(del_tails[i]); }
            v.push(s);
        }
    }
    // ---- CREATE TABLE option orders
    let ct_tails = ["ENGINE=InnoDB", "DEFAULT CHARSET=utf8", "COMMENT 'c'", "AUTO_INCREMENT=5", "WITH (fillfactor = 70)", "ON COMMIT DROP", "PARTITION BY a", "CLUSTER BY a", "ORDER BY a", "AS SELECT 1 AS a"];
    for p in perms_upto3(&ct_tails) {
        if p.len() > 2 { continue; }
        let mut s = "CREATE TABLE t (a INT NOT NULL, b TEXT DEFAULT 'x')".to_string();
        for i in p { s.push(' '); s.push_str(ct_tails[i]); }
        v.push(s);
    }
    // external / Hive-style table storage clauses in every order
    let ext_tails = ["STORED AS TEXTFILE", "STORED AS INPUTFORMAT 'in.fmt' OUTPUTFORMAT 'out.fmt'", "LOCATION '/data/x'", "ROW FORMAT DELIMITED", "ROW FORMAT SERDE 'a.b.C'", "TBLPROPERTIES ('k' = 'v')", "PARTITIONED BY (p INT)", "CLUSTERED BY (a) INTO 4 BUCKETS", "COMMENT 'c'"];
    for h in ["CREATE EXTERNAL TABLE t (a INT)", "CREATE TABLE t (a INT)", "CREATE OR REPLACE EXTERNAL TABLE IF NOT EXISTS db.t (a INT, b STRING)"] {
        for p in perms_upto3(&ext_tails) {
            if p.len() > 2 { continue; }
            let mut s = h.to_string();
            for i in p { s.push(' '); s.push_str(ext_tails[i]); }
            v.push(s);
        }
    }
    // row-pattern quantifiers with boundary values (equal bounds, zero, open ends)
    for q in ["", "*", "+", "?", "{2}", "{2,}", "{,3}", "{2,3}", "{2,2}", "{0,0}", "{1,1}", "*?", "+?", "{2,3}?"] {
        v.push(format!("SELECT * FROM t MATCH_RECOGNIZE(PATTERN (A{q} B) DEFINE A AS true)"));
        v.push(format!("SELECT * FROM t MATCH_RECOGNIZE(PARTITION BY p ORDER BY o PATTERN ((A | B){q} C) DEFINE A AS a > 1, B AS b < 2)"));
    }
    // numeric parameter pairs with equal / zero / large values
    for (a, b) in [(1u64, 2u64), (2, 2), (0, 0), (18446744073709551615, 1)] {
        v.push(format!("SELECT CAST(x AS DECIMAL({a}, {b})), CAST(y AS VARCHAR({a})), CAST(z AS TIMESTAMP({b}) WITH TIME ZONE)"));
        v.push(format!("SELECT * FROM t LIMIT {a} OFFSET {b}"));
        v.push(format!("SELECT * FROM t TABLESAMPLE (BUCKET {a} OUT OF {b})"));
        v.push(format!("SELECT SUBSTRING(s FROM {a} FOR {b}), OVERLAY(s PLACING 'x' FROM {a} FOR {b}), s[{a}:{b}]"));
    }
    // column option orders
    let col_opts = ["NOT NULL", "NULL", "DEFAULT 1", "PRIMARY KEY", "UNIQUE", "REFERENCES u (id) ON DELETE CASCADE", "CHECK (a > 0)", "COLLATE \"de\"", "AUTO_INCREMENT", "COMMENT 'c'", "GENERATED ALWAYS AS (b + 1) STORED", "ON UPDATE CURRENT_TIMESTAMP"];
    for p in perms_upto3(&col_opts) {
        if p.len() > 2 { continue; }
        let mut s = "CREATE TABLE t (a INT".to_string();
        for i in p { s.push(' '); s.push_str(col_opts[i]); }
        s.push_str(", b INT)");
        v.push(s);
    }
    // transaction / misc statements with modifiers
    for m in ["", " READ ONLY", " READ WRITE, ISOLATION LEVEL SERIALIZABLE", " ISOLATION LEVEL READ COMMITTED"] {
        v.push(format!("START TRANSACTION{m}"));
        v.push(format!("BEGIN TRANSACTION{m}"));
        v.push(format!("SET TRANSACTION{m}"));
    }
    for t in ["", " AND CHAIN", " AND NO CHAIN", " TO SAVEPOINT s"] {
        v.push(format!("COMMIT{t}"));
        v.push(format!("ROLLBACK{t}"));
    }
    // nested data types in every position that carries a type (the limit ladder of C12 and the depth
    // guards of C03 need texts whose nesting sits inside a TYPE, not inside an expression)
    let types = ["ARRAY<ARRAY<INT>>", "ARRAY<ARRAY<ARRAY<ARRAY<INT>>>>", "STRUCT<a ARRAY<STRUCT<b INT>>>", "INT[][][]", "Nested(a Array(Nullable(Int32)))", "Map(String, Array(Tuple(a Int8, b String)))", "STRUCT(a STRUCT(b STRUCT(c INT)))", "Nullable(LowCardinality(String))", "my_type", "my_type(1, 'x')"];
    for t in types {
        v.push(format!("SELECT CAST(x AS {t})"));
        v.push(format!("SELECT x::{t}"));
        v.push(format!("CREATE TABLE t (a {t}, b INT)"));
        v.push(format!("ALTER TABLE t ADD COLUMN c {t}"));
        v.push(format!("CREATE FUNCTION f(a {t}, b INT) RETURNS {t} AS 'select 1' LANGUAGE sql"));
        v.push(format!("CREATE FUNCTION f({t}) RETURNS INT AS 'select 1'"));
        v.push(format!("DROP FUNCTION f(a {t}), g({t})"));
        v.push(format!("DROP PROCEDURE p(a {t})"));
        v.push(format!("DECLARE x {t}"));
        v.push(format!("CREATE TYPE c AS (f1 {t}, f2 INT)"));
        v.push(format!("PREPARE p ({t}) AS SELECT 1"));
        v.push(format!("CREATE PROCEDURE p (@a {t}) AS BEGIN SELECT 1 END"));
    }
    // texts that begin or end with characters an entry point might be tempted to trim
    for pre in ["\u{feff}", "\u{200b}", "\u{a0}", "\u{feff} ", "\u{1a}"] {
        v.push(format!("{pre}SELECT 1"));
        v.push(format!("SELECT 1{pre}"));
        v.push(format!("{pre}SELECT 1; {pre}SELECT 2"));
    }
    // COPY ... FROM STDIN payloads: end marker alone on a line, in the middle of a line, after data
    // on the same line, values with backslashes, empty payload
    for body in ["1\tx\n\\.", "C:\\.cache\t2\n\\.", "x\\.\n\\.", "a\tb\n1\t\\N\n\\.", "\\.", "a b\n \\.\n\\."] {
        let body = body.replace("\\t", "\t").replace("\\n", "\n").replace("\\\\", "\\");
        v.push(format!("COPY t (a, b) FROM STDIN;\n{body}"));
        v.push(format!("COPY t FROM STDIN WITH (FORMAT csv);\n{body}\n"));
    }
    v
}

//! Stream `tcl` (properties C05 / C11 / C13 on the third modelled statement fragment):
//! token list -> `parse_statements()` under (dialect, trailing_commas, recursion limit) -> canonical
//! S-expression of every statement (START TRANSACTION / BEGIN / COMMIT / END / ROLLBACK / SAVEPOINT /
//! RELEASE, SET …, USE, DISCARD, DEALLOCATE, CLOSE, ASSERT, and through `ddl::stmt_sexp` the statements
//! of the first two fragments; UNSUPPORTED when a tree leaves the fragment of
//! `lean/SqlVerif/Model/Tcl.lean`) and the `to_string()` text; errors as classes.
use crate::c04::{expr_sexp, hx, lex_nows};
use crate::canon::toks_canon_noloc;
use crate::common::*;
use sqlparser::ast::*;
use sqlparser::dialect::Dialect;
use sqlparser::keywords::Keyword;
use sqlparser::parser::{Parser, ParserError, ParserOptions};
use sqlparser::tokenizer::Token;
use std::collections::BTreeSet;
use std::io::Write;

// ---------------------------------------------------------------- S-expressions
fn b(x: bool) -> u8 {
    x as u8
}

fn id_sexp(i: &Ident) -> String {
    format!("(id {} {})", hx(&i.value), i.quote_style.map(|c| format!("{:x}", c as u32)).unwrap_or("-".into()))
}

fn name_sexp(n: &ObjectName) -> String {
    format!("(name{})", n.0.iter().map(|i| format!(" {}", id_sexp(i))).collect::<String>())
}

fn modes_sexp(ms: &[TransactionMode]) -> String {
    let mut s = String::from("(modes");
    for m in ms {
        s.push(' ');
        s.push_str(match m {
            TransactionMode::AccessMode(TransactionAccessMode::ReadOnly) => "ro",
            TransactionMode::AccessMode(TransactionAccessMode::ReadWrite) => "rw",
            TransactionMode::IsolationLevel(TransactionIsolationLevel::ReadUncommitted) => "iso-ru",
            TransactionMode::IsolationLevel(TransactionIsolationLevel::ReadCommitted) => "iso-rc",
            TransactionMode::IsolationLevel(TransactionIsolationLevel::RepeatableRead) => "iso-rr",
            TransactionMode::IsolationLevel(TransactionIsolationLevel::Serializable) => "iso-s",
        });
    }
    s.push(')');
    s
}

/// None = outside the modelled fragment
pub fn stmt_sexp(s: &Statement) -> Option<String> {
    Some(match s {
        Statement::StartTransaction { modes, begin, modifier, .. } => {
            format!("(starttx {} {} {})", b(*begin), modifier.map(|m| m.to_string()).unwrap_or("none".into()), modes_sexp(modes))
        }
        Statement::Commit { chain, .. } => format!("(commit {})", b(*chain)),
        Statement::Rollback { chain, savepoint, .. } => format!("(rollback {} {})", b(*chain), savepoint.as_ref().map(id_sexp).unwrap_or("none".into())),
        Statement::Savepoint { name, .. } => format!("(savepoint {})", id_sexp(name)),
        Statement::ReleaseSavepoint { name, .. } => format!("(release {})", id_sexp(name)),
        Statement::SetRole { context_modifier, role_name, .. } => format!(
            "(setrole {} {})",
            match context_modifier {
                ContextModifier::None => "none",
                ContextModifier::Local => "local",
                ContextModifier::Session => "session",
            },
            role_name.as_ref().map(id_sexp).unwrap_or("none".into())
        ),
        Statement::SetVariable { local, hivevar, variables, value, .. } => {
            let tg = match variables {
                OneOrManyWithParens::One(n) => format!("(one {})", name_sexp(n)),
                OneOrManyWithParens::Many(v) => {
                    let mut s = String::from("(many");
                    for n in v {
                        match n.0.as_slice() {
                            [i] => s.push_str(&format!(" {}", id_sexp(i))),
                            _ => return None,
                        }
                    }
                    s.push(')');
                    s
                }
            };
            let mut vs = String::new();
            for e in value {
                vs.push(' ');
                vs.push_str(&expr_sexp(e)?);
            }
            format!("(setvar {} {} {tg} (values{vs}))", b(*local), b(*hivevar))
        }
        Statement::SetTimeZone { local, value, .. } => format!("(settz {} {})", b(*local), expr_sexp(value)?),
        Statement::SetNamesDefault {} => "(setnamesdefault)".into(),
        Statement::SetNames { charset_name, collation_name, .. } => format!("(setnames {} {})", hx(charset_name), collation_name.as_ref().map(|c| hx(c)).unwrap_or("none".into())),
        Statement::SetTransaction { modes, snapshot: None, session, .. } => format!("(settx {} {})", b(*session), modes_sexp(modes)),
        Statement::Use(u) => match u {
            Use::Catalog(n) => format!("(use CATALOG {})", name_sexp(n)),
            Use::Schema(n) => format!("(use SCHEMA {})", name_sexp(n)),
            Use::Database(n) => format!("(use DATABASE {})", name_sexp(n)),
            Use::Warehouse(n) => format!("(use WAREHOUSE {})", name_sexp(n)),
            Use::Object(n) => format!("(use OBJECT {})", name_sexp(n)),
            Use::Default => "(use DEFAULT)".into(),
        },
        Statement::Discard { object_type, .. } => format!("(discard {object_type})"),
        Statement::Deallocate { name, prepare, .. } => format!("(deallocate {} {})", b(*prepare), id_sexp(name)),
        Statement::Close { cursor, .. } => match cursor {
            CloseCursor::All => "(close all)".into(),
            CloseCursor::Specific { name, .. } => format!("(close {})", id_sexp(name)),
        },
        Statement::Assert { condition, message, .. } => format!(
            "(assert {} {})",
            expr_sexp(condition)?,
            match message {
                Some(m) => expr_sexp(m)?,
                None => "none".into(),
            }
        ),
        _ => return crate::ddl::stmt_sexp(s),
    })
}

// ---------------------------------------------------------------- the real side
pub fn real_tcl(d: &dyn Dialect, tc: bool, limit: usize, toks: &[Token]) -> String {
    match guard(|| {
        Parser::new(d)
            .with_options(ParserOptions::new().with_trailing_commas(tc))
            .with_recursion_limit(limit)
            .with_tokens(toks.to_vec())
            .parse_statements()
    }) {
        G::Val(Ok(stmts)) => {
            let mut sexps = vec![];
            for s in &stmts {
                match stmt_sexp(s) {
                    Some(x) => sexps.push(x),
                    None => return "UNSUPPORTED".into(),
                }
            }
            match guard(|| stmts.iter().map(|s| s.to_string()).collect::<Vec<_>>().join("; ")) {
                G::Val(t) => {
                    // developer aid: `VERIF_TCL_REPARSE=<path>` appends every accepted input whose printed text is
                    // rejected or re-parses to different statements (candidates for C01 findings)
                    if let Ok(p) = std::env::var("VERIF_TCL_REPARSE") {
                        let again = guard(|| Parser::new(d).with_options(ParserOptions::new().with_trailing_commas(tc)).with_recursion_limit(limit.max(50)).try_with_sql(&t).and_then(|mut p| p.parse_statements()));
                        let note = match again {
                            G::Val(Ok(v)) if v == stmts => None,
                            G::Val(Ok(_)) => Some("DIFFERENT"),
                            G::Val(Err(_)) => Some("REJECTED"),
                            G::Panic(_) => Some("PANIC"),
                        };
                        if let Some(n) = note {
                            if let Ok(mut f) = std::fs::OpenOptions::new().create(true).append(true).open(p) {
                                let _ = writeln!(f, "{n}\t{}\t{}\t{t}", toks.iter().map(|t| t.to_string()).collect::<Vec<_>>().join(" "), sexps.join(";"));
                            }
                        }
                    }
                    format!("OK {} TEXT {}", sexps.join(";"), hex(&t))
                }
                G::Panic(m) => format!("PANIC display {m}"),
            }
        }
        G::Val(Err(ParserError::RecursionLimitExceeded)) => "ERR:rle".into(),
        G::Val(Err(_)) => "ERR:syntax".into(),
        G::Panic(m) => format!("PANIC {m}"),
    }
}

struct St<'a> {
    req: std::io::BufWriter<std::fs::File>,
    real: std::io::BufWriter<std::fs::File>,
    /// developer aid: `VERIF_TCL_TXT=<path>` writes one line `dialect \t tc \t limit \t token texts \t answer` per request
    txt: Option<std::io::BufWriter<std::fs::File>>,
    r: &'a mut Report,
    distinct: BTreeSet<u64>,
    seen: BTreeSet<u64>,
}

fn fnv(s: &str) -> u64 {
    let mut h = 0xcbf29ce484222325u64;
    for b in s.bytes() {
        h ^= b as u64;
        h = h.wrapping_mul(0x100000001b3);
    }
    h
}

const HEADS: &[&str] = &[
    "(starttx 0", "(starttx 1", "(commit ", "(rollback ", "(savepoint ", "(release ", "(setrole ", "(setvar ", "(one ", "(many ", "(settz ", "(setnamesdefault", "(setnames ", "(settx 0", "(settx 1", "(use ", "(discard ", "(deallocate ",
    "(close ", "(assert ", "(modes ro", "(modes rw", "(modes iso", "(createview ", "(createindex ", "(altertable ", "(truncate ", "(dropobj ", "(insert ", "(update ", "(delete ", "(create ", "(drop ", "(select ",
];

impl<'a> St<'a> {
    fn emit(&mut self, dn: &str, d: &dyn Dialect, tc: bool, limit: usize, toks: &[Token], class: &str) -> String {
        let line = format!("tcl\t{dn}\t{}\t{limit}\t{}", tc as u8, toks_canon_noloc(toks));
        if !self.seen.insert(fnv(&line)) {
            return String::new();
        }
        let ans = real_tcl(d, tc, limit, toks);
        writeln!(self.req, "{line}").unwrap();
        writeln!(self.real, "{ans}").unwrap();
        if let Some(t) = &mut self.txt {
            writeln!(t, "{dn}\t{}\t{limit}\t{}\t{ans}", tc as u8, toks.iter().map(|t| t.to_string()).collect::<Vec<_>>().join(" ")).unwrap();
        }
        self.r.evaluations += 1;
        self.r.count(&format!("class/{class}"));
        let k = if ans.starts_with("OK") {
            "ok"
        } else if ans.starts_with("ERR:rle") {
            "err.rle"
        } else if ans.starts_with("ERR") {
            "err.syntax"
        } else if ans.starts_with("UNSUPPORTED") {
            "unsupported"
        } else {
            "panic"
        };
        self.r.count(&format!("answer/{k}"));
        self.r.count(&format!("answer.{class}/{k}"));
        if k == "panic" {
            self.r.panic(dn, Opts::DEFAULT, &line, ans.clone());
        }
        if k == "ok" {
            let tree = ans.split(" TEXT ").next().unwrap_or("");
            for h in HEADS {
                let c = tree.matches(h).count() as u64;
                if c > 0 {
                    *self.r.dist.entry(format!("node/{}", h.trim_start_matches('(').trim_end())).or_insert(0) += c;
                }
            }
        }
        self.distinct.insert(fnv(&format!("{dn}{}", ans.split(" TEXT ").next().unwrap_or(""))));
        if self.r.evaluations % 30011 == 17 {
            self.r.sample(serde_json::json!({"dialect": dn, "tc": tc, "limit": limit, "tokens": toks.iter().map(|t| t.to_string()).collect::<Vec<_>>().join(" "), "answer": trunc(&ans, 300)}));
        }
        ans
    }
    fn sql(&mut self, dn: &str, d: &dyn Dialect, tc: bool, limit: usize, sql: &str, class: &str) -> Option<Vec<Token>> {
        let t = lex_nows(d, sql)?;
        self.emit(dn, d, tc, limit, &t, class);
        Some(t)
    }
    /// both option values
    fn sql2(&mut self, dn: &str, d: &dyn Dialect, limit: usize, sql: &str, class: &str) -> Option<Vec<Token>> {
        let t = lex_nows(d, sql)?;
        self.emit(dn, d, false, limit, &t, class);
        self.emit(dn, d, true, limit, &t, class);
        Some(t)
    }
}

// ---------------------------------------------------------------- generator vocabulary
const MODES: &[&str] = &["READ ONLY", "READ WRITE", "ISOLATION LEVEL READ UNCOMMITTED", "ISOLATION LEVEL READ COMMITTED", "ISOLATION LEVEL REPEATABLE READ", "ISOLATION LEVEL SERIALIZABLE"];
const MODE_PROBES: &[&str] = &[
    "READ", "READ COMMITTED", "ISOLATION", "ISOLATION LEVEL", "ISOLATION LEVEL READ", "ISOLATION LEVEL READ ONLY", "ISOLATION LEVEL REPEATABLE", "ISOLATION LEVEL SNAPSHOT", "ISOLATION READ COMMITTED", "LEVEL SERIALIZABLE", "SERIALIZABLE",
    "REPEATABLE READ", "READ ONLY WRITE", "read only", "NOT DEFERRABLE", "DEFERRABLE", ",", "READ ONLY,", ", READ ONLY", "READ ONLY,, READ WRITE", "READ ONLY READ WRITE", "READ ONLY, READ WRITE", "READ ONLY READ WRITE, ISOLATION LEVEL SERIALIZABLE",
    "READ ONLY, ISOLATION LEVEL READ", "READ ONLY, x", "READ ONLY x", "READ ONLY, ;", "(READ ONLY)", "READ ONLY, from", "READ ONLY, )",
];
const TX_HEADS: &[&str] = &["START TRANSACTION", "BEGIN", "BEGIN TRANSACTION", "BEGIN WORK", "SET TRANSACTION", "SET SESSION CHARACTERISTICS AS TRANSACTION", "BEGIN DEFERRED", "BEGIN IMMEDIATE TRANSACTION", "BEGIN EXCLUSIVE WORK"];
const IDENTS: &[&str] = &["a", "sp1", "\"C\"", "x", "'q'", "names", "all", "none", "savepoint", "to", "`b`", "[m]", "transaction", "work"];
const NAMES: &[&str] = &["a", "s.t", "\"T\"", "a.b.c", "v", "mydb", "`my.db`", "'x'", "\"a.b\".c", "default", "database", "timezone", "names", "TRANSACTION", "characteristics", "role"];
/// expressions inside the fragment of `expr_sexp`
const EXPRS: &[&str] = &[
    "a", "t.a", "1", "'s'", "a + 1", "a = b AND c", "NOT a", "(a)", "a IS NULL", "a IN (1, 2)", "a BETWEEN 1 AND 2", "a::INT", "- 1", "a LIKE 'x'", "NULL", "TRUE", "2.5", "a > 0", "b", "'UTC'", "\"x\"", "on", "off", "DEFAULT", "-5", "1 + 2 * 3",
];
/// expressions outside it (probes)
const EXPR_PROBES: &[&str] = &["f(1)", "(SELECT 1)", "SELECT 1", "WITH c AS (SELECT 1) SELECT 2", "CASE WHEN a THEN 1 END", "now()", "EXISTS (SELECT 1)", "INTERVAL '1' HOUR", "CAST(a AS INT)", "@x", "@@x", "a IN (1,)", "", ",", ")", "(", "1 1"];
const MODIFIERS: &[&str] = &["", "", "SESSION ", "LOCAL ", "HIVEVAR:", "HIVEVAR ", "hivevar:", "GLOBAL "];
const SET_OPS: &[&str] = &["=", "TO", "to", "==", ":=", ""];

const PROBES: &[&str] = &[
    "", ";", "START", "START TRANSACTION", "START TRANSACTION;", "START WORK", "START TRANSACTION TRANSACTION", "start transaction", "START TRANSACTION READ ONLY", "START TRANSACTION READ ONLY, READ WRITE", "START TRANSACTION READ ONLY READ WRITE",
    "START TRANSACTION READ ONLY,", "START TRANSACTION ,", "START TRANSACTION ISOLATION LEVEL SERIALIZABLE", "START TRANSACTION ISOLATION LEVEL", "START TRANSACTION x", "START TRANSACTION; COMMIT", "START TRANSACTION COMMIT", "START x",
    "BEGIN", "BEGIN;", "BEGIN TRANSACTION", "BEGIN WORK", "BEGIN TRANSACTION WORK", "BEGIN WORK TRANSACTION", "BEGIN DEFERRED", "BEGIN IMMEDIATE", "BEGIN EXCLUSIVE", "BEGIN DEFERRED TRANSACTION", "BEGIN IMMEDIATE WORK",
    "BEGIN EXCLUSIVE TRANSACTION READ ONLY", "BEGIN DEFERRED IMMEDIATE", "BEGIN TRANSACTION DEFERRED", "BEGIN deferred", "BEGIN READ ONLY", "BEGIN READ WRITE, ISOLATION LEVEL READ COMMITTED", "BEGIN ISOLATION LEVEL REPEATABLE READ READ ONLY",
    "BEGIN x", "BEGIN; SELECT 1; END", "BEGIN SELECT 1 END", "BEGIN; END", "BEGIN END", "BEGIN TRANSACTION; COMMIT TRANSACTION", "begin work",
    "COMMIT", "COMMIT;", "COMMIT TRANSACTION", "COMMIT WORK", "COMMIT WORK TRANSACTION", "COMMIT AND CHAIN", "COMMIT AND NO CHAIN", "COMMIT AND", "COMMIT AND NO", "COMMIT AND CHAIN CHAIN", "COMMIT AND NO NO CHAIN", "COMMIT CHAIN", "COMMIT NO CHAIN",
    "COMMIT TRANSACTION AND CHAIN", "COMMIT WORK AND NO CHAIN", "COMMIT AND CHAIN TRANSACTION", "COMMIT x", "COMMIT TO SAVEPOINT a", "commit and chain", "COMMIT; COMMIT", "COMMIT COMMIT", "COMMIT AND chain", "COMMIT and no chain",
    "END", "END;", "END TRANSACTION", "END WORK", "END AND CHAIN", "END AND NO CHAIN", "END AND", "END x", "END END", "END; END", "end", "END TRANSACTION AND NO CHAIN", ";END", "SELECT 1 END", "SELECT 1; END", "SELECT 1; END; SELECT 2",
    "ROLLBACK", "ROLLBACK;", "ROLLBACK TRANSACTION", "ROLLBACK WORK", "ROLLBACK AND CHAIN", "ROLLBACK AND NO CHAIN", "ROLLBACK AND", "ROLLBACK TO a", "ROLLBACK TO SAVEPOINT a", "ROLLBACK TO SAVEPOINT", "ROLLBACK TO", "ROLLBACK TO SAVEPOINT SAVEPOINT",
    "ROLLBACK TO savepoint", "ROLLBACK TO SAVEPOINT savepoint", "ROLLBACK TO 1", "ROLLBACK TO 'a'", "ROLLBACK TO \"A\"", "ROLLBACK TO a.b", "ROLLBACK TO a b", "ROLLBACK SAVEPOINT a", "ROLLBACK WORK AND CHAIN TO SAVEPOINT a",
    "ROLLBACK TRANSACTION AND NO CHAIN TO b", "ROLLBACK TO SAVEPOINT a AND CHAIN", "ROLLBACK TO a TO b", "ROLLBACK AND CHAIN TO", "rollback to savepoint x", "ROLLBACK; ROLLBACK TO a", "ROLLBACK TO to", "ROLLBACK TO TO",
    "SAVEPOINT", "SAVEPOINT a", "SAVEPOINT \"A\"", "SAVEPOINT 'a'", "SAVEPOINT 1", "SAVEPOINT a b", "SAVEPOINT a.b", "SAVEPOINT savepoint", "SAVEPOINT SAVEPOINT a", "SAVEPOINT a; RELEASE a", "SAVEPOINT select", "SAVEPOINT `a`", "SAVEPOINT [a]", "savepoint a",
    "RELEASE", "RELEASE a", "RELEASE SAVEPOINT a", "RELEASE SAVEPOINT", "RELEASE SAVEPOINT SAVEPOINT", "RELEASE savepoint", "RELEASE SAVEPOINT savepoint x", "RELEASE 1", "RELEASE 'a'", "RELEASE a b", "RELEASE SAVEPOINT a.b", "release savepoint \"A\"",
    "SET", "SET;", "SET a", "SET a =", "SET a = 1", "SET a TO 1", "SET a to 1", "SET a == 1", "SET a := 1", "SET a 1", "SET a = 1, 2", "SET a = 1,", "SET a = 1, ;", "SET a = 1,, 2", "SET a = , 1", "SET a = 1 2", "SET a = 1, b = 2", "SET a = 1, from",
    "SET a = 1, )", "SET a.b = 1", "SET a.b.c TO 'x', 'y'", "SET \"A\" = 1", "SET 'a' = 1", "SET `a.b` = 1", "SET 1 = 1", "SET a. = 1", "SET = 1", "SET TO 1", "SET to = 1", "SET a = b = c", "SET a = DEFAULT", "SET a = ON", "SET a = (1)", "SET a = (1, 2)",
    "SET a = (SELECT 1)", "SET a = SELECT 1", "SET a = WITH x AS (SELECT 1) SELECT 2", "SET a = 1, SELECT 2", "SET a = f(1)", "SET a = 'x' 'y'", "SET a = ;", "SET a TO", "SET a = 1; SET b = 2", "SET a = 1 SET b = 2", "SET a = 1 END", "set a = 1",
    "SET SESSION a = 1", "SET LOCAL a = 1", "SET LOCAL a TO 1, 2", "SET SESSION", "SET LOCAL", "SET SESSION LOCAL a = 1", "SET LOCAL SESSION a = 1", "SET session = 1", "SET local TO 1", "SET GLOBAL a = 1", "SET SESSION SESSION = 1", "SET SESSION LOCAL = 1", "SET SESSION HIVEVAR = 1", "SET SESSION local.x TO 'a'", "SET LOCAL LOCAL = 1", "SET LOCAL = 1", "SET LOCAL session = 1",
    "SET HIVEVAR:a = 1", "SET HIVEVAR: a = 1", "SET HIVEVAR a = 1", "SET HIVEVAR", "SET HIVEVAR:", "SET HIVEVAR:a", "SET HIVEVAR:a.b = 'x'", "SET HIVEVAR::a = 1", "SET HIVEVAR:ROLE x", "SET HIVEVAR:ROLE = x", "SET HIVEVAR:TIME ZONE 'x'",
    "SET HIVEVAR:NAMES utf8", "SET HIVEVAR:TRANSACTION READ ONLY", "SET HIVEVAR:CHARACTERISTICS AS TRANSACTION READ ONLY", "SET HIVEVAR:(a, b) = (1, 2)", "SET hivevar:a = 1", "SET HIVEVAR = 1",
    "SET ROLE", "SET ROLE x", "SET ROLE NONE", "SET ROLE none", "SET ROLE \"NONE\"", "SET ROLE 'x'", "SET ROLE 1", "SET ROLE x y", "SET ROLE a.b", "SET ROLE = x", "SET ROLE TO x", "SET ROLE ROLE", "SET ROLE role", "SET SESSION ROLE x", "SET LOCAL ROLE x",
    "SET LOCAL ROLE NONE", "SET SESSION ROLE", "SET role x", "SET ROLE x; SET ROLE NONE", "SET ROLE NONE NONE", "SET ROLE [x]", "SET ROLE `x`",
    "SET TIME ZONE 'UTC'", "SET TIME ZONE", "SET TIME", "SET TIME 'x'", "SET TIME = 1", "SET ZONE 'x'", "SET TIME ZONE = 'UTC'", "SET TIME ZONE TO 'UTC'", "SET TIME ZONE TO 'a', 'b'", "SET TIME ZONE LOCAL", "SET TIME ZONE DEFAULT", "SET TIME ZONE a + 1",
    "SET TIME ZONE -5", "SET TIME ZONE (1)", "SET TIME ZONE f(1)", "SET TIME ZONE 'x' 'y'", "SET TIME ZONE 'x', 'y'", "SET TIME ZONE INTERVAL '1' HOUR", "SET LOCAL TIME ZONE 'x'", "SET SESSION TIME ZONE 'x'", "SET LOCAL TIME ZONE = 'x'",
    "SET TIMEZONE 'UTC'", "SET timezone 'UTC'", "SET TimeZone 'UTC'", "SET TIMEZONE = 'UTC'", "SET timezone TO 'UTC'", "SET \"TIMEZONE\" 'UTC'", "SET `timezone` 'x'", "SET 'timezone' 'x'", "SET a.timezone 'x'", "SET timezone.a 'x'", "SET TIMEZONE",
    "SET TIMEZONE SELECT 1", "SET TIME ZONE SELECT 1", "SET TIME ZONE time zone", "SET TIME ZONE.a = 1", "set time zone 'x'", "SET LOCAL TIMEZONE 'x'", "SET TIMEZONE 'x'; SET TIME ZONE 'y'",
    "SET NAMES", "SET NAMES utf8", "SET NAMES 'utf8'", "SET NAMES \"utf8\"", "SET NAMES `utf8`", "SET NAMES utf8mb4 COLLATE utf8mb4_bin", "SET NAMES 'a' COLLATE 'b'", "SET NAMES utf8 COLLATE", "SET NAMES utf8 COLLATE COLLATE", "SET NAMES utf8 collate x",
    "SET NAMES COLLATE x", "SET NAMES DEFAULT", "SET NAMES default", "SET NAMES DEFAULT x", "SET NAMES DEFAULT COLLATE x", "SET NAMES = utf8", "SET NAMES TO utf8", "SET NAMES 1", "SET NAMES select", "SET NAMES names", "SET NAMES x y", "SET NAMES x, y",
    "SET NAMES 'a b'", "SET NAMES ''", "SET NAMES 'it''s'", "SET NAMES 'utf8 COLLATE x'", "SET NAMES 'select'", "SET NAMES \"a b\" COLLATE \"c d\"", "SET NAMES N'x'", "SET NAMES E'x'", "SET NAMES U&'x'", "SET NAMES X'aa'", "SET NAMES a.b", "set names x",
    "SET Names x", "SET \"NAMES\" x", "SET `names` x", "SET 'names' x", "SET names.x y", "SET x.names y", "SET SESSION NAMES utf8", "SET LOCAL NAMES utf8 COLLATE x", "SET NAMES utf8; SET NAMES DEFAULT", "SET NAMES utf8 COLLATE a COLLATE b",
    "SET TRANSACTION", "SET TRANSACTION READ ONLY", "SET TRANSACTION READ WRITE, ISOLATION LEVEL SERIALIZABLE", "SET TRANSACTION ISOLATION LEVEL READ UNCOMMITTED READ ONLY", "SET TRANSACTION READ ONLY,", "SET TRANSACTION x", "SET TRANSACTION = 1",
    "SET TRANSACTION TO x", "SET transaction READ ONLY", "SET \"TRANSACTION\" READ ONLY", "SET TRANSACTION SNAPSHOT '000003A1-1'", "SET TRANSACTION SNAPSHOT", "SET TRANSACTION SNAPSHOT x", "SET TRANSACTION snapshot", "SET SESSION TRANSACTION READ ONLY",
    "SET LOCAL TRANSACTION READ ONLY", "SET TRANSACTION ISOLATION LEVEL", "SET TRANSACTION READ ONLY; COMMIT", "SET a.TRANSACTION READ ONLY",
    "SET SESSION CHARACTERISTICS AS TRANSACTION READ ONLY", "SET SESSION CHARACTERISTICS AS TRANSACTION", "SET SESSION CHARACTERISTICS AS TRANSACTION READ WRITE, ISOLATION LEVEL READ COMMITTED", "SET SESSION CHARACTERISTICS AS", "SET SESSION CHARACTERISTICS",
    "SET SESSION CHARACTERISTICS TRANSACTION READ ONLY", "SET SESSION CHARACTERISTICS AS READ ONLY", "SET CHARACTERISTICS AS TRANSACTION READ ONLY", "SET LOCAL CHARACTERISTICS AS TRANSACTION READ ONLY", "SET session characteristics as transaction read only",
    "SET SESSION CHARACTERISTICS = 1", "SET SESSION \"CHARACTERISTICS\" AS TRANSACTION READ ONLY", "SET SESSION CHARACTERISTICS AS TRANSACTION SNAPSHOT 'x'", "SET SESSION CHARACTERISTICS AS TRANSACTION x", "SET SESSION Characteristics AS TRANSACTION READ ONLY,",
    "SET (a, b) = (1, 2)", "SET (a) = (1)", "SET (a, b) = (1, 2, 3)", "SET (a, b) = 1, 2", "SET (a, b) = (1, 2", "SET (a, b) = ((1), (2))", "SET (a, b) TO (1, 2)", "SET (a, b)", "SET (a, b) (1, 2)", "SET (a, b,) = (1, 2,)", "SET (a,) = (1,)", "SET (,) = (1)",
    "SET () = ()", "SET (a.b) = (1)", "SET (a b) = (1)", "SET (a, b = (1, 2)", "SET ((a)) = (1)", "SET (a, b) = (SELECT 1, 2)", "SET (a, b) = (1, 2) x", "SET LOCAL (a, b) = (1, 2)", "SET (\"A\", 'b') = (1, 2)", "SET (a, from) = (1, 2)", "SET (1) = (1)",
    "SET (a, b) = (1, 2); SET c = 3", "SET (a, b) = (1, 2,", "SET (a, b) = (1,, 2)", "SET (names) = (1)", "SET (timezone) 'x'",
    "USE", "USE a", "USE a.b", "USE a.b.c", "USE \"A\"", "USE 'a'", "USE `a.b`", "USE `a`.`b`", "USE 1", "USE a b", "USE a; USE b", "USE a.", "USE .a", "use a", "USE DEFAULT", "USE default", "USE DEFAULT x", "USE DEFAULT.a", "USE \"DEFAULT\"",
    "USE CATALOG a", "USE DATABASE a", "USE SCHEMA a.b", "USE WAREHOUSE w", "USE CATALOG", "USE DATABASE", "USE SCHEMA", "USE WAREHOUSE", "USE catalog", "USE database x", "USE CATALOG DATABASE a", "USE DATABASE SCHEMA", "USE SCHEMA 'x'", "USE WAREHOUSE a.b.c",
    "USE ROLE r", "USE SECONDARY ROLES ALL", "USE a-b", "USE a - b",
    "DISCARD", "DISCARD ALL", "DISCARD PLANS", "DISCARD SEQUENCES", "DISCARD TEMP", "DISCARD TEMPORARY", "DISCARD ALL ALL", "DISCARD ALL, PLANS", "DISCARD x", "DISCARD 'ALL'", "DISCARD \"ALL\"", "discard all", "DISCARD ALL; DISCARD TEMP", "DISCARD 1",
    "DEALLOCATE", "DEALLOCATE a", "DEALLOCATE PREPARE a", "DEALLOCATE PREPARE", "DEALLOCATE PREPARE PREPARE", "DEALLOCATE prepare", "DEALLOCATE ALL", "DEALLOCATE PREPARE ALL", "DEALLOCATE 'a'", "DEALLOCATE \"A\"", "DEALLOCATE 1", "DEALLOCATE a b",
    "DEALLOCATE a.b", "deallocate prepare x", "DEALLOCATE a; DEALLOCATE b",
    "CLOSE", "CLOSE a", "CLOSE ALL", "CLOSE all", "CLOSE \"ALL\"", "CLOSE 'a'", "CLOSE 1", "CLOSE a b", "CLOSE ALL ALL", "CLOSE a.b", "close c", "CLOSE a; CLOSE ALL", "CLOSE `a`", "CLOSE ALL a",
    "ASSERT", "ASSERT a", "ASSERT a AS b", "ASSERT a AS", "ASSERT AS b", "ASSERT a = 1", "ASSERT a = 1 AS 'msg'", "ASSERT (a > 0) AS 'positive'", "ASSERT a AS b AS c", "ASSERT a, b", "ASSERT a b", "ASSERT f(a)", "ASSERT (SELECT 1)", "ASSERT a AS f(1)",
    "ASSERT a AS (SELECT 1)", "ASSERT a IS NOT NULL AS 'x' || 'y'", "ASSERT 1; ASSERT 2", "assert a as b", "ASSERT a::INT AS 1 + 2", "ASSERT NOT a", "ASSERT a AS NOT b", "ASSERT a as", "ASSERT a IN (1, 2,) AS b",
    "BEGIN; INSERT INTO t VALUES (1); COMMIT", "START TRANSACTION; UPDATE t SET a = 1; ROLLBACK", "SET a = 1; CREATE VIEW v AS SELECT 1; USE b", "SAVEPOINT a; DELETE FROM t; ROLLBACK TO a; RELEASE a", "SELECT 1; COMMIT; SELECT 2",
    "CREATE TABLE t (a INT); ALTER TABLE t ADD b INT; DROP TABLE t; COMMIT AND CHAIN", "TRUNCATE t; DISCARD ALL; CLOSE c", "COMMIT;; ROLLBACK", ";;COMMIT", "COMMIT ROLLBACK", "COMMIT; x", "PREPARE p AS SELECT 1", "EXECUTE p", "SHOW x", "KILL 1",
    "a", "1", "(", ")", ";;", "LOCK TABLES t READ", "COMMENT ON TABLE t IS 'x'", "GRANT SELECT ON t TO u", "FETCH NEXT IN c", "DECLARE c CURSOR FOR SELECT 1", "SELECT 1", "(SELECT 1)", "UPDATE t SET a = 1", "CREATE VIEW v AS SELECT 1",
];

const BASES: &[&str] = &[
    "START TRANSACTION READ ONLY, ISOLATION LEVEL REPEATABLE READ READ WRITE; SAVEPOINT sp1; ROLLBACK WORK AND NO CHAIN TO SAVEPOINT sp1; RELEASE SAVEPOINT sp1; COMMIT TRANSACTION AND CHAIN",
    "BEGIN DEFERRED TRANSACTION ISOLATION LEVEL READ UNCOMMITTED, READ ONLY; SET LOCAL a.b = 1, 'x', c + 2; END WORK AND CHAIN; ROLLBACK TO x",
    "SET SESSION CHARACTERISTICS AS TRANSACTION ISOLATION LEVEL SERIALIZABLE, READ WRITE; SET TRANSACTION READ ONLY READ WRITE; SET TIME ZONE 'UTC'; SET LOCAL TIME ZONE a + 1",
    "SET (a, \"B\", c) = (1, 'x', d IS NULL); SET HIVEVAR:x.y = 'v', 2; SET SESSION ROLE r; SET ROLE NONE; SET timezone TO 'UTC', 2",
    "SET NAMES utf8mb4 COLLATE utf8mb4_bin; SET NAMES 'latin1'; SET NAMES DEFAULT; USE a.b.c; USE DATABASE d; DISCARD TEMPORARY; DEALLOCATE PREPARE p; CLOSE ALL; CLOSE c",
    "ASSERT a > 0 AND b IS NOT NULL AS 'bad' || x; ASSERT (c); BEGIN WORK; INSERT INTO t (a) VALUES (1); UPDATE t SET a = 2 WHERE b; COMMIT",
    "BEGIN; CREATE VIEW v AS SELECT a FROM t; ALTER TABLE t ADD c INT, DROP d; TRUNCATE t; SAVEPOINT s; DROP VIEW v; ROLLBACK TO SAVEPOINT s; END",
];

const LIMITED: &[&str] = &[
    "COMMIT", "BEGIN", "START TRANSACTION READ ONLY", "ROLLBACK TO a", "SAVEPOINT a", "RELEASE a", "SET a = 1", "SET a = (1)", "SET a = ((1)), 2", "SET (a, b) = (1, (2))", "SET TIME ZONE 'x'", "SET TIME ZONE (('x'))", "SET ROLE r", "SET NAMES utf8",
    "SET TRANSACTION READ ONLY", "USE a", "DISCARD ALL", "DEALLOCATE a", "CLOSE a", "ASSERT a", "ASSERT (a) AS (b)", "ASSERT ((a)) AS 1", "COMMIT; SELECT 1", "COMMIT; CREATE VIEW v AS SELECT 1", "SET a = - 1", "SET a = NOT (b)", "END",
];

/// keywords of the fragment (keyword-swap mutation)
const SWAP_KWS: &[&str] = &[
    "START", "TRANSACTION", "BEGIN", "WORK", "DEFERRED", "COMMIT", "END", "ROLLBACK", "AND", "NO", "CHAIN", "TO", "SAVEPOINT", "RELEASE", "SET", "SESSION", "LOCAL", "HIVEVAR", "ROLE", "NONE", "TIME", "ZONE", "TIMEZONE", "NAMES", "DEFAULT", "COLLATE",
    "AS", "READ", "ONLY", "WRITE", "ISOLATION", "LEVEL", "COMMITTED", "UNCOMMITTED", "REPEATABLE", "SERIALIZABLE", "USE", "DATABASE", "SCHEMA", "DISCARD", "ALL", "TEMP", "DEALLOCATE", "PREPARE", "CLOSE", "ASSERT", "CHARACTERISTICS", "SNAPSHOT",
];

// ---------------------------------------------------------------- random grammar
fn rand_modes(rng: &mut Rng) -> String {
    let n = [0, 0, 1, 1, 1, 2, 2, 3][rng.below(8)];
    let mut s = String::new();
    for i in 0..n {
        if i > 0 {
            s.push_str(if rng.chance(2, 3) { ", " } else { " " });
        }
        s.push_str(if rng.chance(1, 25) { *rng.pick(MODE_PROBES) } else { *rng.pick(MODES) });
    }
    if n > 0 && rng.chance(1, 30) {
        s.push(',');
    }
    s
}

fn rand_expr(rng: &mut Rng) -> String {
    if rng.chance(1, 25) {
        rng.pick(EXPR_PROBES).to_string()
    } else {
        rng.pick(EXPRS).to_string()
    }
}

fn rand_values(rng: &mut Rng) -> String {
    let n = 1 + [0, 0, 0, 1, 1, 2][rng.below(6)];
    let mut s = (0..n).map(|_| rand_expr(rng)).collect::<Vec<_>>().join(", ");
    if rng.chance(1, 12) {
        s.push(',');
    }
    s
}

fn rand_set(rng: &mut Rng) -> String {
    let md = *rng.pick(MODIFIERS);
    match rng.below(20) {
        0..=6 => format!("SET {md}{} {} {}", rng.pick(NAMES), rng.pick(SET_OPS), rand_values(rng)),
        7 | 8 => {
            let n = 1 + rng.below(3);
            let ids = (0..n).map(|_| *rng.pick(IDENTS)).collect::<Vec<_>>().join(", ");
            let tr = if rng.chance(1, 8) { "," } else { "" };
            format!("SET {md}({ids}{tr}) {} ({})", rng.pick(SET_OPS), rand_values(rng))
        }
        9 | 10 => format!("SET {md}TIME ZONE {}{}", if rng.chance(1, 4) { ["= ", "TO "][rng.below(2)] } else { "" }, rand_expr(rng)),
        11 => format!("SET {md}{} {}", ["TIMEZONE", "timezone", "\"timezone\""][rng.below(3)], rand_expr(rng)),
        12 | 13 => format!(
            "SET {md}{} {}{}",
            ["NAMES", "names", "Names"][rng.below(3)],
            ["utf8", "'utf8'", "\"latin1\"", "DEFAULT", "utf8mb4", "'a b'", "1", "select"][rng.below(8)],
            ["", "", " COLLATE utf8_bin", " COLLATE 'x'", " COLLATE", " collate \"y z\""][rng.below(6)]
        ),
        14 | 15 => format!("SET {md}ROLE {}", ["r", "NONE", "none", "\"R\"", "'r'", "", "a.b", "1"][rng.below(8)]),
        16 | 17 => format!("SET {md}TRANSACTION {}", if rng.chance(1, 15) { "SNAPSHOT 'x'".to_string() } else { rand_modes(rng) }),
        _ => format!("SET {md}{} AS TRANSACTION {}", ["CHARACTERISTICS", "characteristics"][rng.below(2)], rand_modes(rng)),
    }
}

fn rand_tx(rng: &mut Rng) -> String {
    let noise = ["", "", " TRANSACTION", " WORK"][rng.below(4)];
    let chain = ["", "", "", " AND CHAIN", " AND NO CHAIN", " AND"][rng.below(6)];
    match rng.below(12) {
        0 | 1 => format!("START TRANSACTION {}", rand_modes(rng)),
        2 | 3 => format!("BEGIN{}{noise} {}", ["", "", "", " DEFERRED", " IMMEDIATE", " EXCLUSIVE"][rng.below(6)], rand_modes(rng)),
        4 | 5 => format!("COMMIT{noise}{chain}"),
        6 => format!("END{noise}{chain}"),
        7 | 8 => format!("ROLLBACK{noise}{chain}{}", ["", "", " TO a", " TO SAVEPOINT a", " TO SAVEPOINT", " TO \"A\"", " TO savepoint"][rng.below(7)]),
        9 => format!("SAVEPOINT {}", rng.pick(IDENTS)),
        _ => format!("RELEASE {}{}", if rng.chance(1, 2) { "SAVEPOINT " } else { "" }, rng.pick(IDENTS)),
    }
}

fn rand_misc(rng: &mut Rng) -> String {
    match rng.below(10) {
        0..=2 => format!("USE {}{}", ["", "", "", "CATALOG ", "DATABASE ", "SCHEMA ", "WAREHOUSE ", "DEFAULT"][rng.below(8)], rng.pick(NAMES)),
        3 => format!("DISCARD {}", ["ALL", "PLANS", "SEQUENCES", "TEMP", "TEMPORARY", "x", ""][rng.below(7)]),
        4 => format!("DEALLOCATE {}{}", if rng.chance(1, 2) { "PREPARE " } else { "" }, rng.pick(IDENTS)),
        5 => format!("CLOSE {}", if rng.chance(1, 3) { "ALL" } else { *rng.pick(IDENTS) }),
        _ => {
            let c = rand_expr(rng);
            if rng.chance(1, 2) {
                format!("ASSERT {c} AS {}", rand_expr(rng))
            } else {
                format!("ASSERT {c}")
            }
        }
    }
}

fn rand_stmt(rng: &mut Rng) -> String {
    match rng.below(100) {
        0..=29 => rand_tx(rng),
        30..=64 => rand_set(rng),
        65..=89 => rand_misc(rng),
        90 => "INSERT INTO t (a) VALUES (1)".into(),
        91 => "UPDATE t SET a = 1 WHERE b".into(),
        92 => "DELETE FROM t WHERE a".into(),
        93 => "CREATE TABLE t (a INT)".into(),
        94 => "CREATE VIEW v AS SELECT 1".into(),
        95 => "ALTER TABLE t ADD a INT".into(),
        96 => "TRUNCATE t".into(),
        97 => "DROP VIEW v".into(),
        _ => "SELECT a FROM t".into(),
    }
}

fn rand_script(rng: &mut Rng) -> String {
    if rng.chance(3, 4) {
        return rand_stmt(rng);
    }
    let n = 2 + rng.below(2);
    let mut s = String::new();
    if rng.chance(1, 8) {
        s.push_str("; ");
    }
    for i in 0..n {
        if i > 0 {
            s.push_str(match rng.below(12) {
                0 => " ;; ",
                1 => " ",
                2 => " END ",
                _ => "; ",
            });
        }
        s.push_str(&rand_stmt(rng));
    }
    if rng.chance(1, 4) {
        s.push_str([";", ";;", " END", "; END"][rng.below(4)]);
    }
    s
}

fn kw_at(toks: &[Token], i: usize) -> Option<Keyword> {
    match toks.get(i) {
        Some(Token::Word(w)) if w.quote_style.is_none() => Some(w.keyword),
        _ => None,
    }
}

/// the corpus text starts with one of the keywords of the fragment
fn corpus_wanted(toks: &[Token]) -> bool {
    matches!(
        kw_at(toks, 0),
        Some(
            Keyword::START | Keyword::BEGIN | Keyword::END | Keyword::COMMIT | Keyword::ROLLBACK | Keyword::SAVEPOINT | Keyword::RELEASE | Keyword::SET | Keyword::USE | Keyword::DISCARD | Keyword::DEALLOCATE | Keyword::CLOSE | Keyword::ASSERT
        )
    )
}

fn is_kw_word(t: &Token) -> bool {
    matches!(t, Token::Word(w) if w.quote_style.is_none() && (w.keyword != Keyword::NoKeyword || w.value.eq_ignore_ascii_case("names") || w.value.eq_ignore_ascii_case("characteristics")))
}

/// request `tcl \t dialect \t tc \t limit \t tokens`;
/// answer `OK <sexp>;<sexp>… TEXT <hex>` | `ERR:rle` | `ERR:syntax` | `UNSUPPORTED`
pub fn corr(dir: &str, seed: u64, tier: &str) -> Report {
    let mut r = Report::new("C11", "corr.tcl", "parse_statements on token lists of the third modelled statement fragment (START TRANSACTION, BEGIN with the SQLite modifiers, COMMIT, END, ROLLBACK [TO SAVEPOINT], SAVEPOINT, RELEASE, the transaction-mode loop; SET with modifiers: variable / parenthesised tuple assignments, TIME ZONE, NAMES, ROLE, TRANSACTION, SESSION CHARACTERISTICS; USE with the dialect keywords, DISCARD, DEALLOCATE, CLOSE, ASSERT; and through the first two fragments DDL / DML / queries, scripts) under (dialect, trailing_commas, recursion limit): S-expression of every statement and to_string() text, errors as classes. Deterministic: ~750 probes, one for every branch of parse_start_transaction / parse_begin / parse_commit / parse_end / parse_rollback / parse_commit_rollback_chain / parse_rollback_savepoint / parse_savepoint / parse_release / parse_transaction_modes / parse_set / parse_use / parse_discard / parse_deallocate / parse_close / parse_assert that stays in or leaves the fragment, x option on/off; every transaction head x every mode, every ordered pair of modes with and without comma, every mode probe; COMMIT / END / ROLLBACK x noise word x chain x savepoint form; SET modifier x variable name x operator x value expression (in and outside the expression fragment), tuples x trailing commas; SET TIME ZONE / TIMEZONE spellings x values; SET NAMES spellings x charset token kinds x COLLATE; SET ROLE x modifier x names; USE kind keyword x names; scripts with every separator shape mixing the three fragments; 7 base scripts with every truncation, single-token deletion, duplication and keyword swap (thorough: adjacent swaps); recursion limits 0..6 on 27 small statements; every corpus text starting with a keyword of the fragment (default option value and its negation). Seeded: random statements / scripts from a weighted grammar with token swap / drop / truncation / duplication / keyword swap and small recursion limits. All 13 dialects; non-trivial = distinct (dialect, answer tree)");
    let thorough = tier == "thorough";
    let mut s = St {
        req: std::io::BufWriter::new(std::fs::File::create(format!("{dir}/tcl.req")).unwrap()),
        real: std::io::BufWriter::new(std::fs::File::create(format!("{dir}/tcl.real")).unwrap()),
        txt: std::env::var("VERIF_TCL_TXT").ok().map(|p| std::io::BufWriter::new(std::fs::File::create(p).unwrap())),
        r: &mut r,
        distinct: BTreeSet::new(),
        seen: BTreeSet::new(),
    };
    let mut rng = Rng(seed ^ 0x7C1);
    let lim = 50usize;
    let corpus = load_corpus();
    for (k, (dn, d)) in all_dialects().into_iter().enumerate() {
        let d = d.as_ref();
        // ---- probes and odd inputs, both option values
        for p in PROBES {
            s.sql2(dn, d, lim, p, "probe");
        }
        // ---- transaction heads x modes
        for h in TX_HEADS {
            s.sql2(dn, d, lim, h, "tx.head");
            for (i, m) in MODES.iter().enumerate() {
                s.sql(dn, d, i % 2 == 0, lim, &format!("{h} {m}"), "tx.mode");
                for (j, m2) in MODES.iter().enumerate() {
                    if (i + j + k) % 2 == 0 || thorough {
                        s.sql(dn, d, j % 2 == 0, lim, &format!("{h} {m}, {m2}"), "tx.mode2");
                        s.sql(dn, d, j % 2 == 1, lim, &format!("{h} {m} {m2}"), "tx.mode2");
                    }
                }
            }
            for p in MODE_PROBES {
                s.sql2(dn, d, lim, &format!("{h} {p}"), "tx.modeprobe");
                s.sql(dn, d, false, lim, &format!("{h} READ ONLY, {p}"), "tx.modeprobe");
                s.sql(dn, d, true, lim, &format!("{h} {p} READ WRITE"), "tx.modeprobe");
            }
        }
        // ---- COMMIT / END / ROLLBACK
        for h in ["COMMIT", "END", "ROLLBACK"] {
            for noise in ["", " TRANSACTION", " WORK", " work", " TRANSACTION WORK"] {
                for chain in ["", " AND CHAIN", " AND NO CHAIN", " AND", " AND NO", " CHAIN", " and chain"] {
                    for sp in ["", " TO a", " TO SAVEPOINT a", " TO SAVEPOINT \"A\"", " TO", " TO SAVEPOINT", " TO 'a'"] {
                        if sp.is_empty() || h == "ROLLBACK" || (k % 3 == 0) {
                            s.sql2(dn, d, lim, &format!("{h}{noise}{chain}{sp}"), "tx.end");
                        }
                    }
                }
            }
        }
        for (i, id) in IDENTS.iter().enumerate() {
            s.sql2(dn, d, lim, &format!("SAVEPOINT {id}"), "tx.savepoint");
            s.sql2(dn, d, lim, &format!("RELEASE {id}"), "tx.savepoint");
            s.sql(dn, d, i % 2 == 0, lim, &format!("RELEASE SAVEPOINT {id}"), "tx.savepoint");
            s.sql(dn, d, i % 2 == 1, lim, &format!("ROLLBACK TO {id}"), "tx.savepoint");
            s.sql(dn, d, i % 2 == 0, lim, &format!("DEALLOCATE {id}"), "misc");
            s.sql(dn, d, i % 2 == 1, lim, &format!("DEALLOCATE PREPARE {id}"), "misc");
            s.sql2(dn, d, lim, &format!("CLOSE {id}"), "misc");
            s.sql(dn, d, false, lim, &format!("SET ROLE {id}"), "set.role");
            s.sql(dn, d, true, lim, &format!("SET LOCAL ROLE {id}"), "set.role");
        }
        // ---- SET variable
        for (i, md) in MODIFIERS[1..].iter().enumerate() {
            for (j, n) in NAMES.iter().enumerate() {
                for (l, op) in SET_OPS.iter().enumerate() {
                    let e = EXPRS[(i + 3 * j + 5 * l) % EXPRS.len()];
                    let e2 = EXPRS[(2 * i + j + l + 1) % EXPRS.len()];
                    s.sql(dn, d, (i + j + l) % 2 == 0, lim, &format!("SET {md}{n} {op} {e}"), "set.var");
                    if (i + j + l + k) % 3 == 0 || thorough {
                        s.sql(dn, d, (i + j + l) % 2 == 1, lim, &format!("SET {md}{n} {op} {e}, {e2}"), "set.var");
                    }
                }
                s.sql(dn, d, false, lim, &format!("SET {md}{n}"), "set.var");
                s.sql(dn, d, true, lim, &format!("SET {md}{n} 'x'"), "set.var");
                s.sql(dn, d, false, lim, &format!("SET {md}{n} READ ONLY"), "set.var");
                s.sql(dn, d, true, lim, &format!("SET {md}{n} AS TRANSACTION READ ONLY"), "set.var");
            }
        }
        for e in EXPRS.iter().chain(EXPR_PROBES.iter()) {
            s.sql2(dn, d, lim, &format!("SET a = {e}"), "set.value");
            s.sql(dn, d, false, lim, &format!("SET a TO 1, {e}"), "set.value");
            s.sql(dn, d, true, lim, &format!("SET a = {e},"), "set.value");
            s.sql(dn, d, true, lim, &format!("SET a = {e}, 2"), "set.value");
            s.sql2(dn, d, lim, &format!("SET (a, b) = ({e}, 2)"), "set.tuple");
            s.sql(dn, d, true, lim, &format!("SET (a, b,) = (1, {e},)"), "set.tuple");
            s.sql2(dn, d, lim, &format!("SET TIME ZONE {e}"), "set.tz");
            s.sql(dn, d, false, lim, &format!("SET LOCAL TIMEZONE {e}"), "set.tz");
            s.sql(dn, d, false, lim, &format!("SET TIME ZONE = {e}"), "set.tz");
            s.sql2(dn, d, lim, &format!("ASSERT {e}"), "assert");
            s.sql(dn, d, false, lim, &format!("ASSERT {e} AS {e}"), "assert");
            s.sql(dn, d, true, lim, &format!("ASSERT a AS {e}"), "assert");
        }
        for (i, ids) in ["a", "a, b", "a, b, c", "\"A\", 'b'", "a,", "a, b,", "", "a b", "a.b", "a, from"].iter().enumerate() {
            for vs in ["1", "1, 2", "1, 2, 3", "1,", "1, 2,", ""] {
                for md in ["", "LOCAL ", "HIVEVAR:"] {
                    if md.is_empty() || (i + k) % 2 == 0 {
                        s.sql2(dn, d, lim, &format!("SET {md}({ids}) = ({vs})"), "set.tuple");
                    }
                }
            }
        }
        // ---- SET NAMES
        for nm in ["NAMES", "names", "Names", "\"NAMES\"", "x.NAMES"] {
            for cs in ["utf8", "'utf8'", "\"latin1\"", "`x`", "DEFAULT", "'a b'", "''", "'select'", "select", "1", "N'x'", "", "a.b"] {
                for co in ["", " COLLATE utf8_bin", " COLLATE 'x y'", " COLLATE \"c\"", " COLLATE", " COLLATE 1", " COLLATE DEFAULT"] {
                    s.sql(dn, d, false, lim, &format!("SET {nm} {cs}{co}"), "set.names");
                }
                s.sql(dn, d, true, lim, &format!("SET SESSION {nm} {cs}"), "set.names");
            }
        }
        // ---- USE
        for kind in ["", "CATALOG ", "DATABASE ", "SCHEMA ", "WAREHOUSE ", "DEFAULT ", "catalog "] {
            for n in NAMES {
                s.sql2(dn, d, lim, &format!("USE {kind}{n}"), "use");
            }
        }
        for o in ["ALL", "PLANS", "SEQUENCES", "TEMP", "TEMPORARY", "all", "temporary"] {
            s.sql2(dn, d, lim, &format!("DISCARD {o}"), "misc");
        }
        // ---- scripts
        let unit = [
            "COMMIT", "BEGIN", "START TRANSACTION READ ONLY", "ROLLBACK TO a", "SAVEPOINT a", "RELEASE a", "SET a = 1", "SET a = 1, 2", "SET TIME ZONE 'x'", "SET TRANSACTION READ ONLY", "USE a", "DISCARD ALL", "CLOSE c", "ASSERT a AS b", "END",
            "CREATE VIEW v AS SELECT 1", "ALTER TABLE t ADD a INT", "INSERT INTO t VALUES (1)", "SELECT 1",
        ];
        let seps = ["; ", " ;; ", " ", " END ", " ; END ; "];
        for (i, a) in unit.iter().enumerate() {
            for (j, c) in unit.iter().enumerate() {
                let sep = seps[(i + 2 * j) % seps.len()];
                if sep == "; " || (i + j + k) % 3 == 0 || thorough {
                    s.sql(dn, d, (i + j) % 2 == 0, lim, &format!("{a}{sep}{c}"), "script.two");
                }
            }
            for sep in seps {
                s.sql(dn, d, false, lim, &format!("{a}{sep}{}", unit[(i + 5) % unit.len()]), "script.sep");
            }
            s.sql2(dn, d, lim, &format!(";{a};"), "script.edge");
            s.sql(dn, d, false, lim, &format!("{a}; {}; {};", unit[(i + 3) % unit.len()], unit[(i + 7) % unit.len()]), "script.three");
            s.sql(dn, d, false, lim, &format!("{a} END"), "script.edge");
            s.sql(dn, d, false, lim, &format!("{a};;"), "script.edge");
        }
        // ---- truncations, single-token deletions, duplications, keyword swaps of base scripts
        for (bi, bs) in BASES.iter().enumerate() {
            if let Some(toks) = lex_nows(d, bs) {
                s.emit(dn, d, false, lim, &toks, "base");
                s.emit(dn, d, true, lim, &toks, "base");
                for i in 0..toks.len() {
                    s.emit(dn, d, (i + bi) % 2 == 0, lim, &toks[..i], "truncated");
                    let mut t = toks.clone();
                    t.remove(i);
                    s.emit(dn, d, (i + bi) % 2 == 1, lim, &t, "dropped");
                    let mut t = toks.clone();
                    t.insert(i, toks[i].clone());
                    s.emit(dn, d, i % 2 == 1, lim, &t, "duplicated");
                    if is_kw_word(&toks[i]) {
                        let nsw = if thorough { 6 } else { 2 };
                        for j in 0..nsw {
                            let w = SWAP_KWS[(7 * i + 13 * j + bi + k) % SWAP_KWS.len()];
                            let mut t = toks.clone();
                            t[i] = Token::make_word(w, None);
                            s.emit(dn, d, (i + j) % 2 == 0, lim, &t, "kwswapped");
                        }
                    }
                    if thorough && i + 1 < toks.len() {
                        let mut t = toks.clone();
                        t.swap(i, i + 1);
                        s.emit(dn, d, i % 2 == 0, lim, &t, "swapped");
                    }
                }
            }
        }
        // ---- recursion limits
        for limit in 0usize..=6 {
            for q in LIMITED {
                s.sql(dn, d, false, limit, q, "limit");
            }
        }
        // ---- corpus texts of the statement kinds of the fragment
        for &(i, kk) in &corpus.accepted {
            if kk != k {
                continue;
            }
            let text = &corpus.literals[i];
            if let Some(toks) = lex_nows(d, text) {
                if toks.len() > 400 || !corpus_wanted(&toks) {
                    continue;
                }
                let dflt = d.supports_trailing_commas();
                let a = s.emit(dn, d, dflt, lim, &toks, "corpus");
                s.emit(dn, d, !dflt, lim, &toks, "corpus");
                if a.starts_with("OK") {
                    s.r.count("corpus/inside");
                } else if !a.is_empty() {
                    s.r.count("corpus/outside");
                }
            }
        }
        // ---- random statements and scripts
        let nrand = if thorough { 10000 } else { 1500 };
        for n in 0..nrand {
            let q = rand_script(&mut rng);
            let tc = rng.chance(1, 2);
            if let Some(toks) = s.sql(dn, d, tc, lim, &q, "random") {
                if n % 4 == 0 && toks.len() > 1 {
                    let i = rng.below(toks.len());
                    let j = rng.below(toks.len());
                    let mut t = toks.clone();
                    t.swap(i, j);
                    s.emit(dn, d, tc, lim, &t, "random.swapped");
                    let mut t = toks.clone();
                    t.remove(i);
                    s.emit(dn, d, tc, lim, &t, "random.dropped");
                    s.emit(dn, d, tc, lim, &toks[..i], "random.truncated");
                    let mut t = toks.clone();
                    t.insert(j, toks[j].clone());
                    s.emit(dn, d, tc, lim, &t, "random.duplicated");
                    if is_kw_word(&toks[i]) {
                        let mut t = toks.clone();
                        let w: &str = SWAP_KWS[rng.below(SWAP_KWS.len())];
                        t[i] = Token::make_word(w, None);
                        s.emit(dn, d, tc, lim, &t, "random.kwswapped");
                    }
                    let small = 2 + rng.below(7);
                    s.emit(dn, d, tc, small, &toks, "random.limit");
                }
            }
        }
    }
    let distinct = s.distinct.len() as u64;
    s.req.flush().unwrap();
    s.real.flush().unwrap();
    if let Some(t) = &mut s.txt {
        t.flush().unwrap();
    }
    drop(s);
    r.distinct_nontrivial = distinct;
    r
}

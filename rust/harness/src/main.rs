mod astgen;
mod c04;
mod c04o;
mod c02;
mod c03;
mod c06;
mod c08;
mod c12;
mod c13;
mod c16;
mod c17;
mod c18;
mod c19;
mod canon;
mod wrap;
mod common;
mod dml;
mod ddl;
mod tcl;
mod gen_sql;
mod kwhelpers;
mod cursor;
mod cursorstate;
mod exprprint;
mod o_text;
mod query;
mod reflect;
mod tab;
mod tokstream;
use common::*;

fn main() {
    install_panic_hook();
    let args: Vec<String> = std::env::args().collect();
    let tier = std::env::var("VERIF_TIER").unwrap_or_else(|_| "quick".into());
    let seed: u64 = std::env::var("VERIF_SEED").ok().and_then(|s| s.parse().ok()).unwrap_or(1);
    match args.get(1).map(|s| s.as_str()) {
        Some("tabulate") => tab::run(&args[2]),
        Some("oracle") => {
            let p = args[2].as_str();
            let c = load_corpus();
            let reps: Vec<Report> = match p {
                "C01" => vec![o_text::c01(&c, &tier), o_text::c01_mutants(&c, &tier)],
                "C02" => c02::oracle(&c, seed, &tier),
                "C03" => { let mut v = c03::oracle(seed, &tier); v.push(c03::dyn_edges(&c, &tier)); v }
                "C04" => c04o::oracle(seed, &tier),
                "C05" => vec![o_text::c05(&c, &tier), o_text::c05_mutants(&c, &tier)],
                "C06" => c06::oracle_c06(seed, &tier),
                "C07" => vec![o_text::c07(&c, &tier)],
                "C08" => c08::oracle(&c, seed, &tier),
                "C09" => vec![o_text::c09(&c, &tier, seed)],
                "C10" => vec![o_text::c10(&c, &tier)],
                "C11" => vec![o_text::c11(&c, &tier)],
                "C12" => c12::oracle(&c, seed, &tier),
                "C13" => c13::oracle(&c, seed, &tier),
                "C14" => o_text::c14(&c, &tier, seed),
                "C15" => vec![o_text::c15(&c, &tier)],
                "C16" => c16::oracle(&c, seed, &tier),
                "C17" => c17::oracle(&c, seed, &tier),
                "C18" => c18::oracle(&c, seed, &tier),
                "C19" => c19::oracle(&c, seed, &tier),
                "C20" => c06::oracle_c20(&c, seed, &tier),
                _ => { eprintln!("no oracle for {p}"); std::process::exit(2) }
            };
            for r in reps { r.emit(); }
        }
        Some("corr") => {
            let (name, dir) = (args[2].as_str(), args[3].as_str());
            std::fs::create_dir_all(dir).unwrap();
            let rep = match name {
                "kw" => c08::corr(dir, seed, &tier),
                "kwhelpers" => kwhelpers::corr(dir, seed, &tier),
                "cursor" => cursor::corr(dir, seed, &tier),
                "cursorstate" => cursorstate::corr(dir, seed, &tier),
                "lists" => c13::corr(dir, seed, &tier),
                "stmts" => c13::corr_stmts(dir, seed, &tier),
                "prec" => c04::corr_prec(dir, seed, &tier),
                "chains" => c04::corr_chains(dir, seed, &tier),
                "setops" => c04::corr_setops(dir, seed, &tier),
                "ladder" => c12::corr_ladder(dir, seed, &tier),
                "exprprint" => exprprint::corr(dir, seed, &tier),
                "tok" => tokstream::corr(dir, seed, &tier),
                "visit" => c16::corr(dir, seed, &tier),
                "serde" => c17::corr(dir, seed, &tier),
                "lits" => c06::corr(dir, seed, &tier),
                "dtparse" => c18::corr_parse(dir, seed, &tier),
                "dtprint" => c18::corr_print(dir, seed, &tier),
                "queries" => query::corr(dir, seed, &tier),
                "dml" => dml::corr(dir, seed, &tier),
                "ddl" => ddl::corr(dir, seed, &tier),
                "tcl" => tcl::corr(dir, seed, &tier),
                _ => { eprintln!("no corr stream {name}"); std::process::exit(2) }
            };
            rep.emit();
        }
        Some("deep-child") => c02::deep_child(&args[2..]),
        Some("nest-child") => c03::child(&args[2..]),
        Some("parse") => {
            // developer probe: harness parse <dialect> <sql>
            let d = dialect(&args[2]);
            match parse(d.as_ref(), Opts::DEFAULT, &args[3]) {
                G::Val(Ok(v)) => { for s in &v { println!("OK {s}    {s:?}"); } }
                G::Val(Err(e)) => println!("ERR {e}"),
                G::Panic(m) => println!("PANIC {m}"),
            }
            println!("TOKENS {:?}", match tokenize(d.as_ref(), true, &args[3]) { G::Val(t) => format!("{t:?}"), G::Panic(m) => m });
        }
        Some("astgen-stats") => {
            let mut g = astgen::AstGen::load();
            g.realistic = true;
            let mut errs = vec![];
            let sts = g.statements(5000, 12345, &mut errs);
            let ds = all_dialects();
            let (mut ok, mut panics, mut fix) = (0, 0, 0);
            let mut shown = 0;
            for st in &sts {
                match guard(|| st.to_string()) {
                    G::Val(p) => {
                        let mut any = false;
                        for (_, d) in &ds { if let G::Val(Ok(v)) = parse(d.as_ref(), Opts::DEFAULT, &p) { if v.len() == 1 { any = true; if v[0].to_string() == p { fix += 1; } break; } } }
                        if any { ok += 1; if shown < 8 { shown += 1; println!("  {}", trunc(&p, 150)); } }
                    }
                    G::Panic(m) => { panics += 1; if panics < 4 { println!("PANIC {m}"); } }
                }
            }
            println!("generated={} deser_errs={} printed_and_accepted={} fixpoint={} display_panics={}", sts.len(), errs.len(), ok, fix, panics);
        }
        Some("mutant-stats") => {
            let c = load_corpus();
            let tier = std::env::var("VERIF_TIER").unwrap_or("quick".into());
            let t0 = std::time::Instant::now();
            let m = common::mutants(&c, &tier);
            let ds = all_dialects();
            let mut acc = 0usize;
            for s in &m { for (_, d) in &ds { if let G::Val(Ok(v)) = parse(d.as_ref(), Opts::DEFAULT, s) { if !v.is_empty() { acc += 1; } } } }
            println!("mutants={} accepted_pairs={} secs={:.1}", m.len(), acc, t0.elapsed().as_secs_f64());
        }
        Some("gen-sql") => { for t in gen_sql::enumerate() { println!("{}", t.replace('\n', "\\n").replace('\t', "\\t")); } }
        Some("corpus-stats") => {
            let c = load_corpus();
            println!("literals={} accepted_pairs={}", c.literals.len(), c.accepted.len());
        }
        _ => { eprintln!("usage: harness tabulate <gen> | oracle <P> | corr <stream> <dir>"); std::process::exit(2) }
    }
}

//! Stream `ddl` (properties C05 / C11 / C13 on the second modelled statement fragment):
//! token list -> `parse_statements()` under (dialect, trailing_commas, recursion limit) -> canonical
//! S-expression of every statement (CREATE VIEW / CREATE INDEX / ALTER TABLE / TRUNCATE / DROP <kind>,
//! and through `dml::stmt_sexp` the statements of the first fragment; UNSUPPORTED when a tree leaves
//! the fragment of `lean/SqlVerif/Model/Ddl.lean`) and the `to_string()` text; errors as classes.
use crate::c04::{expr_sexp, hx, lex_nows};
use crate::c18::dt_sexp;
use crate::canon::toks_canon_noloc;
use crate::common::*;
use sqlparser::ast::*;
use sqlparser::dialect::Dialect;
use sqlparser::keywords::Keyword;
use sqlparser::parser::{Parser, ParserError, ParserOptions};
use sqlparser::tokenizer::Token;
use std::collections::BTreeSet;
use std::io::Write;

// ---------------------------------------------------------------- S-expressions (helpers copied from dml.rs)
fn b(x: bool) -> u8 {
    x as u8
}

fn id_sexp(i: &Ident) -> String {
    format!("(id {} {})", hx(&i.value), i.quote_style.map(|c| format!("{:x}", c as u32)).unwrap_or("-".into()))
}

fn ids_sexp(v: &[Ident]) -> String {
    v.iter().map(|i| format!(" {}", id_sexp(i))).collect()
}

fn name_sexp(n: &ObjectName) -> String {
    format!("(name{})", ids_sexp(&n.0))
}

fn names_sexp<'a>(v: impl Iterator<Item = &'a ObjectName>) -> String {
    v.map(|n| format!(" {}", name_sexp(n))).collect()
}

fn opt_expr(e: &Option<Expr>) -> Option<String> {
    match e {
        Some(e) => expr_sexp(e),
        None => Some("none".into()),
    }
}

fn ob_sexp(e: &OrderByExpr) -> Option<String> {
    if e.with_fill.is_some() {
        return None;
    }
    Some(format!(
        " (ob {} {} {})",
        expr_sexp(&e.expr)?,
        match e.asc { Some(true) => "asc", Some(false) => "desc", None => "none" },
        match e.nulls_first { Some(true) => "first", Some(false) => "last", None => "none" }
    ))
}

fn colopt_sexp(o: &ColumnOptionDef) -> Option<String> {
    if o.name.is_some() {
        return None;
    }
    Some(match &o.option {
        ColumnOption::Null => "null".into(),
        ColumnOption::NotNull => "notnull".into(),
        ColumnOption::Default(e) => format!("(default {})", expr_sexp(e)?),
        ColumnOption::Unique { is_primary: true, characteristics: None, .. } => "primary".into(),
        ColumnOption::Unique { is_primary: false, characteristics: None, .. } => "unique".into(),
        ColumnOption::Check(e) => format!("(check {})", expr_sexp(e)?),
        ColumnOption::Comment(s) => format!("(comment {})", hx(s)),
        ColumnOption::DialectSpecific(v) => match v.as_slice() {
            [Token::Word(w)] => format!("(dialect {})", w.value),
            _ => return None,
        },
        ColumnOption::ForeignKey { foreign_table, referred_columns, on_delete: None, on_update: None, characteristics: None, .. } => {
            format!("(references {} (cols{}))", name_sexp(foreign_table), ids_sexp(referred_columns))
        }
        _ => return None,
    })
}

fn coldef_sexp(c: &ColumnDef) -> Option<String> {
    if c.collation.is_some() {
        return None;
    }
    let mut opts = String::new();
    for o in &c.options {
        opts.push(' ');
        opts.push_str(&colopt_sexp(o)?);
    }
    Some(format!("(col {} {} (opts{opts}))", id_sexp(&c.name), dt_sexp(&c.data_type)))
}

fn alter_op_sexp(op: &AlterTableOperation) -> Option<String> {
    Some(match op {
        AlterTableOperation::AddColumn { column_keyword, if_not_exists, column_def, column_position: None, .. } => {
            format!("(add {} {} {})", b(*column_keyword), b(*if_not_exists), coldef_sexp(column_def)?)
        }
        AlterTableOperation::DropColumn { column_name, if_exists, cascade, .. } => format!("(dropcol {} {} {})", b(*if_exists), id_sexp(column_name), b(*cascade)),
        AlterTableOperation::RenameColumn { old_column_name, new_column_name, .. } => format!("(renamecol {} {})", id_sexp(old_column_name), id_sexp(new_column_name)),
        AlterTableOperation::RenameTable { table_name, .. } => format!("(renametable {})", name_sexp(table_name)),
        AlterTableOperation::AlterColumn { column_name, op, .. } => {
            let o = match op {
                AlterColumnOperation::SetNotNull => "setnotnull".to_string(),
                AlterColumnOperation::DropNotNull => "dropnotnull".to_string(),
                AlterColumnOperation::SetDefault { value, .. } => format!("(setdefault {})", expr_sexp(value)?),
                AlterColumnOperation::DropDefault => "dropdefault".to_string(),
                _ => return None,
            };
            format!("(altercol {} {o})", id_sexp(column_name))
        }
        _ => return None,
    })
}

/// None = outside the modelled fragment
pub fn stmt_sexp(s: &Statement) -> Option<String> {
    match s {
        Statement::CreateView { or_replace, materialized, name, columns, query, options, cluster_by, comment, with_no_schema_binding, if_not_exists, temporary, to, .. } => {
            if !matches!(options, CreateTableOptions::None) || !cluster_by.is_empty() || comment.is_some() || *with_no_schema_binding || to.is_some() {
                return None;
            }
            let mut cols = String::new();
            for c in columns {
                if c.options.is_some() {
                    return None;
                }
                cols.push_str(&format!(" (vcol {} {})", id_sexp(&c.name), c.data_type.as_ref().map(dt_sexp).unwrap_or("none".into())));
            }
            let q = crate::dml::stmt_sexp(&Statement::Query(query.clone()))?;
            Some(format!("(createview {} {} {} {} {} (cols{cols}) {q})", b(*or_replace), b(*materialized), b(*temporary), b(*if_not_exists), name_sexp(name)))
        }
        Statement::CreateIndex(CreateIndex { name, table_name, using, columns, unique, concurrently, if_not_exists, include, nulls_distinct, with, predicate, .. }) => {
            if !with.is_empty() {
                return None;
            }
            let mut cols = String::new();
            for c in columns {
                cols.push_str(&ob_sexp(c)?);
            }
            Some(format!(
                "(createindex {} {} {} {} {} {} (cols{cols}) (include{}) {} (where {}))",
                b(*unique),
                b(*concurrently),
                b(*if_not_exists),
                name.as_ref().map(name_sexp).unwrap_or("none".into()),
                name_sexp(table_name),
                using.as_ref().map(id_sexp).unwrap_or("none".into()),
                ids_sexp(include),
                match nulls_distinct { None => "none", Some(true) => "distinct", Some(false) => "notdistinct" },
                opt_expr(predicate)?
            ))
        }
        Statement::AlterTable { name, if_exists, only, operations, location: None, on_cluster: None, .. } => {
            let mut ops = String::new();
            for o in operations {
                ops.push(' ');
                ops.push_str(&alter_op_sexp(o)?);
            }
            Some(format!("(altertable {} {} {} (ops{ops}))", b(*if_exists), b(*only), name_sexp(name)))
        }
        Statement::Truncate { table_names, partitions: None, table, only, identity, cascade, on_cluster: None, .. } => Some(format!(
            "(truncate {} {} (names{}) {} {})",
            b(*table),
            b(*only),
            names_sexp(table_names.iter().map(|t| &t.name)),
            match identity { None => "none", Some(TruncateIdentityOption::Restart) => "restart", Some(TruncateIdentityOption::Continue) => "continue" },
            match cascade { None => "none", Some(TruncateCascadeOption::Cascade) => "cascade", Some(TruncateCascadeOption::Restrict) => "restrict" }
        )),
        Statement::Drop { object_type, if_exists, names, cascade, restrict, purge, temporary: false, .. } if *object_type != ObjectType::Table => Some(format!(
            "(dropobj {object_type} {} (names{}) {} {} {})",
            b(*if_exists),
            names_sexp(names.iter()),
            b(*cascade),
            b(*restrict),
            b(*purge)
        )),
        _ => crate::dml::stmt_sexp(s),
    }
}

// ---------------------------------------------------------------- the real side
pub fn real_ddl(d: &dyn Dialect, tc: bool, limit: usize, toks: &[Token]) -> String {
    match guard(|| {
        Parser::new(d)
            .with_options(ParserOptions::new().with_trailing_commas(tc))
            .with_recursion_limit(limit)
            .with_tokens(toks.to_vec())
            .parse_statements()
    }) {
        G::Val(Ok(stmts)) => {
            let mut sexps = vec![];
            for s in &stmts {
                match stmt_sexp(s) {
                    Some(x) => sexps.push(x),
                    None => return "UNSUPPORTED".into(),
                }
            }
            match guard(|| stmts.iter().map(|s| s.to_string()).collect::<Vec<_>>().join("; ")) {
                G::Val(t) => format!("OK {} TEXT {}", sexps.join(";"), hex(&t)),
                G::Panic(m) => format!("PANIC display {m}"),
            }
        }
        G::Val(Err(ParserError::RecursionLimitExceeded)) => "ERR:rle".into(),
        G::Val(Err(_)) => "ERR:syntax".into(),
        G::Panic(m) => format!("PANIC {m}"),
    }
}

struct St<'a> {
    req: std::io::BufWriter<std::fs::File>,
    real: std::io::BufWriter<std::fs::File>,
    /// developer aid: `VERIF_DDL_TXT=<path>` writes one line `dialect \t tc \t limit \t token texts \t answer` per request
    txt: Option<std::io::BufWriter<std::fs::File>>,
    r: &'a mut Report,
    distinct: BTreeSet<u64>,
    seen: BTreeSet<u64>,
}

fn fnv(s: &str) -> u64 {
    let mut h = 0xcbf29ce484222325u64;
    for b in s.bytes() {
        h ^= b as u64;
        h = h.wrapping_mul(0x100000001b3);
    }
    h
}

const HEADS: &[&str] = &[
    "(createview ", "(createindex ", "(altertable ", "(truncate ", "(dropobj ", "(vcol ", "(add ", "(dropcol ", "(renamecol ", "(renametable ", "(altercol ", "(setdefault ", "(ob ", "(include (", "(col (id",
    "(insert ", "(update ", "(delete ", "(create ", "(drop ", "(values ", "(select ",
];

impl<'a> St<'a> {
    fn emit(&mut self, dn: &str, d: &dyn Dialect, tc: bool, limit: usize, toks: &[Token], class: &str) -> String {
        let line = format!("ddl\t{dn}\t{}\t{limit}\t{}", tc as u8, toks_canon_noloc(toks));
        if !self.seen.insert(fnv(&line)) {
            return String::new();
        }
        let ans = real_ddl(d, tc, limit, toks);
        writeln!(self.req, "{line}").unwrap();
        writeln!(self.real, "{ans}").unwrap();
        if let Some(t) = &mut self.txt {
            writeln!(t, "{dn}\t{}\t{limit}\t{}\t{ans}", tc as u8, toks.iter().map(|t| t.to_string()).collect::<Vec<_>>().join(" ")).unwrap();
        }
        self.r.evaluations += 1;
        self.r.count(&format!("class/{class}"));
        let k = if ans.starts_with("OK") {
            "ok"
        } else if ans.starts_with("ERR:rle") {
            "err.rle"
        } else if ans.starts_with("ERR") {
            "err.syntax"
        } else if ans.starts_with("UNSUPPORTED") {
            "unsupported"
        } else {
            "panic"
        };
        self.r.count(&format!("answer/{k}"));
        self.r.count(&format!("answer.{class}/{k}"));
        if k == "panic" {
            self.r.panic(dn, Opts::DEFAULT, &line, ans.clone());
        }
        if k == "ok" {
            let tree = ans.split(" TEXT ").next().unwrap_or("");
            for h in HEADS {
                let c = tree.matches(h).count() as u64;
                if c > 0 {
                    *self.r.dist.entry(format!("node/{}", h.trim_start_matches('(').trim_end())).or_insert(0) += c;
                }
            }
        }
        self.distinct.insert(fnv(&format!("{dn}{}", ans.split(" TEXT ").next().unwrap_or(""))));
        if self.r.evaluations % 30011 == 17 {
            self.r.sample(serde_json::json!({"dialect": dn, "tc": tc, "limit": limit, "tokens": toks.iter().map(|t| t.to_string()).collect::<Vec<_>>().join(" "), "answer": trunc(&ans, 300)}));
        }
        ans
    }
    fn sql(&mut self, dn: &str, d: &dyn Dialect, tc: bool, limit: usize, sql: &str, class: &str) -> Option<Vec<Token>> {
        let t = lex_nows(d, sql)?;
        self.emit(dn, d, tc, limit, &t, class);
        Some(t)
    }
    /// both option values
    fn sql2(&mut self, dn: &str, d: &dyn Dialect, limit: usize, sql: &str, class: &str) -> Option<Vec<Token>> {
        let t = lex_nows(d, sql)?;
        self.emit(dn, d, false, limit, &t, class);
        self.emit(dn, d, true, limit, &t, class);
        Some(t)
    }
}

// ---------------------------------------------------------------- generator vocabulary
const NAMES: &[&str] = &["t", "s.t", "\"T\"", "a.b.c", "v"];
const IDENTS: &[&str] = &["a", "b", "\"C\"", "d", "x"];
const QUERIES: &[&str] = &[
    "SELECT 1", "SELECT a, b FROM t", "SELECT * FROM t WHERE a > 1", "SELECT a AS x, t.* FROM t u JOIN w ON u.a = w.a", "SELECT a FROM t UNION SELECT b FROM u", "(SELECT 1)", "VALUES (1, 'a'), (2, 'b')",
    "SELECT a FROM t ORDER BY a DESC LIMIT 3", "SELECT DISTINCT a FROM (SELECT 1) AS d", "SELECT a FROM t GROUP BY a HAVING b", "VALUES (1)", "SELECT 'x', 2.5, NULL",
];
const QUERY_PROBES: &[&str] = &["WITH c AS (SELECT 1) SELECT * FROM c", "SELECT f(a) FROM t", "TABLE t", "SELECT a FROM t FETCH FIRST 1 ROW ONLY", "SELECT 1 WITH NO SCHEMA BINDING", "SELECT a FROM t FOR UPDATE"];
const VIEW_COLS: &[&str] = &["", "", "(a)", "(a, b)", "(\"A\", b, c)", "()"];
const VIEW_OPTS: &[&str] = &[
    "WITH (x = 1)", "CLUSTER BY (a)", "OPTIONS (description = 'x')", "TO s.t", "COMMENT = 'c'", "WITH", "CLUSTER", "OPTIONS", "TO", "COMMENT", "COMMENT 'c'", "WITH CHECK OPTION",
];
/// expressions inside the fragment of `expr_sexp`
const EXPRS: &[&str] = &[
    "a", "t.a", "1", "'s'", "a + 1", "a = b AND c", "NOT a", "(a)", "a IS NULL", "a IN (1, 2)", "a BETWEEN 1 AND 2", "a::INT", "- 1", "a LIKE 'x'", "NULL", "TRUE", "2.5", "a > 0", "b",
];
/// expressions outside it (probes)
const EXPR_PROBES: &[&str] = &["f(1)", "(SELECT 1)", "CASE WHEN a THEN 1 END", "now()", "EXISTS (SELECT 1)", "lower(a)", "CAST(a AS INT)"];
const INDEX_COLS: &[&str] = &[
    "a", "a ASC", "b DESC", "a NULLS FIRST", "a DESC NULLS LAST", "a + 1", "(a)", "t.a", "a ASC NULLS LAST", "\"C\"", "a = b", "a IS NULL", "- a", "a::INT DESC",
];
const INDEX_COL_PROBES: &[&str] = &["lower(a)", "a WITH FILL", "a COLLATE x", "a NULLS", "a ASC DESC", "a NULLS FIRST LAST", "(a, b)", "a text_pattern_ops", "f(a) DESC"];
const USINGS: &[&str] = &["", "", "", "USING btree", "USING hash", "USING \"GiST\"", "USING"];
const INCLUDES: &[&str] = &["", "", "", "INCLUDE (a)", "INCLUDE (a, b)", "INCLUDE (\"C\", d, x)"];
const NULLSD: &[&str] = &["", "", "", "NULLS DISTINCT", "NULLS NOT DISTINCT"];
const TYPES: &[&str] = &[
    "INT", "INTEGER", "BIGINT", "SMALLINT(5)", "INT UNSIGNED", "TEXT", "VARCHAR(10)", "VARCHAR", "CHARACTER VARYING(20)", "CHAR(3)", "BOOLEAN", "DATE", "TIMESTAMP", "TIMESTAMP(3) WITH TIME ZONE", "NUMERIC(10)",
    "DECIMAL(10,2)", "DOUBLE PRECISION", "FLOAT(8)", "UUID", "JSON", "STRING", "geometry", "my.type", "foo(1, 'a')", "INT[]", "ENUM('a','b')", "VARCHAR(010)",
];
const TYPE_PROBES: &[&str] = &[
    "ARRAY<INT>", "STRUCT<a INT>", "Nullable(String)", "Map(String, Int)", "DATETIME64(3)", "ARRAY(INT)", "INT[][]", "UNSIGNED", "NUMERIC(3,)", "VARCHAR()",
    // ENUM / SET label lists (parse_comma_separated): trailing comma, missing separator, list ends
    "ENUM('a','b',)", "SET('a',)", "ENUM('a' 'b')", "ENUM('a',,)", "ENUM('a', from)", "SET('a','b'",
];
const OPTS_OK: &[&str] = &[
    "NULL", "NOT NULL", "DEFAULT 1", "DEFAULT 'x'", "DEFAULT a + 1", "PRIMARY KEY", "UNIQUE", "CHECK (a > 0)", "COMMENT 'c'", "REFERENCES u", "REFERENCES u (id)", "REFERENCES s.u (a, b)", "AUTO_INCREMENT", "AUTOINCREMENT",
    "ASC", "DESC",
];
const OPT_PROBES: &[&str] = &[
    "CONSTRAINT n NOT NULL", "COLLATE x", "GENERATED ALWAYS AS IDENTITY", "GENERATED", "ON UPDATE x", "CHARACTER SET utf8", "PRIMARY KEY DEFERRABLE", "REFERENCES u ON DELETE CASCADE", "DEFAULT f(1)", "DEFAULT NULL",
    "DEFAULT NOT NULL", "CHECK (f(a))", "CHECK (a", "COMMENT \"c\"", "MATERIALIZED a", "AS (a + 1)", "IDENTITY", "OPTIONS (x = 1)", "NOT", "PRIMARY", "FIRST", "AFTER b", "AFTER", "first", "FIRST FIRST",
];
/// operations of `parse_alter_table_operation` outside the fragment, and malformed ones
const OP_PROBES: &[&str] = &[
    "ADD CONSTRAINT c UNIQUE (a)", "ADD CONSTRAINT c CHECK (a > 0)", "ADD PRIMARY KEY (a)", "ADD UNIQUE (a)", "ADD FOREIGN KEY (a) REFERENCES u (b)", "ADD CHECK (a > 0)", "ADD INDEX i (a)", "ADD KEY (a)", "ADD FULLTEXT (a)",
    "ADD SPATIAL INDEX (a)", "ADD index INT", "ADD key TEXT", "ADD fulltext INT", "ADD PROJECTION p (SELECT a)", "ADD projection INT", "ADD PARTITION (a = 1)", "ADD IF NOT EXISTS PARTITION (a = 1) PARTITION (b = 2)", "ADD partition INT",
    "ADD IF NOT EXISTS a INT", "ADD IF NOT EXISTS COLUMN a INT", "ADD COLUMN IF NOT EXISTS a INT", "ADD IF NOT EXISTS COLUMN IF NOT EXISTS a INT", "ADD IF NOT a INT", "ADD IF a INT", "ADD COLUMN COLUMN a INT", "ADD COLUMN", "ADD",
    "ADD a", "ADD a INT FIRST", "ADD a INT AFTER b", "ADD a INT AFTER", "ADD COLUMN a INT NOT NULL FIRST", "ADD a INT first", "ADD (a INT)", "ADD COLUMN (a INT, b INT)", "ADD 1 INT", "ADD 'a' INT", "ADD column INT", "ADD add INT",
    "RENAME", "RENAME TO", "RENAME TO u", "RENAME TO s.u", "RENAME TO u.v.w", "RENAME TO 1", "RENAME a", "RENAME a TO", "RENAME a b", "RENAME a TO b", "RENAME COLUMN a TO b", "RENAME COLUMN TO b", "RENAME COLUMN to TO b", "RENAME to TO b",
    "RENAME COLUMN COLUMN TO b", "RENAME COLUMN a TO b c", "RENAME a.b TO c", "RENAME CONSTRAINT a TO b", "RENAME constraint TO b", "RENAME CONSTRAINT a b", "RENAME AS u", "RENAME a TO b TO c", "RENAME 'a' TO \"b\"",
    "DROP", "DROP a", "DROP COLUMN a", "DROP COLUMN", "DROP COLUMN IF EXISTS a", "DROP IF EXISTS a", "DROP COLUMN IF a", "DROP IF EXISTS", "DROP a CASCADE", "DROP COLUMN a RESTRICT", "DROP COLUMN a CASCADE CASCADE", "DROP COLUMN IF EXISTS a CASCADE",
    "DROP COLUMN COLUMN a", "DROP column", "DROP COLUMN a b", "DROP a.b", "DROP 1", "DROP 'a'", "DROP CONSTRAINT c", "DROP CONSTRAINT IF EXISTS c CASCADE", "DROP constraint", "DROP PRIMARY KEY", "DROP PRIMARY KEY a", "DROP PRIMARY a",
    "DROP PRIMARY KEY COLUMN a", "DROP PRIMARY KEY IF EXISTS a CASCADE", "DROP PRIMARY KEY PROJECTION a", "DROP PRIMARY KEY PROJECTION COLUMN IF EXISTS a", "DROP PROJECTION p", "DROP PROJECTION IF EXISTS p", "DROP PROJECTION", "DROP PROJECTION COLUMN a",
    "DROP primary", "DROP PARTITION (a = 1)", "DROP IF EXISTS PARTITION (a = 1)", "DROP IF EXISTS partition", "DROP partition", "DROP COLUMN PARTITION", "DROP PROJECTION PRIMARY KEY a",
    "ALTER", "ALTER a", "ALTER COLUMN a", "ALTER COLUMN", "ALTER a SET", "ALTER a SET NOT", "ALTER a SET NOT NULL", "ALTER COLUMN a SET NOT NULL", "ALTER a DROP NOT NULL", "ALTER COLUMN a DROP NOT NULL", "ALTER a DROP NOT", "ALTER a DROP",
    "ALTER a SET DEFAULT", "ALTER a SET DEFAULT 1", "ALTER COLUMN a SET DEFAULT 'x'", "ALTER COLUMN a SET DEFAULT a + 1", "ALTER a SET DEFAULT f(1)", "ALTER a SET DEFAULT NULL", "ALTER a SET DEFAULT (1)", "ALTER a DROP DEFAULT", "ALTER COLUMN a DROP DEFAULT",
    "ALTER a DROP DEFAULT 1", "ALTER a SET DATA TYPE INT", "ALTER a SET DATA TYPE TEXT USING a::TEXT", "ALTER a SET DATA", "ALTER a TYPE INT", "ALTER a TYPE INT USING b", "ALTER a type", "ALTER COLUMN a ADD GENERATED ALWAYS AS IDENTITY",
    "ALTER a ADD GENERATED BY DEFAULT AS IDENTITY (START WITH 1)", "ALTER a ADD GENERATED", "ALTER a ADD", "ALTER a SET NULL", "ALTER a NOT NULL", "ALTER COLUMN COLUMN SET NOT NULL", "ALTER column SET NOT NULL", "ALTER COLUMN a.b SET NOT NULL",
    "ALTER 1 SET NOT NULL", "ALTER 'a' DROP DEFAULT", "ALTER a SET NOT NULL NULL", "ALTER a SET DEFAULT 1 NOT NULL", "ALTER a SET DEFAULT 1 2",
    "DISABLE ROW LEVEL SECURITY", "DISABLE RULE r", "DISABLE TRIGGER x", "DISABLE", "ENABLE ROW LEVEL SECURITY", "ENABLE ALWAYS RULE r", "ENABLE REPLICA TRIGGER x", "ENABLE TRIGGER x", "ENABLE", "CLEAR PROJECTION p", "CLEAR PROJECTION IF EXISTS p IN PARTITION q",
    "CLEAR PROJECTION DROP COLUMN a", "CLEAR", "CLEAR p", "MATERIALIZE PROJECTION p", "MATERIALIZE PROJECTION DROP a", "MATERIALIZE", "CLEAR PROJECTION MATERIALIZE PROJECTION ALTER a DROP DEFAULT", "PARTITION (a = 1) RENAME TO PARTITION (a = 2)", "PARTITION",
    "CHANGE COLUMN a b INT", "CHANGE a b TEXT NOT NULL FIRST", "CHANGE", "MODIFY COLUMN a INT", "MODIFY a TEXT NOT NULL AFTER b", "MODIFY", "SWAP WITH u", "SWAP", "OWNER TO u", "OWNER TO CURRENT_USER", "OWNER", "OWNER u", "ATTACH PARTITION p", "ATTACH PART 'x'",
    "DETACH PARTITION p", "FREEZE PARTITION p", "FREEZE PARTITION p WITH NAME n", "UNFREEZE PARTITION p", "ATTACH", "SET TBLPROPERTIES ('a' = 'b')", "SET TBLPROPERTIES", "SET", "SET LOCATION 'x'", "LOCATION 'x'", "x", "1", "(", ",", "",
];
const OPS_OK: &[&str] = &[
    "ADD a INT", "ADD COLUMN a INT", "ADD COLUMN b TEXT NOT NULL DEFAULT 'x'", "ADD \"C\" VARCHAR(10) NULL", "ADD COLUMN IF NOT EXISTS a INT", "ADD IF NOT EXISTS a INT PRIMARY KEY", "ADD COLUMN d DECIMAL(10,2) CHECK (d > 0) UNIQUE",
    "ADD COLUMN x TIMESTAMP(3) WITH TIME ZONE REFERENCES s.u (a, b)", "ADD a geometry COMMENT 'c'", "DROP a", "DROP COLUMN a", "DROP COLUMN IF EXISTS a", "DROP IF EXISTS \"C\" CASCADE", "DROP COLUMN b CASCADE", "RENAME a TO b",
    "RENAME COLUMN a TO \"C\"", "RENAME TO u", "RENAME TO s.u", "ALTER a SET NOT NULL", "ALTER COLUMN a SET NOT NULL", "ALTER COLUMN b DROP NOT NULL", "ALTER a SET DEFAULT 1", "ALTER COLUMN a SET DEFAULT a + 1", "ALTER COLUMN x SET DEFAULT 'it''s'",
    "ALTER a DROP DEFAULT", "ALTER COLUMN \"C\" DROP DEFAULT",
];
const ALTER_HEADS: &[&str] = &["ALTER TABLE", "ALTER TABLE", "ALTER TABLE IF EXISTS", "ALTER TABLE ONLY", "ALTER TABLE IF EXISTS ONLY"];
const DROP_KINDS: &[&str] = &["VIEW", "INDEX", "ROLE", "SCHEMA", "DATABASE", "SEQUENCE", "STAGE", "TYPE"];

const PROBES: &[&str] = &[
    "", ";", "CREATE", "CREATE VIEW", "CREATE VIEW v", "CREATE VIEW v AS", "CREATE VIEW v AS SELECT", "CREATE VIEW v SELECT 1", "CREATE VIEW AS SELECT 1", "CREATE VIEW v AS SELECT 1", "CREATE VIEW v AS (SELECT 1)", "CREATE VIEW v AS VALUES (1)",
    "CREATE VIEW v AS SELECT 1 UNION SELECT 2", "CREATE VIEW v AS SELECT 1; SELECT 2", "CREATE VIEW v AS INSERT INTO t VALUES (1)", "CREATE VIEW v AS CREATE VIEW w AS SELECT 1", "CREATE VIEW v () AS SELECT 1", "CREATE VIEW v (a) AS SELECT 1",
    "CREATE VIEW v (a, b) AS SELECT 1, 2", "CREATE VIEW v (a b) AS SELECT 1", "CREATE VIEW v (a INT) AS SELECT 1", "CREATE VIEW v (a INT, b String) AS SELECT 1", "CREATE VIEW v (a, b INT) AS SELECT 1", "CREATE VIEW v (a ARRAY<INT>) AS SELECT 1",
    "CREATE VIEW v (a Nullable(String)) AS SELECT 1", "CREATE VIEW v (a VARCHAR(10), b DECIMAL(10,2)) AS SELECT 1", "CREATE VIEW v (a OPTIONS (description = 'x')) AS SELECT 1", "CREATE VIEW v (a COMMENT 'c') AS SELECT 1",
    "CREATE VIEW v (a COMMENT 'c', b) AS SELECT 1", "CREATE VIEW v (a OPTIONS) AS SELECT 1", "CREATE VIEW v (a comment) AS SELECT 1", "CREATE VIEW v (1) AS SELECT 1", "CREATE VIEW v ('a', \"b\") AS SELECT 1", "CREATE VIEW v (a.b) AS SELECT 1",
    "CREATE VIEW v (a AS SELECT 1", "CREATE VIEW v (a,) AS SELECT 1", "CREATE VIEW v (a, b,) AS SELECT 1", "CREATE VIEW v (,) AS SELECT 1", "CREATE VIEW v (a,, b) AS SELECT 1", "CREATE VIEW v (a) (b) AS SELECT 1", "CREATE VIEW v ((a)) AS SELECT 1",
    "CREATE VIEW v (a, from) AS SELECT 1", "CREATE VIEW v (a, select) AS SELECT 1", "CREATE VIEW v (as) AS SELECT 1", "CREATE OR REPLACE VIEW v AS SELECT 1", "CREATE OR VIEW v AS SELECT 1", "CREATE OR ALTER VIEW v AS SELECT 1",
    "CREATE OR REPLACE OR REPLACE VIEW v AS SELECT 1", "CREATE OR REPLACE", "CREATE OR REPLACE x", "CREATE OR REPLACE INDEX i ON t (a)", "CREATE OR REPLACE UNIQUE INDEX i ON t (a)", "CREATE OR REPLACE TEMP VIEW v AS SELECT 1",
    "CREATE OR REPLACE TEMPORARY MATERIALIZED VIEW v AS SELECT 1", "CREATE MATERIALIZED VIEW v AS SELECT 1", "CREATE MATERIALIZED v AS SELECT 1", "CREATE MATERIALIZED MATERIALIZED VIEW v AS SELECT 1", "CREATE MATERIALIZED TEMPORARY VIEW v AS SELECT 1",
    "CREATE TEMPORARY MATERIALIZED VIEW v AS SELECT 1", "CREATE TEMP VIEW v AS SELECT 1", "CREATE TEMPORARY VIEW v AS SELECT 1", "CREATE TEMP TEMPORARY VIEW v AS SELECT 1", "CREATE LOCAL VIEW v AS SELECT 1", "CREATE GLOBAL VIEW v AS SELECT 1",
    "CREATE GLOBAL TEMPORARY VIEW v AS SELECT 1", "CREATE TRANSIENT VIEW v AS SELECT 1", "CREATE VOLATILE VIEW v AS SELECT 1", "CREATE PERSISTENT VIEW v AS SELECT 1", "CREATE TEMP PERSISTENT VIEW v AS SELECT 1", "CREATE VIEW VIEW v AS SELECT 1",
    "CREATE VIEW view AS SELECT 1", "CREATE VIEW IF NOT EXISTS v AS SELECT 1", "CREATE VIEW IF NOT v AS SELECT 1", "CREATE VIEW IF v AS SELECT 1", "CREATE VIEW if AS SELECT 1", "CREATE VIEW IF NOT EXISTS AS SELECT 1",
    "CREATE VIEW IF NOT EXISTS IF NOT EXISTS v AS SELECT 1", "CREATE MATERIALIZED VIEW IF NOT EXISTS s.v (a) AS SELECT 1", "CREATE VIEW s.v AS SELECT 1", "CREATE VIEW a.b.c.d AS SELECT 1", "CREATE VIEW \"V\" AS SELECT 1", "CREATE VIEW 'v' AS SELECT 1",
    "CREATE VIEW `v` AS SELECT 1", "CREATE VIEW [v] AS SELECT 1", "CREATE VIEW 1 AS SELECT 1", "CREATE VIEW v. AS SELECT 1", "CREATE VIEW a-b AS SELECT 1", "CREATE VIEW a-b.c AS SELECT 1", "CREATE VIEW a - b AS SELECT 1", "CREATE VIEW a-1 AS SELECT 1",
    "CREATE VIEW `a.b` AS SELECT 1", "CREATE VIEW \"a.b\".c AS SELECT 1", "CREATE VIEW v x AS SELECT 1", "CREATE VIEW v AS AS SELECT 1", "CREATE VIEW v AS SELECT 1 WITH NO SCHEMA BINDING", "CREATE VIEW v AS SELECT 1 WITH NO SCHEMA",
    "CREATE VIEW v AS SELECT 1 WITH", "CREATE VIEW v AS SELECT 1 WITH CHECK OPTION", "CREATE VIEW v AS SELECT a FROM t WITH NO SCHEMA BINDING", "CREATE VIEW v AS VALUES (1) WITH NO SCHEMA BINDING", "CREATE VIEW v AS SELECT 1 x",
    "CREATE VIEW v AS SELECT 1 END", "CREATE VIEW v AS SELECT 1;;", "CREATE VIEW v AS SELECT 1; CREATE VIEW w AS SELECT 2", "CREATE VIEW v AS SELECT 1 CREATE VIEW w AS SELECT 2", "CREATE VIEW v AS SELECT a, FROM t", "CREATE VIEW v AS SELECT 1,",
    "CREATE INDEX", "CREATE INDEX i", "CREATE INDEX i ON", "CREATE INDEX i ON t", "CREATE INDEX i ON t (", "CREATE INDEX i ON t ()", "CREATE INDEX i ON t (a", "CREATE INDEX i ON t (a)", "CREATE INDEX i ON t (a))", "CREATE INDEX i ON t (a) (b)",
    "CREATE INDEX ON t (a)", "CREATE INDEX ON (a)", "CREATE INDEX ON ON (a)", "CREATE INDEX ON ON t (a)", "CREATE INDEX on ON t (a)", "CREATE INDEX i on t (a)", "CREATE INDEX i t (a)", "CREATE INDEX i ON t a", "CREATE INDEX i ON s.t (a)",
    "CREATE INDEX s.i ON t (a)", "CREATE INDEX a.b.c ON d.e.f (a)", "CREATE INDEX \"I\" ON \"T\" (\"A\")", "CREATE INDEX 'i' ON t (a)", "CREATE INDEX 1 ON t (a)", "CREATE INDEX i ON 1 (a)", "CREATE INDEX `a.b` ON t (a)", "CREATE INDEX i ON `s.t` (a)",
    "CREATE UNIQUE INDEX i ON t (a)", "CREATE UNIQUE i ON t (a)", "CREATE UNIQUE UNIQUE INDEX i ON t (a)", "CREATE UNIQUE", "CREATE UNIQUE INDEX", "CREATE INDEX UNIQUE i ON t (a)", "CREATE UNIQUE INDEX ON t (a)", "CREATE TEMP INDEX i ON t (a)",
    "CREATE TEMPORARY UNIQUE INDEX i ON t (a)", "CREATE GLOBAL INDEX i ON t (a)", "CREATE INDEX INDEX ON t (a)", "CREATE INDEX index ON t (a)", "CREATE INDEX CONCURRENTLY i ON t (a)", "CREATE INDEX CONCURRENTLY ON t (a)",
    "CREATE INDEX CONCURRENTLY CONCURRENTLY ON t (a)", "CREATE INDEX concurrently ON t (a)", "CREATE INDEX IF NOT EXISTS i ON t (a)", "CREATE INDEX IF NOT EXISTS ON t (a)", "CREATE INDEX IF NOT EXISTS ON ON t (a)", "CREATE INDEX IF NOT i ON t (a)",
    "CREATE INDEX IF i ON t (a)", "CREATE INDEX if ON t (a)", "CREATE INDEX IF NOT EXISTS CONCURRENTLY i ON t (a)", "CREATE UNIQUE INDEX CONCURRENTLY IF NOT EXISTS s.i ON s.t (a)", "CREATE INDEX i ON t USING btree (a)", "CREATE INDEX i ON t USING (a)",
    "CREATE INDEX i ON t USING btree", "CREATE INDEX i ON t USING btree hash (a)", "CREATE INDEX i ON t USING 'x' (a)", "CREATE INDEX i ON t USING a.b (a)", "CREATE INDEX i ON t using (a)", "CREATE INDEX i ON t USING USING (a)", "CREATE INDEX i ON t (a, b)",
    "CREATE INDEX i ON t (a,)", "CREATE INDEX i ON t (a, b,)", "CREATE INDEX i ON t (,)", "CREATE INDEX i ON t (a,, b)", "CREATE INDEX i ON t (a b)", "CREATE INDEX i ON t (a ASC, b DESC NULLS FIRST)", "CREATE INDEX i ON t (a, from)", "CREATE INDEX i ON t (a, where)",
    "CREATE INDEX i ON t (a) INCLUDE (b)", "CREATE INDEX i ON t (a) INCLUDE (b, c)", "CREATE INDEX i ON t (a) INCLUDE ()", "CREATE INDEX i ON t (a) INCLUDE", "CREATE INDEX i ON t (a) INCLUDE b", "CREATE INDEX i ON t (a) INCLUDE (b", "CREATE INDEX i ON t (a) INCLUDE (b,)",
    "CREATE INDEX i ON t (a) INCLUDE (b, c,)", "CREATE INDEX i ON t (a) INCLUDE (b.c)", "CREATE INDEX i ON t (a) INCLUDE (b + 1)", "CREATE INDEX i ON t (a) INCLUDE (b) INCLUDE (c)", "CREATE INDEX i ON t (a) INCLUDE (1)", "CREATE INDEX i ON t (a) include (b)",
    "CREATE INDEX i ON t (a) NULLS DISTINCT", "CREATE INDEX i ON t (a) NULLS NOT DISTINCT", "CREATE INDEX i ON t (a) NULLS", "CREATE INDEX i ON t (a) NULLS NOT", "CREATE INDEX i ON t (a) NULLS FIRST", "CREATE INDEX i ON t (a) NULLS NOT NOT DISTINCT",
    "CREATE INDEX i ON t (a) NULLS DISTINCT NULLS DISTINCT", "CREATE INDEX i ON t (a) NULLS DISTINCT INCLUDE (b)", "CREATE INDEX i ON t (a) INCLUDE (b) NULLS DISTINCT WHERE c", "CREATE INDEX i ON t (a) WITH (fillfactor = 70)", "CREATE INDEX i ON t (a) WITH",
    "CREATE INDEX i ON t (a) WITH (a, b) WHERE c", "CREATE INDEX i ON t (a) WHERE", "CREATE INDEX i ON t (a) WHERE b", "CREATE INDEX i ON t (a) WHERE b > 1 AND c IS NULL", "CREATE INDEX i ON t (a) WHERE b WHERE c", "CREATE INDEX i ON t (a) WHERE f(b)",
    "CREATE INDEX i ON t (a) WHERE b NULLS DISTINCT", "CREATE INDEX i ON t (a) WHERE b,", "CREATE INDEX i ON t (a) x", "CREATE INDEX i ON t (a) END", "CREATE INDEX i ON t (a); CREATE INDEX j ON t (b)", "CREATE INDEX i ON t (a) CREATE INDEX j ON t (b)",
    "CREATE INDEX i ON t (a);;", "ALTER", "ALTER TABLE", "ALTER TABLE t", "ALTER t ADD a INT", "ALTER TABLE TABLE ADD a INT", "ALTER TABLE table ADD a INT", "ALTER TABLE t ADD a INT", "ALTER TABLE s.t ADD a INT", "ALTER TABLE a.b.c ADD a INT",
    "ALTER TABLE \"T\" ADD a INT", "ALTER TABLE 1 ADD a INT", "ALTER TABLE 't' ADD a INT", "ALTER TABLE `s.t` ADD a INT", "ALTER TABLE t. ADD a INT", "ALTER TABLE IF EXISTS t ADD a INT", "ALTER TABLE IF t ADD a INT", "ALTER TABLE if ADD a INT",
    "ALTER TABLE IF EXISTS IF EXISTS t ADD a INT", "ALTER TABLE ONLY t ADD a INT", "ALTER TABLE ONLY ONLY ADD a INT", "ALTER TABLE only ADD a INT", "ALTER TABLE ONLY IF EXISTS t ADD a INT", "ALTER TABLE IF EXISTS ONLY t ADD a INT",
    "ALTER TABLE t ON CLUSTER c ADD a INT", "ALTER TABLE t ON ADD a INT", "ALTER TABLE t ON CLUSTER ADD a INT", "ALTER TABLE t ADD a INT, DROP b", "ALTER TABLE t ADD a INT,", "ALTER TABLE t ADD a INT, ;", "ALTER TABLE t ADD a INT,, DROP b",
    "ALTER TABLE t , ADD a INT", "ALTER TABLE t ADD a INT DROP b", "ALTER TABLE t ADD a INT, from", "ALTER TABLE t ADD a INT, where", "ALTER TABLE t ADD a INT, SET LOCATION 'x'", "ALTER TABLE t ADD a INT SET LOCATION 'x'", "ALTER TABLE t ADD a INT LOCATION 'x'",
    "ALTER TABLE t ADD a INT SET", "ALTER TABLE t DROP a LOCATION", "ALTER TABLE t ADD a INT; ALTER TABLE t DROP a", "ALTER TABLE t ADD a INT ALTER TABLE t DROP a", "ALTER TABLE t ADD a INT END", "ALTER TABLE t DROP a;;", "ALTER TABLE t ADD a INT x",
    "ALTER TABLE t ADD a INT, b INT", "ALTER TABLE t ADD (a INT, b INT)", "ALTER TABLE t ADD a INT DEFAULT 1, ADD b INT", "ALTER TABLE t ADD a INT DEFAULT 1,", "ALTER TABLE t ADD a DECIMAL(10,2), DROP b", "ALTER TABLE t ADD a foo(1, 2), DROP b",
    "ALTER TABLE t ALTER a SET DEFAULT 1, ALTER b SET DEFAULT 2", "ALTER TABLE t ALTER a SET DEFAULT 1,", "ALTER TABLE t ALTER a SET DEFAULT a IN (1, 2,), DROP b", "ALTER VIEW v AS SELECT 1", "ALTER VIEW v (a) AS SELECT 1", "ALTER INDEX i RENAME TO j",
    "ALTER ROLE r RENAME TO s", "ALTER POLICY p ON t RENAME TO q", "ALTER SCHEMA s", "ALTER view", "ALTER x", "ALTER 1",
    "TRUNCATE", "TRUNCATE t", "TRUNCATE TABLE", "TRUNCATE TABLE t", "TRUNCATE TABLE TABLE", "TRUNCATE TABLE table", "TRUNCATE table", "TRUNCATE ONLY t", "TRUNCATE TABLE ONLY t", "TRUNCATE ONLY TABLE t", "TRUNCATE ONLY", "TRUNCATE only",
    "TRUNCATE TABLE ONLY ONLY", "TRUNCATE t, u", "TRUNCATE TABLE s.t, \"U\", a.b.c", "TRUNCATE t,", "TRUNCATE t, ;", "TRUNCATE t,, u", "TRUNCATE , t", "TRUNCATE t u", "TRUNCATE 1", "TRUNCATE 't'", "TRUNCATE t.", "TRUNCATE `s.t`", "TRUNCATE (t)",
    "TRUNCATE t PARTITION (a = 1)", "TRUNCATE t PARTITION", "TRUNCATE TABLE t PARTITION (a = 1, b = 2)", "TRUNCATE t partition", "TRUNCATE t RESTART IDENTITY", "TRUNCATE t CONTINUE IDENTITY", "TRUNCATE t RESTART", "TRUNCATE t CONTINUE",
    "TRUNCATE t RESTART IDENTITY CONTINUE IDENTITY", "TRUNCATE t RESTART IDENTITY CASCADE", "TRUNCATE t CONTINUE IDENTITY RESTRICT", "TRUNCATE t CASCADE", "TRUNCATE t RESTRICT", "TRUNCATE t CASCADE RESTRICT", "TRUNCATE t RESTRICT CASCADE",
    "TRUNCATE t CASCADE RESTART IDENTITY", "TRUNCATE TABLE ONLY t, u RESTART IDENTITY CASCADE", "TRUNCATE t, RESTART IDENTITY", "TRUNCATE t, CASCADE", "TRUNCATE t, restart", "TRUNCATE t ON CLUSTER c", "TRUNCATE t ON CLUSTER", "TRUNCATE t ON",
    "TRUNCATE t CASCADE ON CLUSTER c", "TRUNCATE t PARTITION (a = 1) ON CLUSTER c", "TRUNCATE t; TRUNCATE u", "TRUNCATE t TRUNCATE u", "TRUNCATE t END", "TRUNCATE t;;", "TRUNCATE cascade", "TRUNCATE cascade CASCADE", "TRUNCATE restart IDENTITY",
    "DROP", "DROP VIEW", "DROP VIEW v", "DROP VIEW IF EXISTS v", "DROP VIEW IF v", "DROP VIEW if", "DROP VIEW v, w", "DROP VIEW v,", "DROP VIEW v, ;", "DROP VIEW v,, w", "DROP VIEW v w", "DROP VIEW s.v, \"W\" CASCADE", "DROP VIEW v CASCADE RESTRICT",
    "DROP VIEW v RESTRICT", "DROP VIEW v PURGE", "DROP VIEW v CASCADE PURGE", "DROP VIEW v PURGE CASCADE", "DROP VIEW VIEW", "DROP VIEW view", "DROP VIEW TABLE t", "DROP VIEW 1", "DROP VIEW `a.b`", "DROP INDEX i", "DROP INDEX IF EXISTS i, s.j RESTRICT",
    "DROP INDEX i ON t", "DROP INDEX CONCURRENTLY i", "DROP SCHEMA s", "DROP SCHEMA s CASCADE", "DROP SCHEMA IF EXISTS a, b", "DROP DATABASE d", "DROP DATABASE IF EXISTS d", "DROP SEQUENCE q", "DROP SEQUENCE IF EXISTS q, r CASCADE", "DROP STAGE g",
    "DROP STAGE IF EXISTS g", "DROP TYPE y", "DROP TYPE IF EXISTS y CASCADE", "DROP ROLE r", "DROP ROLE IF EXISTS r, s", "DROP ROLE r CASCADE", "DROP ROLE r RESTRICT", "DROP ROLE r PURGE", "DROP ROLE r CASCADE RESTRICT", "DROP ROLE r,",
    "DROP role", "DROP ROLE role CASCADE", "DROP TEMPORARY VIEW v", "DROP TEMPORARY TABLE t", "DROP PERSISTENT VIEW v", "DROP TEMPORARY", "DROP FUNCTION f", "DROP POLICY p ON t", "DROP PROCEDURE p", "DROP SECRET s", "DROP TRIGGER g ON t",
    "DROP TABLE t", "DROP TABLE IF EXISTS a, s.b CASCADE", "DROP x", "DROP 1", "DROP VIEW v; DROP INDEX i", "DROP VIEW v DROP INDEX i", "DROP VIEW v END", "DROP SCHEMA s;;", ";;DROP VIEW v", "DROP VIEW v;;DROP TABLE t",
    "CREATE TABLE t (a INT)", "CREATE TABLE t (a INT); CREATE INDEX i ON t (a)", "INSERT INTO t VALUES (1); TRUNCATE t", "SELECT 1; ALTER TABLE t ADD a INT", "UPDATE t SET a = 1; DROP VIEW v", "DELETE FROM t; CREATE VIEW v AS SELECT 1",
    "CREATE SCHEMA s", "CREATE DATABASE d", "CREATE ROLE r", "CREATE SEQUENCE q", "CREATE TYPE y AS (a INT)", "CREATE FUNCTION f() RETURNS INT", "CREATE EXTENSION e", "CREATE VIRTUAL TABLE t USING m", "CREATE STAGE g", "CREATE TEMP STAGE g",
    "CREATE OR REPLACE STAGE g", "CREATE OR REPLACE TABLE t (a INT)", "CREATE EXTERNAL TABLE t (a INT) STORED AS TEXTFILE LOCATION 'x'", "CREATE MACRO m(a) AS a", "CREATE SECRET s (TYPE x)", "CREATE TRIGGER g BEFORE INSERT ON t EXECUTE FUNCTION f()",
    "CREATE POLICY p ON t", "CREATE PROCEDURE p AS BEGIN SELECT 1 END", "MERGE INTO t USING u ON a WHEN MATCHED THEN DELETE", "COMMIT", "a", "1", "(", ")", ";;", "END", "COMMENT ON TABLE t IS 'x'", "LOCK TABLES t READ", "REPLACE INTO t VALUES (1)",
];

const BASES: &[&str] = &[
    "CREATE OR REPLACE TEMPORARY VIEW s.v (a, \"B\", c) AS SELECT x, t.* FROM u AS w LEFT JOIN z ON w.a = z.a WHERE y IS NULL UNION ALL SELECT 1, 2 ORDER BY 1 LIMIT 3",
    "CREATE MATERIALIZED VIEW IF NOT EXISTS v AS VALUES (1, 'a'), (2, 'b') ORDER BY 1 DESC; DROP VIEW IF EXISTS v, s.w CASCADE",
    "CREATE UNIQUE INDEX CONCURRENTLY IF NOT EXISTS s.i ON s.t USING btree (a ASC, b + 1 DESC NULLS LAST, \"C\") INCLUDE (d, e) NULLS NOT DISTINCT WHERE a > 1 AND b IS NULL",
    "CREATE INDEX ON t (a, b NULLS FIRST) INCLUDE (c) WHERE d; TRUNCATE TABLE ONLY t, s.u RESTART IDENTITY CASCADE",
    "ALTER TABLE IF EXISTS ONLY s.t ADD COLUMN IF NOT EXISTS a INT NOT NULL DEFAULT 1, ADD b VARCHAR(10) REFERENCES u (id), DROP COLUMN IF EXISTS c CASCADE, RENAME COLUMN d TO e, ALTER COLUMN f SET DEFAULT a + 1, ALTER g DROP NOT NULL, RENAME TO s.w",
    "ALTER TABLE t ALTER COLUMN a SET NOT NULL, ALTER b DROP DEFAULT, DROP c, RENAME x TO y, ADD COLUMN z DECIMAL(10,2) CHECK (z > 0) UNIQUE COMMENT 'it''s'; SELECT 1",
    "TRUNCATE t, \"U\", a.b.c CONTINUE IDENTITY RESTRICT; DROP SCHEMA IF EXISTS a, b RESTRICT; DROP SEQUENCE q PURGE; DROP ROLE r",
];

const LIMITED: &[&str] = &[
    "CREATE VIEW v AS SELECT 1", "CREATE VIEW v AS SELECT (a)", "CREATE VIEW v AS (SELECT 1)", "CREATE VIEW v AS SELECT * FROM (SELECT 1) AS d", "CREATE VIEW v AS VALUES ((1))", "CREATE INDEX i ON t (a)", "CREATE INDEX i ON t ((a))",
    "CREATE INDEX i ON t (a) WHERE (b)", "ALTER TABLE t ADD a INT", "ALTER TABLE t ADD a INT DEFAULT (1)", "ALTER TABLE t ALTER a SET DEFAULT ((1))", "ALTER TABLE t DROP a", "TRUNCATE t", "DROP VIEW v", "DROP VIEW v; DROP INDEX i",
    "ALTER TABLE t ADD a INT CHECK ((a))", "CREATE VIEW v (a INT) AS SELECT 1",
];

// ---------------------------------------------------------------- random grammar
fn rand_name(rng: &mut Rng) -> &'static str {
    ["t", "t", "s.t", "\"T\"", "a.b.c", "v"][rng.below(6)]
}

fn rand_expr(rng: &mut Rng) -> String {
    if rng.chance(1, 30) {
        rng.pick(EXPR_PROBES).to_string()
    } else {
        rng.pick(EXPRS).to_string()
    }
}

fn rand_view(rng: &mut Rng) -> String {
    let mut s = String::from("CREATE ");
    if rng.chance(1, 4) {
        s.push_str("OR REPLACE ");
    }
    if rng.chance(1, 6) {
        s.push_str(["TEMP ", "TEMPORARY "][rng.below(2)]);
    }
    if rng.chance(1, 4) {
        s.push_str("MATERIALIZED ");
    }
    s.push_str("VIEW ");
    if rng.chance(1, 5) {
        s.push_str("IF NOT EXISTS ");
    }
    s.push_str(rand_name(rng));
    let cols = *rng.pick(VIEW_COLS);
    if !cols.is_empty() {
        s.push(' ');
        s.push_str(cols);
    }
    if rng.chance(1, 25) {
        s.push(' ');
        s.push_str(*rng.pick(VIEW_OPTS));
    }
    s.push_str(" AS ");
    if rng.chance(1, 25) {
        s.push_str(*rng.pick(QUERY_PROBES));
    } else {
        s.push_str(*rng.pick(QUERIES));
    }
    if rng.chance(1, 40) {
        s.push_str(" WITH NO SCHEMA BINDING");
    }
    s
}

fn rand_index(rng: &mut Rng) -> String {
    let mut s = String::from("CREATE ");
    if rng.chance(1, 20) {
        s.push_str("TEMP ");
    }
    if rng.chance(1, 3) {
        s.push_str("UNIQUE ");
    }
    s.push_str("INDEX ");
    if rng.chance(1, 6) {
        s.push_str("CONCURRENTLY ");
    }
    let ine = rng.chance(1, 5);
    if ine {
        s.push_str("IF NOT EXISTS ");
    }
    if ine || rng.chance(4, 5) {
        s.push_str(["i", "s.i", "\"I\"", "idx"][rng.below(4)]);
        s.push(' ');
    }
    s.push_str("ON ");
    s.push_str(rand_name(rng));
    let u = *rng.pick(USINGS);
    if !u.is_empty() {
        s.push(' ');
        s.push_str(u);
    }
    let n = 1 + rng.below(3);
    let cols: Vec<String> = (0..n)
        .map(|_| if rng.chance(1, 30) { rng.pick(INDEX_COL_PROBES).to_string() } else if rng.chance(1, 8) { rand_expr(rng) } else { rng.pick(INDEX_COLS).to_string() })
        .collect();
    s.push_str(&format!(" ({})", cols.join(", ")));
    for part in [*rng.pick(INCLUDES), *rng.pick(NULLSD)] {
        if !part.is_empty() {
            s.push(' ');
            s.push_str(part);
        }
    }
    if rng.chance(1, 40) {
        s.push_str(" WITH (fillfactor = 70)");
    }
    if rng.chance(1, 4) {
        s.push_str(" WHERE ");
        s.push_str(&rand_expr(rng));
    }
    s
}

fn rand_coldef(rng: &mut Rng) -> String {
    let name = *rng.pick(IDENTS);
    let ty = if rng.chance(1, 30) { *rng.pick(TYPE_PROBES) } else { *rng.pick(TYPES) };
    let mut s = format!("{name} {ty}");
    for _ in 0..[0, 0, 0, 1, 1, 2][rng.below(6)] {
        s.push(' ');
        s.push_str(if rng.chance(1, 25) { *rng.pick(OPT_PROBES) } else { *rng.pick(OPTS_OK) });
    }
    s
}

fn rand_op(rng: &mut Rng) -> String {
    if rng.chance(1, 25) {
        return rng.pick(OP_PROBES).to_string();
    }
    match rng.below(12) {
        0..=3 => format!(
            "ADD {}{}{}",
            if rng.chance(1, 8) { "IF NOT EXISTS " } else { "" },
            if rng.chance(1, 2) { "COLUMN " } else { "" },
            if rng.chance(1, 6) { format!("IF NOT EXISTS {}", rand_coldef(rng)) } else { rand_coldef(rng) }
        ),
        4 | 5 => format!(
            "DROP {}{}{}{}",
            if rng.chance(1, 2) { "COLUMN " } else { "" },
            if rng.chance(1, 4) { "IF EXISTS " } else { "" },
            rng.pick(IDENTS),
            if rng.chance(1, 4) { " CASCADE" } else { "" }
        ),
        6 => format!("RENAME {}{} TO {}", if rng.chance(1, 2) { "COLUMN " } else { "" }, rng.pick(IDENTS), rng.pick(IDENTS)),
        7 => format!("RENAME TO {}", rand_name(rng)),
        8 => format!("DROP PRIMARY KEY {}", if rng.chance(1, 2) { rng.pick(IDENTS) } else { &"" }),
        _ => format!(
            "ALTER {}{} {}",
            if rng.chance(1, 2) { "COLUMN " } else { "" },
            rng.pick(IDENTS),
            match rng.below(5) {
                0 => "SET NOT NULL".to_string(),
                1 => "DROP NOT NULL".to_string(),
                2 | 3 => format!("SET DEFAULT {}", rand_expr(rng)),
                _ => "DROP DEFAULT".to_string(),
            }
        ),
    }
}

fn rand_alter(rng: &mut Rng) -> String {
    let n = 1 + [0, 0, 0, 1, 1, 2, 3][rng.below(7)];
    let mut s = format!("{} {} {}", rng.pick(ALTER_HEADS), rand_name(rng), (0..n).map(|_| rand_op(rng)).collect::<Vec<_>>().join(", "));
    if rng.chance(1, 40) {
        s.push_str([" SET LOCATION 'x'", " LOCATION 'x'", ","][rng.below(3)]);
    }
    s
}

fn rand_truncate(rng: &mut Rng) -> String {
    let n = 1 + rng.below(3);
    format!(
        "TRUNCATE {}{}{}{}{}{}",
        if rng.chance(1, 2) { "TABLE " } else { "" },
        if rng.chance(1, 5) { "ONLY " } else { "" },
        (0..n).map(|_| rand_name(rng)).collect::<Vec<_>>().join(", "),
        ["", "", "", " RESTART IDENTITY", " CONTINUE IDENTITY"][rng.below(5)],
        ["", "", "", " CASCADE", " RESTRICT"][rng.below(5)],
        if rng.chance(1, 30) { [" PARTITION (a = 1)", " ON CLUSTER c"][rng.below(2)] } else { "" }
    )
}

fn rand_dropobj(rng: &mut Rng) -> String {
    let n = 1 + rng.below(3);
    format!(
        "DROP {} {}{}{}",
        rng.pick(DROP_KINDS),
        if rng.chance(1, 3) { "IF EXISTS " } else { "" },
        (0..n).map(|_| rand_name(rng)).collect::<Vec<_>>().join(", "),
        ["", "", "", " CASCADE", " RESTRICT", " PURGE", " CASCADE PURGE", " RESTRICT PURGE", " CASCADE RESTRICT"][rng.below(9)]
    )
}

fn rand_stmt(rng: &mut Rng) -> String {
    match rng.below(100) {
        0..=24 => rand_view(rng),
        25..=49 => rand_index(rng),
        50..=79 => rand_alter(rng),
        80..=86 => rand_truncate(rng),
        87..=93 => rand_dropobj(rng),
        94 => "INSERT INTO t (a) VALUES (1)".into(),
        95 => "UPDATE t SET a = 1 WHERE b".into(),
        96 => "DELETE FROM t WHERE a".into(),
        97 => format!("CREATE TABLE {} ({})", rand_name(rng), rand_coldef(rng)),
        98 => "DROP TABLE t".into(),
        _ => rng.pick(QUERIES).to_string(),
    }
}

fn rand_script(rng: &mut Rng) -> String {
    if rng.chance(4, 5) {
        return rand_stmt(rng);
    }
    let n = 2 + rng.below(2);
    let mut s = String::new();
    if rng.chance(1, 8) {
        s.push_str("; ");
    }
    for i in 0..n {
        if i > 0 {
            s.push_str(match rng.below(12) {
                0 => " ;; ",
                1 => " ",
                2 => " END ",
                _ => "; ",
            });
        }
        s.push_str(&rand_stmt(rng));
    }
    if rng.chance(1, 4) {
        s.push_str([";", ";;", " END", "; END"][rng.below(4)]);
    }
    s
}

fn kw_at(toks: &[Token], i: usize) -> Option<Keyword> {
    match toks.get(i) {
        Some(Token::Word(w)) if w.quote_style.is_none() => Some(w.keyword),
        _ => None,
    }
}

/// the corpus text starts with CREATE … VIEW / CREATE … INDEX / ALTER / TRUNCATE / DROP
fn corpus_wanted(toks: &[Token]) -> bool {
    match kw_at(toks, 0) {
        Some(Keyword::ALTER | Keyword::TRUNCATE | Keyword::DROP) => true,
        Some(Keyword::CREATE) => (1..6).any(|i| matches!(kw_at(toks, i), Some(Keyword::VIEW | Keyword::INDEX))) && !(1..4).any(|i| kw_at(toks, i) == Some(Keyword::TABLE)),
        _ => false,
    }
}

/// request `ddl \t dialect \t tc \t limit \t tokens`;
/// answer `OK <sexp>;<sexp>… TEXT <hex>` | `ERR:rle` | `ERR:syntax` | `UNSUPPORTED`
pub fn corr(dir: &str, seed: u64, tier: &str) -> Report {
    let mut r = Report::new("C11", "corr.ddl", "parse_statements on token lists of the second modelled statement fragment (CREATE VIEW, CREATE INDEX, ALTER TABLE with ADD / DROP / RENAME / ALTER COLUMN operations, TRUNCATE, DROP VIEW|INDEX|ROLE|SCHEMA|DATABASE|SEQUENCE|STAGE|TYPE, and through the first fragment INSERT / UPDATE / DELETE / CREATE TABLE / DROP TABLE / queries, scripts) under (dialect, trailing_commas, recursion limit): S-expression of every statement and to_string() text, errors as classes. Deterministic: ~800 probes, one for every branch of parse_create (prefix keywords) / parse_create_view / parse_view_columns / parse_view_column / parse_create_index / parse_alter / parse_alter_table_operation / parse_truncate / parse_drop that stays in or leaves the fragment, x option on/off; view prefix x name x column list x query; index head (UNIQUE, CONCURRENTLY, IF NOT EXISTS, name) x USING x column lists x INCLUDE x NULLS [NOT] DISTINCT x WHERE; every ALTER TABLE operation alone under every head, every ordered pair of operations, every operation probe; column definitions: every data type of the list, every column option alone and every ordered pair; TRUNCATE heads x name lists x identity x cascade; DROP kinds x IF EXISTS x CASCADE/RESTRICT/PURGE arrangements; scripts with every separator shape; trailing commas at every list end x option; 7 base scripts with every truncation and single-token drop (thorough: adjacent swaps, duplicated tokens); recursion limits 0..6 on 17 small statements; every corpus text starting with CREATE VIEW / CREATE INDEX / ALTER / TRUNCATE / DROP (default option value and its negation). Seeded: random statements / scripts from a weighted grammar with token swap / drop / truncation / duplication and small recursion limits. All 13 dialects; non-trivial = distinct (dialect, answer tree)");
    let thorough = tier == "thorough";
    let mut s = St {
        req: std::io::BufWriter::new(std::fs::File::create(format!("{dir}/ddl.req")).unwrap()),
        real: std::io::BufWriter::new(std::fs::File::create(format!("{dir}/ddl.real")).unwrap()),
        txt: std::env::var("VERIF_DDL_TXT").ok().map(|p| std::io::BufWriter::new(std::fs::File::create(p).unwrap())),
        r: &mut r,
        distinct: BTreeSet::new(),
        seen: BTreeSet::new(),
    };
    let mut rng = Rng(seed ^ 0xDD1);
    let lim = 50usize;
    let corpus = load_corpus();
    for (k, (dn, d)) in all_dialects().into_iter().enumerate() {
        let d = d.as_ref();
        // ---- probes and odd inputs, both option values
        for p in PROBES {
            s.sql2(dn, d, lim, p, "probe");
        }
        // ---- CREATE VIEW
        let prefixes = ["", "OR REPLACE ", "TEMPORARY ", "MATERIALIZED ", "OR REPLACE MATERIALIZED ", "OR REPLACE TEMP "];
        for (i, pre) in prefixes.iter().enumerate() {
            for (j, n) in NAMES.iter().enumerate() {
                for (l, cols) in VIEW_COLS[1..].iter().enumerate() {
                    let q = QUERIES[(i + 2 * j + 3 * l) % QUERIES.len()];
                    let ine = if (i + j + l) % 3 == 0 { "IF NOT EXISTS " } else { "" };
                    s.sql(dn, d, (i + j + l) % 2 == 0, lim, &format!("CREATE {pre}VIEW {ine}{n} {cols} AS {q}"), "view");
                }
            }
        }
        for q in QUERIES.iter().chain(QUERY_PROBES.iter()) {
            s.sql2(dn, d, lim, &format!("CREATE VIEW v AS {q}"), "view.query");
            s.sql(dn, d, false, lim, &format!("CREATE OR REPLACE VIEW s.v (a, b) AS {q}"), "view.query");
        }
        for o in VIEW_OPTS {
            s.sql2(dn, d, lim, &format!("CREATE VIEW v {o} AS SELECT 1"), "view.opt");
            s.sql(dn, d, false, lim, &format!("CREATE MATERIALIZED VIEW v (a) {o} AS SELECT 1"), "view.opt");
        }
        for (i, t) in TYPES.iter().chain(TYPE_PROBES.iter()).enumerate() {
            s.sql(dn, d, i % 2 == 0, lim, &format!("CREATE VIEW v (a {t}, b {t}) AS SELECT 1"), "view.type");
        }
        // ---- CREATE INDEX
        let iheads = ["INDEX i", "UNIQUE INDEX i", "INDEX", "INDEX CONCURRENTLY i", "INDEX IF NOT EXISTS s.i", "UNIQUE INDEX CONCURRENTLY IF NOT EXISTS i", "INDEX CONCURRENTLY"];
        for (i, h) in iheads.iter().enumerate() {
            for (j, u) in USINGS.iter().enumerate() {
                for (l, inc) in INCLUDES[2..].iter().enumerate() {
                    for (m, nd) in NULLSD[2..].iter().enumerate() {
                        let n = NAMES[(i + j + l + m) % NAMES.len()];
                        let c1 = INDEX_COLS[(i + 3 * j + l + 5 * m) % INDEX_COLS.len()];
                        let c2 = INDEX_COLS[(2 * i + j + 3 * l + m + 1) % INDEX_COLS.len()];
                        let w = ["", "", "WHERE a > 1", "WHERE b IS NULL AND c"][(i + j + l + m) % 4];
                        s.sql(dn, d, (i + j + l + m) % 2 == 0, lim, &format!("CREATE {h} ON {n} {u} ({c1}, {c2}) {inc} {nd} {w}"), "index");
                    }
                }
            }
        }
        for c in INDEX_COLS.iter().chain(INDEX_COL_PROBES.iter()).chain(EXPRS.iter()).chain(EXPR_PROBES.iter()) {
            s.sql2(dn, d, lim, &format!("CREATE INDEX i ON t ({c})"), "index.col");
            s.sql(dn, d, false, lim, &format!("CREATE UNIQUE INDEX ON t (x, {c}) WHERE {c}"), "index.col");
        }
        // ---- ALTER TABLE
        for (i, h) in ALTER_HEADS[1..].iter().enumerate() {
            for (j, n) in NAMES.iter().enumerate() {
                for (l, op) in OPS_OK.iter().enumerate() {
                    if (i + j + l + k) % 3 == 0 || thorough {
                        s.sql(dn, d, (i + j + l) % 2 == 0, lim, &format!("{h} {n} {op}"), "alter");
                    }
                }
            }
        }
        for op in OPS_OK.iter().chain(OP_PROBES.iter()) {
            s.sql2(dn, d, lim, &format!("ALTER TABLE t {op}"), "alter.op");
            s.sql(dn, d, false, lim, &format!("ALTER TABLE t {op}, DROP z"), "alter.op");
            s.sql(dn, d, true, lim, &format!("ALTER TABLE t RENAME x TO y, {op}"), "alter.op");
        }
        for (i, o1) in OPS_OK.iter().enumerate() {
            for (j, o2) in OPS_OK.iter().enumerate() {
                s.sql(dn, d, (i + j) % 2 == 0, lim, &format!("ALTER TABLE t {o1}, {o2}"), "alter.op2");
            }
            for (j, p) in OP_PROBES.iter().enumerate() {
                if (i + j + k) % 11 == 0 || thorough {
                    s.sql(dn, d, false, lim, &format!("ALTER TABLE t {o1}, {p}"), "alter.opprobe");
                }
            }
        }
        for (i, t) in TYPES.iter().chain(TYPE_PROBES.iter()).enumerate() {
            s.sql2(dn, d, lim, &format!("ALTER TABLE t ADD a {t}"), "alter.type");
            s.sql(dn, d, i % 2 == 0, lim, &format!("ALTER TABLE t ADD COLUMN a {t} NOT NULL, ADD b {t}"), "alter.type");
        }
        for o in OPTS_OK.iter().chain(OPT_PROBES.iter()) {
            s.sql2(dn, d, lim, &format!("ALTER TABLE t ADD a INT {o}"), "alter.opt");
            s.sql(dn, d, false, lim, &format!("ALTER TABLE t ADD COLUMN a INT {o}, ADD b TEXT {o}"), "alter.opt");
            s.sql(dn, d, true, lim, &format!("ALTER TABLE t ADD a {o}"), "alter.opt");
        }
        for (i, o1) in OPTS_OK.iter().enumerate() {
            for (j, o2) in OPTS_OK.iter().enumerate() {
                if i != j {
                    s.sql(dn, d, (i + j) % 2 == 0, lim, &format!("ALTER TABLE t ADD a INT {o1} {o2}"), "alter.opt2");
                }
            }
        }
        for e in EXPRS.iter().chain(EXPR_PROBES.iter()) {
            s.sql(dn, d, false, lim, &format!("ALTER TABLE t ALTER a SET DEFAULT {e}, ALTER COLUMN b SET DEFAULT {e}"), "alter.expr");
            s.sql(dn, d, true, lim, &format!("ALTER TABLE t ADD a INT DEFAULT {e}, ALTER b SET DEFAULT {e}"), "alter.expr");
        }
        // ---- TRUNCATE
        for th in ["TRUNCATE", "TRUNCATE TABLE", "TRUNCATE ONLY", "TRUNCATE TABLE ONLY"] {
            for names in ["t", "t, s.u", "\"T\"", "a.b.c, d, e"] {
                for idn in ["", "RESTART IDENTITY", "CONTINUE IDENTITY"] {
                    for ca in ["", "CASCADE", "RESTRICT"] {
                        s.sql2(dn, d, lim, &format!("{th} {names} {idn} {ca}"), "truncate");
                    }
                }
            }
        }
        // ---- DROP <kind>
        let kws = ["CASCADE", "RESTRICT", "PURGE"];
        for (i, kind) in DROP_KINDS.iter().enumerate() {
            for ie in ["", "IF EXISTS "] {
                for (j, names) in ["a", "a, s.b", "\"T\"", "a.b.c, d, e"].iter().enumerate() {
                    for (l, arr) in crate_arrangements(3, 3).iter().enumerate() {
                        if (i + j + l) % 2 == 0 || thorough {
                            let tail = arr.iter().map(|&i| kws[i]).collect::<Vec<_>>().join(" ");
                            s.sql2(dn, d, lim, &format!("DROP {kind} {ie}{names} {tail}"), "drop");
                        }
                    }
                }
            }
        }
        // ---- scripts
        let unit = [
            "CREATE VIEW v AS SELECT 1", "CREATE VIEW v (a) AS VALUES (1)", "CREATE INDEX i ON t (a)", "CREATE UNIQUE INDEX ON t (a) WHERE b", "ALTER TABLE t ADD a INT", "ALTER TABLE t DROP a, RENAME TO u", "ALTER TABLE t ALTER a SET DEFAULT 1",
            "TRUNCATE t", "TRUNCATE TABLE t, u", "DROP VIEW v", "DROP INDEX i CASCADE", "INSERT INTO t VALUES (1)", "CREATE TABLE t (a INT)", "SELECT 1",
        ];
        let seps = ["; ", " ;; ", " ", " END ", " ; END ; "];
        for (i, a) in unit.iter().enumerate() {
            for (j, c) in unit.iter().enumerate() {
                let sep = seps[(i + 2 * j) % seps.len()];
                if sep == "; " || (i + j + k) % 3 == 0 || thorough {
                    s.sql(dn, d, (i + j) % 2 == 0, lim, &format!("{a}{sep}{c}"), "script.two");
                }
            }
            for sep in seps {
                s.sql(dn, d, false, lim, &format!("{a}{sep}{}", unit[(i + 5) % unit.len()]), "script.sep");
            }
            s.sql2(dn, d, lim, &format!(";{a};"), "script.edge");
            s.sql(dn, d, false, lim, &format!("{a}; {}; {};", unit[(i + 3) % unit.len()], unit[(i + 7) % unit.len()]), "script.three");
            s.sql(dn, d, false, lim, &format!("{a} END"), "script.edge");
            s.sql(dn, d, false, lim, &format!("{a};;"), "script.edge");
        }
        // ---- truncations and single-token drops of base scripts
        for (bi, bs) in BASES.iter().enumerate() {
            if let Some(toks) = lex_nows(d, bs) {
                s.emit(dn, d, false, lim, &toks, "base");
                s.emit(dn, d, true, lim, &toks, "base");
                for i in 0..toks.len() {
                    s.emit(dn, d, (i + bi) % 2 == 0, lim, &toks[..i], "truncated");
                    let mut t = toks.clone();
                    t.remove(i);
                    s.emit(dn, d, (i + bi) % 2 == 1, lim, &t, "dropped");
                    let mut t = toks.clone();
                    t.insert(i, toks[i].clone());
                    s.emit(dn, d, i % 2 == 1, lim, &t, "duplicated");
                    if thorough && i + 1 < toks.len() {
                        let mut t = toks.clone();
                        t.swap(i, i + 1);
                        s.emit(dn, d, i % 2 == 0, lim, &t, "swapped");
                    }
                }
            }
        }
        // ---- recursion limits
        for limit in 0usize..=6 {
            for q in LIMITED {
                s.sql(dn, d, false, limit, q, "limit");
            }
        }
        // ---- corpus texts of the statement kinds of the fragment
        for &(i, kk) in &corpus.accepted {
            if kk != k {
                continue;
            }
            let text = &corpus.literals[i];
            if let Some(toks) = lex_nows(d, text) {
                if toks.len() > 400 || !corpus_wanted(&toks) {
                    continue;
                }
                let dflt = d.supports_trailing_commas();
                let a = s.emit(dn, d, dflt, lim, &toks, "corpus");
                s.emit(dn, d, !dflt, lim, &toks, "corpus");
                if a.starts_with("OK") {
                    s.r.count("corpus/inside");
                } else if !a.is_empty() {
                    s.r.count("corpus/outside");
                }
            }
        }
        // ---- random statements and scripts
        let nrand = if thorough { 10000 } else { 1500 };
        for n in 0..nrand {
            let q = rand_script(&mut rng);
            let tc = rng.chance(1, 2);
            if let Some(toks) = s.sql(dn, d, tc, lim, &q, "random") {
                if n % 4 == 0 && toks.len() > 1 {
                    let i = rng.below(toks.len());
                    let j = rng.below(toks.len());
                    let mut t = toks.clone();
                    t.swap(i, j);
                    s.emit(dn, d, tc, lim, &t, "random.swapped");
                    let mut t = toks.clone();
                    t.remove(i);
                    s.emit(dn, d, tc, lim, &t, "random.dropped");
                    s.emit(dn, d, tc, lim, &toks[..i], "random.truncated");
                    let mut t = toks.clone();
                    t.insert(j, toks[j].clone());
                    s.emit(dn, d, tc, lim, &t, "random.duplicated");
                    let small = 2 + rng.below(7);
                    s.emit(dn, d, tc, small, &toks, "random.limit");
                }
            }
        }
    }
    let distinct = s.distinct.len() as u64;
    s.req.flush().unwrap();
    s.real.flush().unwrap();
    if let Some(t) = &mut s.txt {
        t.flush().unwrap();
    }
    drop(s);
    r.distinct_nontrivial = distinct;
    r
}

/// all sequences without repetition of at most `k` of `n` indices
fn crate_arrangements(n: usize, k: usize) -> Vec<Vec<usize>> {
    let mut out = vec![vec![]];
    let mut frontier: Vec<Vec<usize>> = vec![vec![]];
    for _ in 0..k {
        let mut next = vec![];
        for p in &frontier {
            for i in 0..n {
                if !p.contains(&i) {
                    let mut q: Vec<usize> = p.clone();
                    q.push(i);
                    next.push(q);
                }
            }
        }
        out.extend(next.iter().cloned());
        frontier = next;
    }
    out
}

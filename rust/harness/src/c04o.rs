//! C04 oracle on the real code only: pure infix chains must group as classic precedence climbing
//! over the binding powers the dialect itself publishes (`get_next_precedence`), left-associative.
use crate::common::*;
use sqlparser::ast::{Expr, SetExpr, Statement};
use sqlparser::dialect::Dialect;
use sqlparser::parser::Parser;
use sqlparser::tokenizer::Token;
use std::collections::BTreeSet;

const OPS: &[&str] = &["+", "-", "*", "/", "%", "||", "=", "==", "<>", "!=", "<", ">", "<=", ">=", "<=>", "AND", "OR", "XOR", "&", "|", "^", "#", "<<", ">>", "//", "->", "->>", "#>", "#>>", "@>", "<@", "#-", "@?", "@@", "?", "?&", "?|", "~", "~*", "!~", "!~*", "~~", "~~*", "!~~", "!~~*", "&&", "^@", "DIV", "<<|", "|>>"];

fn shape(e: &Expr) -> Option<String> {
    match e {
        Expr::BinaryOp { left, right, .. } => Some(format!("({} {})", shape(left)?, shape(right)?)),
        Expr::Identifier(i) => Some(i.value.clone()),
        _ => None,
    }
}

/// binding power the dialect publishes for operator text `op` (as the next token)
fn prec_of(d: &dyn Dialect, op: &str) -> Option<u8> {
    let toks: Vec<Token> = match tokenize(d, true, &format!("{op} x")) { G::Val(Ok(t)) => t.into_iter().map(|t| t.token).filter(|t| !is_ws(t)).collect(), _ => return None };
    match guard(|| Parser::new(d).with_tokens(toks).get_next_precedence()) { G::Val(Ok(p)) => Some(p), _ => None }
}

/// reference: precedence climbing, left-associative, over atoms a0 op0 a1 op1 a2 ...
fn climb(atoms: &[&str], precs: &[u8]) -> String {
    fn go(atoms: &[&str], precs: &[u8], pos: &mut usize, min: u8) -> String {
        let mut left = atoms[*pos].to_string();
        while *pos < precs.len() && precs[*pos] > min {
            let p = precs[*pos];
            *pos += 1;
            let right = go(atoms, precs, pos, p);
            left = format!("({left} {right})");
        }
        left
    }
    let mut pos = 0;
    go(atoms, precs, &mut pos, 0)
}

fn parse_shape(d: &dyn Dialect, sql: &str) -> Option<String> {
    match parse(d, Opts::DEFAULT, sql) {
        G::Val(Ok(v)) if v.len() == 1 => match &v[0] {
            Statement::Query(q) => match &*q.body {
                SetExpr::Select(s) if s.projection.len() == 1 => match &s.projection[0] {
                    sqlparser::ast::SelectItem::UnnamedExpr(e) => shape(e),
                    _ => None,
                },
                _ => None,
            },
            _ => None,
        },
        _ => None,
    }
}

fn stmts_shape(v: &[Statement]) -> Option<String> {
    if v.len() != 1 { return None; }
    match &v[0] {
        Statement::Query(q) => match &*q.body {
            SetExpr::Select(s) if s.projection.len() == 1 => match &s.projection[0] {
                sqlparser::ast::SelectItem::UnnamedExpr(e) => shape(e),
                _ => None,
            },
            _ => None,
        },
        _ => None,
    }
}

/// the same text on a parser OBJECT that has already been used (a failed or a successful parse,
/// then `try_with_sql`): grouping must not depend on what the object saw before
fn parse_shape_reused(d: &dyn Dialect, prev: &str, sql: &str) -> Option<String> {
    match guard(|| {
        let p = mk_parser(d, Opts::DEFAULT);
        let mut p = p.try_with_sql(prev).ok()?;
        let _ = p.parse_statements();
        let mut p = p.try_with_sql(sql).ok()?;
        p.parse_statements().ok()
    }) {
        G::Val(Some(v)) => stmts_shape(&v),
        _ => None,
    }
}

pub fn oracle(seed: u64, tier: &str) -> Vec<Report> {
    let mut r = Report::new("C04", "oracle.infix-climb", "for each dialect, every operator spelling that parses `a OP b` to a plain binary node: ALL ordered pairs and (quick: a seeded third; thorough: all) triples `a o1 b o2 c o3 d` — the real tree's bracketing must equal classic left-associative precedence climbing over the binding powers the dialect publishes through get_next_precedence, on a fresh parser and on a parser object re-targeted with try_with_sql after an earlier (failed or successful) parse; plus set-operation chains over UNION/EXCEPT/INTERSECT (levels 10/10/20). non-trivial = distinct (dialect, operator tuple) with at least two different levels");
    let mut ds = all_dialects();
    // user-defined dialects that publish their own binding powers (everything else forwarded to the
    // generic dialect; `get_next_precedence_default` is the trait's own body): grouping must follow
    // the table the dialect PUBLISHES, whatever its values
    {
        use sqlparser::dialect::Precedence as P;
        fn high_not(p: P, v: u8) -> u8 { if matches!(p, P::UnaryNot) { 35 } else { v } }
        fn and_or_swapped(p: P, v: u8) -> u8 { match p { P::And => 5, P::Or => 10, _ => v } }
        fn low_between_like(p: P, v: u8) -> u8 { match p { P::Between => 12, P::Like => 13, P::Is => 27, _ => v } }
        fn flat_arith(p: P, v: u8) -> u8 { match p { P::MulDivModOp => 30, P::PlusMinus => 40, _ => v } }
        ds.push(("custom-high-not", Box::new(crate::wrap::WrappedPrec(plain_dialect("generic"), high_not))));
        ds.push(("custom-and-or-swapped", Box::new(crate::wrap::WrappedPrec(plain_dialect("generic"), and_or_swapped))));
        ds.push(("custom-low-between-like", Box::new(crate::wrap::WrappedPrec(plain_dialect("generic"), low_between_like))));
        ds.push(("custom-arith-swapped", Box::new(crate::wrap::WrappedPrec(plain_dialect("mysql"), flat_arith))));
    }
    let mut rng = Rng(seed ^ 0xC04);
    let mut distinct = 0u64;
    let atoms = ["a", "b", "c", "d"];
    for (dn, d) in &ds {
        let d = d.as_ref();
        let mut ops: Vec<(&str, u8)> = vec![];
        for op in OPS {
            if parse_shape(d, &format!("SELECT a {op} b")).as_deref() == Some("(a b)") {
                if let Some(p) = prec_of(d, op) { ops.push((op, p)); }
            }
        }
        r.count(&format!("ops/{dn}/{}", ops.len()));
        let mut check = |r: &mut Report, sel: &[(&str, u8)]| {
            let mut sql = String::from("SELECT a");
            for (i, (op, _)) in sel.iter().enumerate() { sql.push_str(&format!(" {op} {}", atoms[i + 1])); }
            let precs: Vec<u8> = sel.iter().map(|x| x.1).collect();
            r.evaluations += 1;
            let want = climb(&atoms[..sel.len() + 1], &precs);
            match parse_shape(d, &sql) {
                Some(got) => {
                    if got != want { r.fail(format!("grouping/{}", sel.iter().map(|x| x.0).collect::<Vec<_>>().join(" ")), dn, Opts::DEFAULT, &sql, format!("got {got}, precedence climbing over {precs:?} gives {want}")); }
                    // and on a used parser object (rotating history)
                    let prevs = ["SELECT a *", "SELECT a +", "SELECT a AND", "SELECT a OR b AND", "SELECT 1", "SELECT a ||"];
                    let prev = prevs[(r.evaluations % prevs.len() as u64) as usize];
                    if let Some(got2) = parse_shape_reused(d, prev, &sql) {
                        if got2 != want { r.fail(format!("grouping-reused/{}", sel.iter().map(|x| x.0).collect::<Vec<_>>().join(" ")), dn, Opts::DEFAULT, &sql, format!("after `{prev}` on the same parser object: got {got2}, precedence climbing over {precs:?} gives {want}")); }
                    }
                }
                None => r.count("not-a-plain-binary-tree"),
            }
        };
        for a in &ops { for b in &ops {
            if a.1 != b.1 { distinct += 1; }
            check(&mut r, &[*a, *b]);
        } }
        for a in &ops { for b in &ops { for c in &ops {
            if tier != "thorough" && !rng.chance(1, 3) { continue; }
            check(&mut r, &[*a, *b, *c]);
        } } }
    }
    // mixfix operands: BETWEEN bounds, LIKE patterns, NOT, unary sign stop at their documented level
    {
        use sqlparser::dialect::Precedence;
        fn mshape(e: &Expr) -> Option<String> {
            match e {
                Expr::BinaryOp { left, right, .. } => Some(format!("({} {})", mshape(left)?, mshape(right)?)),
                Expr::Identifier(i) => Some(i.value.clone()),
                Expr::Between { expr, low, high, .. } => Some(format!("(between {} {} {})", mshape(expr)?, mshape(low)?, mshape(high)?)),
                Expr::Like { expr, pattern, .. } | Expr::ILike { expr, pattern, .. } | Expr::SimilarTo { expr, pattern, .. } => Some(format!("(like {} {})", mshape(expr)?, mshape(pattern)?)),
                Expr::UnaryOp { expr, .. } => Some(format!("(un {})", mshape(expr)?)),
                Expr::IsNull(e) | Expr::IsNotNull(e) | Expr::IsTrue(e) | Expr::IsFalse(e) => Some(format!("(is {})", mshape(e)?)),
                Expr::IsDistinctFrom(a, b) | Expr::IsNotDistinctFrom(a, b) => Some(format!("(isd {} {})", mshape(a)?, mshape(b)?)),
                _ => None,
            }
        }
        fn pshape(d: &dyn Dialect, sql: &str) -> Option<String> {
            match parse(d, Opts::DEFAULT, sql) {
                G::Val(Ok(v)) if v.len() == 1 => match &v[0] {
                    Statement::Query(q) => match &*q.body {
                        SetExpr::Select(s) if s.projection.len() == 1 => match &s.projection[0] { sqlparser::ast::SelectItem::UnnamedExpr(e) => mshape(e), _ => None },
                        _ => None,
                    },
                    _ => None,
                },
                _ => None,
            }
        }
        for (dn, d) in &ds {
            let d = d.as_ref();
            let mut ops: Vec<(&str, u8)> = vec![];
            for op in OPS { if parse_shape(d, &format!("SELECT a {op} b")).as_deref() == Some("(a b)") { if let Some(p) = prec_of(d, op) { ops.push((op, p)); } } }
            let (pb, pl, pn, pm, pis) = (d.prec_value(Precedence::Between), d.prec_value(Precedence::Like), d.prec_value(Precedence::UnaryNot), d.prec_value(Precedence::MulDivModOp), d.prec_value(Precedence::Is));
            for (op, p) in &ops {
                let mut cases: Vec<(String, String)> = vec![];
                // a BETWEEN b AND c OP d : the upper bound absorbs OP iff OP binds tighter than BETWEEN
                cases.push((format!("SELECT a BETWEEN b AND c {op} d"), if *p > pb { "(between a b (c d))".into() } else { "((between a b c) d)".into() }));
                // a BETWEEN b OP c AND d : the lower bound is parsed at BETWEEN's level, so a looser OP is a syntax error (skipped) or absorbed
                if *p > pb { cases.push((format!("SELECT a BETWEEN b {op} c AND d"), "(between a (b c) d)".into())); }
                // a OP b BETWEEN c AND d
                cases.push((format!("SELECT a {op} b BETWEEN c AND d"), if *p >= pb { "(between (a b) c d)".into() } else { "(a (between b c d))".into() }));
                cases.push((format!("SELECT a LIKE b {op} c"), if *p > pl { "(like a (b c))".into() } else { "((like a b) c)".into() }));
                cases.push((format!("SELECT NOT a {op} b"), if *p > pn { "(un (a b))".into() } else { "((un a) b)".into() }));
                cases.push((format!("SELECT - a {op} b"), if *p > pm { "(un (a b))".into() } else { "((un a) b)".into() }));
                cases.push((format!("SELECT a {op} b IS NULL"), if *p >= pis { "(is (a b))".into() } else { "(a (is b))".into() }));
                cases.push((format!("SELECT a IS DISTINCT FROM b {op} c"), if *p > pis { "(isd a (b c))".into() } else { "((isd a b) c)".into() }));
                for (sql, want) in cases {
                    r.evaluations += 1;
                    match pshape(d, &sql) {
                        Some(got) => { if got != want { r.fail(format!("mixfix-grouping/{}", sql.replace("SELECT ", "").replace(op, "OP")), dn, Opts::DEFAULT, &sql, format!("got {got}, the documented operand levels give {want} (prec of `{op}` = {p}; Between {pb}, Like {pl}, UnaryNot {pn}, MulDivMod {pm}, Is {pis})")); } }
                        None => r.count("mixfix/not-parsed-or-outside-shape"),
                    }
                }
            }
        }
    }
    // set operations
    let sops = [("UNION", 10u8), ("EXCEPT", 10), ("INTERSECT", 20), ("UNION ALL", 10), ("INTERSECT ALL", 20)];
    fn sshape(e: &SetExpr) -> String {
        match e { SetExpr::SetOperation { left, right, .. } => format!("({} {})", sshape(left), sshape(right)), SetExpr::Select(s) => s.projection[0].to_string(), _ => "?".into() }
    }
    let d = sqlparser::dialect::GenericDialect {};
    for a in &sops { for b in &sops { for c in &sops {
        let sql = format!("SELECT 1 {} SELECT 2 {} SELECT 3 {} SELECT 4", a.0, b.0, c.0);
        r.evaluations += 1;
        let want = climb(&["1", "2", "3", "4"], &[a.1, b.1, c.1]);
        if let G::Val(Ok(v)) = parse(&d, Opts::DEFAULT, &sql) {
            if let Statement::Query(q) = &v[0] { let got = sshape(&q.body); if got != want { r.fail(format!("set-grouping/{} {} {}", a.0, b.0, c.0), "generic", Opts::DEFAULT, &sql, format!("got {got} want {want}")); } }
        }
    } } }
    r.distinct_nontrivial = distinct;
    r.sample(serde_json::json!({"example": "SELECT a + b * c - d", "expected": climb(&atoms, &[30, 40, 30])}));
    let _ = BTreeSet::<u8>::new();
    vec![r]
}

//! Reflection of any `T: Serialize` into a generic tree through a `serde::Serializer` (what the
//! derived `Serialize` impls announce: struct/enum names, variant index + name, field names in
//! declaration order, containers, primitive payloads), its cross-check against the schema the
//! translator extracted from the source text (`schema.json`), and the linear text encoding used on
//! the line protocol (decoded by lean/Driver/Reflect.lean).
use serde::ser::{self, Serialize};
use std::collections::HashMap;
use std::fmt;

#[derive(Clone, Copy, Debug, PartialEq, Eq)]
pub enum Kind {
    Unit,
    Newtype,
    Tuple,
    Struct,
}
impl Kind {
    pub fn code(self) -> char {
        match self {
            Kind::Unit => 'u',
            Kind::Newtype => 'w',
            Kind::Tuple => 't',
            Kind::Struct => 's',
        }
    }
    fn parse(s: &str) -> Kind {
        match s {
            "unit" => Kind::Unit,
            "newtype" => Kind::Newtype,
            "tuple" => Kind::Tuple,
            _ => Kind::Struct,
        }
    }
}

#[derive(Clone, Debug, PartialEq)]
pub enum Node {
    Unit,
    Bool(bool),
    U(u64),
    I(i64),
    /// bit pattern of an f32/f64 (outside the model)
    F(u64),
    Char(char),
    Str(String),
    Bytes(usize),
    None,
    Some(Box<Node>),
    Seq(Vec<Node>),
    Tuple(Vec<Node>),
    Map(usize),
    /// field names are "" for unnamed fields
    Struct { name: &'static str, kind: Kind, fields: Vec<(&'static str, Node)> },
    Variant { name: &'static str, idx: u32, variant: &'static str, kind: Kind, fields: Vec<(&'static str, Node)> },
}

#[derive(Debug)]
pub struct RErr(String);
impl fmt::Display for RErr {
    fn fmt(&self, f: &mut fmt::Formatter<'_>) -> fmt::Result {
        f.write_str(&self.0)
    }
}
impl std::error::Error for RErr {}
impl ser::Error for RErr {
    fn custom<T: fmt::Display>(msg: T) -> Self {
        RErr(msg.to_string())
    }
}

pub fn reflect<T: Serialize + ?Sized>(x: &T) -> Result<Node, String> {
    x.serialize(R).map_err(|e| e.0)
}

struct R;
pub struct SeqB {
    tuple: bool,
    items: Vec<Node>,
}
pub struct FieldsB {
    name: &'static str,
    variant: Option<(u32, &'static str)>,
    kind: Kind,
    fields: Vec<(&'static str, Node)>,
}
impl FieldsB {
    fn finish(self) -> Node {
        match self.variant {
            None => Node::Struct { name: self.name, kind: self.kind, fields: self.fields },
            Some((idx, variant)) => Node::Variant { name: self.name, idx, variant, kind: self.kind, fields: self.fields },
        }
    }
}
pub struct MapB(usize);

impl ser::Serializer for R {
    type Ok = Node;
    type Error = RErr;
    type SerializeSeq = SeqB;
    type SerializeTuple = SeqB;
    type SerializeTupleStruct = FieldsB;
    type SerializeTupleVariant = FieldsB;
    type SerializeMap = MapB;
    type SerializeStruct = FieldsB;
    type SerializeStructVariant = FieldsB;

    fn serialize_bool(self, v: bool) -> Result<Node, RErr> { Ok(Node::Bool(v)) }
    fn serialize_i8(self, v: i8) -> Result<Node, RErr> { Ok(Node::I(v as i64)) }
    fn serialize_i16(self, v: i16) -> Result<Node, RErr> { Ok(Node::I(v as i64)) }
    fn serialize_i32(self, v: i32) -> Result<Node, RErr> { Ok(Node::I(v as i64)) }
    fn serialize_i64(self, v: i64) -> Result<Node, RErr> { Ok(Node::I(v)) }
    fn serialize_u8(self, v: u8) -> Result<Node, RErr> { Ok(Node::U(v as u64)) }
    fn serialize_u16(self, v: u16) -> Result<Node, RErr> { Ok(Node::U(v as u64)) }
    fn serialize_u32(self, v: u32) -> Result<Node, RErr> { Ok(Node::U(v as u64)) }
    fn serialize_u64(self, v: u64) -> Result<Node, RErr> { Ok(Node::U(v)) }
    fn serialize_f32(self, v: f32) -> Result<Node, RErr> { Ok(Node::F(v.to_bits() as u64)) }
    fn serialize_f64(self, v: f64) -> Result<Node, RErr> { Ok(Node::F(v.to_bits())) }
    fn serialize_char(self, v: char) -> Result<Node, RErr> { Ok(Node::Char(v)) }
    fn serialize_str(self, v: &str) -> Result<Node, RErr> { Ok(Node::Str(v.to_string())) }
    fn serialize_bytes(self, v: &[u8]) -> Result<Node, RErr> { Ok(Node::Bytes(v.len())) }
    fn serialize_none(self) -> Result<Node, RErr> { Ok(Node::None) }
    fn serialize_some<T: Serialize + ?Sized>(self, v: &T) -> Result<Node, RErr> { Ok(Node::Some(Box::new(v.serialize(R)?))) }
    fn serialize_unit(self) -> Result<Node, RErr> { Ok(Node::Unit) }
    fn serialize_unit_struct(self, name: &'static str) -> Result<Node, RErr> {
        Ok(Node::Struct { name, kind: Kind::Unit, fields: vec![] })
    }
    fn serialize_unit_variant(self, name: &'static str, idx: u32, variant: &'static str) -> Result<Node, RErr> {
        Ok(Node::Variant { name, idx, variant, kind: Kind::Unit, fields: vec![] })
    }
    fn serialize_newtype_struct<T: Serialize + ?Sized>(self, name: &'static str, v: &T) -> Result<Node, RErr> {
        Ok(Node::Struct { name, kind: Kind::Newtype, fields: vec![("", v.serialize(R)?)] })
    }
    fn serialize_newtype_variant<T: Serialize + ?Sized>(self, name: &'static str, idx: u32, variant: &'static str, v: &T) -> Result<Node, RErr> {
        Ok(Node::Variant { name, idx, variant, kind: Kind::Newtype, fields: vec![("", v.serialize(R)?)] })
    }
    fn serialize_seq(self, _len: Option<usize>) -> Result<SeqB, RErr> { Ok(SeqB { tuple: false, items: vec![] }) }
    fn serialize_tuple(self, _len: usize) -> Result<SeqB, RErr> { Ok(SeqB { tuple: true, items: vec![] }) }
    fn serialize_tuple_struct(self, name: &'static str, _len: usize) -> Result<FieldsB, RErr> {
        Ok(FieldsB { name, variant: None, kind: Kind::Tuple, fields: vec![] })
    }
    fn serialize_tuple_variant(self, name: &'static str, idx: u32, variant: &'static str, _len: usize) -> Result<FieldsB, RErr> {
        Ok(FieldsB { name, variant: Some((idx, variant)), kind: Kind::Tuple, fields: vec![] })
    }
    fn serialize_map(self, _len: Option<usize>) -> Result<MapB, RErr> { Ok(MapB(0)) }
    fn serialize_struct(self, name: &'static str, _len: usize) -> Result<FieldsB, RErr> {
        Ok(FieldsB { name, variant: None, kind: Kind::Struct, fields: vec![] })
    }
    fn serialize_struct_variant(self, name: &'static str, idx: u32, variant: &'static str, _len: usize) -> Result<FieldsB, RErr> {
        Ok(FieldsB { name, variant: Some((idx, variant)), kind: Kind::Struct, fields: vec![] })
    }
}

impl ser::SerializeSeq for SeqB {
    type Ok = Node;
    type Error = RErr;
    fn serialize_element<T: Serialize + ?Sized>(&mut self, v: &T) -> Result<(), RErr> {
        self.items.push(v.serialize(R)?);
        Ok(())
    }
    fn end(self) -> Result<Node, RErr> {
        Ok(if self.tuple { Node::Tuple(self.items) } else { Node::Seq(self.items) })
    }
}
impl ser::SerializeTuple for SeqB {
    type Ok = Node;
    type Error = RErr;
    fn serialize_element<T: Serialize + ?Sized>(&mut self, v: &T) -> Result<(), RErr> {
        self.items.push(v.serialize(R)?);
        Ok(())
    }
    fn end(self) -> Result<Node, RErr> { Ok(Node::Tuple(self.items)) }
}
impl ser::SerializeTupleStruct for FieldsB {
    type Ok = Node;
    type Error = RErr;
    fn serialize_field<T: Serialize + ?Sized>(&mut self, v: &T) -> Result<(), RErr> {
        self.fields.push(("", v.serialize(R)?));
        Ok(())
    }
    fn end(self) -> Result<Node, RErr> { Ok(self.finish()) }
}
impl ser::SerializeTupleVariant for FieldsB {
    type Ok = Node;
    type Error = RErr;
    fn serialize_field<T: Serialize + ?Sized>(&mut self, v: &T) -> Result<(), RErr> {
        self.fields.push(("", v.serialize(R)?));
        Ok(())
    }
    fn end(self) -> Result<Node, RErr> { Ok(self.finish()) }
}
impl ser::SerializeStruct for FieldsB {
    type Ok = Node;
    type Error = RErr;
    fn serialize_field<T: Serialize + ?Sized>(&mut self, key: &'static str, v: &T) -> Result<(), RErr> {
        self.fields.push((key, v.serialize(R)?));
        Ok(())
    }
    fn skip_field(&mut self, key: &'static str) -> Result<(), RErr> {
        Err(RErr(format!("field {key} skipped by the Serialize impl")))
    }
    fn end(self) -> Result<Node, RErr> { Ok(self.finish()) }
}
impl ser::SerializeStructVariant for FieldsB {
    type Ok = Node;
    type Error = RErr;
    fn serialize_field<T: Serialize + ?Sized>(&mut self, key: &'static str, v: &T) -> Result<(), RErr> {
        self.fields.push((key, v.serialize(R)?));
        Ok(())
    }
    fn skip_field(&mut self, key: &'static str) -> Result<(), RErr> {
        Err(RErr(format!("field {key} skipped by the Serialize impl")))
    }
    fn end(self) -> Result<Node, RErr> { Ok(self.finish()) }
}
impl ser::SerializeMap for MapB {
    type Ok = Node;
    type Error = RErr;
    fn serialize_key<T: Serialize + ?Sized>(&mut self, _k: &T) -> Result<(), RErr> {
        self.0 += 1;
        Ok(())
    }
    fn serialize_value<T: Serialize + ?Sized>(&mut self, _v: &T) -> Result<(), RErr> { Ok(()) }
    fn end(self) -> Result<Node, RErr> { Ok(Node::Map(self.0)) }
}

// ------------------------------------------------------------------ schema.json
pub struct FieldJ {
    pub name: Option<String>,
    pub hook: Option<u64>,
}
pub struct VariantJ {
    pub name: String,
    pub kind: Kind,
    pub fields: Vec<FieldJ>,
}
pub struct TypeJ {
    pub name: String,
    pub name_id: usize,
    pub is_enum: bool,
    pub hook: Option<u64>,
    pub variants: Vec<VariantJ>,
}
pub struct SchemaJ {
    pub types: Vec<TypeJ>,
    /// serde name (Rust identifier) -> first instance id
    pub by_serde_name: HashMap<String, usize>,
    pub underived_pub_types: Vec<(String, String)>,
}

pub fn load_schema() -> SchemaJ {
    let p = format!("{}/schema.json", crate::common::gen_dir());
    let txt = std::fs::read_to_string(&p).unwrap_or_else(|e| panic!("{p}: {e}"));
    let j: serde_json::Value = serde_json::from_str(&txt).unwrap();
    let mut types = vec![];
    for t in j["types"].as_array().unwrap() {
        let variants = t["variants"]
            .as_array()
            .unwrap()
            .iter()
            .map(|v| VariantJ {
                name: v["name"].as_str().unwrap().to_string(),
                kind: Kind::parse(v["kind"].as_str().unwrap()),
                fields: v["fields"].as_array().unwrap().iter().map(|f| FieldJ { name: f["name"].as_str().map(|s| s.to_string()), hook: f["hook"].as_u64() }).collect(),
            })
            .collect();
        types.push(TypeJ {
            name: t["name"].as_str().unwrap().to_string(),
            name_id: t["name_id"].as_u64().unwrap() as usize,
            is_enum: t["kind"] == "enum",
            hook: t["hook"].as_u64(),
            variants,
        });
    }
    let mut by_serde_name = HashMap::new();
    for (k, v) in j["by_serde_name"].as_object().unwrap() {
        by_serde_name.insert(k.clone(), v[0].as_u64().unwrap() as usize);
    }
    let underived_pub_types = j["underived_pub_types"].as_array().unwrap().iter().map(|x| (x["name"].as_str().unwrap().to_string(), x["file"].as_str().unwrap().to_string())).collect();
    SchemaJ { types, by_serde_name, underived_pub_types }
}

fn hexdots(s: &str) -> String {
    if s.is_empty() {
        return "-".into();
    }
    s.chars().map(|c| format!("{:x}", c as u32)).collect::<Vec<_>>().join(".")
}

/// Linear encoding; every reflected struct/enum is checked against the schema (name known, shape,
/// variant index/name, field names in order).
pub fn encode(n: &Node, sch: &SchemaJ, out: &mut String) -> Result<(), String> {
    fn sep(out: &mut String) {
        if !out.is_empty() {
            out.push(' ');
        }
    }
    sep(out);
    match n {
        Node::Unit => out.push('U'),
        Node::Bool(b) => out.push_str(if *b { "B1" } else { "B0" }),
        Node::U(v) => out.push_str(&format!("u{v}")),
        Node::I(v) => out.push_str(&format!("i{v}")),
        Node::F(v) => return Err(format!("float value {v:x} (outside the serde model)")),
        Node::Char(c) => out.push_str(&format!("c{:x}", *c as u32)),
        Node::Str(s) => {
            out.push('s');
            out.push_str(&hexdots(s));
        }
        Node::Bytes(_) => return Err("bytes value".into()),
        Node::Map(_) => return Err("map value".into()),
        Node::None => out.push_str("O0"),
        Node::Some(x) => {
            out.push_str("O1");
            encode(x, sch, out)?;
        }
        Node::Seq(xs) => {
            out.push_str(&format!("V{}", xs.len()));
            for x in xs {
                encode(x, sch, out)?;
            }
        }
        Node::Tuple(xs) => {
            out.push_str(&format!("T{}", xs.len()));
            for x in xs {
                encode(x, sch, out)?;
            }
        }
        Node::Struct { name, kind, fields, .. } => {
            let id = *sch.by_serde_name.get(*name).ok_or_else(|| format!("reflected struct {name} is unknown to the schema"))?;
            let t = &sch.types[id];
            if t.is_enum {
                return Err(format!("{name}: reflected as struct, schema says enum"));
            }
            check_fields(name, &t.variants[0], *kind, fields)?;
            out.push_str(&format!("S{}.{}.{}", t.name_id, kind.code(), fields.len()));
            for (_, x) in fields {
                encode(x, sch, out)?;
            }
        }
        Node::Variant { name, idx, variant, kind, fields, .. } => {
            let id = *sch.by_serde_name.get(*name).ok_or_else(|| format!("reflected enum {name} is unknown to the schema"))?;
            let t = &sch.types[id];
            if !t.is_enum {
                return Err(format!("{name}: reflected as enum, schema says struct"));
            }
            let v = t.variants.get(*idx as usize).ok_or_else(|| format!("{name}: variant index {idx} out of range"))?;
            if v.name != *variant {
                return Err(format!("{name}: variant {idx} reflected as {variant}, schema says {}", v.name));
            }
            check_fields(&format!("{name}::{variant}"), v, *kind, fields)?;
            out.push_str(&format!("E{}.{}.{}.{}", t.name_id, idx, kind.code(), fields.len()));
            for (_, x) in fields {
                encode(x, sch, out)?;
            }
        }
    }
    Ok(())
}

fn check_fields(owner: &str, v: &VariantJ, kind: Kind, fields: &[(&'static str, Node)]) -> Result<(), String> {
    if v.kind != kind {
        return Err(format!("{owner}: reflected shape {kind:?}, schema says {:?}", v.kind));
    }
    if v.fields.len() != fields.len() {
        return Err(format!("{owner}: reflected {} fields, schema says {}", fields.len(), v.fields.len()));
    }
    if kind == Kind::Struct {
        for (f, (n, _)) in v.fields.iter().zip(fields) {
            if f.name.as_deref() != Some(*n) {
                return Err(format!("{owner}: reflected field {n}, schema says {:?} at that position", f.name));
            }
        }
    }
    Ok(())
}

/// number of struct/enum nodes of the Rust type `name`
pub fn count_type(n: &Node, name: &str) -> usize {
    match n {
        Node::Some(x) => count_type(x, name),
        Node::Seq(xs) | Node::Tuple(xs) => xs.iter().map(|x| count_type(x, name)).sum(),
        Node::Struct { name: nm, fields, .. } | Node::Variant { name: nm, fields, .. } => (*nm == name) as usize + fields.iter().map(|(_, x)| count_type(x, name)).sum::<usize>(),
        _ => 0,
    }
}

pub fn node_count(n: &Node) -> usize {
    match n {
        Node::Some(x) => 1 + node_count(x),
        Node::Seq(xs) | Node::Tuple(xs) => 1 + xs.iter().map(node_count).sum::<usize>(),
        Node::Struct { fields, .. } | Node::Variant { fields, .. } => 1 + fields.iter().map(|(_, x)| node_count(x)).sum::<usize>(),
        _ => 1,
    }
}

//! Whole-grammar oracles applied directly to the real code on corpus texts.
use crate::common::*;
use sqlparser::ast::Statement;
use sqlparser::dialect::Dialect;
use sqlparser::keywords::Keyword;
use sqlparser::parser::ParserError;
use sqlparser::tokenizer::{Token, TokenWithLocation, Whitespace};
use std::collections::{BTreeMap, BTreeSet};

fn has_copy_stdin(v: &[Statement]) -> bool {
    v.iter().any(|s| matches!(s, Statement::Copy { .. }) && s.to_string().contains("STDIN"))
}

fn print_all(v: &[Statement]) -> G<Vec<String>> {
    guard(|| v.iter().map(|a| a.to_string()).collect())
}

// ------------------------------------------------------------------ C01
fn c01_case(r: &mut Report, distinct: &mut BTreeSet<(String, usize)>, s: &str, dn: &str, d: &dyn Dialect, k: usize, optsets: &[Opts]) {
    for &o in optsets {
        let v = match parse(d, o, s) {
            G::Val(Ok(v)) => v,
            G::Val(Err(_)) => continue,
            G::Panic(m) => { r.panic(dn, o, s, m); continue; }
        };
        r.evaluations += 1;
        let printed = match print_all(&v) {
            G::Val(p) => p,
            G::Panic(m) => { r.panic(dn, o, s, m); continue; }
        };
        for (a, p) in v.iter().zip(printed.iter()) {
            let var = variant_of(a);
            distinct.insert((var.clone(), k));
            match parse(d, o, p) {
                G::Val(Ok(w)) => {
                    if w.len() != 1 {
                        r.fail(format!("{var}/count"), dn, o, s, format!("printed={p:?} reparsed to {} statements", w.len()));
                    } else if &w[0] != a {
                        r.fail(format!("{var}/differs"), dn, o, s, format!("printed={p:?} reprinted={:?}", w[0].to_string()));
                    } else if w[0].to_string() != *p {
                        r.fail(format!("{var}/print-not-idempotent"), dn, o, s, format!("printed={p:?}"));
                    }
                }
                G::Val(Err(e)) => r.fail(format!("{var}/reject"), dn, o, s, format!("printed={p:?} error={e}")),
                G::Panic(m) => r.panic(dn, o, p, m),
            }
        }
        if v.len() > 1 && !has_copy_stdin(&v) {
            let joined = printed.join("; ");
            match parse(d, o, &joined) {
                G::Val(Ok(w)) if w == v => {}
                G::Val(other) => r.fail(format!("{}/script", variant_of(&v[0])), dn, o, s, format!("joined={joined:?} result={}", trunc(&format!("{other:?}"), 200))),
                G::Panic(m) => r.panic(dn, o, &joined, m),
            }
        }
        if r.evaluations % 9973 == 1 {
            r.sample(serde_json::json!({"dialect": dn, "opts": o.tag(), "sql": s, "printed": printed}));
        }
    }
}

pub fn c01(c: &Corpus, _tier: &str) -> Report {
    let mut r = Report::new("C01", "oracle.roundtrip", "every accepted corpus (text, dialect) pair x 4 option sets: parse(print a) == [a], print idempotent, joined script; non-trivial = distinct (statement variant, dialect)");
    r.exhaustive = true;
    let ds = all_dialects();
    let mut distinct = BTreeSet::new();
    for &(i, k) in &c.accepted {
        c01_case(&mut r, &mut distinct, &c.literals[i], ds[k].0, ds[k].1.as_ref(), k, &OPTSETS);
    }
    r.distinct_nontrivial = distinct.len() as u64;
    r
}

/// the same round trip on single-token mutants of the corpus (texts the suite never contained: a
/// token deleted or duplicated, a keyword swapped for a sibling) that some dialect accepts
pub fn c01_mutants(c: &Corpus, tier: &str) -> Report {
    let mut r = Report::new("C01", "oracle.roundtrip-mutants", "single-token mutants of the corpus texts (delete / duplicate one token, swap a keyword for a sibling keyword; rendered from the real tokens) x 13 dialects, default options (thorough: 4 option sets): every accepted mutant must round-trip like any accepted text; non-trivial = distinct (statement variant, dialect)");
    let ds = all_dialects();
    let mut distinct = BTreeSet::new();
    let optsets: Vec<Opts> = if tier == "thorough" { OPTSETS.to_vec() } else { vec![Opts::DEFAULT] };
    let ms = mutants(c, tier);
    r.count(&format!("mutants/{}", ms.len()));
    for s in &ms {
        for (k, (dn, d)) in ds.iter().enumerate() {
            c01_case(&mut r, &mut distinct, s, dn, d.as_ref(), k, &optsets);
        }
    }
    r.distinct_nontrivial = distinct.len() as u64;
    r
}

// ------------------------------------------------------------------ C05
#[derive(PartialEq, Eq, PartialOrd, Ord, Debug, Clone)]
enum Content {
    Ident(String, Option<char>),
    Num(String),
    Str(String),
    Placeholder(String),
}

fn content_bag(toks: &[TokenWithLocation]) -> BTreeMap<Content, i64> {
    let mut m = BTreeMap::new();
    for t in toks {
        let c = match &t.token {
            Token::Word(w) if w.keyword == Keyword::NoKeyword => Content::Ident(w.value.clone(), w.quote_style),
            Token::Number(n, _) => Content::Num(n.clone()),
            Token::SingleQuotedString(s)
            | Token::DoubleQuotedString(s)
            | Token::TripleSingleQuotedString(s)
            | Token::TripleDoubleQuotedString(s)
            | Token::SingleQuotedByteStringLiteral(s)
            | Token::DoubleQuotedByteStringLiteral(s)
            | Token::TripleSingleQuotedByteStringLiteral(s)
            | Token::TripleDoubleQuotedByteStringLiteral(s)
            | Token::SingleQuotedRawStringLiteral(s)
            | Token::DoubleQuotedRawStringLiteral(s)
            | Token::TripleSingleQuotedRawStringLiteral(s)
            | Token::TripleDoubleQuotedRawStringLiteral(s)
            | Token::NationalStringLiteral(s)
            | Token::EscapedStringLiteral(s)
            | Token::UnicodeStringLiteral(s)
            | Token::HexStringLiteral(s) => Content::Str(s.clone()),
            Token::DollarQuotedString(s) => Content::Str(s.value.clone()),
            Token::Placeholder(p) => Content::Placeholder(p.clone()),
            _ => continue,
        };
        *m.entry(c).or_insert(0) += 1;
    }
    m
}

fn c05_case(r: &mut Report, distinct: &mut BTreeSet<(String, usize)>, s: &str, dn: &str, d: &dyn Dialect, k: usize) {
    let o = Opts::DEFAULT;
    let v = match parse(d, o, s) { G::Val(Ok(v)) if !v.is_empty() => v, _ => return };
    if has_copy_stdin(&v) { r.count("skipped/copy-stdin"); return; }
    let printed = match print_all(&v) { G::Val(p) => p.join("; "), G::Panic(m) => { r.panic(dn, o, s, m); return; } };
    let (t1, t2) = match (tokenize(d, true, s), tokenize(d, true, &printed)) {
        (G::Val(Ok(a)), G::Val(Ok(b))) => (a, b),
        (_, G::Val(Err(e))) => { r.fail(format!("{}/print-does-not-lex", variant_of(&v[0])), dn, o, s, format!("printed={printed:?} err={e}")); return; }
        _ => return,
    };
    r.evaluations += 1;
    let (b1, b2) = (content_bag(&t1), content_bag(&t2));
    if !b1.is_empty() { distinct.insert((variant_of(&v[0]), k)); }
    if b1 != b2 {
        let mut lost = vec![]; let mut invented = vec![];
        for (kx, n) in &b1 { let m = b2.get(kx).copied().unwrap_or(0); if m < *n { lost.push(format!("{kx:?}")); } }
        for (kx, n) in &b2 { let m = b1.get(kx).copied().unwrap_or(0); if m < *n { invented.push(format!("{kx:?}")); } }
        let kind = if !lost.is_empty() && invented.is_empty() { "lost" } else if lost.is_empty() { "invented" } else { "changed" };
        r.fail(format!("{}/{kind}", variant_of(&v[0])), dn, o, s, format!("printed={printed:?} lost={lost:?} invented={invented:?}"));
    }
    if r.evaluations % 4001 == 1 { r.sample(serde_json::json!({"dialect": dn, "sql": s, "bag": format!("{b1:?}")})); }
}

pub fn c05(c: &Corpus, _tier: &str) -> Report {
    let mut r = Report::new("C05", "oracle.content-bag", "every accepted corpus (text, dialect) pair: bag of content tokens (real tokenizer) of the input == bag of the printed parse; non-trivial = distinct (first statement variant, dialect) with a non-empty bag");
    r.exhaustive = true;
    let ds = all_dialects();
    let mut distinct = BTreeSet::new();
    for &(i, k) in &c.accepted {
        c05_case(&mut r, &mut distinct, &c.literals[i], ds[k].0, ds[k].1.as_ref(), k);
    }
    r.distinct_nontrivial = distinct.len() as u64;
    r
}

pub fn c05_mutants(c: &Corpus, tier: &str) -> Report {
    let mut r = Report::new("C05", "oracle.content-bag-mutants", "single-token mutants of the corpus texts (delete / duplicate one token, swap a keyword for a sibling keyword) x 13 dialects: for every accepted mutant the bag of content tokens of the input == bag of the printed parse; non-trivial = distinct (first statement variant, dialect) with a non-empty bag");
    let ds = all_dialects();
    let mut distinct = BTreeSet::new();
    let ms = mutants(c, tier);
    r.count(&format!("mutants/{}", ms.len()));
    for s in &ms {
        for (k, (dn, d)) in ds.iter().enumerate() {
            c05_case(&mut r, &mut distinct, s, dn, d.as_ref(), k);
        }
    }
    r.distinct_nontrivial = distinct.len() as u64;
    r
}

// ------------------------------------------------------------------ C11
fn joiner_for(toks: &[TokenWithLocation]) -> &'static str {
    match toks.iter().rev().find(|t| !matches!(t.token, Token::EOF)) {
        Some(t) if is_line_comment(&t.token) => "\n;\n",
        _ => " ; ",
    }
}

pub fn c11(c: &Corpus, _tier: &str) -> Report {
    let mut r = Report::new("C11", "oracle.script-concat", "every corpus text accepted as exactly one statement x dialect x followers {SELECT 1, itself, COMMIT} x layouts: parse(s1 ; s2) == parse(s1) ++ parse(s2), with empty statements and trailing semicolon; non-trivial = distinct (statement variant, dialect)");
    r.exhaustive = true;
    let ds = all_dialects();
    let mut distinct = BTreeSet::new();
    let o = Opts::DEFAULT;
    for &(i, k) in &c.accepted {
        let s = &c.literals[i];
        let (dn, d) = (&ds[k].0, ds[k].1.as_ref());
        let v = match parse(d, o, s) { G::Val(Ok(v)) => v, _ => continue };
        if v.len() != 1 || has_copy_stdin(&v) { continue; }
        // the text must not itself contain a separator at top level: require that
        // the token stream has no SemiColon token at all
        let toks = match tokenize(d, true, s) { G::Val(Ok(t)) => t, _ => continue };
        if toks.iter().any(|t| t.token == Token::SemiColon) { r.count("skipped/has-semicolon"); continue; }
        let j = joiner_for(&toks);
        distinct.insert((variant_of(&v[0]), k));
        let followers: [(&str, &str); 3] = [("select1", "SELECT 1"), ("self", s.as_str()), ("commit", "COMMIT")];
        for (fname, f) in followers {
            let fv = match parse(d, o, f) { G::Val(Ok(fv)) => fv, _ => continue };
            // layouts of the separator: blank-padded, with empty statements, and (unless the text ends
            // in a line comment) glued to both neighbours
            let mut variants = vec![format!("{s}{j}{f}"), format!(";{s}{j};\n;{f}{}", if j == " ; " { ";" } else { "\n;" })];
            if j == " ; " { variants.push(format!("{s};{f}")); }
            for (vi, script) in variants.iter().enumerate() {
                r.evaluations += 1;
                let mut want = v.clone();
                want.extend(fv.iter().cloned());
                match parse(d, o, script) {
                    G::Val(Ok(w)) if w == want => {}
                    G::Val(Ok(w)) => r.fail(format!("{}/swallow", variant_of(&v[0])), dn, o, script, format!("follower={fname} layout={vi} got {} statements: {}", w.len(), trunc(&w.iter().map(|x| x.to_string()).collect::<Vec<_>>().join(" ;; "), 300))),
                    G::Val(Err(e)) => r.fail(format!("{}/reject", variant_of(&v[0])), dn, o, script, format!("follower={fname} layout={vi} error={e}")),
                    G::Panic(m) => r.panic(dn, o, script, m),
                }
            }
        }
        if r.evaluations % 5003 < 6 { r.sample(serde_json::json!({"dialect": dn, "s1": s, "joiner": j})); }
        // non-default options: the same with trailing commas switched on, for the statement as it is
        // and (when that is accepted alone) with a trailing comma in front of the separator
        let on = Opts { unescape: true, trailing: Some(true), limit: None };
        for s1 in [s.clone(), format!("{s} ,")] {
            let v1 = match parse(d, on, &s1) { G::Val(Ok(v1)) if v1.len() == 1 => v1, _ => continue };
            let fv = match parse(d, on, "SELECT 1") { G::Val(Ok(fv)) => fv, _ => continue };
            let script = format!("{s1}{j}SELECT 1");
            r.evaluations += 1;
            let mut want = v1.clone();
            want.extend(fv.iter().cloned());
            match parse(d, on, &script) {
                G::Val(Ok(w)) if w == want => {}
                G::Val(Ok(w)) => r.fail(format!("{}/swallow", variant_of(&v1[0])), dn, on, &script, format!("trailing commas on: got {} statements: {}", w.len(), trunc(&w.iter().map(|x| x.to_string()).collect::<Vec<_>>().join(" ;; "), 300))),
                G::Val(Err(e)) => r.fail(format!("{}/reject", variant_of(&v1[0])), dn, on, &script, format!("trailing commas on: error={e}")),
                G::Panic(m) => r.panic(dn, on, &script, m),
            }
        }
    }
    r.distinct_nontrivial = distinct.len() as u64;
    r
}

// ------------------------------------------------------------------ C07
/// candidate replacement layouts; each is used only under dialects that lex it purely as whitespace
const LAYOUTS: &[&str] = &["  ", "\t", "\n", "\r", "\r\n", "\u{a0}", " /* c */ ", " -- c\n", " # c\n", " // c\n", "\n\n \t", " /* a /* b */ c */ ", "\u{3000}",
    // not blank-padded: used only where the real tokenizer yields the same non-whitespace tokens
    "/* c */", "/**/", "--c\n", "\n--\n"];

fn layout_ok(d: &dyn sqlparser::dialect::Dialect, l: &str) -> bool {
    matches!(tokenize(d, true, l), G::Val(Ok(ts)) if !ts.is_empty() && ts.iter().all(|t| is_ws(&t.token)))
}

/// mutations that usually make an accepted text rejected (used for "a rejected text stays rejected")
fn token_mutations(s: &str, toks: &[TokenWithLocation], li: &LineIndex, chars: &[char], limit: usize) -> Vec<String> {
    let nows: Vec<&TokenWithLocation> = toks.iter().filter(|t| !is_ws(&t.token)).collect();
    let mut out = vec![];
    let off = |t: &TokenWithLocation| li.offset(t.location.line, t.location.column);
    let n = nows.len();
    let picks: Vec<usize> = if n <= limit { (0..n).collect() } else { (0..limit).map(|k| k * n / limit).collect() };
    for &i in &picks {
        let (a, b) = (off(nows[i]), if i + 1 < n { off(nows[i + 1]) } else { Some(chars.len()) });
        if let (Some(a), Some(b)) = (a, b) {
            if a > b || b > chars.len() { continue; }
            // delete token i
            out.push(format!("{}{}", chars[..a].iter().collect::<String>(), chars[b..].iter().collect::<String>()));
            // duplicate token i
            out.push(format!("{}{} {}", chars[..b].iter().collect::<String>(), chars[a..b].iter().collect::<String>(), chars[b..].iter().collect::<String>()));
            // truncate before token i
            out.push(chars[..a].iter().collect::<String>());
        }
    }
    let _ = s;
    out
}

pub fn c07(c: &Corpus, tier: &str) -> Report {
    let mut r = Report::new("C07", "oracle.layout", "accepted corpus (text, dialect) pairs and rejected token-level mutations of them: every existing whitespace run between two tokens (from the real token stream) is replaced by each layout that the same dialect lexes purely as whitespace (blanks, tab, LF, CR, CRLF, NBSP, ideographic space, block/nested block/line comments, `#`/`//` comments); the tree must be equal, a rejected text must stay rejected. quick: each (dialect, left token, first char of right token, layout) key once; thorough: every position. non-trivial = distinct keys exercised");
    let ds = all_dialects();
    let layouts: Vec<Vec<&str>> = ds.iter().map(|(_, d)| LAYOUTS.iter().copied().filter(|l| layout_ok(d.as_ref(), l)).collect()).collect();
    let o = Opts::DEFAULT;
    let mut seen: BTreeSet<(usize, String, char, usize)> = BTreeSet::new();
    let mut check = |r: &mut Report, k: usize, s: &str, rejected_base: bool| {
        let (dn, d) = (&ds[k].0, ds[k].1.as_ref());
        let toks = match tokenize(d, true, s) { G::Val(Ok(t)) => t, _ => return };
        let base = match parse(d, o, s) { G::Val(b) => b, G::Panic(m) => { r.panic(dn, o, s, m); return; } };
        if base.is_ok() == rejected_base { return; }
        if let Ok(v) = &base { if has_copy_stdin(v) { r.count("skipped/copy-stdin"); return; } }
        let li = LineIndex::new(s);
        let chars: Vec<char> = s.chars().collect();
        for i in 0..toks.len() {
            if !is_ws(&toks[i].token) { continue; }
            // maximal whitespace run [i, j)
            if i > 0 && is_ws(&toks[i - 1].token) { continue; }
            let mut j = i;
            while j < toks.len() && is_ws(&toks[j].token) { j += 1; }
            if i == 0 || j >= toks.len() { continue; } // between two tokens only
            let (a, b) = match (li.offset(toks[i].location.line, toks[i].location.column), li.offset(toks[j].location.line, toks[j].location.column)) { (Some(a), Some(b)) if a < b && b <= chars.len() => (a, b), _ => continue };
            let left = crate::canon::tok_canon(&toks[i - 1].token);
            let rc = chars[b];
            for (lidx, l) in layouts[k].iter().enumerate() {
                if tier != "thorough" && !seen.insert((k, left.clone(), rc, lidx)) { continue; }
                let t2 = format!("{}{}{}", chars[..a].iter().collect::<String>(), l, chars[b..].iter().collect::<String>());
                if !l.starts_with(|ch: char| ch.is_whitespace()) || !l.ends_with(|ch: char| ch.is_whitespace()) {
                    // unpadded layout: admissible only if it is lexically neutral here
                    let same = match tokenize(d, true, &t2) {
                        G::Val(Ok(tt)) => tt.iter().filter(|x| !is_ws(&x.token)).map(|x| &x.token).eq(toks.iter().filter(|x| !is_ws(&x.token)).map(|x| &x.token)),
                        _ => false,
                    };
                    if !same { r.count("unpadded-layout-not-neutral"); continue; }
                }
                r.evaluations += 1;
                let sigl = format!("{:?}", l.chars().next().unwrap());
                match (&base, parse(d, o, &t2)) {
                    (Ok(v), G::Val(Ok(w))) => { if *v != w { r.fail(format!("tree-changed/after:{}/layout:{sigl}", crate::canon::tok_variant(&toks[i - 1].token)), dn, o, &t2, format!("orig={s:?}")); } }
                    (Ok(_), G::Val(Err(e))) => r.fail(format!("rejected/after:{}/layout:{sigl}", crate::canon::tok_variant(&toks[i - 1].token)), dn, o, &t2, format!("orig={s:?} err={e}")),
                    (Err(_), G::Val(Ok(_))) => r.fail(format!("accepted/after:{}/layout:{sigl}", crate::canon::tok_variant(&toks[i - 1].token)), dn, o, &t2, format!("orig rejected: {s:?}")),
                    (Err(_), G::Val(Err(_))) => {}
                    (_, G::Panic(m)) => r.panic(dn, o, &t2, m),
                }
                if r.evaluations % 20011 == 1 { r.sample(serde_json::json!({"dialect": dn, "orig": s, "layout": l, "replaced": t2})); }
            }
        }
    };
    for &(i, k) in &c.accepted {
        let s = &c.literals[i];
        check(&mut r, k, s, false);
        // rejected neighbours (few per text in quick)
        if tier == "thorough" || i % 5 == 0 {
            let d = ds[k].1.as_ref();
            if let G::Val(Ok(toks)) = tokenize(d, true, s) {
                let li = LineIndex::new(s);
                let chars: Vec<char> = s.chars().collect();
                for m in token_mutations(s, &toks, &li, &chars, if tier == "thorough" { 8 } else { 2 }) {
                    check(&mut r, k, &m, true);
                }
            }
        }
    }
    r.distinct_nontrivial = seen.len() as u64;
    if tier == "thorough" { r.distinct_nontrivial = r.evaluations; }
    r
}

// ------------------------------------------------------------------ C10
fn parse_err_position(msg: &str) -> Option<(u64, u64)> {
    let p = msg.rfind(" at Line: ")?;
    let rest = &msg[p + 10..];
    let mut it = rest.split(", Column: ");
    let l: u64 = it.next()?.trim().parse().ok()?;
    let c: u64 = it.next()?.trim().parse().ok()?;
    Some((l, c))
}

pub fn c10(c: &Corpus, tier: &str) -> Report {
    let mut r = Report::new("C10", "oracle.error-position", "rejected texts obtained from accepted corpus texts by deleting, duplicating, truncating at and substituting tokens, all dialects: the error is a value (no panic); a syntax error with `at Line: l, Column: c` points at the start of a real token of tokenize_with_location; for `Expected: X, found: T` the token at that position prints as T; EOF errors carry no position; lexical errors point inside the input or just after its end; the same input gives the same error twice. non-trivial = distinct (error message shape, dialect)");
    let ds = all_dialects();
    let o = Opts::DEFAULT;
    let mut distinct = BTreeSet::new();
    let per = if tier == "thorough" { 12 } else { 3 };
    for &(i, k) in &c.accepted {
        if tier != "thorough" && (i + k) % 3 != 0 { continue; }
        let s = &c.literals[i];
        let (dn, d) = (&ds[k].0, ds[k].1.as_ref());
        let toks = match tokenize(d, true, s) { G::Val(Ok(t)) => t, _ => continue };
        let li = LineIndex::new(s);
        let chars: Vec<char> = s.chars().collect();
        let mut muts = token_mutations(s, &toks, &li, &chars, per);
        // substitutions: replace a token by `)` / `,` / a keyword
        let nows: Vec<&TokenWithLocation> = toks.iter().filter(|t| !is_ws(&t.token)).collect();
        for (qi, t) in nows.iter().enumerate().step_by((nows.len() / per).max(1)) {
            if let (Some(a), Some(b)) = (li.offset(t.location.line, t.location.column), nows.get(qi + 1).and_then(|n| li.offset(n.location.line, n.location.column)).or(Some(chars.len()))) {
                if a <= b && b <= chars.len() {
                    for sub in [")", ",", "SELECT", "'x", "\n@@\n"] {
                        muts.push(format!("{}{} {}", chars[..a].iter().collect::<String>(), sub, chars[b..].iter().collect::<String>()));
                    }
                }
            }
        }
        for m in muts {
            let res = match parse(d, o, &m) { G::Val(x) => x, G::Panic(pm) => { r.panic(dn, o, &m, pm); continue; } };
            let e = match res { Err(e) => e, Ok(_) => continue };
            r.evaluations += 1;
            // determinism
            if let G::Val(Err(e2)) = parse(d, o, &m) { if e2 != e { r.fail("nondeterministic-error".into(), dn, o, &m, format!("{e} vs {e2}")); } }
            let msg = e.to_string();
            let shape: String = msg.chars().map(|c| if c.is_ascii_digit() { '0' } else { c }).take(40).collect();
            distinct.insert((shape, k));
            let mli = LineIndex::new(&m);
            match &e {
                sqlparser::parser::ParserError::TokenizerError(_) => {
                    match parse_err_position(&msg) {
                        Some((l, cc)) => match mli.offset(l, cc) {
                            Some(off) if off <= mli.nchars => {}
                            _ => r.fail("lex-error/position-outside-input".into(), dn, o, &m, msg.clone()),
                        },
                        None => r.fail("lex-error/no-position".into(), dn, o, &m, msg.clone()),
                    }
                }
                sqlparser::parser::ParserError::ParserError(_) => {
                    let mtoks = match tokenize(d, true, &m) { G::Val(Ok(t)) => t, _ => continue };
                    match parse_err_position(&msg) {
                        Some((l, cc)) => {
                            let hit = mtoks.iter().find(|t| t.location.line == l && t.location.column == cc);
                            match hit {
                                None => r.fail("syntax-error/position-not-a-token-start".into(), dn, o, &m, msg.clone()),
                                Some(t) => {
                                    if let Some(p) = msg.find(", found: ") {
                                        let found = &msg[p + 9..msg.rfind(" at Line: ").unwrap_or(msg.len())];
                                        if found != t.token.to_string() {
                                            r.fail("syntax-error/found-token-mismatch".into(), dn, o, &m, format!("{msg} ; token at position prints as {:?}", t.token.to_string()));
                                        }
                                    }
                                }
                            }
                        }
                        None => {
                            // no position: must be an EOF error or a message without `found:`
                            if let Some(p) = msg.find(", found: ") {
                                let found = &msg[p + 9..];
                                if found != "EOF" {
                                    // a token built by the parser without location (with_tokens route is not used here)
                                    r.fail("syntax-error/found-without-position".into(), dn, o, &m, msg.clone());
                                }
                            }
                        }
                    }
                }
                sqlparser::parser::ParserError::RecursionLimitExceeded => {}
            }
            if r.evaluations % 5003 == 1 { r.sample(serde_json::json!({"dialect": dn, "input": m, "error": msg})); }
        }
    }
    r.distinct_nontrivial = distinct.len() as u64;
    r
}

// ------------------------------------------------------------------ C14
pub fn c14(c: &Corpus, tier: &str, seed: u64) -> Vec<Report> {
    use sqlparser::parser::{Parser, ParserOptions};
    use sqlparser::tokenizer::Tokenizer;
    let ds = all_dialects();
    let mut extra_reports: Vec<Report> = vec![];
    let mut r = Report::new("C14", "oracle.routes", "every corpus literal (accepted or not) x dialect x 2 option sets: parse_sql == new().with_options().try_with_sql().parse_statements() == with_tokens_with_locations(tokenize_with_location) == with_tokens(tokenize) (errors compared modulo the position suffix for the location-less route); standalone parse_expr / parse_data_type / parse_object_name == the subtree inside `SELECT <e>`, `CAST(x AS <t>)`, `SELECT * FROM <n>`. non-trivial = distinct (outcome class, dialect, route)");
    let mut distinct = BTreeSet::new();
    let strip = |e: &sqlparser::parser::ParserError| -> String { let s = e.to_string(); match s.rfind(" at Line: ") { Some(p) => s[..p].to_string(), None => s } };
    for (i, s) in c.literals.iter().enumerate() {
        if tier != "thorough" && s.len() > 300 && i % 4 != 0 { continue; }
        for (k, (dn, d)) in ds.iter().enumerate() {
            let d = d.as_ref();
            for o in [Opts::DEFAULT, Opts { unescape: false, trailing: Some(true), limit: None }] {
                r.evaluations += 1;
                let a = match parse(d, o, s) { G::Val(x) => x, G::Panic(m) => { r.panic(dn, o, s, m); continue; } };
                distinct.insert((a.is_ok(), k, 0));
                if o == Opts::DEFAULT {
                    match guard(|| Parser::parse_sql(d, s)) {
                        G::Val(b) => if b != a { r.fail("route/parse_sql-differs".into(), dn, o, s, format!("{:?} vs {:?}", trunc(&format!("{a:?}"), 150), trunc(&format!("{b:?}"), 150))); },
                        G::Panic(m) => r.panic(dn, o, s, m),
                    }
                }
                let toks = match guard(|| Tokenizer::new(d, s).with_unescape(o.unescape).tokenize_with_location()) { G::Val(t) => t, G::Panic(m) => { r.panic(dn, o, s, m); continue; } };
                match toks {
                    Err(te) => { if a != Err(sqlparser::parser::ParserError::from(te)) { r.fail("route/lex-error-differs".into(), dn, o, s, String::new()); } }
                    Ok(tl) => {
                        let plain: Vec<sqlparser::tokenizer::Token> = tl.iter().map(|t| t.token.clone()).collect();
                        let tc = o.trailing.unwrap_or(d.supports_trailing_commas());
                        let b = guard(|| Parser::new(d).with_options(ParserOptions::new().with_trailing_commas(tc).with_unescape(o.unescape)).with_tokens_with_locations(tl.clone()).parse_statements());
                        match b { G::Val(b) => if b != a { r.fail("route/with_tokens_with_locations-differs".into(), dn, o, s, String::new()); }, G::Panic(m) => r.panic(dn, o, s, m) }
                        let cres = guard(|| Parser::new(d).with_options(ParserOptions::new().with_trailing_commas(tc).with_unescape(o.unescape)).with_tokens(plain).parse_statements());
                        match cres {
                            G::Val(cv) => {
                                let same = match (&a, &cv) { (Ok(x), Ok(y)) => x == y, (Err(x), Err(y)) => strip(x) == strip(y), _ => false };
                                distinct.insert((cv.is_ok(), k, 2));
                                if !same { r.fail("route/with_tokens-differs".into(), dn, o, s, format!("{} vs {}", trunc(&format!("{a:?}"), 150), trunc(&format!("{cv:?}"), 150))); }
                            }
                            G::Panic(m) => r.panic(dn, o, s, m),
                        }
                    }
                }
            }
        }
        if i % 997 == 3 { r.sample(serde_json::json!({"sql": s})); }
    }
    r.distinct_nontrivial = distinct.len() as u64;

    // embedded vs standalone
    let mut r2 = Report::new("C14", "oracle.embedded", "expressions, data types and object names harvested from parsed corpus statements (their printed form): standalone parse_expr/parse_data_type/parse_object_name on the printed text == the node found when the same text is embedded in `SELECT <e>`, `SELECT CAST(x AS <t>)`, `SELECT * FROM <n>`; non-trivial = distinct printed fragments");
    {
        use sqlparser::ast::*;
        let o = Opts::DEFAULT;
        let mut frags: BTreeSet<(usize, String, u8)> = BTreeSet::new();
        for &(i, k) in &c.accepted {
            let d = ds[k].1.as_ref();
            if let G::Val(Ok(v)) = parse(d, o, &c.literals[i]) {
                for st in &v {
                    let _ = visit_expressions(st, |e: &Expr| { if frags.len() < 400000 { let t = e.to_string(); if t.len() < 200 { frags.insert((k, t, 0)); } } core::ops::ControlFlow::<()>::Continue(()) });
                    let _ = visit_relations(st, |n: &ObjectName| { frags.insert((k, n.to_string(), 2)); core::ops::ControlFlow::<()>::Continue(()) });
                    let _ = visit_expressions(st, |e: &Expr| { if let Expr::Cast { data_type, .. } = e { frags.insert((k, data_type.to_string(), 1)); } core::ops::ControlFlow::<()>::Continue(()) });
                }
            }
        }
        let mut n = 0usize;
        for (k, text, kind) in &frags {
            n += 1;
            if tier != "thorough" && n % 4 != 0 { continue; }
            let (dn, d) = (&ds[*k].0, ds[*k].1.as_ref());
            r2.evaluations += 1;
            let res: G<Option<String>> = guard(|| {
                match kind {
                    0 => {
                        let alone = mk_parser(d, o).try_with_sql(text).and_then(|mut p| { let e = p.parse_expr()?; if p.peek_token().token != sqlparser::tokenizer::Token::EOF { return Err(sqlparser::parser::ParserError::ParserError("trailing".into())); } Ok(e) });
                        let emb = Parser::parse_sql(d, &format!("SELECT {text}"));
                        match (alone, emb) {
                            (Ok(e), Ok(v)) => {
                                if let Some(Statement::Query(q)) = v.first() { if let SetExpr::Select(sel) = &*q.body { if sel.projection.len() == 1 && sel.from.is_empty() { match &sel.projection[0] { SelectItem::UnnamedExpr(x) => { if *x != e { return Some(format!("alone={e:?} embedded={x:?}")); } } _ => {} } } } }
                                None
                            }
                            _ => None,
                        }
                    }
                    1 => {
                        let alone = mk_parser(d, o).try_with_sql(text).and_then(|mut p| { let e = p.parse_data_type()?; if p.peek_token().token != sqlparser::tokenizer::Token::EOF { return Err(sqlparser::parser::ParserError::ParserError("trailing".into())); } Ok(e) });
                        let emb = Parser::parse_sql(d, &format!("SELECT CAST(x AS {text})"));
                        match (alone, emb) {
                            (Ok(t), Ok(v)) => {
                                let mut found = None;
                                let _ = visit_expressions(&v[0], |e: &Expr| { if let Expr::Cast { data_type, .. } = e { found = Some(data_type.clone()); } core::ops::ControlFlow::<()>::Continue(()) });
                                match found { Some(f) if f != t => Some(format!("alone={t:?} embedded={f:?}")), _ => None }
                            }
                            _ => None,
                        }
                    }
                    _ => {
                        let alone = mk_parser(d, o).try_with_sql(text).and_then(|mut p| { let e = p.parse_object_name(false)?; if p.peek_token().token != sqlparser::tokenizer::Token::EOF { return Err(sqlparser::parser::ParserError::ParserError("trailing".into())); } Ok(e) });
                        let emb = Parser::parse_sql(d, &format!("SELECT * FROM {text}"));
                        match (alone, emb) {
                            (Ok(t), Ok(v)) => {
                                let mut found = None;
                                let _ = visit_relations(&v[0], |n: &ObjectName| { if found.is_none() { found = Some(n.clone()); } core::ops::ControlFlow::<()>::Continue(()) });
                                match found { Some(f) if f != t => Some(format!("alone={t:?} embedded={f:?}")), _ => None }
                            }
                            _ => None,
                        }
                    }
                }
            });
            match res {
                G::Val(Some(detail)) => r2.fail(format!("embedded-differs/{}", ["expr", "data_type", "object_name"][*kind as usize]), dn, o, text, detail),
                G::Val(None) => {}
                G::Panic(m) => r2.panic(dn, o, text, m),
            }
            if r2.evaluations % 4001 == 1 { r2.sample(serde_json::json!({"dialect": dn, "fragment": text, "kind": kind})); }
        }
        r2.distinct_nontrivial = frags.len() as u64;
    }

    // state restoration after every failing prefix (systematic)
    // options builder: every way of building the same option set gives the same options
    {
        let mut rb = Report::new("C14", "oracle.options-builder", "ParserOptions: for all four (trailing_commas, unescape) pairs the two builder orders, the struct literal and re-applying a setter give equal values, and a parser configured through either order reports that configuration (verif_state); exhaustive");
        rb.exhaustive = true;
        for tc in [false, true] { for un in [false, true] {
            rb.evaluations += 1;
            let a = ParserOptions::new().with_trailing_commas(tc).with_unescape(un);
            let b = ParserOptions::new().with_unescape(un).with_trailing_commas(tc);
            let c = ParserOptions { trailing_commas: tc, unescape: un, ..ParserOptions::new() };
            let d2 = a.clone().with_trailing_commas(tc);
            let input = format!("trailing_commas={tc} unescape={un}");
            if a != b || a != c || a != d2 {
                rb.fail("options-builder/order-dependent".into(), "generic", Opts::DEFAULT, &input, format!("tc-then-un={a:?} un-then-tc={b:?} literal={c:?} reapplied={d2:?}"));
            }
            for (name, o2) in [("tc-then-un", a), ("un-then-tc", b)] {
                let g = sqlparser::dialect::GenericDialect {};
                let p = Parser::new(&g).with_options(o2);
                let st = p.verif_state();
                if st.2 != tc || st.3 != un { rb.fail("options-builder/parser-sees-other-options".into(), "generic", Opts::DEFAULT, &input, format!("{name}: verif_state={st:?}")); }
            }
        } }
        rb.distinct_nontrivial = 4;
        extra_reports.push(rb);
    }
    let mut r4 = Report::new("C14", "oracle.state-after-failure", "every accepted corpus (text, dialect) pair: the text cut at token boundaries (each prefix usually fails somewhere inside a construct) is run on a parser with non-default options and limit; afterwards verif_state() must show state Normal, the configured trailing_commas/unescape and the initial depth, and a following run on the same parser value must equal a fresh run; non-trivial = distinct (first statement variant, dialect) whose prefixes were rejected");
    {
        let mut d4 = BTreeSet::new();
        for &(i, k) in &c.accepted {
            if tier != "thorough" && (i + k) % 2 != 0 { continue; }
            let s = &c.literals[i];
            let (dn, d) = (&ds[k].0, ds[k].1.as_ref());
            let toks = match tokenize(d, true, s) { G::Val(Ok(t)) => t, _ => continue };
            let li = LineIndex::new(s);
            let chars: Vec<char> = s.chars().collect();
            let cuts: Vec<usize> = toks.iter().filter(|t| !is_ws(&t.token)).filter_map(|t| li.offset(t.location.line, t.location.column)).collect();
            let step = if tier == "thorough" || cuts.len() <= 60 { 1 } else { (cuts.len() / 30).max(1) };
            let tcv = (i + k) % 2 == 0;
            let o = Opts { unescape: i % 3 != 0, trailing: Some(tcv), limit: Some(41) };
            let probe = "SELECT prior, connect_by_root FROM t ORDER BY a, offset";
            let fresh_probe = parse(d, o, probe);
            for &cut in cuts.iter().step_by(step).chain(std::iter::once(&chars.len())) {
                if cut == 0 || cut > chars.len() { continue; }
                let prefix: String = chars[..cut].iter().collect();
                r4.evaluations += 1;
                let res = guard(|| {
                    match mk_parser(d, o).try_with_sql(&prefix) {
                        Ok(mut q) => {
                            let r1 = q.parse_statements();
                            let st = q.verif_state();
                            // re-target the same value
                            let r2 = q.try_with_sql(probe).and_then(|mut q2| q2.parse_statements());
                            (r1.is_ok(), Some(st), Some(r2))
                        }
                        Err(_) => (false, None, None),
                    }
                });
                match res {
                    G::Val((ok1, Some(st), Some(r2))) => {
                        if !ok1 { d4.insert((s.split_whitespace().take(2).collect::<Vec<_>>().join(" ").to_ascii_uppercase(), k)); }
                        if !(st.1 && st.2 == tcv && st.3 == o.unescape && st.4 == 41) {
                            r4.fail("reuse/state-not-restored".into(), dn, o, &prefix, format!("verif_state={st:?}"));
                        }
                        if let G::Val(fp) = &fresh_probe { if *fp != r2 { r4.fail("reuse/outcome-differs-from-fresh".into(), dn, o, &prefix, format!("then `{probe}` gives {} instead of {}", trunc(&format!("{r2:?}"), 120), trunc(&format!("{fp:?}"), 120))); } }
                    }
                    G::Val(_) => {}
                    G::Panic(m) => r4.panic(dn, o, &prefix, m),
                }
            }
        }
        r4.distinct_nontrivial = d4.len() as u64;
        r4.sample(serde_json::json!({"probe": "SELECT prior, connect_by_root FROM t ORDER BY a, offset"}));
    }

    // reuse of one Parser value
    let mut r3 = Report::new("C14", "oracle.reuse", "one Parser value re-targeted over random sequences of accepted and rejected corpus texts (try_with_sql / with_tokens): after every run verif_state() must show state Normal, the configured trailing_commas/unescape and the initial recursion depth, and the outcome must equal that of a fresh parser; non-trivial = sequences containing both accepted and rejected texts");
    {
        let mut rng = Rng(seed ^ 0xC14);
        let nseq = if tier == "thorough" { 3000 } else { 400 };
        let mut mixed = 0u64;
        for _ in 0..nseq {
            let k = rng.below(ds.len());
            let (dn, d) = (&ds[k].0, ds[k].1.as_ref());
            let tcv = rng.chance(1, 2);
            let un = rng.chance(1, 2);
            let limit = if rng.chance(1, 3) { 7 } else { 50 };
            let o = Opts { unescape: un, trailing: Some(tcv), limit: Some(limit) };
            let mut p = mk_parser(d, o);
            let (mut saw_ok, mut saw_err) = (false, false);
            for _ in 0..(2 + rng.below(6)) {
                let s = &c.literals[rng.below(c.literals.len())];
                r3.evaluations += 1;
                let fresh = parse(d, o, s);
                let step = guard(|| {
                    let p2 = std::mem::replace(&mut p, mk_parser(d, o));
                    match p2.try_with_sql(s) {
                        Ok(mut q) => { let r = q.parse_statements(); let st = q.verif_state(); p = q; (Some(r), st) }
                        Err(e) => { p = mk_parser(d, o); (Some(Err(e)), (0, true, tcv, un, limit)) }
                    }
                });
                match (step, fresh) {
                    (G::Val((Some(got), st)), G::Val(want)) => {
                        if got.is_ok() { saw_ok = true } else { saw_err = true }
                        if got != want { r3.fail("reuse/outcome-differs-from-fresh".into(), dn, o, s, String::new()); }
                        if !(st.1 && st.2 == tcv && st.3 == un && st.4 == limit) {
                            r3.fail("reuse/state-not-restored".into(), dn, o, s, format!("verif_state={st:?}"));
                        }
                    }
                    (G::Panic(m), _) | (_, G::Panic(m)) => { r3.panic(dn, o, s, m); p = mk_parser(d, o); }
                    _ => {}
                }
            }
            if saw_ok && saw_err { mixed += 1; }
        }
        r3.distinct_nontrivial = mixed;
        r3.sample(serde_json::json!({"sequences": nseq}));
    }
    let mut out = vec![r, r2, r3, r4];
    out.extend(extra_reports);
    out
}

// ------------------------------------------------------------------ C15
pub fn c15(c: &Corpus, tier: &str) -> Report {
    use crate::wrap::{Wrapped, WrappedOwnId};
    let mut r = Report::new("C15", "oracle.wrapped-dialect", "every corpus literal (accepted or not) x 13 dialects x 2 option sets: parse and tokenize under the generated forwarding wrapper (every trait method forwarded, dialect() forwarded) == under the built-in dialect; under the wrapper that keeps its own identity: no panic. non-trivial = distinct (outcome class, dialect)");
    r.exhaustive = true;
    let mut distinct = BTreeSet::new();
    for (i, s) in c.literals.iter().enumerate() {
        if tier != "thorough" && s.len() > 400 && i % 3 != 0 { continue; }
        for dn in DIALECT_NAMES {
            let d = plain_dialect(dn);
            let w = Wrapped(plain_dialect(dn));
            let w2 = WrappedOwnId(plain_dialect(dn));
            for o in [Opts::DEFAULT, Opts { unescape: false, trailing: Some(true), limit: None }] {
                r.evaluations += 1;
                let a = parse(d.as_ref(), o, s);
                let b = parse(&w, o, s);
                match (a, b) {
                    (G::Val(x), G::Val(y)) => { distinct.insert((x.is_ok(), dn)); if x != y { r.fail("wrapped/parse-differs".into(), dn, o, s, format!("{} vs {}", trunc(&format!("{x:?}"), 160), trunc(&format!("{y:?}"), 160))); } }
                    (G::Panic(m), _) | (_, G::Panic(m)) => r.panic(dn, o, s, m),
                }
                match (tokenize(d.as_ref(), o.unescape, s), tokenize(&w, o.unescape, s)) {
                    (G::Val(x), G::Val(y)) => if x != y { r.fail("wrapped/tokenize-differs".into(), dn, o, s, String::new()); },
                    (G::Panic(m), _) | (_, G::Panic(m)) => r.panic(dn, o, s, m),
                }
                if let G::Panic(m) = parse(&w2, o, s) { r.panic(dn, o, s, m); }
                if let G::Panic(m) = tokenize(&w2, o.unescape, s) { r.panic(dn, o, s, m); }
            }
        }
        if i % 1999 == 7 { r.sample(serde_json::json!({"sql": s})); }
    }
    r.distinct_nontrivial = distinct.len() as u64;
    r
}

// ------------------------------------------------------------------ C09
/// Independent recomputation on the real tokenizer: positions are true, strictly increasing, the
/// slices tile the input, determined token texts equal their slices, suffixes re-tokenize alike.
pub fn c09(c: &Corpus, tier: &str, seed: u64) -> Report {
    use sqlparser::tokenizer::Whitespace;
    let mut r = Report::new("C09", "oracle.tiling", "corpus literals and generated fragment soup x 13 dialects x both unescape modes on the real tokenizer: first token at 1:1, locations strictly increasing and equal to (1 + #LF before, 1 + chars since last LF) of a char offset, slices between consecutive offsets tile the text, slice == Display text for words/numbers/punctuation/comments (quoted bodies when unescape is off), tokenizing the suffix at every token boundary reproduces the remaining tokens; non-trivial = distinct (token variant, dialect)");
    let ds = all_dialects();
    let mut distinct = BTreeSet::new();
    let mut rng = Rng(seed ^ 0xC09);
    let frags = ["SELECT", " ", "\n", "\t", "\r\n", "1e5", "1.5E-10", "2e+3", ".5", "1.", "0x1F", "'a''b'", "\"q\"", "`b`", "[x]", "--c\n", "/* c */", "a.b", "@v", "#t", "$1", "$$x$$", "?", "?1", "::", "->>", "<=>", "||", "é", "𝒳", "N'x'", "E'\\n'", "U&'\\0041'", "1e", "1ea", ";", ",", "(", ")", "x'AB'", "%s", "a-b", "1a", "_x", "\u{a0}", "\u{feff}", "\u{200b}", "\u{85}", "\u{2028}", "\r", "\u{0}", "\u{1a}"];
    let mut texts: Vec<String> = c.literals.iter().filter(|s| s.len() < 600).cloned().collect();
    let nsoup = if tier == "thorough" { 60000 } else { 6000 };
    for _ in 0..nsoup {
        let k = 2 + rng.below(7);
        texts.push((0..k).map(|_| *rng.pick(&frags)).collect::<Vec<_>>().join(if rng.chance(1, 3) { " " } else { "" }));
    }
    for (ti, s) in texts.iter().enumerate() {
        let li = LineIndex::new(s);
        let chars: Vec<char> = s.chars().collect();
        for (k, (dn, d)) in ds.iter().enumerate() {
            if tier != "thorough" && (ti + k) % 4 != 0 { continue; }
            for un in [true, false] {
                let o = Opts { unescape: un, trailing: None, limit: None };
                let toks = match tokenize(d.as_ref(), un, s) { G::Val(Ok(t)) => t, G::Val(Err(_)) => continue, G::Panic(m) => { r.panic(dn, o, s, m); continue; } };
                r.evaluations += 1;
                let mut offs = vec![];
                let mut bad = None;
                for (i, t) in toks.iter().enumerate() {
                    match li.offset(t.location.line, t.location.column) {
                        Some(off) if off <= chars.len() => {
                            // true line/col of that offset
                            let nl = chars[..off].iter().filter(|c| **c == '\n').count() as u64 + 1;
                            let col = (off - chars[..off].iter().rposition(|c| *c == '\n').map(|p| p + 1).unwrap_or(0)) as u64 + 1;
                            if (nl, col) != (t.location.line, t.location.column) { bad = Some(format!("token {i} location {}:{} is not a true position", t.location.line, t.location.column)); }
                            if let Some(&prev) = offs.last() { if off <= prev { bad = Some(format!("token {i} position not strictly increasing")); } }
                            offs.push(off);
                        }
                        _ => { bad = Some(format!("token {i} location {}:{} outside the text", t.location.line, t.location.column)); break; }
                    }
                }
                if bad.is_none() && !toks.is_empty() && offs[0] != 0 { bad = Some("first token does not start at offset 0".into()); }
                if let Some(b) = bad { r.fail("position/wrong".into(), dn, o, s, b); continue; }
                for (i, t) in toks.iter().enumerate() {
                    distinct.insert((crate::canon::tok_variant(&t.token), k));
                    let end = if i + 1 < toks.len() { offs[i + 1] } else { chars.len() };
                    let slice: String = chars[offs[i]..end].iter().collect();
                    let determined = match &t.token {
                        Token::Word(w) => w.quote_style.is_none(),
                        Token::Number(..) | Token::Char(_) | Token::Placeholder(_) | Token::CustomBinaryOperator(_) => true,
                        Token::Whitespace(Whitespace::Space) | Token::Whitespace(Whitespace::Newline) | Token::Whitespace(Whitespace::Tab) => false,
                        Token::Whitespace(_) => true,
                        Token::SingleQuotedString(_) | Token::DoubleQuotedString(_) => !un,
                        Token::HexStringLiteral(_) | Token::Neq | Token::EOF => false,
                        Token::DollarQuotedString(_) | Token::NationalStringLiteral(_) | Token::EscapedStringLiteral(_) | Token::UnicodeStringLiteral(_) => false,
                        Token::TripleSingleQuotedString(_) | Token::TripleDoubleQuotedString(_) => false,
                        Token::SingleQuotedByteStringLiteral(_) | Token::DoubleQuotedByteStringLiteral(_) | Token::TripleSingleQuotedByteStringLiteral(_) | Token::TripleDoubleQuotedByteStringLiteral(_) => false,
                        Token::SingleQuotedRawStringLiteral(_) | Token::DoubleQuotedRawStringLiteral(_) | Token::TripleSingleQuotedRawStringLiteral(_) | Token::TripleDoubleQuotedRawStringLiteral(_) => false,
                        _ => true,
                    };
                    let shown = match &t.token { Token::Number(n, l) => format!("{n}{}", if *l { "L" } else { "" }), x => x.to_string() };
                    if determined && i + 1 < toks.len() && slice != shown {
                        r.fail(format!("slice-differs/{}", crate::canon::tok_variant(&t.token)), dn, o, s, format!("token {i}: slice {slice:?} vs text {shown:?}"));
                        break;
                    }
                    // suffix stability (sampled: every boundary in thorough, every 3rd otherwise)
                    if i > 0 && (tier == "thorough" || i % 3 == 1) {
                        let suffix: String = chars[offs[i]..].iter().collect();
                        match tokenize(d.as_ref(), un, &suffix) {
                            G::Val(Ok(st)) => {
                                let a: Vec<&Token> = st.iter().map(|x| &x.token).collect();
                                let b: Vec<&Token> = toks[i..].iter().map(|x| &x.token).collect();
                                if a != b { r.fail("suffix-unstable".into(), dn, o, s, format!("at token {i} (offset {})", offs[i])); break; }
                            }
                            G::Val(Err(e)) => { r.fail("suffix-unstable".into(), dn, o, s, format!("suffix at token {i} fails: {e}")); break; }
                            G::Panic(m) => r.panic(dn, o, &suffix, m),
                        }
                    }
                }
                if r.evaluations % 20011 == 1 { r.sample(serde_json::json!({"dialect": dn, "unescape": un, "text": s, "tokens": toks.len()})); }
            }
        }
    }
    r.distinct_nontrivial = distinct.len() as u64;
    r
}

//! Whole-grammar oracles applied directly to the real code on corpus texts.
use crate::common::*;
use sqlparser::ast::Statement;
use sqlparser::dialect::Dialect;
use sqlparser::keywords::Keyword;
use sqlparser::parser::ParserError;
use sqlparser::tokenizer::{Token, TokenWithLocation, Whitespace};
use std::collections::{BTreeMap, BTreeSet};

fn has_copy_stdin(v: &[Statement]) -> bool {
    v.iter().any(|s| matches!(s, Statement::Copy { .. }) && s.to_string().contains("STDIN"))
}

fn print_all(v: &[Statement]) -> G<Vec<String>> {
    guard(|| v.iter().map(|a| a.to_string()).collect())
}

// ------------------------------------------------------------------ C01
pub fn c01(c: &Corpus, _tier: &str) -> Report {
    let mut r = Report::new("C01", "oracle.roundtrip", "every accepted corpus (text, dialect) pair x 4 option sets: parse(print a) == [a], print idempotent, joined script; non-trivial = distinct (statement variant, dialect)");
    r.exhaustive = true;
    let ds = all_dialects();
    let mut distinct = BTreeSet::new();
    for &(i, k) in &c.accepted {
        let s = &c.literals[i];
        let (dn, d) = (&ds[k].0, ds[k].1.as_ref());
        for o in OPTSETS {
            let v = match parse(d, o, s) {
                G::Val(Ok(v)) => v,
                G::Val(Err(_)) => continue,
                G::Panic(m) => { r.panic(dn, o, s, m); continue; }
            };
            r.evaluations += 1;
            let printed = match print_all(&v) {
                G::Val(p) => p,
                G::Panic(m) => { r.panic(dn, o, s, m); continue; }
            };
            for (a, p) in v.iter().zip(printed.iter()) {
                let var = variant_of(a);
                distinct.insert((var.clone(), k));
                match parse(d, o, p) {
                    G::Val(Ok(w)) => {
                        if w.len() != 1 {
                            r.fail(format!("{var}/count"), dn, o, s, format!("printed={p:?} reparsed to {} statements", w.len()));
                        } else if &w[0] != a {
                            r.fail(format!("{var}/differs"), dn, o, s, format!("printed={p:?} reprinted={:?}", w[0].to_string()));
                        } else if w[0].to_string() != *p {
                            r.fail(format!("{var}/print-not-idempotent"), dn, o, s, format!("printed={p:?}"));
                        }
                    }
                    G::Val(Err(e)) => r.fail(format!("{var}/reject"), dn, o, s, format!("printed={p:?} error={e}")),
                    G::Panic(m) => r.panic(dn, o, p, m),
                }
            }
            if v.len() > 1 && !has_copy_stdin(&v) {
                let joined = printed.join("; ");
                match parse(d, o, &joined) {
                    G::Val(Ok(w)) if w == v => {}
                    G::Val(other) => r.fail(format!("{}/script", variant_of(&v[0])), dn, o, s, format!("joined={joined:?} result={}", trunc(&format!("{other:?}"), 200))),
                    G::Panic(m) => r.panic(dn, o, &joined, m),
                }
            }
            if r.evaluations % 9973 == 1 {
                r.sample(serde_json::json!({"dialect": dn, "opts": o.tag(), "sql": s, "printed": printed}));
            }
        }
    }
    r.distinct_nontrivial = distinct.len() as u64;
    r
}

// ------------------------------------------------------------------ C05
#[derive(PartialEq, Eq, PartialOrd, Ord, Debug, Clone)]
enum Content {
    Ident(String, Option<char>),
    Num(String),
    Str(String),
    Placeholder(String),
}

fn content_bag(toks: &[TokenWithLocation]) -> BTreeMap<Content, i64> {
    let mut m = BTreeMap::new();
    for t in toks {
        let c = match &t.token {
            Token::Word(w) if w.keyword == Keyword::NoKeyword => Content::Ident(w.value.clone(), w.quote_style),
            Token::Number(n, _) => Content::Num(n.clone()),
            Token::SingleQuotedString(s)
            | Token::DoubleQuotedString(s)
            | Token::TripleSingleQuotedString(s)
            | Token::TripleDoubleQuotedString(s)
            | Token::SingleQuotedByteStringLiteral(s)
            | Token::DoubleQuotedByteStringLiteral(s)
            | Token::TripleSingleQuotedByteStringLiteral(s)
            | Token::TripleDoubleQuotedByteStringLiteral(s)
            | Token::SingleQuotedRawStringLiteral(s)
            | Token::DoubleQuotedRawStringLiteral(s)
            | Token::TripleSingleQuotedRawStringLiteral(s)
            | Token::TripleDoubleQuotedRawStringLiteral(s)
            | Token::NationalStringLiteral(s)
            | Token::EscapedStringLiteral(s)
            | Token::UnicodeStringLiteral(s)
            | Token::HexStringLiteral(s) => Content::Str(s.clone()),
            Token::DollarQuotedString(s) => Content::Str(s.value.clone()),
            Token::Placeholder(p) => Content::Placeholder(p.clone()),
            _ => continue,
        };
        *m.entry(c).or_insert(0) += 1;
    }
    m
}

pub fn c05(c: &Corpus, _tier: &str) -> Report {
    let mut r = Report::new("C05", "oracle.content-bag", "every accepted corpus (text, dialect) pair: bag of content tokens (real tokenizer) of the input == bag of the printed parse; non-trivial = distinct (first statement variant, dialect) with a non-empty bag");
    r.exhaustive = true;
    let ds = all_dialects();
    let mut distinct = BTreeSet::new();
    for &(i, k) in &c.accepted {
        let s = &c.literals[i];
        let (dn, d) = (&ds[k].0, ds[k].1.as_ref());
        let o = Opts::DEFAULT;
        let v = match parse(d, o, s) { G::Val(Ok(v)) => v, _ => continue };
        if has_copy_stdin(&v) { r.count("skipped/copy-stdin"); continue; }
        let printed = match print_all(&v) { G::Val(p) => p.join("; "), G::Panic(m) => { r.panic(dn, o, s, m); continue; } };
        let (t1, t2) = match (tokenize(d, true, s), tokenize(d, true, &printed)) {
            (G::Val(Ok(a)), G::Val(Ok(b))) => (a, b),
            (_, G::Val(Err(e))) => { r.fail(format!("{}/print-does-not-lex", variant_of(&v[0])), dn, o, s, format!("printed={printed:?} err={e}")); continue; }
            _ => continue,
        };
        r.evaluations += 1;
        let (b1, b2) = (content_bag(&t1), content_bag(&t2));
        if !b1.is_empty() { distinct.insert((variant_of(&v[0]), k)); }
        if b1 != b2 {
            let mut lost = vec![]; let mut invented = vec![];
            for (kx, n) in &b1 { let m = b2.get(kx).copied().unwrap_or(0); if m < *n { lost.push(format!("{kx:?}")); } }
            for (kx, n) in &b2 { let m = b1.get(kx).copied().unwrap_or(0); if m < *n { invented.push(format!("{kx:?}")); } }
            let kind = if !lost.is_empty() && invented.is_empty() { "lost" } else if lost.is_empty() { "invented" } else { "changed" };
            r.fail(format!("{}/{kind}", variant_of(&v[0])), dn, o, s, format!("printed={printed:?} lost={lost:?} invented={invented:?}"));
        }
        if r.evaluations % 4001 == 1 { r.sample(serde_json::json!({"dialect": dn, "sql": s, "bag": format!("{b1:?}")})); }
    }
    r.distinct_nontrivial = distinct.len() as u64;
    r
}

// ------------------------------------------------------------------ C11
fn joiner_for(toks: &[TokenWithLocation]) -> &'static str {
    match toks.iter().rev().find(|t| !matches!(t.token, Token::EOF)) {
        Some(t) if is_line_comment(&t.token) => "\n;\n",
        _ => " ; ",
    }
}

pub fn c11(c: &Corpus, _tier: &str) -> Report {
    let mut r = Report::new("C11", "oracle.script-concat", "every corpus text accepted as exactly one statement x dialect x followers {SELECT 1, itself, COMMIT} x layouts: parse(s1 ; s2) == parse(s1) ++ parse(s2), with empty statements and trailing semicolon; non-trivial = distinct (statement variant, dialect)");
    r.exhaustive = true;
    let ds = all_dialects();
    let mut distinct = BTreeSet::new();
    let o = Opts::DEFAULT;
    for &(i, k) in &c.accepted {
        let s = &c.literals[i];
        let (dn, d) = (&ds[k].0, ds[k].1.as_ref());
        let v = match parse(d, o, s) { G::Val(Ok(v)) => v, _ => continue };
        if v.len() != 1 || has_copy_stdin(&v) { continue; }
        // the text must not itself contain a separator at top level: require that
        // the token stream has no SemiColon token at all
        let toks = match tokenize(d, true, s) { G::Val(Ok(t)) => t, _ => continue };
        if toks.iter().any(|t| t.token == Token::SemiColon) { r.count("skipped/has-semicolon"); continue; }
        let j = joiner_for(&toks);
        distinct.insert((variant_of(&v[0]), k));
        let followers: [(&str, &str); 3] = [("select1", "SELECT 1"), ("self", s.as_str()), ("commit", "COMMIT")];
        for (fname, f) in followers {
            let fv = match parse(d, o, f) { G::Val(Ok(fv)) => fv, _ => continue };
            let variants = [format!("{s}{j}{f}"), format!(";{s}{j};\n;{f}{}", if j == " ; " { ";" } else { "\n;" })];
            for (vi, script) in variants.iter().enumerate() {
                r.evaluations += 1;
                let mut want = v.clone();
                want.extend(fv.iter().cloned());
                match parse(d, o, script) {
                    G::Val(Ok(w)) if w == want => {}
                    G::Val(Ok(w)) => r.fail(format!("{}/swallow", variant_of(&v[0])), dn, o, script, format!("follower={fname} layout={vi} got {} statements: {}", w.len(), trunc(&w.iter().map(|x| x.to_string()).collect::<Vec<_>>().join(" ;; "), 300))),
                    G::Val(Err(e)) => r.fail(format!("{}/reject", variant_of(&v[0])), dn, o, script, format!("follower={fname} layout={vi} error={e}")),
                    G::Panic(m) => r.panic(dn, o, script, m),
                }
            }
        }
        if r.evaluations % 5003 < 6 { r.sample(serde_json::json!({"dialect": dn, "s1": s, "joiner": j})); }
    }
    r.distinct_nontrivial = distinct.len() as u64;
    r
}

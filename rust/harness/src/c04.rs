//! C04: operator precedence / Pratt expression parser.
//! Correspondence streams `prec` (get_next_precedence) and `chains` (parse_expr on token lists),
//! plus the canonical S-expression of the modelled expression fragment.
use crate::canon::toks_canon_noloc;
use crate::common::*;
use sqlparser::ast::{BinaryOperator, CastKind, DataType, Expr, Ident, Value};
use sqlparser::dialect::Dialect;
use sqlparser::keywords::Keyword;
use sqlparser::parser::{Parser, ParserError};
use sqlparser::tokenizer::{Token, Tokenizer, Word};
use std::collections::BTreeSet;
use std::io::Write;

// ---------------------------------------------------------------- S-expressions
/// compact hex: code points joined by `.`, `-` for the empty string
pub fn hx(s: &str) -> String {
    if s.is_empty() {
        return "-".into();
    }
    s.chars().map(|c| format!("{:x}", c as u32)).collect::<Vec<_>>().join(".")
}

fn id_sexp(i: &Ident) -> String {
    format!("(id {} {})", hx(&i.value), i.quote_style.map(|c| format!("{:x}", c as u32)).unwrap_or("-".into()))
}

/// data types the model knows: printed form is the bare keyword
pub const SIMPLE_TYPES: [&str; 16] = [
    "INT", "INTEGER", "BIGINT", "SMALLINT", "TINYINT", "BOOLEAN", "BOOL", "TEXT", "REAL", "DATE", "UUID", "JSON", "JSONB",
    "BYTEA", "FLOAT", "VARCHAR",
];

fn binop_name(op: &BinaryOperator) -> Option<String> {
    match op {
        BinaryOperator::Custom(s) => Some(format!("Custom:{}", hx(s))),
        BinaryOperator::PGCustomBinaryOperator(_) => None,
        o => Some(format!("{o:?}")),
    }
}

fn b(x: bool) -> u8 {
    x as u8
}

/// Canonical S-expression of the modelled fragment; `None` when some node is outside it.
pub fn expr_sexp(e: &Expr) -> Option<String> {
    Some(match e {
        Expr::Identifier(i) => id_sexp(i),
        Expr::CompoundIdentifier(v) => format!("(cid {})", v.iter().map(id_sexp).collect::<Vec<_>>().join(" ")),
        Expr::Value(v) => match v {
            Value::Number(s, l) => format!("(num {} {})", hx(s), b(*l)),
            Value::SingleQuotedString(s) => format!("(str {})", hx(s)),
            Value::DoubleQuotedString(s) => format!("(dstr {})", hx(s)),
            Value::Placeholder(s) => format!("(ph {})", hx(s)),
            Value::Boolean(x) => format!("(bool {})", b(*x)),
            Value::Null => "(null)".into(),
            _ => return None,
        },
        Expr::Nested(x) => format!("(nested {})", expr_sexp(x)?),
        Expr::UnaryOp { op, expr, .. } => format!("(un {op:?} {})", expr_sexp(expr)?),
        Expr::BinaryOp { left, op, right, .. } => format!("(bin {} {} {})", binop_name(op)?, expr_sexp(left)?, expr_sexp(right)?),
        Expr::AnyOp { left, compare_op, right, is_some, .. } => {
            format!("(any {} {} {} {})", binop_name(compare_op)?, b(*is_some), expr_sexp(left)?, expr_sexp(right)?)
        }
        Expr::AllOp { left, compare_op, right, .. } => format!("(all {} {} {})", binop_name(compare_op)?, expr_sexp(left)?, expr_sexp(right)?),
        Expr::IsNull(x) => format!("(is Null {})", expr_sexp(x)?),
        Expr::IsNotNull(x) => format!("(is NotNull {})", expr_sexp(x)?),
        Expr::IsTrue(x) => format!("(is True {})", expr_sexp(x)?),
        Expr::IsNotTrue(x) => format!("(is NotTrue {})", expr_sexp(x)?),
        Expr::IsFalse(x) => format!("(is False {})", expr_sexp(x)?),
        Expr::IsNotFalse(x) => format!("(is NotFalse {})", expr_sexp(x)?),
        Expr::IsUnknown(x) => format!("(is Unknown {})", expr_sexp(x)?),
        Expr::IsNotUnknown(x) => format!("(is NotUnknown {})", expr_sexp(x)?),
        Expr::IsDistinctFrom(a, c) => format!("(isdf 0 {} {})", expr_sexp(a)?, expr_sexp(c)?),
        Expr::IsNotDistinctFrom(a, c) => format!("(isdf 1 {} {})", expr_sexp(a)?, expr_sexp(c)?),
        Expr::InList { expr, list, negated, .. } => {
            let mut items = vec![];
            for x in list {
                items.push(expr_sexp(x)?);
            }
            format!("(inlist {} {} (list{}))", b(*negated), expr_sexp(expr)?, items.iter().map(|s| format!(" {s}")).collect::<String>())
        }
        Expr::Between { expr, negated, low, high, .. } => {
            format!("(between {} {} {} {})", b(*negated), expr_sexp(expr)?, expr_sexp(low)?, expr_sexp(high)?)
        }
        Expr::Like { negated, any, expr, pattern, escape_char, .. } => like_sexp("Like", *negated, *any, expr, pattern, escape_char)?,
        Expr::ILike { negated, any, expr, pattern, escape_char, .. } => like_sexp("ILike", *negated, *any, expr, pattern, escape_char)?,
        Expr::SimilarTo { negated, expr, pattern, escape_char, .. } => like_sexp("SimilarTo", *negated, false, expr, pattern, escape_char)?,
        Expr::RLike { negated, expr, pattern, regexp, .. } => like_sexp(if *regexp { "Regexp" } else { "RLike" }, *negated, false, expr, pattern, &None)?,
        Expr::AtTimeZone { timestamp, time_zone, .. } => format!("(attz {} {})", expr_sexp(timestamp)?, expr_sexp(time_zone)?),
        Expr::Cast { kind: CastKind::DoubleColon, expr, data_type, format: None, .. } => {
            let t = simple_type(data_type)?;
            format!("(cast {} {})", expr_sexp(expr)?, hx(&t))
        }
        _ => return None,
    })
}

fn simple_type(dt: &DataType) -> Option<String> {
    let s = format!("{dt}");
    if SIMPLE_TYPES.contains(&s.as_str()) {
        Some(s)
    } else {
        None
    }
}

fn like_sexp(kind: &str, neg: bool, any: bool, e: &Expr, p: &Expr, esc: &Option<String>) -> Option<String> {
    Some(format!(
        "(like {kind} {} {} {} {} {})",
        b(neg),
        b(any),
        expr_sexp(e)?,
        expr_sexp(p)?,
        esc.as_ref().map(|s| hx(s)).unwrap_or("none".into())
    ))
}

// ---------------------------------------------------------------- token helpers
pub fn lex_nows(d: &dyn Dialect, sql: &str) -> Option<Vec<Token>> {
    match guard(|| Tokenizer::new(d, sql).tokenize()) {
        G::Val(Ok(ts)) => Some(ts.into_iter().filter(|t| !is_ws(t)).collect()),
        _ => None,
    }
}

/// every payload-free variant of `Token` (the match below fails to compile when a variant is added)
pub fn unit_tokens() -> Vec<Token> {
    use Token::*;
    let v = vec![
        Comma, DoubleEq, Eq, Neq, Lt, Gt, LtEq, GtEq, Spaceship, Plus, Minus, Mul, Div, DuckIntDiv, Mod, StringConcat, LParen, RParen,
        Period, Colon, DoubleColon, Assignment, SemiColon, Backslash, LBracket, RBracket, Ampersand, Pipe, Caret, LBrace, RBrace,
        RArrow, Sharp, Tilde, TildeAsterisk, ExclamationMarkTilde, ExclamationMarkTildeAsterisk, DoubleTilde, DoubleTildeAsterisk,
        ExclamationMarkDoubleTilde, ExclamationMarkDoubleTildeAsterisk, ShiftLeft, ShiftRight, Overlap, ExclamationMark,
        DoubleExclamationMark, AtSign, CaretAt, PGSquareRoot, PGCubeRoot, Arrow, LongArrow, HashArrow, HashLongArrow, AtArrow, ArrowAt,
        HashMinus, AtQuestion, AtAt, Question, QuestionAnd, QuestionPipe,
    ];
    // completeness of this list against `enum Token` is an inventory obligation of C04
    // (translator: `token_variants`), not a compile-time match: a new token variant must not stop
    // the harness of all twenty properties from building
    v
}

fn kw(s: &str) -> Token {
    Token::make_keyword(s)
}

// ---------------------------------------------------------------- stream `prec`
/// request `prec \t dialect \t tokens`; answer = precedence number (or ERR/PANIC)
pub fn corr_prec(dir: &str, _seed: u64, _tier: &str) -> Report {
    let mut r = Report::new("C04", "corr.prec", "get_next_precedence on every dialect x first token (all payload-free tokens, every keyword the precedence functions look at, neutral words/literals) x second token (look-ahead keywords, neutral, none) x third token (ZONE, neutral, none); exhaustive over that finite domain; non-trivial = distinct (dialect, first token, answer)");
    r.exhaustive = true;
    let mut req = std::io::BufWriter::new(std::fs::File::create(format!("{dir}/prec.req")).unwrap());
    let mut real = std::io::BufWriter::new(std::fs::File::create(format!("{dir}/prec.real")).unwrap());
    let mut firsts: Vec<Token> = unit_tokens();
    for k in [
        "OR", "AND", "XOR", "AT", "NOT", "IS", "IN", "BETWEEN", "LIKE", "ILIKE", "RLIKE", "REGEXP", "SIMILAR", "OPERATOR", "DIV", "COLLATE",
        "TIME", "ZONE", "NULL", "TRUE", "SELECT", "ESCAPE", "TO", "ANY", "x", "not_a_kw",
    ] {
        firsts.push(kw(k));
    }
    firsts.push(Token::make_word("AND", Some('"')));
    firsts.push(Token::make_word("x", Some('`')));
    firsts.push(Token::Number("1".into(), false));
    firsts.push(Token::SingleQuotedString("s".into()));
    firsts.push(Token::DoubleQuotedString("s".into()));
    firsts.push(Token::Placeholder("?".into()));
    firsts.push(Token::Placeholder("$1".into()));
    firsts.push(Token::CustomBinaryOperator("~@".into()));
    firsts.push(Token::CustomBinaryOperator("<->".into()));
    firsts.push(Token::Char('\u{1}'));
    firsts.push(Token::NationalStringLiteral("n".into()));
    let mut seconds: Vec<Option<Token>> = vec![None];
    for k in ["IN", "BETWEEN", "LIKE", "ILIKE", "RLIKE", "REGEXP", "SIMILAR", "TIME", "NULL", "NOT", "ZONE", "x"] {
        seconds.push(Some(kw(k)));
    }
    seconds.push(Some(Token::make_word("TIME", Some('"'))));
    seconds.push(Some(Token::make_word("IN", Some('"'))));
    seconds.push(Some(Token::LParen));
    let thirds: Vec<Option<Token>> = vec![None, Some(kw("ZONE")), Some(kw("x")), Some(Token::make_word("ZONE", Some('"'))), Some(kw("TIME"))];
    let mut distinct = BTreeSet::new();
    for (dn, d) in all_dialects() {
        for f in &firsts {
            for s in &seconds {
                for t in &thirds {
                    if s.is_none() && t.is_some() {
                        continue;
                    }
                    let mut toks = vec![f.clone()];
                    if let Some(s) = s {
                        toks.push(s.clone());
                    }
                    if let Some(t) = t {
                        toks.push(t.clone());
                    }
                    writeln!(req, "prec\t{dn}\t{}", toks_canon_noloc(&toks)).unwrap();
                    let ans = match guard(|| Parser::new(d.as_ref()).with_tokens(toks.clone()).get_next_precedence()) {
                        G::Val(Ok(p)) => p.to_string(),
                        G::Val(Err(e)) => err_line(&e),
                        G::Panic(m) => format!("PANIC {m}"),
                    };
                    distinct.insert((dn, crate::canon::tok_canon(f), ans.clone()));
                    r.count(&format!("prec/{ans}"));
                    writeln!(real, "{ans}").unwrap();
                    r.evaluations += 1;
                }
            }
        }
        // empty token list
        writeln!(req, "prec\t{dn}\t").unwrap();
        let ans = match guard(|| Parser::new(d.as_ref()).with_tokens(vec![]).get_next_precedence()) {
            G::Val(Ok(p)) => p.to_string(),
            G::Val(Err(e)) => err_line(&e),
            G::Panic(m) => format!("PANIC {m}"),
        };
        writeln!(real, "{ans}").unwrap();
        r.evaluations += 1;
    }
    r.distinct_nontrivial = distinct.len() as u64;
    r.sample(serde_json::json!({"first_tokens": firsts.len(), "second": seconds.len(), "third": thirds.len()}));
    r
}

pub fn err_line(e: &ParserError) -> String {
    let msg = match e {
        ParserError::TokenizerError(s) | ParserError::ParserError(s) => s.clone(),
        ParserError::RecursionLimitExceeded => String::new(),
    };
    match e {
        ParserError::RecursionLimitExceeded => "ERR:rle".into(),
        _ => format!("ERR:{}:{}", err_class(e), hex(&msg)),
    }
}

// ---------------------------------------------------------------- stream `chains`
#[derive(Clone, Debug, PartialEq)]
enum Kind {
    /// `L op R`
    Infix,
    /// `L op` (nothing follows)
    Postfix,
    /// `L op R ESCAPE '!'`
    InfixEsc,
}

#[derive(Clone, Debug)]
struct Op {
    text: String,
    kind: Kind,
}

fn op(text: &str, kind: Kind) -> Op {
    Op { text: text.into(), kind }
}

/// candidate operator spellings; a dialect keeps those its lexer turns into tokens whose first
/// token has a non-zero precedence in that dialect
fn candidate_ops() -> Vec<Op> {
    let mut v = vec![];
    for t in [
        "+", "-", "*", "/", "%", "||", "|", "&", "^", "#", "<<", ">>", "&&", "^@", "=", "==", "<>", "!=", "<", ">", "<=", ">=", "<=>", "~", "~*",
        "!~", "!~*", "~~", "~~*", "!~~", "!~~*", "->", "->>", "#>", "#>>", "@>", "<@", "#-", "@?", "@@", "?", "?&", "?|", "//", "~@", "<->",
        "AND", "OR", "XOR", "DIV", "IS DISTINCT FROM", "IS NOT DISTINCT FROM", "LIKE", "NOT LIKE", "ILIKE", "NOT ILIKE", "SIMILAR TO",
        "NOT SIMILAR TO", "RLIKE", "NOT RLIKE", "REGEXP", "NOT REGEXP", "LIKE ANY", "AT TIME ZONE", "BETWEEN x AND", "NOT BETWEEN x AND",
        "BETWEEN x + y AND", "= ANY (z) AND", ":",
    ] {
        v.push(op(t, Kind::Infix));
    }
    for t in [
        "IS NULL", "IS NOT NULL", "IS TRUE", "IS NOT TRUE", "IS FALSE", "IS NOT FALSE", "IS UNKNOWN", "IS NOT UNKNOWN", "IN (x, y)", "NOT IN (x)",
        "IN (x + y, NOT z)", "::INT", "::TEXT", "::BOOLEAN", "!", "= ANY (z)", "< ALL (x + y)", "<> SOME (z)", "+ ANY (z)", "COLLATE",
    ] {
        v.push(op(t, Kind::Postfix));
    }
    for t in ["LIKE", "NOT ILIKE", "SIMILAR TO"] {
        v.push(op(t, Kind::InfixEsc));
    }
    v
}

fn dialect_ops(d: &dyn Dialect) -> Vec<Op> {
    let mut out = vec![];
    for o in candidate_ops() {
        let sql = format!("a {} b", o.text);
        let toks = match lex_nows(d, &sql) {
            Some(t) if t.len() >= 2 => t,
            _ => continue,
        };
        let rest: Vec<Token> = toks[1..].to_vec();
        match guard(|| Parser::new(d).with_tokens(rest.clone()).get_next_precedence()) {
            G::Val(Ok(p)) if p > 0 => out.push(o),
            _ => {}
        }
    }
    out
}

/// a chain as SQL text. `pre[i]` is written before operand `i`; `group = Some((i, j))` wraps the
/// text from operand `i` to the end of segment `j` in parentheses (segment 0 = first operand).
fn chain_sql(ops: &[&Op], pre: &[&str], group: Option<(usize, usize)>, wrap_atom: Option<usize>) -> String {
    const ATOMS: [&str; 12] = ["a", "b", "c", "d", "e", "f", "g", "h", "i", "j", "k", "l"];
    let mut s = String::new();
    let mut operand = 0usize;
    let mut seg = 0usize;
    let mut open = false;
    let put_operand = |s: &mut String, operand: &mut usize, _seg: usize, open: &mut bool| {
        if let Some((i, _)) = group {
            if i == *operand && !*open {
                s.push('(');
                *open = true;
            }
        }
        let p = pre.get(*operand).copied().unwrap_or("");
        s.push_str(p);
        if !p.is_empty() && p.chars().last().unwrap().is_alphabetic() {
            s.push(' ');
        }
        if wrap_atom == Some(*operand) {
            s.push('(');
            s.push_str(ATOMS[*operand % 12]);
            s.push(')');
        } else {
            s.push_str(ATOMS[*operand % 12]);
        }
        *operand += 1;
    };
    put_operand(&mut s, &mut operand, seg, &mut open);
    if let Some((_, j)) = group {
        if open && j == 0 {
            s.push(')');
            open = false;
        }
    }
    for o in ops {
        seg += 1;
        s.push(' ');
        s.push_str(&o.text);
        match o.kind {
            Kind::Postfix => {}
            Kind::Infix => {
                s.push(' ');
                put_operand(&mut s, &mut operand, seg, &mut open);
            }
            Kind::InfixEsc => {
                s.push(' ');
                put_operand(&mut s, &mut operand, seg, &mut open);
                s.push_str(" ESCAPE '!'");
            }
        }
        if let Some((_, j)) = group {
            if open && j == seg {
                s.push(')');
                open = false;
            }
        }
    }
    if open {
        s.push(')');
    }
    s
}

fn operands_of(ops: &[&Op]) -> usize {
    1 + ops.iter().filter(|o| o.kind != Kind::Postfix).count()
}

struct Chains<'a> {
    req: std::io::BufWriter<std::fs::File>,
    real: std::io::BufWriter<std::fs::File>,
    r: &'a mut Report,
    distinct: BTreeSet<u64>,
    unsupported: u64,
}

fn fnv(s: &str) -> u64 {
    let mut h = 0xcbf29ce484222325u64;
    for b in s.bytes() {
        h ^= b as u64;
        h = h.wrapping_mul(0x100000001b3);
    }
    h
}

pub fn real_chain(d: &dyn Dialect, limit: usize, toks: &[Token]) -> String {
    let n = toks.len();
    match guard(|| {
        let mut p = Parser::new(d).with_recursion_limit(limit).with_tokens(toks.to_vec());
        let e = p.parse_expr();
        let _ = p.peek_token();
        (e, p.verif_state().0)
    }) {
        G::Val((Ok(e), idx)) => match expr_sexp(&e) {
            Some(s) => format!("OK {s} REST {}", n.saturating_sub(idx)),
            None => "UNSUPPORTED".into(),
        },
        G::Val((Err(e), _)) => err_line(&e),
        G::Panic(m) => format!("PANIC {m}"),
    }
}

impl<'a> Chains<'a> {
    fn emit_toks(&mut self, dn: &str, d: &dyn Dialect, limit: usize, toks: &[Token], class: &str) {
        let line = format!("chains\t{dn}\t{limit}\t{}", toks_canon_noloc(toks));
        writeln!(self.req, "{line}").unwrap();
        let ans = real_chain(d, limit, toks);
        self.r.evaluations += 1;
        self.r.count(&format!("class/{class}"));
        if ans.starts_with("OK") {
            self.r.count("answer/ok");
            // operators hit: heads of the S-expression nodes
            for w in ans.split('(').skip(1) {
                let mut it = w.split(' ');
                let head = it.next().unwrap_or("").trim_end_matches(')');
                match head {
                    "bin" | "un" | "is" | "like" | "any" | "all" => {
                        let k = it.next().unwrap_or("");
                        let k = if k.starts_with("Custom:") { "Custom" } else { k };
                        self.r.count(&format!("op/{head}.{k}"));
                    }
                    "id" | "num" | "str" | "dstr" | "ph" | "bool" | "null" | "list" | "" => {}
                    h => self.r.count(&format!("op/{h}")),
                }
            }
        } else if ans.starts_with("ERR:rle") {
            self.r.count("answer/err.rle");
        } else if ans.starts_with("ERR:") {
            self.r.count("answer/err.syntax");
            let msg = unhex(ans.splitn(3, ':').nth(2).unwrap_or("-"));
            let head: String = msg.split(", found").next().unwrap_or("").chars().take(60).collect();
            let head = if head.starts_with("No infix parser") { "No infix parser".to_string() } else { head };
            self.r.count(&format!("err/{head}"));
        } else if ans.starts_with("UNSUPPORTED") {
            self.unsupported += 1;
            self.r.count("answer/unsupported");
        } else {
            self.r.count("answer/panic");
            self.r.panic(dn, Opts::DEFAULT, &line, ans.clone());
        }
        self.distinct.insert(fnv(&format!("{dn}{ans}")));
        if self.r.evaluations % 40009 == 11 {
            self.r.sample(serde_json::json!({"dialect": dn, "limit": limit, "tokens": toks.iter().map(|t| t.to_string()).collect::<Vec<_>>().join(" "), "answer": trunc(&ans, 300)}));
        }
        writeln!(self.real, "{ans}").unwrap();
    }
    fn emit_sql(&mut self, dn: &str, d: &dyn Dialect, limit: usize, sql: &str, class: &str) -> Option<Vec<Token>> {
        let toks = lex_nows(d, sql)?;
        self.emit_toks(dn, d, limit, &toks, class);
        Some(toks)
    }
}

/// request `chains \t dialect \t limit \t tokens`; answer `OK <sexp> REST <n>` | `ERR:..` | `UNSUPPORTED`
pub fn corr_chains(dir: &str, seed: u64, tier: &str) -> Report {
    let mut r = Report::new("C04", "corr.chains", "parse_expr on token lists: per dialect, all ordered pairs of its operators (infix, mixfix, postfix) between atoms, with a prefix operator at each operand position, parentheses at every operand/sub-chain position; triples (quick: deterministic 5% stride, thorough: all); random chains of 4-8 operators with random prefixes/parentheses; every truncation of the single-operator and sampled longer chains; parenthesis / prefix-operator nesting around the recursion limit; non-trivial = distinct (dialect, answer)");
    let thorough = tier == "thorough";
    let mut c = Chains {
        req: std::io::BufWriter::new(std::fs::File::create(format!("{dir}/chains.req")).unwrap()),
        real: std::io::BufWriter::new(std::fs::File::create(format!("{dir}/chains.real")).unwrap()),
        r: &mut r,
        distinct: BTreeSet::new(),
        unsupported: 0,
    };
    let mut rng = Rng(seed ^ 0xC04);
    for (dn, d) in all_dialects() {
        let d = d.as_ref();
        let ops = dialect_ops(d);
        c.r.dist.insert(format!("ops/{dn}"), ops.len() as u64);
        let mut prefixes: Vec<&str> = vec!["NOT", "-", "+"];
        if dn == "postgresql" || dn == "generic" {
            prefixes.extend(["~", "@", "|/", "||/", "!!"]);
        }
        let lim = 50usize;
        // ---- atoms and single operators, every truncation
        for a in ["a", "a.b", "a.b.c", "\"a\"", "`a`", "[a]", "1", "1.5", "'s'", "\"s\"", "?", "$1", "TRUE", "false", "NULL", "(a)", "((a))", "a.'b'", "a.", "a.1", "()", "(a", "(a b)", ")", "", "_x 'a'", "+", "NOT", "- - a", "NOT NOT a", "-+-a", "a COLLATE b", "DATE", "x AND", "a -> b", "(a) -> b", "(a, b) -> c", "(a).b", "a b", "a 1", "a NOT b", "a NOT", "a AT b", "a AT TIME b", "a IS", "a IS NOT", "a IS b", "a IS DISTINCT b", "a IN", "a IN b", "a IN ()", "a IN (b,)", "a IN (b,,c)", "a IN (b c)", "a IN (SELECT 1)", "a IN UNNEST(b)", "a BETWEEN b", "a BETWEEN b OR c", "a BETWEEN b AND", "a LIKE b ESCAPE", "a LIKE b ESCAPE c", "a LIKE b ESCAPE \"c\"", "a LIKE b ESCAPE 1", "a SIMILAR b", "a::", "a::b", "a::INT(3)", "a::INT[]", "a::INT UNSIGNED", "a::VARCHAR(3)", "a = ANY", "a = ANY b", "a = ANY (b", "a = ANY (SELECT 1)", "a = ALL (b) c", "a || ANY (b)", "a AND ANY (b)", "a OPERATOR(+) b", "a DIV", "a[1]", "a:b", "a!", "a ! b", "a !", "a.b(c)", "f(a)", "a IS NULL IS NULL", "a::INT::TEXT", "a IS NULL COLLATE x", "a NOT NULL", "a NOTNULL", "CASE WHEN a THEN b END", "a b c d e f", "a REGEXP RLIKE b", "a NOT REGEXP RLIKE b", "a RLIKE REGEXP b", "a IS NULL * b", "- a ^ b", "- a * b", "a LIKE b = c", "a = b LIKE c", "NOT a IS NULL", "a # b", "a << b", "a // b", "a DIV b DIV c", "a BETWEEN b = c AND d", "a = b BETWEEN c AND d", "a AT TIME ZONE b :: TEXT", "a :: TEXT AT TIME ZONE b", "a IS DISTINCT FROM b AND c", "a IS NOT DISTINCT FROM b + c"] {
            if let Some(toks) = c.emit_sql(dn, d, lim, a, "atoms") {
                for pfx in prefixes.iter().take(3) {
                    let s = format!("{pfx} {a}");
                    c.emit_sql(dn, d, lim, &s, "atoms");
                }
                let _ = toks;
            }
        }
        let mut good: Vec<Op> = vec![];
        for o in &ops {
            let s = chain_sql(&[o], &[], None, None);
            if let Some(toks) = c.emit_sql(dn, d, lim, &s, "single") {
                if real_chain(d, lim, &toks).starts_with("OK") {
                    good.push(o.clone());
                }
                for k in 0..toks.len() {
                    c.emit_toks(dn, d, lim, &toks[..k], "truncated");
                }
                // one token dropped
                for k in 0..toks.len() {
                    let mut t = toks.clone();
                    t.remove(k);
                    c.emit_toks(dn, d, lim, &t, "dropped");
                }
            }
            for (i, pfx) in prefixes.iter().enumerate() {
                for pos in 0..operands_of(&[o]) {
                    let mut pre = vec![""; 2];
                    pre[pos] = pfx;
                    let s = chain_sql(&[o], &pre, None, None);
                    c.emit_sql(dn, d, lim, &s, "single.prefix");
                    let _ = i;
                }
            }
        }
        c.r.dist.insert(format!("ops.parsing/{dn}"), good.len() as u64);
        // ---- all ordered pairs; decorations: quick = a rotating 1/7 of them per pair, thorough = all
        let mut pidx = 0usize;
        let mut dec = 0usize;
        let phase = (seed % 7) as usize;
        for o1 in &ops {
            for o2 in &ops {
                pidx += 1;
                let pair = [o1, o2];
                let n = operands_of(&pair);
                c.emit_sql(dn, d, lim, &chain_sql(&pair, &[], None, None), "pair");
                let mut variants: Vec<(String, &str)> = vec![];
                for pfx in &prefixes {
                    for pos in 0..n {
                        let mut pre = vec![""; 3];
                        pre[pos] = pfx;
                        variants.push((chain_sql(&pair, &pre, None, None), "pair.prefix"));
                    }
                }
                // parentheses: left group, right group, each atom, NOT in front of a group
                variants.push((chain_sql(&pair, &[], Some((0, 1)), None), "pair.paren"));
                variants.push((chain_sql(&pair, &[], Some((1, 2)), None), "pair.paren"));
                for pos in 0..n {
                    variants.push((chain_sql(&pair, &[], None, Some(pos)), "pair.paren"));
                }
                variants.push((chain_sql(&pair, &["NOT"], Some((0, 1)), None), "pair.paren"));
                variants.push((chain_sql(&pair, &["-"], Some((0, 1)), None), "pair.paren"));
                for (sql, class) in variants {
                    dec += 1;
                    if thorough || (dec + pidx) % 7 == phase {
                        c.emit_sql(dn, d, lim, &sql, class);
                    }
                }
            }
        }
        // ---- triples over the operators that parse on their own in this dialect
        let mut idx = 0u64;
        let stride = 20u64;
        let phase = seed % stride;
        for o1 in &good {
            for o2 in &good {
                for o3 in &good {
                    idx += 1;
                    if !thorough && idx % stride != phase {
                        continue;
                    }
                    let tr = [o1, o2, o3];
                    c.emit_sql(dn, d, lim, &chain_sql(&tr, &[], None, None), "triple");
                    // one rotating decorated variant for every other triple
                    let n = operands_of(&tr);
                    let k = (idx / stride) as usize;
                    match k % 6 {
                        0 => {
                            let mut pre = vec![""; 4];
                            pre[(k / 6) % n] = prefixes[(k / 24) % prefixes.len()];
                            c.emit_sql(dn, d, lim, &chain_sql(&tr, &pre, None, None), "triple.prefix");
                        }
                        1 => {
                            c.emit_sql(dn, d, lim, &chain_sql(&tr, &[], Some((0, 1 + (k / 6) % 2)), None), "triple.paren");
                        }
                        2 => {
                            let i = 1 + (k / 6) % (n.max(2) - 1);
                            c.emit_sql(dn, d, lim, &chain_sql(&tr, &[], Some((i, 3)), None), "triple.paren");
                        }
                        _ => {}
                    }
                }
            }
        }
        // ---- random chains
        let nrand = if thorough { 60000 } else { 4000 };
        for k in 0..nrand {
            let len = 4 + rng.below(5);
            let chain: Vec<&Op> = (0..len).map(|_| if rng.chance(1, 12) { rng.pick(&ops) } else { rng.pick(&good) }).collect();
            let n = operands_of(&chain);
            let mut pre = vec![""; n + 1];
            for p in pre.iter_mut().take(n) {
                if rng.chance(1, 5) {
                    *p = *rng.pick(&prefixes[..]);
                }
            }
            let group = if rng.chance(1, 3) {
                let i = rng.below(n);
                let j = i + rng.below(len + 1 - i.min(len));
                Some((i, j.min(len)))
            } else {
                None
            };
            let wrap = if rng.chance(1, 6) { Some(rng.below(n)) } else { None };
            let s = chain_sql(&chain, &pre, group, wrap);
            if let Some(toks) = c.emit_sql(dn, d, lim, &s, "random") {
                if k % 10 == 0 && !toks.is_empty() {
                    let cut = rng.below(toks.len());
                    c.emit_toks(dn, d, lim, &toks[..cut], "random.truncated");
                    let mut t = toks.clone();
                    t.remove(cut);
                    c.emit_toks(dn, d, lim, &t, "random.dropped");
                    let mut t = toks.clone();
                    let j = rng.below(toks.len());
                    t.swap(cut, j);
                    c.emit_toks(dn, d, lim, &t, "random.swapped");
                }
            }
        }
        // ---- nesting around the recursion limit
        for limit in [0usize, 1, 2, 3, 5, 50] {
            for depth in limit.saturating_sub(3)..=limit + 2 {
                let open = "(".repeat(depth);
                let close = ")".repeat(depth);
                for core in ["a", "a + b", "a::INT", "a IS NULL", "NOT a", "a BETWEEN b AND c", "a IN (b)", "a = ANY (b)", "- a * b"] {
                    c.emit_sql(dn, d, limit, &format!("{open}{core}{close}"), "deep.paren");
                }
                let nots = "NOT ".repeat(depth);
                c.emit_sql(dn, d, limit, &format!("{nots}a"), "deep.not");
                c.emit_sql(dn, d, limit, &format!("{nots}a = b"), "deep.not");
                let minus = "- ".repeat(depth);
                c.emit_sql(dn, d, limit, &format!("{minus}a"), "deep.minus");
                c.emit_sql(dn, d, limit, &format!("{minus}a::INT"), "deep.minus");
                // right-nested operands: each right operand takes one level
                let mut s = String::from("a");
                for _ in 0..depth {
                    s = format!("a + ({s})");
                }
                c.emit_sql(dn, d, limit, &s, "deep.right");
                let mut s = String::from("a");
                for i in 0..depth {
                    s = format!("x{i} = ANY ({s})");
                }
                c.emit_sql(dn, d, limit, &s, "deep.any");
                let mut s = String::from("a");
                for _ in 0..depth {
                    s = format!("a IN (b, {s})");
                }
                c.emit_sql(dn, d, limit, &s, "deep.in");
                // ascending precedences: a OR b AND c = d + e * f :: INT nests by precedence
                let asc = ["OR", "AND", "=", "+", "*"];
                let mut s = String::from("a");
                for k in 0..depth.min(5) {
                    s = format!("{s} {} a", asc[k]);
                }
                c.emit_sql(dn, d, limit, &s, "deep.ascending");
            }
            // long sibling chains use one level only
            let s = (0..200).map(|_| "a").collect::<Vec<_>>().join(" + ");
            c.emit_sql(dn, d, limit, &s, "deep.siblings");
        }
    }
    let unsupported = c.unsupported;
    let distinct = c.distinct.len() as u64;
    c.req.flush().unwrap();
    c.real.flush().unwrap();
    drop(c);
    r.distinct_nontrivial = distinct;
    r.dist.insert("unsupported_real_side".into(), unsupported);
    r
}


// ---------------------------------------------------------------- stream `setops`
use sqlparser::ast::{Query, Select, SelectItem, SetExpr, SetOperator, SetQuantifier};

fn select_sexp(s: &Select) -> Option<String> {
    // `SELECT n` only: one unnamed numeric projection, nothing else
    let plain = Select {
        distinct: None,
        top: None,
        projection: s.projection.clone(),
        into: None,
        from: vec![],
        lateral_views: vec![],
        prewhere: None,
        selection: None,
        group_by: sqlparser::ast::GroupByExpr::Expressions(vec![], vec![]),
        cluster_by: vec![],
        distribute_by: vec![],
        sort_by: vec![],
        having: None,
        named_window: vec![],
        qualify: None,
        window_before_qualify: false,
        value_table_mode: None,
        connect_by: None,
    };
    if &plain != s || s.projection.len() != 1 {
        return None;
    }
    match &s.projection[0] {
        SelectItem::UnnamedExpr(Expr::Value(Value::Number(n, false))) => Some(format!("(sel {n})")),
        _ => None,
    }
}

fn query_body_sexp(q: &Query) -> Option<String> {
    let plain = Query {
        with: None,
        body: q.body.clone(),
        order_by: None,
        limit: None,
        limit_by: vec![],
        offset: None,
        fetch: None,
        locks: vec![],
        for_clause: None,
        settings: None,
        format_clause: None,
    };
    if &plain != q {
        return None;
    }
    setexpr_sexp(&q.body)
}

pub fn setexpr_sexp(e: &SetExpr) -> Option<String> {
    Some(match e {
        SetExpr::Select(s) => select_sexp(s)?,
        SetExpr::Query(q) => format!("(query {})", query_body_sexp(q)?),
        SetExpr::SetOperation { op, set_quantifier, left, right, .. } => {
            let o = match op {
                SetOperator::Union => "union",
                SetOperator::Except => "except",
                SetOperator::Intersect => "intersect",
            };
            let q = match set_quantifier {
                SetQuantifier::All => "all",
                SetQuantifier::Distinct => "distinct",
                SetQuantifier::ByName => "byName",
                SetQuantifier::AllByName => "allByName",
                SetQuantifier::DistinctByName => "distinctByName",
                SetQuantifier::None => "none",
            };
            format!("(setop {o} {q} {} {})", setexpr_sexp(left)?, setexpr_sexp(right)?)
        }
        _ => return None,
    })
}

/// `SELECT n` is one unit of the set-operation alphabet; truncations and drops keep units whole
fn set_units(toks: &[Token]) -> Vec<Vec<Token>> {
    let mut out: Vec<Vec<Token>> = vec![];
    let mut i = 0;
    while i < toks.len() {
        let is_select = matches!(&toks[i], Token::Word(w) if w.keyword == Keyword::SELECT);
        if is_select && i + 1 < toks.len() && matches!(&toks[i + 1], Token::Number(_, false)) {
            out.push(vec![toks[i].clone(), toks[i + 1].clone()]);
            i += 2;
        } else {
            out.push(vec![toks[i].clone()]);
            i += 1;
        }
    }
    out
}

pub fn real_setops(d: &dyn Dialect, limit: usize, toks: &[Token]) -> String {
    let n = toks.len();
    match guard(|| {
        let mut p = Parser::new(d).with_recursion_limit(limit).with_tokens(toks.to_vec());
        let e = p.parse_query();
        let _ = p.peek_token();
        (e, p.verif_state().0)
    }) {
        G::Val((Ok(q), idx)) => match query_body_sexp(&q) {
            Some(s) => format!("OK {s} REST {}", n.saturating_sub(idx)),
            None => "UNSUPPORTED".into(),
        },
        G::Val((Err(e), _)) => err_line(&e),
        G::Panic(m) => format!("PANIC {m}"),
    }
}

/// request `setops \t dialect \t limit \t tokens`; answer as for `chains`
pub fn corr_setops(dir: &str, seed: u64, tier: &str) -> Report {
    let mut r = Report::new("C04", "corr.setops", "parse_query on token lists over SELECT n, UNION/EXCEPT/INTERSECT with every quantifier, parentheses: all operator sequences up to length 4 (thorough: 5) x quantifier rotation, parentheses around every contiguous sub-chain, every truncation / single-token drop of the length-3 chains, random chains of 5-9 operators with random nested parentheses, parenthesis nesting around the recursion limit; all 13 dialects; non-trivial = distinct (dialect, answer)");
    let thorough = tier == "thorough";
    let mut req = std::io::BufWriter::new(std::fs::File::create(format!("{dir}/setops.req")).unwrap());
    let mut real = std::io::BufWriter::new(std::fs::File::create(format!("{dir}/setops.real")).unwrap());
    let mut rng = Rng(seed ^ 0x5E70);
    let mut distinct = BTreeSet::new();
    let ops = ["UNION", "EXCEPT", "INTERSECT"];
    let quants = ["", "ALL", "DISTINCT", "BY NAME", "ALL BY NAME", "DISTINCT BY NAME"];
    let mut emit = |r: &mut Report, dn: &str, d: &dyn Dialect, limit: usize, toks: &[Token], class: &str| {
        writeln!(req, "setops\t{dn}\t{limit}\t{}", toks_canon_noloc(toks)).unwrap();
        let ans = real_setops(d, limit, toks);
        r.evaluations += 1;
        r.count(&format!("class/{class}"));
        let k = if ans.starts_with("OK") { "ok" } else if ans.starts_with("ERR:rle") { "err.rle" } else if ans.starts_with("ERR") { "err.syntax" } else if ans.starts_with("UNSUPPORTED") { "unsupported" } else { "panic" };
        r.count(&format!("answer/{k}"));
        if k == "ok" {
            for o in ["union", "except", "intersect"] {
                let c = ans.matches(&format!("(setop {o} ")).count() as u64;
                *r.dist.entry(format!("op/{o}")).or_insert(0) += c;
            }
            *r.dist.entry("op/query".into()).or_insert(0) += ans.matches("(query ").count() as u64;
        }
        if k == "panic" {
            r.panic(dn, Opts::DEFAULT, &toks_canon_noloc(toks), ans.clone());
        }
        distinct.insert(fnv(&format!("{dn}{ans}")));
        if r.evaluations % 5003 == 7 {
            r.sample(serde_json::json!({"dialect": dn, "limit": limit, "tokens": toks.iter().map(|t| t.to_string()).collect::<Vec<_>>().join(" "), "answer": trunc(&ans, 300)}));
        }
        writeln!(real, "{ans}").unwrap();
    };
    // chain text: operands SELECT 1, SELECT 2, …; `group = Some((i, j))` parenthesises operands i..=j
    fn chain(opsq: &[(usize, usize)], groups: &[(usize, usize)]) -> String {
        let ops = ["UNION", "EXCEPT", "INTERSECT"];
        let quants = ["", "ALL", "DISTINCT", "BY NAME", "ALL BY NAME", "DISTINCT BY NAME"];
        let n = opsq.len() + 1;
        let mut s = String::new();
        for i in 0..n {
            if i > 0 {
                let (o, q) = opsq[i - 1];
                s.push_str(&format!(" {} {} ", ops[o], quants[q]));
            }
            for g in groups {
                if g.0 == i {
                    s.push('(');
                }
            }
            s.push_str(&format!("SELECT {}", i + 1));
            for g in groups {
                if g.1 == i {
                    s.push(')');
                }
            }
        }
        s
    }
    for (dn, d) in all_dialects() {
        let d = d.as_ref();
        let lim = 50usize;
        let maxlen = if thorough { 5 } else { 4 };
        // all operator sequences, quantifiers rotating
        let mut idx = 0usize;
        for len in 0..=maxlen {
            let total = 3usize.pow(len as u32);
            for code in 0..total {
                let mut c = code;
                let mut opsq = vec![];
                for k in 0..len {
                    opsq.push((c % 3, (idx + k * 5) % 6));
                    c /= 3;
                }
                idx += 1;
                let sql = chain(&opsq, &[]);
                let toks = match lex_nows(d, &sql) { Some(t) => t, None => continue };
                emit(&mut r, dn, d, lim, &toks, "chain");
                // parentheses around every contiguous sub-chain
                let n = len + 1;
                for i in 0..n {
                    for j in i..n {
                        if (i, j) == (0, n - 1) && n > 3 { continue; }
                        let sql = chain(&opsq, &[(i, j)]);
                        if let Some(t) = lex_nows(d, &sql) { emit(&mut r, dn, d, lim, &t, "chain.paren"); }
                    }
                }
                if len == 3 || (thorough && len == 2) {
                    let us = set_units(&toks);
                    for k in 0..us.len() {
                        emit(&mut r, dn, d, lim, &us[..k].concat(), "truncated");
                        let mut t = us.clone();
                        t.remove(k);
                        emit(&mut r, dn, d, lim, &t.concat(), "dropped");
                    }
                }
            }
        }
        // every quantifier on every operator, alone
        for o in 0..3 {
            for q in 0..6 {
                let sql = chain(&[(o, q)], &[]);
                if let Some(t) = lex_nows(d, &sql) { emit(&mut r, dn, d, lim, &t, "quantifier"); }
                let sql = format!("SELECT 1 {} {} (SELECT 2 {} {} SELECT 3)", ops[o], quants[q], ops[(o + 1) % 3], quants[(q + 1) % 6]);
                if let Some(t) = lex_nows(d, &sql) { emit(&mut r, dn, d, lim, &t, "quantifier"); }
            }
        }
        // random chains with nested parentheses
        let nrand = if thorough { 20000 } else { 1500 };
        for k in 0..nrand {
            let len = 5 + rng.below(5);
            let opsq: Vec<(usize, usize)> = (0..len).map(|_| (rng.below(3), if rng.chance(1, 2) { 0 } else { rng.below(6) })).collect();
            let mut groups = vec![];
            for _ in 0..rng.below(4) {
                let i = rng.below(len + 1);
                let j = i + rng.below(len + 1 - i);
                groups.push((i, j));
            }
            let sql = chain(&opsq, &groups);
            if let Some(toks) = lex_nows(d, &sql) {
                emit(&mut r, dn, d, lim, &toks, "random");
                if k % 8 == 0 && !toks.is_empty() {
                    let us = set_units(&toks);
                    let cut = rng.below(us.len());
                    emit(&mut r, dn, d, lim, &us[..cut].concat(), "random.truncated");
                    let mut t = us.clone();
                    t.remove(cut);
                    emit(&mut r, dn, d, lim, &t.concat(), "random.dropped");
                    let mut t = us.clone();
                    let j = rng.below(us.len());
                    t.swap(cut, j);
                    emit(&mut r, dn, d, lim, &t.concat(), "random.swapped");
                }
            }
        }
        // nesting around the limit
        for limit in [0usize, 1, 2, 3, 5, 50] {
            for depth in limit.saturating_sub(3)..=limit + 2 {
                let open = "(".repeat(depth);
                let close = ")".repeat(depth);
                for core in ["SELECT 1", "SELECT 1 UNION SELECT 2", "SELECT 1 UNION SELECT 2 INTERSECT SELECT 3"] {
                    if let Some(t) = lex_nows(d, &format!("{open}{core}{close}")) { emit(&mut r, dn, d, limit, &t, "deep.paren"); }
                }
                let mut s = String::from("SELECT 0");
                for i in 0..depth {
                    s = format!("SELECT {} UNION ({s})", i + 1);
                }
                if let Some(t) = lex_nows(d, &s) { emit(&mut r, dn, d, limit, &t, "deep.right"); }
                let mut s = String::from("SELECT 0");
                for i in 0..depth {
                    s = format!("({s}) INTERSECT SELECT {}", i + 1);
                }
                if let Some(t) = lex_nows(d, &s) { emit(&mut r, dn, d, limit, &t, "deep.left"); }
            }
            let s = (0..300).map(|i| format!("SELECT {i}")).collect::<Vec<_>>().join(" UNION ");
            if let Some(t) = lex_nows(d, &s) { emit(&mut r, dn, d, limit, &t, "deep.siblings"); }
        }
        // odd inputs
        for s in ["", "SELECT", "SELECT 1 SELECT 2", "SELECT 1 ALL", "UNION SELECT 1", "SELECT 1 UNION", "SELECT 1 UNION UNION SELECT 2", "()", "(SELECT 1", "SELECT 1)", "(SELECT 1) (SELECT 2)", "SELECT 1 UNION ALL ALL SELECT 2", "SELECT 1 UNION BY SELECT 2", "SELECT 1 UNION DISTINCT BY SELECT 2", "VALUES (1) UNION SELECT 2", "SELECT 1 UNION VALUES (2)", "SELECT 1 ORDER BY 1", "(SELECT 1 ORDER BY 1) UNION SELECT 2", "SELECT 1 UNION SELECT 2 LIMIT 1", "SELECT a UNION SELECT 2", "SELECT 1, 2 UNION SELECT 3", "WITH x AS (SELECT 1) SELECT 2 UNION SELECT 3", "((SELECT 1) UNION (SELECT 2))", "SELECT 1L UNION SELECT 2"] {
            if let Some(t) = lex_nows(d, s) { emit(&mut r, dn, d, lim, &t, "odd"); }
        }
    }
    drop(emit);
    req.flush().unwrap();
    real.flush().unwrap();
    r.distinct_nontrivial = distinct.len() as u64;
    r
}

#[allow(dead_code)]
fn _unused(_: Keyword, _: Word) {}

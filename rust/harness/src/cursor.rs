//! Correspondence stream `cursor`: random operation sequences over the real public cursor API
//! (`peek_nth_token`, `next_token`, `prev_token`, `peek_nth_token_no_skip`, `next_token_no_skip`,
//! `consume_tokens`) on random token vectors, against `Model/Cursor.lean`.
use crate::common::*;
use sqlparser::dialect::GenericDialect;
use sqlparser::parser::Parser;
use sqlparser::tokenizer::{Location, Token, TokenWithLocation, Whitespace};
use std::collections::BTreeSet;
use std::io::Write;

fn mk_tok(id: u32) -> Token {
    if id == 0 { Token::Whitespace(Whitespace::Space) } else { Token::Number(id.to_string(), false) }
}
fn show(t: &TokenWithLocation) -> String {
    let id = match &t.token { Token::Number(s, _) => s.clone(), Token::EOF => "EOF".into(), Token::Whitespace(_) => "0".into(), _ => "?".into() };
    format!("{id}@{}:{}", t.location.line, t.location.column)
}

pub fn corr(dir: &str, seed: u64, tier: &str) -> Report {
    let mut r = Report::new("C07", "corr.cursor", "random token vectors (whitespace-heavy, empty, all-whitespace) x random op sequences over the public cursor API incl. EOF overruns, prev at position 0 (panic caught) and consume_tokens; each op's returned token, location and index compared; non-trivial = distinct (op kind, outcome class) x vector shape");
    let mut rng = Rng(seed ^ 0xC07C);
    let mut req = std::fs::File::create(format!("{dir}/cursor.req")).unwrap();
    let mut real = std::fs::File::create(format!("{dir}/cursor.real")).unwrap();
    let d = GenericDialect {};
    let n = if tier == "thorough" { 200_000 } else { 30_000 };
    let mut distinct = BTreeSet::new();
    for case in 0..n {
        let len = match case % 7 { 0 => 0, 1 => 1, _ => rng.below(12) };
        let ws_pct = [0, 30, 50, 80, 100][rng.below(5)];
        let ids: Vec<u32> = (0..len).map(|_| if rng.below(100) < ws_pct { 0 } else { 1 + rng.below(4) as u32 }).collect();
        let toks: Vec<TokenWithLocation> = ids.iter().enumerate().map(|(i, id)| TokenWithLocation { token: mk_tok(*id), location: Location { line: 1, column: i as u64 + 1 } }).collect();
        let nops = 1 + rng.below(14);
        let ops: Vec<String> = (0..nops).map(|_| match rng.below(12) {
            0..=2 => format!("P{}", rng.below(4)),
            3..=5 => "N".to_string(),
            6..=7 => "B".to_string(),
            8 => format!("Q{}", rng.below(4)),
            9 => "M".to_string(),
            _ => { let k = 1 + rng.below(3); format!("C{}", (0..k).map(|_| (1 + rng.below(4)).to_string()).collect::<Vec<_>>().join(",")) }
        }).collect();
        let wire_t = if ids.is_empty() { "-".to_string() } else { ids.iter().map(|i| if *i == 0 { "w".to_string() } else { format!("t{i}") }).collect::<Vec<_>>().join(" ") };
        writeln!(req, "cursor\t{wire_t}\t{}", ops.join(" ")).unwrap();
        let mut p = Parser::new(&d).with_tokens_with_locations(toks);
        let mut outs: Vec<String> = vec![];
        for op in &ops {
            let c = op.chars().next().unwrap();
            let arg = &op[1..];
            let res = guard(|| match c {
                'P' => { let t = p.peek_nth_token(arg.parse().unwrap()); format!("{}/{}", show(&t), p.verif_state().0) }
                'N' => { let t = p.next_token(); format!("{}/{}", show(&t), p.verif_state().0) }
                'B' => { p.prev_token(); format!("ok/{}", p.verif_state().0) }
                'Q' => { let t = p.peek_nth_token_no_skip(arg.parse().unwrap()); format!("{}/{}", show(&t), p.verif_state().0) }
                'M' => { let t = p.next_token_no_skip().cloned().unwrap_or(TokenWithLocation { token: Token::EOF, location: Location { line: 0, column: 0 } }); format!("{}/{}", show(&t), p.verif_state().0) }
                _ => { let ts: Vec<Token> = arg.split(',').map(|x| mk_tok(x.parse().unwrap())).collect(); let b = p.consume_tokens(&ts); format!("{}/{}", b, p.verif_state().0) }
            });
            match res {
                G::Val(s) => { distinct.insert((c, s.split('@').next().unwrap_or("").to_string() == "EOF", ws_pct)); outs.push(s); }
                G::Panic(_) => { distinct.insert((c, true, 999)); r.count("panic-prev-at-0"); outs.push("PANIC".into()); break; }
            }
            r.count(&format!("op/{c}"));
        }
        writeln!(real, "{}", outs.join(" ")).unwrap();
        r.evaluations += 1;
        if case % 7001 == 5 { r.sample(serde_json::json!({"tokens": wire_t, "ops": ops, "answers": outs})); }
    }
    r.distinct_nontrivial = distinct.len() as u64;
    r
}

//! C12: the recursion limit only surfaces as the limit error.
//! * stream `ladder`: fragment inputs x limits, real `parse_expr` vs the Pratt model (`chains` op);
//! * oracle `C12`: whole grammar, corpus x dialects x limit ladder on the real code only, plus the
//!   same ladder on the generated expression fragments.
use crate::c04::{err_line, lex_nows, real_chain};
use crate::canon::toks_canon_noloc;
use crate::common::*;
use sqlparser::dialect::Dialect;
use sqlparser::parser::{Parser, ParserError};
use sqlparser::tokenizer::Token;
use std::collections::{BTreeMap, BTreeSet};
use std::io::Write;

pub const QUICK_LIMITS: [usize; 13] = [0, 1, 2, 3, 4, 5, 6, 8, 10, 12, 16, 24, 50];

fn limits(tier: &str) -> Vec<usize> {
    if tier == "thorough" {
        (0..=60).collect()
    } else {
        QUICK_LIMITS.to_vec()
    }
}

fn wrap(depth: usize, f: impl Fn(&str) -> String, core: &str) -> String {
    let mut s = core.to_string();
    for _ in 0..depth {
        s = f(&s);
    }
    s
}

/// nesting families of the modelled expression fragment (`k` = nesting depth)
fn families(k: usize, pg: bool) -> Vec<(String, &'static str)> {
    let mut v: Vec<(String, &'static str)> = vec![];
    let open = "(".repeat(k);
    let close = ")".repeat(k);
    for core in ["a", "a + b", "a::INT", "a IS NULL", "NOT a", "a BETWEEN b AND c", "a IN (b, c)", "a = ANY (b)", "- a * b", "a LIKE b ESCAPE '!'", "a AT TIME ZONE b", "a IS DISTINCT FROM b"] {
        v.push((format!("{open}{core}{close}"), "paren"));
    }
    // errors inside / around the nest
    v.push((format!("{open}a b{close}"), "paren.err"));
    v.push((format!("{open}a +{close}"), "paren.err"));
    v.push((format!("{open}a{close})"), "paren.err"));
    v.push((format!("({open}a{close}"), "paren.err"));
    v.push((format!("{open}a{close} b"), "paren.rest"));
    v.push((format!("{open}{close}"), "paren.err"));
    v.push((format!("{}a", "NOT ".repeat(k)), "not"));
    v.push((format!("{}a = b", "NOT ".repeat(k)), "not"));
    v.push((format!("{}", "NOT ".repeat(k)), "not.err"));
    v.push((format!("{}a", "- ".repeat(k)), "minus"));
    v.push((format!("{}a::INT", "- ".repeat(k)), "minus"));
    v.push((format!("{}a", "+ - ".repeat(k)), "minus"));
    v.push((wrap(k, |s| format!("NOT ({s})"), "a"), "not.paren"));
    v.push((wrap(k, |s| format!("- ({s})"), "a"), "minus.paren"));
    v.push((wrap(k, |s| format!("a + ({s})"), "a"), "right"));
    v.push((wrap(k, |s| format!("({s}) + a"), "a"), "left"));
    v.push((wrap(k, |s| format!("({s}) IS NOT NULL"), "a"), "left.post"));
    v.push((wrap(k, |s| format!("({s})::TEXT"), "a"), "left.cast"));
    v.push((wrap(k, |s| format!("x = ANY ({s})"), "a"), "any"));
    v.push((wrap(k, |s| format!("x < ALL ({s})"), "a + b"), "any"));
    v.push((wrap(k, |s| format!("x + ANY ({s})"), "a"), "any.err"));
    v.push((wrap(k, |s| format!("a IN (b, {s})"), "a"), "in"));
    v.push((wrap(k, |s| format!("a NOT IN ({s}, b)"), "a"), "in"));
    v.push((wrap(k, |s| format!("a IN ({s}"), "a"), "in.err"));
    v.push((wrap(k, |s| format!("a BETWEEN ({s}) AND c"), "a"), "between"));
    v.push((wrap(k, |s| format!("a BETWEEN b AND ({s})"), "a"), "between"));
    v.push((wrap(k, |s| format!("a BETWEEN ({s}) OR c"), "a"), "between.err"));
    v.push((wrap(k, |s| format!("a LIKE ({s}) ESCAPE '!'"), "a"), "like"));
    v.push((wrap(k, |s| format!("a NOT ILIKE ({s})"), "a"), "like"));
    v.push((wrap(k, |s| format!("a AT TIME ZONE ({s})"), "a"), "attz"));
    v.push((wrap(k, |s| format!("a IS DISTINCT FROM ({s})"), "a"), "isdf"));
    v.push((wrap(k, |s| format!("a OR ({s}) AND b"), "a"), "mixed"));
    // ascending precedences nest by precedence, descending ones do not
    let asc = ["OR", "AND", "=", "+", "*"];
    let mut s = String::from("a");
    for i in 0..k.min(5) {
        s = format!("{s} {} a", asc[i]);
    }
    v.push((s, "ascending"));
    let mut s = String::from("a");
    for i in 0..k.min(5) {
        s = format!("{s} {} a", asc[4 - i]);
    }
    v.push((s, "descending"));
    v.push(((0..=k).map(|_| "a").collect::<Vec<_>>().join(" + "), "siblings"));
    v.push(((0..=k).map(|_| "a").collect::<Vec<_>>().join("::INT = "), "siblings.cast"));
    if pg {
        v.push((format!("{}a", "@ ".repeat(k)), "pg.prefix"));
        v.push((wrap(k, |s| format!("|/ ({s})"), "a"), "pg.prefix"));
        v.push((wrap(k, |s| format!("({s}) !"), "a"), "pg.postfix"));
        v.push((wrap(k, |s| format!("a -> ({s})"), "a"), "pg.infix"));
    }
    v
}

/// random expression of nesting depth <= `depth` over the fragment, as text
fn rand_expr(rng: &mut Rng, depth: usize) -> String {
    let atoms = ["a", "b", "1", "'s'", "x.y", "NULL", "TRUE", "?"];
    if depth == 0 || rng.chance(1, 5) {
        return rng.pick(&atoms[..]).to_string();
    }
    let d = depth - 1;
    match rng.below(16) {
        0 => format!("({})", rand_expr(rng, d)),
        1 => format!("NOT {}", rand_expr(rng, d)),
        2 => format!("- {}", rand_expr(rng, d)),
        3 => format!("{} {} {}", rand_expr(rng, d), rng.pick(&["+", "*", "=", "<>", "AND", "OR", "||", "<", "%"][..]), rand_expr(rng, d)),
        4 => format!("{} IS {}NULL", rand_expr(rng, d), if rng.chance(1, 2) { "NOT " } else { "" }),
        5 => format!("{} {}IN ({}, {})", rand_expr(rng, d), if rng.chance(1, 2) { "NOT " } else { "" }, rand_expr(rng, d), rand_expr(rng, d)),
        6 => format!("{} BETWEEN {} AND {}", rand_expr(rng, d), rand_expr(rng, d), rand_expr(rng, d)),
        7 => format!("{} LIKE {} ESCAPE '!'", rand_expr(rng, d), rand_expr(rng, d)),
        8 => format!("{}::INT", rand_expr(rng, d)),
        9 => format!("{} = ANY ({})", rand_expr(rng, d), rand_expr(rng, d)),
        10 => format!("{} AT TIME ZONE {}", rand_expr(rng, d), rand_expr(rng, d)),
        11 => format!("{} IS DISTINCT FROM {}", rand_expr(rng, d), rand_expr(rng, d)),
        12 => format!("(({}))", rand_expr(rng, d)),
        13 => format!("({}) {} ({})", rand_expr(rng, d), rng.pick(&["+", "AND", "="][..]), rand_expr(rng, d)),
        14 => format!("{} NOT LIKE {}", rand_expr(rng, d), rand_expr(rng, d)),
        _ => format!("+ ({})", rand_expr(rng, d)),
    }
}

/// the token lists of the ladder for one dialect: (tokens, class)
fn ladder_inputs(dn: &str, d: &dyn Dialect, rng: &mut Rng, thorough: bool) -> Vec<(Vec<Token>, &'static str)> {
    let pg = dn == "postgresql" || dn == "generic";
    let mut out: Vec<(Vec<Token>, &'static str)> = vec![];
    let mut seen = BTreeSet::new();
    let mut push = |out: &mut Vec<(Vec<Token>, &'static str)>, toks: Vec<Token>, class: &'static str| {
        if seen.insert(toks_canon_noloc(&toks)) {
            out.push((toks, class));
        }
    };
    let depths: Vec<usize> = if thorough { (0..=20).chain([25, 29, 30, 31, 40, 58, 59, 60, 61]).collect() } else { vec![0, 1, 2, 3, 4, 5, 7, 11, 23, 25, 49] };
    for &k in &depths {
        for (sql, class) in families(k, pg) {
            if let Some(t) = lex_nows(d, &sql) {
                push(&mut out, t, class);
            }
        }
    }
    let nrand = if thorough { 1200 } else { 160 };
    for i in 0..nrand {
        let depth = 1 + rng.below(if thorough { 12 } else { 8 });
        let sql = rand_expr(rng, depth);
        if let Some(t) = lex_nows(d, &sql) {
            if i % 5 == 0 && t.len() > 1 {
                // damaged variants: the error must come out under exactly the limits that reach it
                let cut = rng.below(t.len());
                push(&mut out, t[..cut].to_vec(), "random.truncated");
                let mut u = t.clone();
                u.remove(cut);
                push(&mut out, u, "random.dropped");
                let mut u = t.clone();
                let j = rng.below(t.len());
                u.swap(cut, j);
                push(&mut out, u, "random.swapped");
            }
            push(&mut out, t, "random");
        }
    }
    out
}

/// request `chains \t dialect \t limit \t tokens` (the op of stream `chains`), one line per limit
pub fn corr_ladder(dir: &str, seed: u64, tier: &str) -> Report {
    let mut r = Report::new("C12", "corr.ladder", "parse_expr under a ladder of recursion limits (quick: 13 limits 0..50, thorough: every limit 0..60) on token lists of the modelled fragment: parenthesis / NOT / unary sign / PostgreSQL prefix nesting, right- and left-nested operands, nested IN lists, ANY/ALL, BETWEEN bounds, LIKE patterns, AT TIME ZONE, IS DISTINCT FROM, casts, ascending/descending precedence chains, sibling chains, broken nests (missing/extra parenthesis, missing operand, juxtaposed operands), random nested expressions and their truncations/drops/swaps; all 13 dialects; real outcome (tree, rest, error message, limit error) vs the Pratt model; non-trivial = distinct (dialect, answer)");
    let thorough = tier == "thorough";
    let mut req = std::io::BufWriter::new(std::fs::File::create(format!("{dir}/ladder.req")).unwrap());
    let mut real = std::io::BufWriter::new(std::fs::File::create(format!("{dir}/ladder.real")).unwrap());
    let mut rng = Rng(seed ^ 0xC12);
    let lims = limits(tier);
    let mut distinct = BTreeSet::new();
    for (dn, d) in all_dialects() {
        let d = d.as_ref();
        let inputs = ladder_inputs(dn, d, &mut rng, thorough);
        r.dist.insert(format!("inputs/{dn}"), inputs.len() as u64);
        for (toks, class) in &inputs {
            let canon = toks_canon_noloc(toks);
            let mut first_non_rle: Option<usize> = None;
            let mut finals = BTreeSet::new();
            for &l in &lims {
                writeln!(req, "chains\t{dn}\t{l}\t{canon}").unwrap();
                let ans = real_chain(d, l, toks);
                r.evaluations += 1;
                let k = if ans.starts_with("OK") { "ok" } else if ans.starts_with("ERR:rle") { "err.rle" } else if ans.starts_with("ERR:") { "err.syntax" } else if ans.starts_with("UNSUPPORTED") { "unsupported" } else { "panic" };
                r.count(&format!("answer/{k}"));
                if k == "panic" {
                    r.panic(dn, Opts { limit: Some(l), ..Opts::DEFAULT }, &canon, ans.clone());
                }
                if k != "err.rle" {
                    if first_non_rle.is_none() {
                        first_non_rle = Some(l);
                    }
                    finals.insert(ans.clone());
                }
                {
                    let mut h = 0xcbf29ce484222325u64;
                    for b in dn.bytes().chain(ans.bytes()) {
                        h ^= b as u64;
                        h = h.wrapping_mul(0x100000001b3);
                    }
                    distinct.insert(h);
                }
                writeln!(real, "{ans}").unwrap();
            }
            r.count(&format!("class/{class}"));
            match first_non_rle {
                Some(l) => r.count(&format!("threshold/{}", if l <= 6 { l.to_string() } else if l <= 16 { "7-16".into() } else { "17+".into() })),
                None => r.count("threshold/never"),
            }
            // the property itself, on the real side of the stream (reported by the oracle too)
            if finals.len() > 1 {
                r.count("real-side/not-monotone");
            }
            if r.evaluations % 20011 < lims.len() as u64 {
                r.sample(serde_json::json!({"dialect": dn, "class": class, "tokens": toks.iter().map(|t| t.to_string()).collect::<Vec<_>>().join(" "), "first_limit_without_rle": first_non_rle, "final": finals.iter().next().map(|s| trunc(s, 200))}));
            }
        }
    }
    req.flush().unwrap();
    real.flush().unwrap();
    r.distinct_nontrivial = distinct.len() as u64;
    r
}

// ---------------------------------------------------------------- oracle
fn outcome_str(x: &Result<Vec<sqlparser::ast::Statement>, ParserError>) -> String {
    match x {
        Ok(v) => format!("Ok[{}]", v.iter().map(|s| s.to_string()).collect::<Vec<_>>().join(" ;; ")),
        Err(e) => format!("Err({e})"),
    }
}

/// `None` = admissible; otherwise what was returned instead
fn judge<T: PartialEq>(at_n: &Result<T, ParserError>, base: &Result<T, ParserError>) -> Option<&'static str> {
    match (at_n, base) {
        (Err(ParserError::RecursionLimitExceeded), _) => None,
        (a, b) if a == b => None,
        (Err(_), Ok(_)) => Some("syntax-error"),
        (Ok(_), Ok(_)) => Some("different-tree"),
        (Ok(_), Err(_)) => Some("accepted-instead-of-error"),
        (Err(_), Err(_)) => Some("different-error"),
    }
}

/// text of `s` cut before its last non-whitespace token (usually rejected: the error side of the property)
fn truncated(d: &dyn Dialect, s: &str) -> Option<String> {
    let toks = match tokenize(d, true, s) {
        G::Val(Ok(t)) => t,
        _ => return None,
    };
    let last = toks.iter().rev().find(|t| !is_ws(&t.token) && t.token != Token::EOF)?;
    let li = LineIndex::new(s);
    let off = li.offset(last.location.line, last.location.column)?;
    let cut: String = s.chars().take(off).collect();
    if cut.trim().is_empty() {
        None
    } else {
        Some(cut)
    }
}

const BASE_LIMIT: usize = 1000;

fn corpus_ladder(c: &Corpus, tier: &str) -> Report {
    let mut r = Report::new("C12", "oracle.limit-ladder", "every accepted corpus (text, dialect) pair and its truncation before the last token (the rejected side), under each limit of the ladder (quick {0,1,2,3,4,5,6,8,10,12,16,24,50}, thorough 0..60): parse_statements(limit n) must be RecursionLimitExceeded or equal to parse_statements(limit 1000) (same trees or same error); one failure per (text, dialect) at its smallest failing limit; non-trivial = distinct (first statement variant, dialect, number of distinct limits that answer RLE)");
    r.exhaustive = true;
    let ds = all_dialects();
    let lims = limits(tier);
    let mut distinct = BTreeSet::new();
    let mut thresholds: BTreeMap<usize, u64> = BTreeMap::new();
    for &(i, k) in &c.accepted {
        let s0 = &c.literals[i];
        let (dn, d) = (&ds[k].0, ds[k].1.as_ref());
        let mut texts = vec![(s0.clone(), false)];
        if let Some(t) = truncated(d, s0) {
            texts.push((t, true));
        }
        for (s, is_trunc) in texts {
            let ob = Opts { limit: Some(BASE_LIMIT), ..Opts::DEFAULT };
            let base = match parse(d, ob, &s) {
                G::Val(b) => b,
                G::Panic(m) => { r.panic(dn, ob, &s, m); continue; }
            };
            if let Err(ParserError::RecursionLimitExceeded) = &base { r.count("skipped/base-rle"); continue; }
            if let Err(ParserError::TokenizerError(_)) = &base { continue; }
            let var = match &base {
                Ok(v) if !v.is_empty() => variant_of(&v[0]),
                Ok(_) => "Empty".to_string(),
                Err(_) => "Rejected".to_string(),
            };
            r.count(if base.is_ok() { "base/accepted" } else { "base/rejected" });
            let _ = is_trunc;
            let mut bad: Vec<(usize, &'static str, String)> = vec![];
            let mut nrle = 0usize;
            for &n in &lims {
                let o = Opts { limit: Some(n), ..Opts::DEFAULT };
                r.evaluations += 1;
                match parse(d, o, &s) {
                    G::Val(x) => {
                        if matches!(x, Err(ParserError::RecursionLimitExceeded)) { nrle += 1; }
                        if let Some(kind) = judge(&x, &base) {
                            bad.push((n, kind, outcome_str(&x)));
                        }
                    }
                    G::Panic(m) => r.panic(dn, o, &s, m),
                }
            }
            *thresholds.entry(nrle).or_insert(0) += 1;
            distinct.insert((var.clone(), k, nrle));
            if let Some((n, kind, got)) = bad.first() {
                let o = Opts { limit: Some(*n), ..Opts::DEFAULT };
                let all: Vec<String> = bad.iter().map(|b| format!("{}:{}", b.0, b.1)).collect();
                r.fail(format!("{var}/{kind}"), dn, o, &s, format!("limit {n} returned {} ; limit {BASE_LIMIT} returns {} ; failing limits {}", trunc(got, 200), trunc(&outcome_str(&base), 200), all.join(",")));
            }
            if r.evaluations % 50021 < lims.len() as u64 {
                r.sample(serde_json::json!({"dialect": dn, "sql": s, "variant": var, "limits_answering_rle": nrle}));
            }
        }
    }
    for (n, c) in thresholds {
        r.dist.insert(format!("limits_answering_rle/{n}"), c);
    }
    r.distinct_nontrivial = distinct.len() as u64;
    r
}

/// the same ladder on `parse_expr` over the generated expression fragments (real code only)
fn fragment_ladder(seed: u64, tier: &str) -> Report {
    let mut r = Report::new("C12", "oracle.limit-ladder-expr", "parse_expr on the generated expression nests of stream ladder (all families x depths x 13 dialects, damaged variants included) under every limit of the ladder: outcome(n) is RecursionLimitExceeded or equal to outcome(1000) (same Expr and same cursor position, or same error); non-trivial = distinct (dialect, class, first limit without RLE)");
    let thorough = tier == "thorough";
    let lims = limits(tier);
    let mut rng = Rng(seed ^ 0xC12);
    let mut distinct = BTreeSet::new();
    let run = |d: &dyn Dialect, l: usize, toks: &[Token]| {
        guard(|| {
            let mut p = Parser::new(d).with_recursion_limit(l).with_tokens(toks.to_vec());
            let e = p.parse_expr();
            let _ = p.peek_token();
            e.map(|e| (e, p.verif_state().0))
        })
    };
    for (dn, d) in all_dialects() {
        let d = d.as_ref();
        for (toks, class) in ladder_inputs(dn, d, &mut rng, thorough) {
            let text = toks.iter().map(|t| t.to_string()).collect::<Vec<_>>().join(" ");
            let base = match run(d, BASE_LIMIT, &toks) {
                G::Val(b) => b,
                G::Panic(m) => { r.panic(dn, Opts::DEFAULT, &text, m); continue; }
            };
            if let Err(ParserError::RecursionLimitExceeded) = &base { r.count("skipped/base-rle"); continue; }
            let mut first = None;
            for &n in &lims {
                r.evaluations += 1;
                let o = Opts { limit: Some(n), ..Opts::DEFAULT };
                match run(d, n, &toks) {
                    G::Val(x) => {
                        if first.is_none() && !matches!(x, Err(ParserError::RecursionLimitExceeded)) { first = Some(n); }
                        if let Some(kind) = judge(&x, &base) {
                            let var = match &base { Ok((e, _)) => variant_of(e), Err(_) => "Rejected".into() };
                            r.fail(format!("Expr.{var}/{kind}"), dn, o, &text, format!("limit {n}: {} ; limit {BASE_LIMIT}: {}", trunc(&format!("{:?}", x.as_ref().map(|p| p.0.to_string()).map_err(|e| err_line(e))), 200), trunc(&format!("{:?}", base.as_ref().map(|p| p.0.to_string()).map_err(|e| err_line(e))), 200)));
                            break;
                        }
                    }
                    G::Panic(m) => r.panic(dn, o, &text, m),
                }
            }
            distinct.insert((dn, class, first));
        }
    }
    r.distinct_nontrivial = distinct.len() as u64;
    r
}

pub fn oracle(c: &Corpus, seed: u64, tier: &str) -> Vec<Report> {
    vec![corpus_ladder(c, tier), fragment_ladder(seed, tier)]
}

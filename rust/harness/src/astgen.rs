//! AST-first generator for C16/C17: random well-typed values of any schema type, built as JSON
//! documents from `schema.json` (the data model of the derives) and turned into real values by the
//! crate's own `Deserialize` impls.  Reaches every struct, enum variant and field of the schema,
//! including statement kinds no corpus text parses to.
use crate::common::Rng;
use serde_json::{json, Value};

pub struct AstGen {
    types: Vec<Value>,
    /// minimal nesting budget a value of the type needs
    need: Vec<u32>,
    pub root_statement: usize,
    /// use the domain knowledge for identifiers and numbers (statements()); off for the C16/C17
    /// generators, which want arbitrary values
    pub realistic: bool,
    /// with `realistic`: never fall back to raw identifiers / numbers (values whose own Display is
    /// defined: no `unexpected quote style` panic)
    pub strict: bool,
}

const INF: u32 = 1_000_000;

fn ty_need(t: &Value, need: &[u32]) -> u32 {
    match t["k"].as_str().unwrap_or("") {
        "box" => ty_need(&t["t"], need),
        "named" => need[t["id"].as_u64().unwrap() as usize],
        "tup" => t["ts"].as_array().unwrap().iter().map(|x| ty_need(x, need)).max().unwrap_or(0),
        _ => 0, // primitives, unit, Option (None), Vec (empty)
    }
}

fn variant_need(v: &Value, need: &[u32]) -> u32 {
    v["fields"].as_array().unwrap().iter().map(|f| ty_need(&f["ty"], need)).max().unwrap_or(0).saturating_add(1)
}

impl AstGen {
    pub fn load() -> AstGen {
        let p = format!("{}/schema.json", crate::common::gen_dir());
        let j: Value = serde_json::from_str(&std::fs::read_to_string(&p).unwrap_or_else(|e| panic!("{p}: {e}"))).unwrap();
        let types: Vec<Value> = j["types"].as_array().unwrap().clone();
        let mut need = vec![INF; types.len()];
        loop {
            let mut changed = false;
            for (i, t) in types.iter().enumerate() {
                let n = t["variants"].as_array().unwrap().iter().map(|v| variant_need(v, &need)).min().unwrap_or(INF).min(INF);
                if n < need[i] {
                    need[i] = n;
                    changed = true;
                }
            }
            if !changed {
                break;
            }
        }
        AstGen { root_statement: j["roots"]["Statement"].as_u64().unwrap() as usize, types, need, realistic: false, strict: false }
    }

    pub fn min_need(&self, id: usize) -> u32 {
        self.need[id]
    }

    fn prim(&self, p: &str, rng: &mut Rng) -> Value {
        match p {
            "bool" => json!(rng.chance(1, 2)),
            "char" => {
                let cs = ['a', '"', '\'', '`', '[', 'λ', '\u{1F600}', '\n'];
                json!(rng.pick(&cs).to_string())
            }
            "String" => {
                let ss = ["", "a", "t1", "x y", "é\"'\\\n", "SELECT", "𝔘nicode", "0"];
                json!(*rng.pick(&ss))
            }
            "u8" => json!(*rng.pick(&[0u64, 1, 7, 255])),
            "u16" => json!(*rng.pick(&[0u64, 1, 65535])),
            "u32" => json!(*rng.pick(&[0u64, 1, 42, u32::MAX as u64])),
            "u64" | "usize" => json!(*rng.pick(&[0u64, 1, 42, 1 << 32, 1 << 63, u64::MAX])),
            "i8" => json!(*rng.pick(&[0i64, -1, 127, -128])),
            "i16" => json!(*rng.pick(&[0i64, -1, 32767, -32768])),
            "i32" => json!(*rng.pick(&[0i64, -1, 5, i32::MAX as i64, i32::MIN as i64])),
            "i64" | "isize" => json!(*rng.pick(&[0i64, -1, 5, i64::MAX, i64::MIN])),
            _ => Value::Null,
        }
    }

    fn gen_ty(&self, t: &Value, budget: u32, rng: &mut Rng) -> Value {
        match t["k"].as_str().unwrap_or("") {
            "unit" => Value::Null,
            "prim" => self.prim(t["p"].as_str().unwrap(), rng),
            "opt" => {
                if ty_need(&t["t"], &self.need) <= budget && rng.chance(2, 3) {
                    self.gen_ty(&t["t"], budget, rng)
                } else {
                    Value::Null
                }
            }
            "vec" => {
                let n = if ty_need(&t["t"], &self.need) <= budget { *rng.pick(&[0usize, 1, 1, 2, 3]) } else { 0 };
                Value::Array((0..n).map(|_| self.gen_ty(&t["t"], budget, rng)).collect())
            }
            "box" => self.gen_ty(&t["t"], budget, rng),
            "tup" => Value::Array(t["ts"].as_array().unwrap().iter().map(|x| self.gen_ty(x, budget, rng)).collect()),
            "named" => self.gen_named(t["id"].as_u64().unwrap() as usize, budget, rng),
            _ => Value::Null,
        }
    }

    fn gen_shape(&self, v: &Value, budget: u32, rng: &mut Rng) -> Value {
        let fields = v["fields"].as_array().unwrap();
        match v["kind"].as_str().unwrap() {
            "unit" => Value::Null,
            "newtype" => self.gen_ty(&fields[0]["ty"], budget, rng),
            "tuple" => Value::Array(fields.iter().map(|f| self.gen_ty(&f["ty"], budget, rng)).collect()),
            _ => {
                let mut m = serde_json::Map::new();
                for f in fields {
                    m.insert(f["name"].as_str().unwrap().to_string(), self.gen_ty(&f["ty"], budget, rng));
                }
                Value::Object(m)
            }
        }
    }

    /// a value of schema type `id` whose nesting of named types is at most `budget` (>= min_need(id))
    pub fn gen_named(&self, id: usize, budget: u32, rng: &mut Rng) -> Value {
        let t = &self.types[id];
        // domain knowledge that the type system does not carry (otherwise most printed values are
        // rejected or panic in Display): an identifier's quote is one of the quote characters, an
        // unquoted identifier is a word; a number's text is numeric.  One value in eight stays raw.
        if self.realistic && (self.strict || !rng.chance(1, 8)) {
            match t["name"].as_str().unwrap_or("") {
                "Ident" if t["kind"] == "struct" && t["variants"][0]["fields"].as_array().map(|f| f.len()) == Some(2) => {
                    let words = ["a", "b", "t1", "col", "my_tab", "x9", "Tbl", "v"];
                    let payloads = ["a", "x y", "SELECT", "é", "a\"b", "it's", "a`b", "t.1", "𝔘", "a]b"];
                    return match rng.below(5) {
                        0 => json!({"value": *rng.pick(&payloads), "quote_style": "\""}),
                        1 => json!({"value": *rng.pick(&payloads), "quote_style": *rng.pick(&["`", "[", "\""])}),
                        _ => json!({"value": *rng.pick(&words), "quote_style": Value::Null}),
                    };
                }
                "Value" if t["kind"] == "enum" && rng.chance(1, 3) => {
                    let nums = ["0", "1", "42", "1.5", "007", "1e3", ".5", "12345678901234567890"];
                    return json!({"Number": [*rng.pick(&nums), rng.chance(1, 6)]});
                }
                _ => {}
            }
        }
        let vs = t["variants"].as_array().unwrap();
        let b = budget.saturating_sub(1);
        if t["kind"] == "struct" {
            return self.gen_shape(&vs[0], b, rng);
        }
        let ok: Vec<&Value> = vs.iter().filter(|v| variant_need(v, &self.need) <= budget).collect();
        let v = if ok.is_empty() { &vs[0] } else { *rng.pick(&ok) };
        if v["kind"] == "unit" {
            json!(v["name"].as_str().unwrap())
        } else {
            json!({ v["name"].as_str().unwrap(): self.gen_shape(v, b, rng) })
        }
    }

    /// variant `vi` of enum type `id` at the root (so that every variant is reached)
    pub fn gen_variant(&self, id: usize, vi: usize, budget: u32, rng: &mut Rng) -> Value {
        let v = &self.types[id]["variants"][vi];
        let b = budget.max(variant_need(v, &self.need)).saturating_sub(1);
        if v["kind"] == "unit" {
            json!(v["name"].as_str().unwrap())
        } else {
            json!({ v["name"].as_str().unwrap(): self.gen_shape(v, b, rng) })
        }
    }

    pub fn n_variants(&self, id: usize) -> usize {
        self.types[id]["variants"].as_array().unwrap().len()
    }

    /// `count` generated statements: every Statement variant in turn, random budgets
    pub fn statements(&self, count: usize, seed: u64, errs: &mut Vec<String>) -> Vec<sqlparser::ast::Statement> {
        let id = self.root_statement;
        let nv = self.n_variants(id);
        let mut out = vec![];
        for k in 0..count {
            // one PRNG stream per (variant NAME, round): adding, removing or reordering Statement
            // variants leaves the statements generated for the other variants unchanged
            let vname = self.types[id]["variants"][k % nv]["name"].as_str().unwrap_or("");
            let mut h: u64 = 0xcbf29ce484222325;
            for b in vname.bytes() { h = (h ^ b as u64).wrapping_mul(0x100000001b3); }
            let mut rng = Rng(seed ^ 0xA57 ^ h ^ ((k / nv) as u64).wrapping_mul(0x9E3779B97F4A7C15));
            let budget = self.need[id] + 1 + rng.below(4) as u32;
            let doc = self.gen_variant(id, k % nv, budget, &mut rng);
            match crate::common::guard(|| serde_json::from_value::<sqlparser::ast::Statement>(doc.clone())) {
                crate::common::G::Val(Ok(st)) => out.push(st),
                crate::common::G::Val(Err(e)) => errs.push(format!("{e}: {}", crate::common::trunc(&doc.to_string(), 300))),
                crate::common::G::Panic(m) => errs.push(format!("panic {m}")),
            }
        }
        out
    }
}

//! Generates, from the *current* `trait Dialect` in /repo/src/dialect/mod.rs:
//!  * `wrapper.rs`: `Wrapped` (forwards every method incl. `dialect()`) and `WrappedOwnId`
//!    (forwards everything except `dialect()`), used by C15;
//!  * `dialect_flags.rs`: `fn dialect_flags(d: &dyn Dialect) -> Vec<(&'static str, bool)>` with
//!    every `fn name(&self) -> bool` capability method, used by the tabulation.
use quote::quote;
use std::path::Path;

fn main() {
    let src_path = "/repo/src/dialect/mod.rs";
    println!("cargo:rerun-if-changed={src_path}");
    println!("cargo:rerun-if-changed=build.rs");
    let src = std::fs::read_to_string(src_path).expect("read dialect/mod.rs");
    let file = syn::parse_file(&src).expect("parse dialect/mod.rs");
    let mut fwd = vec![];
    let mut fwd_noid = vec![];
    let mut flags = vec![];
    let mut names = vec![];
    for item in &file.items {
        if let syn::Item::Trait(t) = item {
            if t.ident != "Dialect" {
                continue;
            }
            for ti in &t.items {
                if let syn::TraitItem::Fn(f) = ti {
                    let sig = &f.sig;
                    let name = &sig.ident;
                    names.push(name.to_string());
                    // argument names
                    let mut args = vec![];
                    let mut sig2 = sig.clone();
                    for (i, a) in sig2.inputs.iter_mut().enumerate() {
                        if let syn::FnArg::Typed(pt) = a {
                            let id = syn::Ident::new(&format!("a{i}"), proc_macro2::Span::call_site());
                            *pt.pat = syn::parse_quote!(#id);
                            args.push(id);
                        }
                    }
                    let body = quote! { #sig2 { self.0.#name(#(#args),*) } };
                    fwd.push(body.clone());
                    if name != "dialect" {
                        fwd_noid.push(body);
                    }
                    let is_bool = matches!(&sig.output, syn::ReturnType::Type(_, ty) if quote!(#ty).to_string() == "bool");
                    if is_bool && sig.inputs.len() == 1 {
                        let n = name.to_string();
                        flags.push(quote! { (#n, d.#name()) });
                    }
                }
            }
        }
    }
    let mut precs = vec![];
    let mut prec_names = vec![];
    for item in &file.items {
        if let syn::Item::Enum(e) = item {
            if e.ident == "Precedence" {
                for v in &e.variants {
                    let id = &v.ident;
                    let n = id.to_string();
                    precs.push(quote! { (#n, d.prec_value(Precedence::#id)) });
                    prec_names.push(n);
                }
            }
        }
    }
    let out = std::env::var("OUT_DIR").unwrap();
    let wrapper = quote! {
        #[derive(Debug)]
        pub struct Wrapped(pub Box<dyn Dialect>);
        impl Dialect for Wrapped { #(#fwd)* }
        #[derive(Debug)]
        pub struct WrappedOwnId(pub Box<dyn Dialect>);
        impl Dialect for WrappedOwnId { #(#fwd_noid)* }
        pub const DIALECT_METHODS: &[&str] = &[#(#names),*];
    };
    std::fs::write(Path::new(&out).join("wrapper.rs"), wrapper.to_string()).unwrap();
    let fl = quote! {
        pub fn dialect_flags(d: &dyn Dialect) -> Vec<(&'static str, bool)> { vec![#(#flags),*] }
        pub fn dialect_precs(d: &dyn Dialect) -> Vec<(&'static str, u8)> { vec![#(#precs),*] }
    };
    std::fs::write(Path::new(&out).join("dialect_flags.rs"), fl.to_string()).unwrap();
}

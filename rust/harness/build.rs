//! Generates, from the *current* `trait Dialect` in /repo/src/dialect/mod.rs:
//!  * `wrapper.rs`: `Wrapped` (forwards every method incl. `dialect()`) and `WrappedOwnId`
//!    (forwards everything except `dialect()`), used by C15;
//!  * `dialect_flags.rs`: `fn dialect_flags(d: &dyn Dialect) -> Vec<(&'static str, bool)>` with
//!    every `fn name(&self) -> bool` capability method, used by the tabulation.
use quote::quote;
use std::path::Path;

fn main() {
    println!("cargo:rerun-if-env-changed=VERIF_REPO");
    let repo = std::env::var("VERIF_REPO").unwrap_or_else(|_| "/repo".to_string());
    let src_path = &format!("{repo}/src/dialect/mod.rs");
    println!("cargo:rerun-if-changed={src_path}");
    println!("cargo:rerun-if-changed=build.rs");
    let src = std::fs::read_to_string(src_path).expect("read dialect/mod.rs");
    let file = syn::parse_file(&src).expect("parse dialect/mod.rs");
    let mut fwd = vec![];
    let mut fwd_noid = vec![];
    let mut fwd_prec = vec![];
    let mut flags = vec![];
    let mut names = vec![];
    for item in &file.items {
        if let syn::Item::Trait(t) = item {
            if t.ident != "Dialect" {
                continue;
            }
            for ti in &t.items {
                if let syn::TraitItem::Fn(f) = ti {
                    let sig = &f.sig;
                    let name = &sig.ident;
                    names.push(name.to_string());
                    // argument names
                    let mut args = vec![];
                    let mut sig2 = sig.clone();
                    for (i, a) in sig2.inputs.iter_mut().enumerate() {
                        if let syn::FnArg::Typed(pt) = a {
                            let id = syn::Ident::new(&format!("a{i}"), proc_macro2::Span::call_site());
                            *pt.pat = syn::parse_quote!(#id);
                            args.push(id);
                        }
                    }
                    let body = quote! { #sig2 { self.0.#name(#(#args),*) } };
                    fwd.push(body.clone());
                    // WrappedPrec: a user-defined dialect that publishes its own binding powers:
                    // `prec_value` is perturbed, `get_next_precedence_default` is NOT forwarded (the
                    // trait's default body runs against the perturbed table)
                    if name == "prec_value" {
                        let a1 = &args[0];
                        fwd_prec.push(quote! { #sig2 { (self.1)(#a1, self.0.prec_value(#a1)) } });
                    } else if name != "get_next_precedence_default" {
                        fwd_prec.push(body.clone());
                    }
                    if name != "dialect" {
                        fwd_noid.push(body);
                    }
                    let is_bool = matches!(&sig.output, syn::ReturnType::Type(_, ty) if quote!(#ty).to_string() == "bool");
                    if is_bool && sig.inputs.len() == 1 {
                        let n = name.to_string();
                        flags.push(quote! { (#n, d.#name()) });
                    }
                }
            }
        }
    }
    let mut precs = vec![];
    let mut prec_names = vec![];
    for item in &file.items {
        if let syn::Item::Enum(e) = item {
            if e.ident == "Precedence" {
                for v in &e.variants {
                    let id = &v.ident;
                    let n = id.to_string();
                    precs.push(quote! { (#n, d.prec_value(Precedence::#id)) });
                    prec_names.push(n);
                }
            }
        }
    }
    let out = std::env::var("OUT_DIR").unwrap();
    let wrapper = quote! {
        #[derive(Debug)]
        pub struct Wrapped(pub Box<dyn Dialect>);
        impl Dialect for Wrapped { #(#fwd)* }
        #[derive(Debug)]
        pub struct WrappedOwnId(pub Box<dyn Dialect>);
        impl Dialect for WrappedOwnId { #(#fwd_noid)* }
        pub struct WrappedPrec(pub Box<dyn Dialect>, pub fn(Precedence, u8) -> u8);
        impl std::fmt::Debug for WrappedPrec { fn fmt(&self, f: &mut std::fmt::Formatter) -> std::fmt::Result { write!(f, "WrappedPrec({:?})", self.0) } }
        impl Dialect for WrappedPrec { #(#fwd_prec)* }
        pub const DIALECT_METHODS: &[&str] = &[#(#names),*];
    };
    std::fs::write(Path::new(&out).join("wrapper.rs"), wrapper.to_string()).unwrap();
    let fl = quote! {
        pub fn dialect_flags(d: &dyn Dialect) -> Vec<(&'static str, bool)> { vec![#(#flags),*] }
        pub fn dialect_precs(d: &dyn Dialect) -> Vec<(&'static str, u8)> { vec![#(#precs),*] }
    };
    std::fs::write(Path::new(&out).join("dialect_flags.rs"), fl.to_string()).unwrap();
    gen_builder_setters(&out);
}

/// C19: one test closure per builder setter, generated from the current source.
fn gen_builder_setters(out: &str) {
    let repo = std::env::var("VERIF_REPO").unwrap_or_else(|_| "/repo".to_string());
    let p = &format!("{repo}/src/ast/helpers/stmt_create_table.rs");
    println!("cargo:rerun-if-changed={p}");
    let file = syn::parse_file(&std::fs::read_to_string(p).expect("read builder")).expect("parse builder");
    let mut field_ty = std::collections::BTreeMap::new();
    for it in &file.items {
        if let syn::Item::Struct(st) = it {
            if st.ident == "CreateTableBuilder" {
                for f in &st.fields {
                    let ty = &f.ty;
                    field_ty.insert(f.ident.as_ref().unwrap().to_string(), quote!(#ty).to_string());
                }
            }
        }
    }
    let mut cases = vec![];
    let mut skipped = vec![];
    for it in &file.items {
        if let syn::Item::Impl(im) = it {
            if im.trait_.is_some() {
                continue;
            }
            for ii in &im.items {
                if let syn::ImplItem::Fn(f) = ii {
                    if f.sig.inputs.len() != 2 || !matches!(f.vis, syn::Visibility::Public(_)) {
                        continue;
                    }
                    let name = &f.sig.ident;
                    let pty = match &f.sig.inputs[1] {
                        syn::FnArg::Typed(pt) => { let t = &pt.ty; quote!(#t).to_string() }
                        _ => continue,
                    };
                    // first statement `self.F = ...`
                    let mut field = None;
                    if let Some(syn::Stmt::Expr(syn::Expr::Assign(a), _)) = f.block.stmts.first() {
                        if let syn::Expr::Field(fe) = &*a.left {
                            if let syn::Member::Named(n) = &fe.member {
                                field = Some(n.clone());
                            }
                        }
                    }
                    let n = name.to_string();
                    match field {
                        Some(fl) if field_ty.get(&fl.to_string()) == Some(&pty) => {
                            let fls = fl.to_string();
                            cases.push(quote! {
                                SetterCase {
                                    name: #n,
                                    field: #fls,
                                    apply: |b, s2| b.#name(s2.#fl.clone()),
                                    expect: |e, s2| e.#fl = s2.#fl.clone(),
                                }
                            });
                        }
                        _ => skipped.push(n),
                    }
                }
            }
        }
    }
    let code = quote! {
        pub struct SetterCase {
            pub name: &'static str,
            pub field: &'static str,
            pub apply: fn(CreateTableBuilder, &CreateTable) -> CreateTableBuilder,
            pub expect: fn(&mut CreateTable, &CreateTable),
        }
        pub fn setter_cases() -> Vec<SetterCase> { vec![#(#cases),*] }
        pub const SETTERS_NOT_GENERATED: &[&str] = &[#(#skipped),*];
    };
    std::fs::write(Path::new(out).join("builder_setters.rs"), code.to_string()).unwrap();
}

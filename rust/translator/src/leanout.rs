//! Helpers to print Lean literals.
pub fn lean_str(s: &str) -> String {
    let mut o = String::from("\"");
    for c in s.chars() {
        match c {
            '"' => o.push_str("\\\""),
            '\\' => o.push_str("\\\\"),
            '\n' => o.push_str("\\n"),
            '\t' => o.push_str("\\t"),
            '\r' => o.push_str("\\r"),
            c if (c as u32) < 0x20 || (c as u32) == 0x7f => o.push_str(&format!("\\x{:02x}", c as u32)),
            c => o.push(c),
        }
    }
    o.push('"');
    o
}

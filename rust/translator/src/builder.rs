use crate::*;
pub fn run(_repo: &Path, _out: &Path) -> Result<(), String> { Ok(()) }

//! C19: field maps of the CREATE TABLE builder, extracted from the program text.
//!  * fields of `CreateTable` (src/ast/dml.rs) and `CreateTableBuilder`
//!  * map of `build()`          : statement field <- builder field
//!  * map of `try_from`         : builder field   <- statement field (through the pattern bindings)
//!  * setters                   : (name, assigned field, rhs is exactly the one parameter, returns self)
//!  * `_` arm of try_from returns Err(..) (no panic/unreachable)
use crate::leanout::lean_str;
use crate::*;
use syn::visit::Visit;

fn struct_fields(file: &syn::File, name: &str) -> Option<Vec<String>> {
    for it in &file.items {
        if let syn::Item::Struct(s) = it {
            if s.ident == name {
                return Some(s.fields.iter().filter_map(|f| f.ident.as_ref().map(|i| i.to_string())).collect());
            }
        }
    }
    None
}

/// `self.x` -> Some("x")
fn self_field(e: &syn::Expr) -> Option<String> {
    if let syn::Expr::Field(f) = e {
        if let syn::Expr::Path(p) = &*f.base {
            if p.path.is_ident("self") {
                if let syn::Member::Named(n) = &f.member {
                    return Some(n.to_string());
                }
            }
        }
    }
    None
}

fn path_ident(e: &syn::Expr) -> Option<String> {
    if let syn::Expr::Path(p) = e {
        return p.path.get_ident().map(|i| i.to_string());
    }
    None
}

struct FindStruct<'a> {
    name: &'a str,
    found: Vec<syn::ExprStruct>,
}
impl<'a, 'ast> Visit<'ast> for FindStruct<'a> {
    fn visit_expr_struct(&mut self, s: &'ast syn::ExprStruct) {
        if s.path.segments.last().map(|x| x.ident == self.name).unwrap_or(false) {
            self.found.push(s.clone());
        }
        syn::visit::visit_expr_struct(self, s);
    }
}

struct FindPatStruct {
    found: Vec<syn::PatStruct>,
}
impl<'ast> Visit<'ast> for FindPatStruct {
    fn visit_pat_struct(&mut self, s: &'ast syn::PatStruct) {
        if s.path.segments.last().map(|x| x.ident == "CreateTable").unwrap_or(false) {
            self.found.push(s.clone());
        }
        syn::visit::visit_pat_struct(self, s);
    }
}

pub fn run(repo: &Path, out: &Path) -> Result<(), String> {
    let dml = syn::parse_file(&fs::read_to_string(repo.join("src/ast/dml.rs")).map_err(|e| e.to_string())?).map_err(|e| e.to_string())?;
    let hb = syn::parse_file(&fs::read_to_string(repo.join("src/ast/helpers/stmt_create_table.rs")).map_err(|e| e.to_string())?).map_err(|e| e.to_string())?;
    let stmt_fields = struct_fields(&dml, "CreateTable").ok_or("struct CreateTable not found")?;
    let b_fields = struct_fields(&hb, "CreateTableBuilder").ok_or("struct CreateTableBuilder not found")?;
    let id_of = |n: &str| -> usize { stmt_fields.iter().position(|x| x == n).unwrap_or_else(|| 1000 + b_fields.iter().position(|x| x == n).unwrap_or(999)) };

    let mut build_map: Vec<(usize, usize)> = vec![]; // (stmt field, builder field read) ; 9999 = not a plain self.field
    let mut try_map: Vec<(usize, usize)> = vec![]; // (builder field, stmt field)
    let mut setters: Vec<(String, usize, bool)> = vec![];
    let mut setter_src: Vec<(String, String, String)> = vec![]; // (name, field, param type) for harness codegen
    let mut wildcard_err = false;
    let mut new_defaults: Vec<(usize, String)> = vec![];

    for it in &hb.items {
        match it {
            syn::Item::Impl(im) if im.trait_.is_none() => {
                for ii in &im.items {
                    if let syn::ImplItem::Fn(f) = ii {
                        let name = f.sig.ident.to_string();
                        if name == "build" {
                            let mut fs_ = FindStruct { name: "CreateTable", found: vec![] };
                            fs_.visit_block(&f.block);
                            if fs_.found.is_empty() {
                                // build() delegates: take the literal from the inherent method it names
                                let body = { let b = &f.block; quote::quote!(#b).to_string() };
                                for it2 in &hb.items {
                                    if let syn::Item::Impl(im2) = it2 {
                                        if im2.trait_.is_some() { continue; }
                                        for ii2 in &im2.items {
                                            if let syn::ImplItem::Fn(g) = ii2 {
                                                let gname = g.sig.ident.to_string();
                                                if gname != "build" && body.contains(&gname) && fs_.found.is_empty() {
                                                    fs_.visit_block(&g.block);
                                                }
                                            }
                                        }
                                    }
                                }
                            }
                            let s = fs_.found.first().ok_or("build(): no CreateTable literal")?;
                            if s.rest.is_some() {
                                build_map.push((9998, 9998));
                            }
                            for fv in &s.fields {
                                if let syn::Member::Named(n) = &fv.member {
                                    let src = self_field(&fv.expr).map(|x| id_of(&x)).unwrap_or(9999);
                                    build_map.push((id_of(&n.to_string()), src));
                                }
                            }
                        } else if name == "new" {
                            let mut fs_ = FindStruct { name: "Self", found: vec![] };
                            fs_.visit_block(&f.block);
                            if let Some(s) = fs_.found.first() {
                                for fv in &s.fields {
                                    if let syn::Member::Named(n) = &fv.member {
                                        let e = &fv.expr;
                                        new_defaults.push((id_of(&n.to_string()), quote::quote!(#e).to_string()));
                                    }
                                }
                            }
                        } else if f.sig.inputs.len() == 2 {
                            // setter shape: (mut self, p: T) -> Self { self.F = p; self }
                            let (pname, pty) = match &f.sig.inputs[1] {
                                syn::FnArg::Typed(pt) => (
                                    if let syn::Pat::Ident(pi) = &*pt.pat { pi.ident.to_string() } else { String::new() },
                                    { let t = &pt.ty; quote::quote!(#t).to_string() },
                                ),
                                _ => (String::new(), String::new()),
                            };
                            let stmts = &f.block.stmts;
                            let mut field = None;
                            let mut simple = false;
                            if stmts.len() == 2 {
                                if let syn::Stmt::Expr(syn::Expr::Assign(a), Some(_)) = &stmts[0] {
                                    field = self_field(&a.left);
                                    simple = path_ident(&a.right).map(|x| x == pname).unwrap_or(false);
                                }
                                if let syn::Stmt::Expr(e, None) = &stmts[1] {
                                    simple = simple && path_ident(e).map(|x| x == "self").unwrap_or(false);
                                } else {
                                    simple = false;
                                }
                            }
                            let fid = field.as_deref().map(|x| id_of(x)).unwrap_or(9999);
                            setters.push((name.clone(), fid, simple));
                            if let Some(fl) = field {
                                setter_src.push((name, fl, pty));
                            }
                        }
                    }
                }
            }
            syn::Item::Impl(im) if im.trait_.as_ref().map(|t| t.1.segments.last().unwrap().ident == "TryFrom").unwrap_or(false) => {
                for ii in &im.items {
                    if let syn::ImplItem::Fn(f) = ii {
                        if f.sig.ident != "try_from" {
                            continue;
                        }
                        // pattern bindings: stmt field -> variable
                        let mut fp = FindPatStruct { found: vec![] };
                        fp.visit_block(&f.block);
                        let ps = fp.found.first().ok_or("try_from: no CreateTable pattern")?;
                        let mut var_of: Map<String, String> = Map::new(); // variable -> stmt field
                        for fpat in &ps.fields {
                            if let syn::Member::Named(n) = &fpat.member {
                                let var = match &*fpat.pat {
                                    syn::Pat::Ident(pi) => pi.ident.to_string(),
                                    _ => "?".to_string(),
                                };
                                var_of.insert(var, n.to_string());
                            }
                        }
                        let mut fs_ = FindStruct { name: "Self", found: vec![] };
                        fs_.visit_block(&f.block);
                        let s = fs_.found.first().ok_or("try_from: no Self literal")?;
                        for fv in &s.fields {
                            if let syn::Member::Named(n) = &fv.member {
                                let src = path_ident(&fv.expr).and_then(|v| var_of.get(&v).cloned()).map(|x| id_of(&x)).unwrap_or(9999);
                                try_map.push((id_of(&n.to_string()), src));
                            }
                        }
                        // the wildcard arm must be `_ => Err(...)`
                        struct Arms(bool);
                        impl<'ast> Visit<'ast> for Arms {
                            fn visit_arm(&mut self, a: &'ast syn::Arm) {
                                // a catch-all arm: `_` or a plain binding (`other => ..`)
                                let catch_all = match &a.pat {
                                    syn::Pat::Wild(_) => true,
                                    syn::Pat::Ident(pi) => pi.subpat.is_none() && pi.ident.to_string().chars().next().map(|c| c.is_lowercase()).unwrap_or(false),
                                    _ => false,
                                };
                                if catch_all {
                                    if let syn::Expr::Call(c) = &*a.body {
                                        if path_ident(&c.func).map(|x| x == "Err").unwrap_or(false) {
                                            self.0 = true;
                                        }
                                    }
                                }
                                syn::visit::visit_arm(self, a);
                            }
                        }
                        let mut ar = Arms(false);
                        ar.visit_block(&f.block);
                        wildcard_err = ar.0;
                    }
                }
            }
            _ => {}
        }
    }

    // ---- Lean
    let pairs = |v: &Vec<(usize, usize)>| format!("[{}]", v.iter().map(|(a, b)| format!("({a},{b})")).collect::<Vec<_>>().join(","));
    let mut o = String::new();
    o.push_str("/- GENERATED by `translator builder` from src/ast/dml.rs and src/ast/helpers/stmt_create_table.rs. Do not edit.\n   Field ids = position in `struct CreateTable`; 1000+k = builder-only field k; 9999 = not a plain field copy. -/\nnamespace SqlVerif.Gen.Builder\n\n");
    o.push_str(&format!("def nFields : Nat := {}\n", stmt_fields.len()));
    o.push_str(&format!("def stmtFieldNames : List String := [{}]\n", stmt_fields.iter().map(|s| lean_str(s)).collect::<Vec<_>>().join(", ")));
    o.push_str(&format!("def builderFieldIds : List Nat := [{}]\n", b_fields.iter().map(|s| id_of(s).to_string()).collect::<Vec<_>>().join(",")));
    o.push_str(&format!("/-- `build()`: (statement field, builder field it is read from) -/\ndef buildMap : List (Nat × Nat) := {}\n", pairs(&build_map)));
    o.push_str(&format!("/-- `try_from`: (builder field, statement field it is read from) -/\ndef tryFromMap : List (Nat × Nat) := {}\n", pairs(&try_map)));
    o.push_str(&format!("/-- setters: (assigned field, body is exactly `self.f = param; self`) -/\ndef setters : List (Nat × Bool) := [{}]\n", setters.iter().map(|(_, f, s)| format!("({f},{s})")).collect::<Vec<_>>().join(",")));
    o.push_str(&format!("def setterNames : List String := [{}]\n", setters.iter().map(|(n, _, _)| lean_str(n)).collect::<Vec<_>>().join(", ")));
    o.push_str(&format!("/-- the `_` arm of `try_from` is `Err(..)` -/\ndef wildcardArmIsErr : Bool := {}\n", wildcard_err));
    o.push_str(&format!("/-- fields given a default by `new()` -/\ndef newDefaultIds : List Nat := [{}]\n", new_defaults.iter().map(|(i, _)| i.to_string()).collect::<Vec<_>>().join(",")));
    o.push_str("\nend SqlVerif.Gen.Builder\n");
    write_if_changed(&out.join("lean/Builder.lean"), &o);
    let j = serde_json::json!({"stmt_fields": stmt_fields, "builder_fields": b_fields, "setters": setter_src, "new_defaults": new_defaults});
    write_if_changed(&out.join("builder.json"), &serde_json::to_string_pretty(&j).unwrap());
    Ok(())
}

//! Display coverage: for every `impl Display for T` of the AST, which named fields of T (struct) or
//! of each struct-like variant of T (enum) are never mentioned by the `fmt` body.  A field that the
//! printer never looks at cannot come back from the printed text (C01/C05), so the set of such
//! fields is an inventory: a new entry is an open obligation of C01 and C05.
//!
//! "Mentioned" is syntactic and generous: `self.field`, a binding of the field in a pattern of the
//! body whose name (or rename) occurs again as a word anywhere in the body text (format strings
//! included, for inline `{name}` arguments), or the whole value being handed on (`self` passed to a
//! helper, `*self`, `self.clone()`): then every field counts as mentioned.
use crate::*;
use syn::visit::Visit;

#[derive(Default)]
struct Defs {
    structs: Map<String, Vec<String>>,
    enums: Map<String, Map<String, Vec<String>>>,
}

fn collect_defs(items: &[syn::Item], d: &mut Defs) {
    for it in items {
        match it {
            syn::Item::Struct(s) => {
                if let syn::Fields::Named(n) = &s.fields {
                    d.structs.insert(s.ident.to_string(), n.named.iter().map(|f| f.ident.as_ref().unwrap().to_string().trim_start_matches("r#").to_string()).collect());
                }
            }
            syn::Item::Enum(e) => {
                let mut m = Map::new();
                for v in &e.variants {
                    if let syn::Fields::Named(n) = &v.fields {
                        m.insert(v.ident.to_string(), n.named.iter().map(|f| f.ident.as_ref().unwrap().to_string().trim_start_matches("r#").to_string()).collect());
                    }
                }
                d.enums.insert(e.ident.to_string(), m);
            }
            syn::Item::Mod(m) => {
                if let Some((_, its)) = &m.content {
                    collect_defs(its, d);
                }
            }
            _ => {}
        }
    }
}

fn words(s: &str) -> Set<String> {
    let mut out = Set::new();
    let mut cur = String::new();
    for c in s.chars() {
        if c.is_alphanumeric() || c == '_' {
            cur.push(c);
        } else if !cur.is_empty() {
            out.insert(std::mem::take(&mut cur));
        }
    }
    if !cur.is_empty() {
        out.insert(cur);
    }
    out
}

fn count_word(s: &str, w: &str) -> usize {
    let mut n = 0;
    let mut cur = String::new();
    for c in s.chars().chain(std::iter::once(' ')) {
        if c.is_alphanumeric() || c == '_' {
            cur.push(c);
        } else {
            if cur == w {
                n += 1;
            }
            cur.clear();
        }
    }
    n
}

struct PatV<'a> {
    ty: &'a str,
    variants: Set<String>,
    /// (variant or "" for struct, field, binding names or "" when ignored, scope id)
    found: Vec<(String, String, String, usize)>,
    /// texts in which a binding has to occur a second time to count as used (match arm / fn body)
    scopes: Vec<String>,
    cur: usize,
    /// variants / struct patterns seen at all
    seen: Set<String>,
}

impl<'a, 'ast> Visit<'ast> for PatV<'a> {
    fn visit_arm(&mut self, a: &'ast syn::Arm) {
        let old = self.cur;
        self.scopes.push(quote::quote!(#a).to_string());
        self.cur = self.scopes.len() - 1;
        self.visit_pat(&a.pat);
        self.cur = old;
        if let Some((_, g)) = &a.guard {
            self.visit_expr(g);
        }
        self.visit_expr(&a.body);
    }
    fn visit_pat_struct(&mut self, p: &'ast syn::PatStruct) {
        let segs: Vec<String> = p.path.segments.iter().map(|s| s.ident.to_string()).collect();
        let (owner, var) = match segs.len() {
            1 => (segs[0].clone(), String::new()),
            n => (segs[n - 2].clone(), segs[n - 1].clone()),
        };
        let (owner, var) = if segs.len() == 1 && self.variants.contains(&segs[0]) { (self.ty.to_string(), segs[0].clone()) } else { (owner, var) };
        let is_ty = owner == self.ty || owner == "Self" || (var.is_empty() && (segs[0] == self.ty || segs[0] == "Self"));
        if is_ty {
            let v = if owner == self.ty || owner == "Self" { var.clone() } else { String::new() };
            self.seen.insert(v.clone());
            for f in &p.fields {
                let name = match &f.member {
                    syn::Member::Named(n) => n.to_string().trim_start_matches("r#").to_string(),
                    syn::Member::Unnamed(i) => i.index.to_string(),
                };
                let pat = quote::quote!(#f).to_string();
                // binding names inside the field pattern
                let mut bind = String::new();
                struct B(Vec<String>);
                impl<'x> Visit<'x> for B {
                    fn visit_pat_ident(&mut self, i: &'x syn::PatIdent) {
                        self.0.push(i.ident.to_string().trim_start_matches("r#").to_string());
                        syn::visit::visit_pat_ident(self, i);
                    }
                }
                let mut b = B(vec![]);
                b.visit_pat(&f.pat);
                if !b.0.is_empty() {
                    bind = b.0.join(" ");
                } else if !pat.contains('_') || pat.contains("::") || pat.contains("Some") || pat.contains("true") || pat.contains("false") {
                    // matched against a constant pattern: the value is looked at
                    bind = "<const>".into();
                }
                self.found.push((v.clone(), name, bind, self.cur));
            }
        }
        syn::visit::visit_pat_struct(self, p);
    }
}

/// every named field of every AST struct and struct-like enum variant (`Type.field`,
/// `Enum::Variant.field`): the stream renderers of the harness match these types with `..`
/// patterns, so a NEW field would be ignored silently — it is an open obligation instead
pub fn ast_fields(repo: &Path) -> Result<Vec<String>, String> {
    let mut defs = Defs::default();
    for f in rs_files(&repo.join("src/ast")) {
        let src = fs::read_to_string(&f).map_err(|e| e.to_string())?;
        let file = syn::parse_file(&src).map_err(|e| format!("{f:?}: {e}"))?;
        collect_defs(&file.items, &mut defs);
    }
    let mut out = vec![];
    for (t, fs_) in &defs.structs { for f in fs_ { out.push(format!("{t}.{f}")); } }
    for (e, vs) in &defs.enums { for (v, fs_) in vs { for f in fs_ { out.push(format!("{e}::{v}.{f}")); } } }
    out.sort();
    Ok(out)
}

pub fn run(repo: &Path) -> Result<Vec<String>, String> {
    let mut defs = Defs::default();
    let mut files = vec![];
    for f in rs_files(&repo.join("src/ast")) {
        let src = fs::read_to_string(&f).map_err(|e| e.to_string())?;
        let file = syn::parse_file(&src).map_err(|e| format!("{f:?}: {e}"))?;
        collect_defs(&file.items, &mut defs);
        files.push((f.strip_prefix(repo.join("src")).unwrap().to_string_lossy().to_string(), file));
    }
    let mut out: Vec<String> = vec![];
    fn walk(items: &[syn::Item], rel: &str, defs: &Defs, out: &mut Vec<String>) {
        for it in items {
            match it {
                syn::Item::Mod(m) => {
                    if let Some((_, its)) = &m.content {
                        walk(its, rel, defs, out);
                    }
                }
                syn::Item::Impl(im) => {
                    let Some((_, tr, _)) = &im.trait_ else { continue };
                    if tr.segments.last().map(|s| s.ident.to_string()).as_deref() != Some("Display") {
                        continue;
                    }
                    let ty = match &*im.self_ty {
                        syn::Type::Path(p) => p.path.segments.last().map(|s| s.ident.to_string()).unwrap_or_default(),
                        _ => continue,
                    };
                    for ii in &im.items {
                        let syn::ImplItem::Fn(f) = ii else { continue };
                        if f.sig.ident != "fmt" {
                            continue;
                        }
                        let body = quote::quote!(#f).to_string();
                        let ws = words(&body);
                        // the whole value handed on: every field counts as mentioned
                        let compact: String = body.split_whitespace().collect::<Vec<_>>().join(" ");
                        let whole = compact.contains("( self )") || compact.contains("( self ,") || compact.contains(", self )") || compact.contains(", self ,") || compact.contains("* self") && !compact.contains("match * self") && !compact.contains("match self");
                        let mut pv = PatV { ty: &ty, variants: defs.enums.get(&ty).map(|m| m.keys().cloned().collect()).unwrap_or_default(), found: vec![], seen: Set::new(), scopes: vec![body.clone()], cur: 0 };
                        pv.visit_block(&f.block);
                        let compact = compact.replace("r#", "");
                        let mentioned_self = |field: &str| compact.contains(&format!("self . {field} ")) || compact.contains(&format!("self . {field}.")) || compact.contains(&format!("self . {field})")) || compact.contains(&format!("self . {field},"));
                        let used = |variant: &str, field: &str| -> bool {
                            if mentioned_self(field) {
                                return true;
                            }
                            for (v, fl, b, sc) in &pv.found {
                                if v == variant && fl == field {
                                    if b == "<const>" {
                                        return true;
                                    }
                                    for name in b.split(' ') {
                                        // the binding occurrence itself is one; a use is a second one
                                        if !name.is_empty() && ws.contains(name) && count_word(&pv.scopes[*sc], name) >= 2 {
                                            return true;
                                        }
                                    }
                                }
                            }
                            false
                        };
                        if let Some(fields) = defs.structs.get(&ty) {
                            if whole {
                                continue;
                            }
                            let miss: Vec<&String> = fields.iter().filter(|fl| !used("", fl)).collect();
                            if !miss.is_empty() {
                                out.push(format!("{rel}::{ty}: not printed {:?}", miss));
                            }
                        } else if let Some(vars) = defs.enums.get(&ty) {
                            for (v, fields) in vars {
                                if fields.is_empty() {
                                    continue;
                                }
                                if !pv.seen.contains(v) {
                                    if !whole {
                                        out.push(format!("{rel}::{ty}::{v}: variant not matched by name"));
                                    }
                                    continue;
                                }
                                let miss: Vec<&String> = fields.iter().filter(|fl| !used(v, fl)).collect();
                                if !miss.is_empty() {
                                    out.push(format!("{rel}::{ty}::{v}: not printed {:?}", miss));
                                }
                            }
                        }
                    }
                }
                _ => {}
            }
        }
    }
    for (rel, file) in &files {
        walk(&file.items, rel, &defs, &mut out);
    }
    out.sort();
    out.dedup();
    Ok(out)
}

//! C16 / C17: the AST schema as the source text defines it.
//!
//! Parses src/ast/*.rs, src/ast/helpers/*.rs, src/tokenizer.rs (and the `define_keywords!` call of
//! src/keywords.rs) with syn and extracts every struct/enum that derives `Visit`, `VisitMut` or
//! `Serialize` (through `cfg_attr`): name, generics, the type-level `visit(with = "...")` hook, and per
//! variant/field the name or index, the type expression, the field-level hook and every `serde(...)`
//! attribute.  A field-level `with` hook on a field whose type is written `Vec<..>` (the derive's own syntactic
//! test, `is_vec` in derive/src/lib.rs) fires around each element, in order, instead of around the field:
//! such a field is marked `hook_each`.  `cfg(...)` on items/variants/fields is evaluated for the feature set the harness builds
//! with (std, serde, visitor).  Generic definitions are monomorphised per instantiation that occurs.
//!
//! Outputs: `<out>/lean/Schema.lean`, `<out>/schema.json`, `<out>/obl_schema.json`.
use crate::leanout::lean_str;
use crate::*;
use quote::ToTokens;
use serde_json::json;
use syn::punctuated::Punctuated;
use syn::{Attribute, Meta, Token};

const FEATURES: [&str; 3] = ["std", "serde", "visitor"];
pub const HOOKS: [&str; 5] = ["visit_query", "visit_relation", "visit_table_factor", "visit_expr", "visit_statement"];
const NOOP_EXPECTED: [&str; 11] = ["u8", "u16", "u32", "u64", "i8", "i16", "i32", "i64", "char", "bool", "String"];

// ------------------------------------------------------------------ type expressions
#[derive(Clone, Debug, PartialEq)]
enum TyE {
    Unit,
    /// one of the primitive spellings (`u64`, `bool`, `String`, `f64`, ...)
    Prim(String),
    Opt(Box<TyE>),
    Vec(Box<TyE>),
    Boxed(Box<TyE>),
    Tup(Vec<TyE>),
    /// named type with generic arguments (before monomorphisation)
    Named(String, Vec<TyE>),
    /// type parameter of the enclosing definition
    Var(usize),
    /// resolved instance id (after monomorphisation)
    Inst(usize),
    /// anything else (references, arrays, fn pointers, ...): outside the model
    Other(String),
}

fn prim_class(p: &str) -> &'static str {
    match p {
        "bool" => "bool",
        "char" => "char",
        "String" => "str",
        "u8" | "u16" | "u32" | "u64" | "usize" => "uint",
        "i8" | "i16" | "i32" | "i64" | "isize" => "sint",
        "f32" | "f64" => "float",
        _ => "other",
    }
}
fn is_prim(s: &str) -> bool {
    matches!(s, "bool" | "char" | "String" | "u8" | "u16" | "u32" | "u64" | "usize" | "u128" | "i8" | "i16" | "i32" | "i64" | "isize" | "i128" | "f32" | "f64")
}

fn ty_of(t: &syn::Type, params: &[String]) -> TyE {
    match t {
        syn::Type::Paren(p) => ty_of(&p.elem, params),
        syn::Type::Group(p) => ty_of(&p.elem, params),
        syn::Type::Tuple(tt) => {
            if tt.elems.is_empty() {
                TyE::Unit
            } else {
                TyE::Tup(tt.elems.iter().map(|e| ty_of(e, params)).collect())
            }
        }
        syn::Type::Path(tp) if tp.qself.is_none() => {
            let seg = tp.path.segments.last().unwrap();
            let name = seg.ident.to_string();
            let args: Vec<TyE> = match &seg.arguments {
                syn::PathArguments::AngleBracketed(a) => a
                    .args
                    .iter()
                    .filter_map(|g| if let syn::GenericArgument::Type(t) = g { Some(ty_of(t, params)) } else { None })
                    .collect(),
                _ => vec![],
            };
            if tp.path.segments.len() == 1 && args.is_empty() {
                if let Some(i) = params.iter().position(|p| *p == name) {
                    return TyE::Var(i);
                }
            }
            match (name.as_str(), args.len()) {
                ("Option", 1) => TyE::Opt(Box::new(args[0].clone())),
                ("Vec", 1) => TyE::Vec(Box::new(args[0].clone())),
                ("Box", 1) => TyE::Boxed(Box::new(args[0].clone())),
                (n, 0) if is_prim(n) => TyE::Prim(n.to_string()),
                _ => TyE::Named(name, args),
            }
        }
        other => TyE::Other(other.to_token_stream().to_string()),
    }
}

fn ty_text(t: &TyE, insts: &[Inst]) -> String {
    match t {
        TyE::Unit => "()".into(),
        TyE::Prim(p) => p.clone(),
        TyE::Opt(x) => format!("Option<{}>", ty_text(x, insts)),
        TyE::Vec(x) => format!("Vec<{}>", ty_text(x, insts)),
        TyE::Boxed(x) => format!("Box<{}>", ty_text(x, insts)),
        TyE::Tup(xs) => format!("({})", xs.iter().map(|x| ty_text(x, insts)).collect::<Vec<_>>().join(", ")),
        TyE::Named(n, a) if a.is_empty() => n.clone(),
        TyE::Named(n, a) => format!("{n}<{}>", a.iter().map(|x| ty_text(x, insts)).collect::<Vec<_>>().join(", ")),
        TyE::Var(i) => format!("${i}"),
        TyE::Inst(i) => insts.get(*i).map(|x| x.display.clone()).unwrap_or_else(|| format!("#{i}")),
        TyE::Other(s) => format!("?{s}"),
    }
}

fn subst(t: &TyE, args: &[TyE]) -> TyE {
    match t {
        TyE::Var(i) => args.get(*i).cloned().unwrap_or(TyE::Other(format!("unbound ${i}"))),
        TyE::Opt(x) => TyE::Opt(Box::new(subst(x, args))),
        TyE::Vec(x) => TyE::Vec(Box::new(subst(x, args))),
        TyE::Boxed(x) => TyE::Boxed(Box::new(subst(x, args))),
        TyE::Tup(xs) => TyE::Tup(xs.iter().map(|x| subst(x, args)).collect()),
        TyE::Named(n, a) => TyE::Named(n.clone(), a.iter().map(|x| subst(x, args)).collect()),
        x => x.clone(),
    }
}

// ------------------------------------------------------------------ attributes
#[derive(Default, Clone, Debug)]
struct Attrs {
    derives: Set<String>,
    /// every `visit(with = "...")` found (the derive keeps the last one)
    visit_with: Vec<String>,
    /// `visit(...)` contents that are not `with = "..."`
    visit_bad: Vec<String>,
    serde: Vec<String>,
    /// cfg predicate evaluated for FEATURES
    enabled: bool,
}

fn cfg_eval(m: &Meta) -> bool {
    match m {
        Meta::NameValue(nv) if nv.path.is_ident("feature") => {
            if let syn::Expr::Lit(syn::ExprLit { lit: syn::Lit::Str(s), .. }) = &nv.value {
                FEATURES.contains(&s.value().as_str())
            } else {
                false
            }
        }
        Meta::List(l) => {
            let inner: Vec<Meta> = l.parse_args_with(Punctuated::<Meta, Token![,]>::parse_terminated).map(|p| p.into_iter().collect()).unwrap_or_default();
            if l.path.is_ident("not") {
                !inner.first().map(cfg_eval).unwrap_or(false)
            } else if l.path.is_ident("all") {
                inner.iter().all(cfg_eval)
            } else if l.path.is_ident("any") {
                inner.iter().any(cfg_eval)
            } else {
                false
            }
        }
        // `test`, `sqlparser_verif`, ...: not set for the schema (they never guard AST items)
        Meta::Path(p) => p.is_ident("sqlparser_verif"),
        _ => false,
    }
}

fn absorb_meta(m: &Meta, a: &mut Attrs) {
    match m {
        Meta::List(l) if l.path.is_ident("derive") => {
            if let Ok(ps) = l.parse_args_with(Punctuated::<syn::Path, Token![,]>::parse_terminated) {
                for p in ps {
                    a.derives.insert(p.segments.last().unwrap().ident.to_string());
                }
            }
        }
        Meta::List(l) if l.path.is_ident("visit") => {
            // exactly the grammar of derive/src/lib.rs: `with = "<ident>"`
            let mut ok = false;
            if let Ok(nv) = l.parse_args::<syn::MetaNameValue>() {
                if nv.path.is_ident("with") {
                    if let syn::Expr::Lit(syn::ExprLit { lit: syn::Lit::Str(s), .. }) = &nv.value {
                        a.visit_with.push(s.value());
                        ok = true;
                    }
                }
            }
            if !ok {
                a.visit_bad.push(l.tokens.to_string());
            }
        }
        Meta::List(l) if l.path.is_ident("serde") => a.serde.push(l.tokens.to_string()),
        Meta::List(l) if l.path.is_ident("cfg_attr") => {
            if let Ok(ps) = l.parse_args_with(Punctuated::<Meta, Token![,]>::parse_terminated) {
                let v: Vec<Meta> = ps.into_iter().collect();
                if let Some(pred) = v.first() {
                    if cfg_eval(pred) {
                        for inner in &v[1..] {
                            absorb_meta(inner, a);
                        }
                    }
                }
            }
        }
        Meta::List(l) if l.path.is_ident("cfg") => {
            if let Ok(ps) = l.parse_args_with(Punctuated::<Meta, Token![,]>::parse_terminated) {
                if !ps.iter().all(cfg_eval) {
                    a.enabled = false;
                }
            }
        }
        Meta::Path(p) if p.is_ident("serde") => a.serde.push(String::new()),
        _ => {}
    }
}

fn attrs_of(attrs: &[Attribute]) -> Attrs {
    let mut a = Attrs { enabled: true, ..Default::default() };
    for at in attrs {
        absorb_meta(&at.meta, &mut a);
    }
    a
}

// ------------------------------------------------------------------ definitions
#[derive(Clone, Debug)]
struct FieldD {
    name: Option<String>,
    ty: TyE,
    hook: Option<String>,
    /// the declared type is written `Vec<..>` (last path segment `Vec`): exactly the test `is_vec` of
    /// derive/src/lib.rs, on the source text, before any substitution of type parameters.  A `with`
    /// hook on such a field is emitted once per element (pre, element visit, post) instead of once
    /// around the field.
    decl_vec: bool,
    visit_bad: Vec<String>,
    serde: Vec<String>,
}
/// `is_vec` of derive/src/lib.rs
fn decl_is_vec(t: &syn::Type) -> bool {
    match t {
        syn::Type::Path(tp) => tp.path.segments.last().map(|s| s.ident == "Vec").unwrap_or(false),
        _ => false,
    }
}
impl FieldD {
    /// the field-level hook fires per element (the derive's `for item in field { pre; visit; post }`)
    fn hook_each(&self) -> bool {
        self.hook.is_some() && self.decl_vec
    }
}
#[derive(Clone, Debug, PartialEq)]
enum ShapeK {
    Unit,
    Newtype,
    Tuple,
    Struct,
}
#[derive(Clone, Debug)]
struct ShapeD {
    kind: ShapeK,
    fields: Vec<FieldD>,
}
#[derive(Clone, Debug)]
struct VariantD {
    name: String,
    shape: ShapeD,
    serde: Vec<String>,
    visit_attr: Vec<String>,
    has_discriminant: bool,
}
#[derive(Clone, Debug)]
struct Def {
    name: String,
    file: String,
    params: Vec<String>,
    is_enum: bool,
    attrs: Attrs,
    /// struct: one pseudo-variant holding the shape
    variants: Vec<VariantD>,
}
/// a monomorphic instance of a definition
#[derive(Clone, Debug)]
struct Inst {
    def: usize,
    args: Vec<TyE>,
    display: String,
    variants: Vec<VariantD>,
}

fn shape_of(fields: &syn::Fields, params: &[String]) -> ShapeD {
    let conv = |f: &syn::Field| -> Option<FieldD> {
        let a = attrs_of(&f.attrs);
        if !a.enabled {
            return None;
        }
        Some(FieldD {
            // serde (and rustc) name a raw identifier `r#type` by its unraw spelling
            name: f.ident.as_ref().map(|i| syn::ext::IdentExt::unraw(i).to_string()),
            ty: ty_of(&f.ty, params),
            hook: a.visit_with.last().cloned(),
            decl_vec: decl_is_vec(&f.ty),
            visit_bad: a.visit_bad.clone(),
            serde: a.serde.clone(),
        })
    };
    match fields {
        syn::Fields::Unit => ShapeD { kind: ShapeK::Unit, fields: vec![] },
        syn::Fields::Named(n) => ShapeD { kind: ShapeK::Struct, fields: n.named.iter().filter_map(conv).collect() },
        syn::Fields::Unnamed(u) => {
            let fs: Vec<FieldD> = u.unnamed.iter().filter_map(conv).collect();
            // serde_derive: exactly one unnamed field = newtype, otherwise tuple (also for zero fields)
            ShapeD { kind: if fs.len() == 1 { ShapeK::Newtype } else { ShapeK::Tuple }, fields: fs }
        }
    }
}

fn params_of(g: &syn::Generics) -> Vec<String> {
    g.params.iter().filter_map(|p| if let syn::GenericParam::Type(t) = p { Some(t.ident.to_string()) } else { None }).collect()
}

fn wanted(a: &Attrs) -> bool {
    a.enabled && ["Visit", "VisitMut", "Serialize", "Deserialize"].iter().any(|d| a.derives.contains(*d))
}

struct Scan {
    defs: Vec<Def>,
    /// pub struct/enum seen that derive none of the traits: (name, file)
    underived: Vec<(String, String)>,
    /// manual `impl Visit[Mut] for <ty>`: (trait, type text, file)
    manual: Vec<(String, String, String)>,
    noop: Vec<String>,
}

fn scan_items(items: &[syn::Item], file: &str, sc: &mut Scan) {
    for it in items {
        match it {
            syn::Item::Struct(s) => {
                let a = attrs_of(&s.attrs);
                if !a.enabled {
                    continue;
                }
                if !wanted(&a) {
                    if matches!(s.vis, syn::Visibility::Public(_)) {
                        sc.underived.push((s.ident.to_string(), file.to_string()));
                    }
                    continue;
                }
                let params = params_of(&s.generics);
                let shape = shape_of(&s.fields, &params);
                sc.defs.push(Def {
                    name: s.ident.to_string(),
                    file: file.into(),
                    params,
                    is_enum: false,
                    attrs: a,
                    variants: vec![VariantD { name: s.ident.to_string(), shape, serde: vec![], visit_attr: vec![], has_discriminant: false }],
                });
            }
            syn::Item::Enum(e) => {
                let a = attrs_of(&e.attrs);
                if !a.enabled {
                    continue;
                }
                if !wanted(&a) {
                    if matches!(e.vis, syn::Visibility::Public(_)) {
                        sc.underived.push((e.ident.to_string(), file.to_string()));
                    }
                    continue;
                }
                let params = params_of(&e.generics);
                let mut vs = vec![];
                for v in &e.variants {
                    let va = attrs_of(&v.attrs);
                    if !va.enabled {
                        continue;
                    }
                    vs.push(VariantD {
                        name: syn::ext::IdentExt::unraw(&v.ident).to_string(),
                        shape: shape_of(&v.fields, &params),
                        serde: va.serde.clone(),
                        visit_attr: va.visit_with.iter().cloned().chain(va.visit_bad.iter().cloned()).collect(),
                        has_discriminant: v.discriminant.is_some(),
                    });
                }
                sc.defs.push(Def { name: e.ident.to_string(), file: file.into(), params, is_enum: true, attrs: a, variants: vs });
            }
            syn::Item::Impl(im) => {
                if let Some((_, path, _)) = &im.trait_ {
                    let t = path.segments.last().unwrap().ident.to_string();
                    if t == "Visit" || t == "VisitMut" {
                        let a = attrs_of(&im.attrs);
                        if a.enabled {
                            sc.manual.push((t, im.self_ty.to_token_stream().to_string().replace(' ', ""), file.to_string()));
                        }
                    }
                }
            }
            syn::Item::Macro(m) => {
                let a = attrs_of(&m.attrs);
                if a.enabled && m.mac.path.is_ident("visit_noop") {
                    if let Ok(ts) = m.mac.parse_body_with(Punctuated::<syn::Type, Token![,]>::parse_terminated) {
                        for t in ts {
                            sc.noop.push(t.to_token_stream().to_string().replace(' ', ""));
                        }
                    }
                }
            }
            syn::Item::Mod(m) => {
                let a = attrs_of(&m.attrs);
                // `#[cfg(test)] mod tests` is skipped by cfg_eval (test is not set)
                if a.enabled {
                    if let Some((_, items)) = &m.content {
                        scan_items(items, file, sc);
                    }
                }
            }
            _ => {}
        }
    }
}

/// `define_keywords!(A, B = "x", ...)` -> ["NoKeyword", "A", "B", ...] plus the derive text of the macro body
fn keyword_enum(repo: &Path) -> Result<(Vec<String>, String), String> {
    let p = repo.join("src/keywords.rs");
    let src = fs::read_to_string(&p).map_err(|e| format!("{}: {e}", p.display()))?;
    let file = syn::parse_file(&src).map_err(|e| format!("{}: {e}", p.display()))?;
    let mut out = vec!["NoKeyword".to_string()];
    let mut body = String::new();
    let mut found = false;
    for it in &file.items {
        if let syn::Item::Macro(m) = it {
            if m.mac.path.is_ident("define_keywords") && m.ident.is_none() {
                found = true;
                let mut expect_ident = true;
                let mut skip_value = false;
                for tt in m.mac.tokens.clone() {
                    match tt {
                        proc_macro2::TokenTree::Ident(i) if expect_ident => {
                            out.push(i.to_string());
                            expect_ident = false;
                        }
                        proc_macro2::TokenTree::Punct(p) if p.as_char() == ',' => {
                            expect_ident = true;
                            skip_value = false;
                        }
                        proc_macro2::TokenTree::Punct(p) if p.as_char() == '=' => skip_value = true,
                        _ if skip_value => {}
                        other => return Err(format!("keywords.rs: unexpected token {other} in define_keywords!")),
                    }
                }
            }
            if m.mac.path.is_ident("macro_rules") && m.ident.as_ref().map(|i| i == "define_keywords").unwrap_or(false) {
                body = m.mac.tokens.to_string();
            }
        }
    }
    if !found {
        return Err("keywords.rs: define_keywords! invocation not found".into());
    }
    Ok((out, body))
}

// ------------------------------------------------------------------ run
pub fn run(repo: &Path, out: &Path) -> Result<(), String> {
    let mut files: Vec<PathBuf> = rs_files(&repo.join("src/ast"));
    files.push(repo.join("src/tokenizer.rs"));
    let mut sc = Scan { defs: vec![], underived: vec![], manual: vec![], noop: vec![] };
    for f in &files {
        let src = fs::read_to_string(f).map_err(|e| format!("{}: {e}", f.display()))?;
        let parsed = syn::parse_file(&src).map_err(|e| format!("{}: {e}", f.display()))?;
        let rel = f.strip_prefix(repo).unwrap_or(f).display().to_string();
        scan_items(&parsed.items, &rel, &mut sc);
    }
    // manual impls anywhere else in src/ (outside the scanned files)
    for f in rs_files(&repo.join("src")) {
        if files.contains(&f) {
            continue;
        }
        let src = fs::read_to_string(&f).map_err(|e| format!("{}: {e}", f.display()))?;
        if let Ok(parsed) = syn::parse_file(&src) {
            let rel = f.strip_prefix(repo).unwrap_or(&f).display().to_string();
            let mut tmp = Scan { defs: vec![], underived: vec![], manual: vec![], noop: vec![] };
            scan_items(&parsed.items, &rel, &mut tmp);
            sc.manual.extend(tmp.manual);
            sc.noop.extend(tmp.noop);
            // AST-deriving types defined outside the scanned files are part of the schema too
            sc.defs.extend(tmp.defs);
        }
    }
    // Keyword: defined by macro; an opaque unit-variant enum
    let (kw_variants, kw_body) = keyword_enum(repo)?;
    let kw_serde = kw_body.contains("Serialize") && kw_body.contains("Deserialize");
    let kw_visit = kw_body.contains("Visit") && kw_body.contains("VisitMut");
    {
        let mut a = Attrs { enabled: true, ..Default::default() };
        if kw_serde {
            a.derives.insert("Serialize".into());
            a.derives.insert("Deserialize".into());
        }
        if kw_visit {
            a.derives.insert("Visit".into());
            a.derives.insert("VisitMut".into());
        }
        if kw_body.contains("serde (") || kw_body.contains("serde(") {
            a.serde.push("in define_keywords! body".into());
        }
        sc.defs.push(Def {
            name: "Keyword".into(),
            file: "src/keywords.rs".into(),
            params: vec![],
            is_enum: true,
            attrs: a,
            variants: kw_variants
                .iter()
                .map(|n| VariantD { name: n.clone(), shape: ShapeD { kind: ShapeK::Unit, fields: vec![] }, serde: vec![], visit_attr: vec![], has_discriminant: false })
                .collect(),
        });
    }

    // ---- name table of definitions
    let mut by_name: Map<String, Vec<usize>> = Map::new();
    for (i, d) in sc.defs.iter().enumerate() {
        by_name.entry(d.name.clone()).or_default().push(i);
    }
    let dup_names: Vec<String> = by_name.iter().filter(|(_, v)| v.len() > 1).map(|(k, v)| format!("{k} x{}", v.len())).collect();

    // ---- monomorphic instances: non-generic definitions first (source order), then instantiations on demand
    let mut insts: Vec<Inst> = vec![];
    let mut inst_key: Map<String, usize> = Map::new();
    let mut unresolved: Set<String> = Set::new();
    for (i, d) in sc.defs.iter().enumerate() {
        if d.params.is_empty() {
            inst_key.insert(d.name.clone(), insts.len());
            insts.push(Inst { def: i, args: vec![], display: d.name.clone(), variants: d.variants.clone() });
        }
    }
    // resolve field types, creating instances of generic definitions
    fn resolve(t: &TyE, sc: &Scan, by_name: &Map<String, Vec<usize>>, insts: &mut Vec<Inst>, inst_key: &mut Map<String, usize>, unresolved: &mut Set<String>, work: &mut Vec<usize>) -> TyE {
        match t {
            TyE::Opt(x) => TyE::Opt(Box::new(resolve(x, sc, by_name, insts, inst_key, unresolved, work))),
            TyE::Vec(x) => TyE::Vec(Box::new(resolve(x, sc, by_name, insts, inst_key, unresolved, work))),
            TyE::Boxed(x) => TyE::Boxed(Box::new(resolve(x, sc, by_name, insts, inst_key, unresolved, work))),
            TyE::Tup(xs) => TyE::Tup(xs.iter().map(|x| resolve(x, sc, by_name, insts, inst_key, unresolved, work)).collect()),
            TyE::Named(n, args) => {
                let args: Vec<TyE> = args.iter().map(|x| resolve(x, sc, by_name, insts, inst_key, unresolved, work)).collect();
                let key = ty_text(&TyE::Named(n.clone(), args.clone()), insts);
                if let Some(&i) = inst_key.get(&key) {
                    return TyE::Inst(i);
                }
                match by_name.get(n) {
                    Some(v) if sc.defs[v[0]].params.len() == args.len() && !args.is_empty() => {
                        let d = &sc.defs[v[0]];
                        let id = insts.len();
                        inst_key.insert(key.clone(), id);
                        let variants = d
                            .variants
                            .iter()
                            .map(|vd| {
                                let mut vd = vd.clone();
                                for f in vd.shape.fields.iter_mut() {
                                    f.ty = subst(&f.ty, &args);
                                }
                                vd
                            })
                            .collect();
                        insts.push(Inst { def: v[0], args: args.clone(), display: key, variants });
                        work.push(id);
                        TyE::Inst(id)
                    }
                    _ => {
                        unresolved.insert(key.clone());
                        TyE::Other(format!("unresolved {key}"))
                    }
                }
            }
            x => x.clone(),
        }
    }
    let mut work: Vec<usize> = (0..insts.len()).collect();
    while let Some(i) = work.pop() {
        let mut vs = insts[i].variants.clone();
        for v in vs.iter_mut() {
            for f in v.shape.fields.iter_mut() {
                f.ty = resolve(&f.ty, &sc, &by_name, &mut insts, &mut inst_key, &mut unresolved, &mut work);
            }
        }
        insts[i].variants = vs;
    }

    // ---- interned names (type names, variant names, field names)
    let mut names: Vec<String> = vec![];
    let mut name_id: Map<String, usize> = Map::new();
    let mut intern = |s: &str| -> usize {
        if let Some(&i) = name_id.get(s) {
            return i;
        }
        let i = names.len();
        names.push(s.to_string());
        name_id.insert(s.to_string(), i);
        i
    };
    // the definitions with the most names are interned first, so that their variant / field names get
    // increasing ids (the Lean side condition has a linear fast path for strictly increasing id lists)
    let mut order: Vec<usize> = (0..insts.len()).collect();
    order.sort_by_key(|&i| std::cmp::Reverse(insts[i].variants.iter().map(|v| 1 + v.shape.fields.len()).sum::<usize>()));
    for &i in &order {
        for v in &insts[i].variants {
            if sc.defs[insts[i].def].is_enum {
                intern(&v.name);
            }
        }
    }
    for &i in &order {
        let inst = &insts[i];
        intern(&sc.defs[inst.def].name);
        for v in &inst.variants {
            intern(&v.name);
            for f in &v.shape.fields {
                if let Some(n) = &f.name {
                    intern(n);
                }
            }
        }
    }
    let nid = |s: &str| -> usize { *name_id.get(s).unwrap() };
    let hook_id = |h: &str| -> usize { HOOKS.iter().position(|x| *x == h).unwrap_or(99) };

    // ---- reachability
    let succ = |i: usize| -> Vec<usize> {
        fn collect(t: &TyE, o: &mut Vec<usize>) {
            match t {
                TyE::Opt(x) | TyE::Vec(x) | TyE::Boxed(x) => collect(x, o),
                TyE::Tup(xs) => xs.iter().for_each(|x| collect(x, o)),
                TyE::Inst(i) => o.push(*i),
                _ => {}
            }
        }
        let mut o = vec![];
        for v in &insts[i].variants {
            for f in &v.shape.fields {
                collect(&f.ty, &mut o);
            }
        }
        o
    };
    let reach = |root: &str| -> Set<usize> {
        let mut seen = Set::new();
        if let Some(&r) = inst_key.get(root) {
            let mut st = vec![r];
            while let Some(x) = st.pop() {
                if seen.insert(x) {
                    st.extend(succ(x));
                }
            }
        }
        seen
    };
    let reach_stmt = reach("Statement");
    let reach_tok = reach("Token");
    let reach_any: Set<usize> = reach_stmt.union(&reach_tok).cloned().collect();

    // all field type expressions (with owner text) of reachable instances
    let mut all_fields: Vec<(usize, String, TyE)> = vec![];
    for (i, inst) in insts.iter().enumerate() {
        for v in &inst.variants {
            for (k, f) in v.shape.fields.iter().enumerate() {
                let fname = f.name.clone().unwrap_or_else(|| k.to_string());
                let owner = if sc.defs[inst.def].is_enum { format!("{}::{}.{}", inst.display, v.name, fname) } else { format!("{}.{}", inst.display, fname) };
                all_fields.push((i, owner, f.ty.clone()));
            }
        }
    }
    fn any_ty(t: &TyE, p: &dyn Fn(&TyE) -> bool) -> bool {
        if p(t) {
            return true;
        }
        match t {
            TyE::Opt(x) | TyE::Vec(x) | TyE::Boxed(x) => any_ty(x, p),
            TyE::Tup(xs) => xs.iter().any(|x| any_ty(x, p)),
            _ => false,
        }
    }

    // ---- Lean
    fn lean_ty(t: &TyE) -> String {
        match t {
            TyE::Unit => ".unit".into(),
            TyE::Prim(p) => match prim_class(p) {
                "bool" => ".bool".into(),
                "char" => ".char".into(),
                "str" => ".str".into(),
                "uint" => ".uint".into(),
                "sint" => ".sint".into(),
                "float" => ".float".into(),
                _ => ".other".into(),
            },
            TyE::Opt(x) => format!(".opt ({})", lean_ty(x)),
            TyE::Vec(x) => format!(".vec ({})", lean_ty(x)),
            TyE::Boxed(x) => format!(".box ({})", lean_ty(x)),
            TyE::Tup(xs) => format!(".tup [{}]", xs.iter().map(lean_ty).collect::<Vec<_>>().join(", ")),
            TyE::Inst(i) => format!(".named {i}"),
            TyE::Named(..) | TyE::Var(_) | TyE::Other(_) => ".other".into(),
        }
    }
    let lean_opt = |h: &Option<String>| -> String { h.as_ref().map(|x| format!("(some {})", hook_id(x))).unwrap_or("none".into()) };
    let lean_field = |f: &FieldD, k: usize| -> String {
        let n = f.name.as_ref().map(|n| nid(n)).unwrap_or(k);
        format!("⟨{n}, {}, {}, {}⟩", lean_ty(&f.ty), lean_opt(&f.hook), f.serde.len())
    };
    let lean_shape = |s: &ShapeD| -> String {
        let fs = s.fields.iter().enumerate().map(|(k, f)| lean_field(f, k)).collect::<Vec<_>>();
        match s.kind {
            ShapeK::Unit => ".unit".into(),
            ShapeK::Newtype => format!(".newtype {}", fs[0]),
            ShapeK::Tuple => format!(".tuple [{}]", fs.join(", ")),
            ShapeK::Struct => format!(".struct [{}]", fs.join(", ")),
        }
    };
    let mut o = String::new();
    o.push_str("/- GENERATED by `translator schema` from src/ast/*.rs, src/ast/helpers/*.rs, src/tokenizer.rs, src/keywords.rs.\n   Do not edit.  Type ids = position in `schema.defs`; name ids = position in `names`;\n   hook ids: 0 query, 1 relation, 2 table_factor, 3 expr, 4 statement (99 = unknown). -/\nimport SqlVerif.Model.SchemaTy\nnamespace SqlVerif.Gen.Schema\nopen SqlVerif.Schema\n\n");
    o.push_str(&format!("def names : List String := [{}]\n", names.iter().map(|s| lean_str(s)).collect::<Vec<_>>().join(", ")));
    o.push_str(&format!("def typeNames : List String := [{}]\n", insts.iter().map(|s| lean_str(&s.display)).collect::<Vec<_>>().join(", ")));
    o.push_str(&format!("def hookNames : List String := [{}]\n\n", HOOKS.iter().map(|s| lean_str(s)).collect::<Vec<_>>().join(", ")));
    // one definition per type keeps elaboration fast and error messages local
    for (i, inst) in insts.iter().enumerate() {
        let d = &sc.defs[inst.def];
        let hook = lean_opt(&d.attrs.visit_with.last().cloned());
        let tattrs = d.attrs.serde.len();
        o.push_str(&format!("/-- {} ({}) -/\n", inst.display, d.file));
        if d.is_enum {
            let vs = inst.variants.iter().map(|v| format!("⟨{}, {}, {}⟩", nid(&v.name), lean_shape(&v.shape), v.serde.len())).collect::<Vec<_>>();
            // long enums are split over lines
            o.push_str(&format!("def t{i} : TypeDef := .enum {} {hook} {tattrs} [\n  {}]\n", nid(&d.name), vs.join(",\n  ")));
        } else {
            o.push_str(&format!("def t{i} : TypeDef := .struct {} {hook} {tattrs} ({})\n", nid(&d.name), lean_shape(&inst.variants[0].shape)));
        }
    }
    o.push_str(&format!("\ndef schema : Schema := ⟨[{}]⟩\n\n", (0..insts.len()).map(|i| format!("t{i}")).collect::<Vec<_>>().join(", ")));
    let root_id = |n: &str| -> String { inst_key.get(n).map(|i| i.to_string()).unwrap_or("9999".into()) };
    for (lean, rust) in [("statementId", "Statement"), ("exprId", "Expr"), ("queryId", "Query"), ("tableFactorId", "TableFactor"), ("objectNameId", "ObjectName"), ("tokenId", "Token"), ("keywordId", "Keyword")] {
        o.push_str(&format!("def {lean} : Nat := {}\n", root_id(rust)));
    }
    // relation-hooked positions
    let mut rel_names = vec![];
    let mut rel_ids = vec![];
    let mut hooked_all = vec![];
    // positions whose field-level hook fires per element (hooked field written `Vec<..>`)
    let mut each_names = vec![];
    let mut each_ids = vec![];
    // hooked fields on which the derive's syntactic Vec test and the resolved type disagree
    let mut each_mismatch = vec![];
    for (i, inst) in insts.iter().enumerate() {
        let d = &sc.defs[inst.def];
        for (vi, v) in inst.variants.iter().enumerate() {
            for (k, f) in v.shape.fields.iter().enumerate() {
                if let Some(h) = &f.hook {
                    let fname = f.name.clone().unwrap_or_else(|| k.to_string());
                    let pos = if d.is_enum { format!("{}::{}.{}", inst.display, v.name, fname) } else { format!("{}.{}", inst.display, fname) };
                    // the value the callback receives: the field, or each element of a `Vec` field
                    let arg_ty = match (&f.ty, f.hook_each()) {
                        (TyE::Vec(x), true) => ty_text(x, &insts),
                        _ => ty_text(&f.ty, &insts),
                    };
                    hooked_all.push(json!({"pos": pos, "hook": h, "type": i, "variant": vi, "field": k, "ty": ty_text(&f.ty, &insts), "each": f.hook_each(), "arg_ty": arg_ty}));
                    if f.decl_vec != matches!(f.ty, TyE::Vec(_)) {
                        each_mismatch.push(format!("{pos}: written {} a Vec, resolved type {}", if f.decl_vec { "as" } else { "not as" }, ty_text(&f.ty, &insts)));
                    }
                    if f.hook_each() {
                        each_names.push(pos.clone());
                        each_ids.push(format!("({i}, {vi}, {k})"));
                    }
                    if h == "visit_relation" {
                        rel_names.push(pos);
                        rel_ids.push(format!("({i}, {vi}, {k})"));
                    }
                }
            }
        }
    }
    o.push_str(&format!("/-- fields carrying `visit(with = \"visit_relation\")`: (type id, variant index (0 for a struct), field index) -/\ndef relationHooked : List (Nat × Nat × Nat) := [{}]\n", rel_ids.join(", ")));
    o.push_str(&format!("def relationHookedNames : List String := [{}]\n", rel_names.iter().map(|s| lean_str(s)).collect::<Vec<_>>().join(", ")));
    o.push_str(&format!("/-- hooked fields written `Vec<..>` in the source: the derive emits the hook once per element (pre, element, post), in order -/\ndef eachHooked : List (Nat × Nat × Nat) := [{}]\n", each_ids.join(", ")));
    o.push_str(&format!("def eachHookedNames : List String := [{}]\n", each_names.iter().map(|s| lean_str(s)).collect::<Vec<_>>().join(", ")));
    let type_hooks: Vec<(String, String)> = insts.iter().filter_map(|x| sc.defs[x.def].attrs.visit_with.last().map(|h| (x.display.clone(), h.clone()))).collect();
    o.push_str(&format!("def typeHookNames : List (String × Nat) := [{}]\n", type_hooks.iter().map(|(t, h)| format!("({}, {})", lean_str(t), hook_id(h))).collect::<Vec<_>>().join(", ")));
    let n_serde_attrs: usize = sc.defs.iter().map(|d| d.attrs.serde.len() + d.variants.iter().map(|v| v.serde.len() + v.shape.fields.iter().map(|f| f.serde.len()).sum::<usize>()).sum::<usize>()).sum();
    o.push_str(&format!("/-- number of `serde(...)` attributes found on the extracted definitions -/\ndef serdeAttrCount : Nat := {n_serde_attrs}\n"));
    o.push_str(&format!("def manualVisitImpls : List String := [{}]\n", sc.manual.iter().map(|(t, ty, _)| lean_str(&format!("{t} for {ty}"))).collect::<Vec<_>>().join(", ")));
    o.push_str(&format!("def visitNoopTypes : List String := [{}]\n", sc.noop.iter().map(|s| lean_str(s)).collect::<Vec<_>>().join(", ")));
    o.push_str("\nend SqlVerif.Gen.Schema\n");
    write_if_changed(&out.join("lean/Schema.lean"), &o);

    // ---- schema.json
    fn json_ty(t: &TyE, insts: &[Inst]) -> serde_json::Value {
        match t {
            TyE::Unit => json!({"k": "unit"}),
            TyE::Prim(p) => json!({"k": "prim", "p": p, "class": prim_class(p)}),
            TyE::Opt(x) => json!({"k": "opt", "t": json_ty(x, insts)}),
            TyE::Vec(x) => json!({"k": "vec", "t": json_ty(x, insts)}),
            TyE::Boxed(x) => json!({"k": "box", "t": json_ty(x, insts)}),
            TyE::Tup(xs) => json!({"k": "tup", "ts": xs.iter().map(|x| json_ty(x, insts)).collect::<Vec<_>>()}),
            TyE::Inst(i) => json!({"k": "named", "id": i, "name": insts[*i].display}),
            other => json!({"k": "other", "text": ty_text(other, insts)}),
        }
    }
    let shape_kind = |k: &ShapeK| match k {
        ShapeK::Unit => "unit",
        ShapeK::Newtype => "newtype",
        ShapeK::Tuple => "tuple",
        ShapeK::Struct => "struct",
    };
    let jtypes: Vec<serde_json::Value> = insts
        .iter()
        .enumerate()
        .map(|(i, inst)| {
            let d = &sc.defs[inst.def];
            let variants: Vec<serde_json::Value> = inst
                .variants
                .iter()
                .map(|v| {
                    json!({
                        "name": v.name, "name_id": nid(&v.name), "kind": shape_kind(&v.shape.kind), "serde": v.serde, "visit_attr": v.visit_attr,
                        "fields": v.shape.fields.iter().enumerate().map(|(k, f)| json!({
                            "name": f.name, "index": k, "name_id": f.name.as_ref().map(|n| nid(n)),
                            "ty": json_ty(&f.ty, &insts), "ty_text": ty_text(&f.ty, &insts),
                            "hook": f.hook.as_ref().map(|h| hook_id(h)), "hook_name": f.hook, "hook_each": f.hook_each(), "decl_vec": f.decl_vec, "serde": f.serde,
                        })).collect::<Vec<_>>(),
                    })
                })
                .collect();
            json!({
                "id": i, "name": inst.display, "serde_name": d.name, "name_id": nid(&d.name), "file": d.file,
                "kind": if d.is_enum { "enum" } else { "struct" },
                "generic_params": d.params, "generic_args": inst.args.iter().map(|a| ty_text(a, &insts)).collect::<Vec<_>>(),
                "hook": d.attrs.visit_with.last().map(|h| hook_id(h)), "hook_name": d.attrs.visit_with.last(),
                "derives": d.attrs.derives.iter().collect::<Vec<_>>(), "serde": d.attrs.serde,
                "reachable_from_statement": reach_stmt.contains(&i), "reachable_from_token": reach_tok.contains(&i),
                "variants": variants,
            })
        })
        .collect();
    let by_serde_name: Map<String, Vec<usize>> = {
        let mut m: Map<String, Vec<usize>> = Map::new();
        for (i, inst) in insts.iter().enumerate() {
            m.entry(sc.defs[inst.def].name.clone()).or_default().push(i);
        }
        m
    };
    let j = json!({
        "features": FEATURES, "hooks": HOOKS, "names": names, "types": jtypes,
        "by_name": inst_key, "by_serde_name": by_serde_name,
        "roots": {"Statement": inst_key.get("Statement"), "Token": inst_key.get("Token")},
        "hooked_fields": hooked_all,
        "manual_visit_impls": sc.manual.iter().map(|(t, ty, f)| json!({"trait": t, "type": ty, "file": f})).collect::<Vec<_>>(),
        "visit_noop": sc.noop,
        "underived_pub_types": sc.underived.iter().map(|(n, f)| json!({"name": n, "file": f})).collect::<Vec<_>>(),
    });
    write_if_changed(&out.join("schema.json"), &serde_json::to_string(&j).unwrap());

    // ---- obligations
    let mut c16: Map<String, serde_json::Value> = Map::new();
    let mut c17: Map<String, serde_json::Value> = Map::new();
    let ob = |ok: bool, note: String| json!({"ok": ok, "note": note});
    let uniq = ob(dup_names.is_empty(), if dup_names.is_empty() { format!("{} definitions, all names distinct (serde reflection and the schema key on type names)", sc.defs.len()) } else { format!("duplicate type names: {}", dup_names.join(", ")) });
    c16.insert("schema.type-names-unique".into(), uniq.clone());
    c17.insert("schema.type-names-unique".into(), uniq);

    // the four node kinds carry their type-level hooks
    let want = [("Expr", "visit_expr"), ("Statement", "visit_statement"), ("Query", "visit_query"), ("TableFactor", "visit_table_factor")];
    let mut bad = vec![];
    for (t, h) in want {
        let got = by_name.get(t).and_then(|v| sc.defs[v[0]].attrs.visit_with.last().cloned());
        if got.as_deref() != Some(h) {
            bad.push(format!("{t}: expected {h}, found {got:?}"));
        }
    }
    c16.insert("schema.node-kinds-hooked".into(), ob(bad.is_empty(), if bad.is_empty() { format!("type-level hooks: {}", type_hooks.iter().map(|(t, h)| format!("{t}={h}")).collect::<Vec<_>>().join(", ")) } else { bad.join("; ") }));

    // every `with` is one of the five hook families; the attribute grammar is the derive's
    let mut bad = vec![];
    for d in &sc.defs {
        for h in &d.attrs.visit_with {
            if hook_id(h) == 99 {
                bad.push(format!("{}: with={h}", d.name));
            }
        }
        if d.attrs.visit_with.len() > 1 {
            bad.push(format!("{}: {} type-level visit attributes", d.name, d.attrs.visit_with.len()));
        }
        for b in &d.attrs.visit_bad {
            bad.push(format!("{}: visit({b})", d.name));
        }
        for v in &d.variants {
            // the derive ignores attributes placed on a variant: a hook there is silently lost
            for a in &v.visit_attr {
                bad.push(format!("{}::{}: visit attribute on a variant is ignored by the derive ({a})", d.name, v.name));
            }
            for f in &v.shape.fields {
                if let Some(h) = &f.hook {
                    if hook_id(h) == 99 {
                        bad.push(format!("{}::{}: with={h}", d.name, v.name));
                    }
                }
                for b in &f.visit_bad {
                    bad.push(format!("{}::{}: visit({b})", d.name, v.name));
                }
            }
        }
    }
    c16.insert("schema.hooks-known".into(), ob(bad.is_empty(), if bad.is_empty() { format!("{} field-level hooks, {} type-level hooks, all among {:?}", hooked_all.len(), type_hooks.len(), HOOKS) } else { bad.join("; ") }));

    // a relation hook passes the field (each element of a `Vec` field) to a callback taking &ObjectName:
    // the field type must be ObjectName or Vec<ObjectName>
    let bad: Vec<String> = hooked_all.iter().filter(|h| h["hook"] == "visit_relation" && h["arg_ty"] != "ObjectName").map(|h| format!("{}: {}", h["pos"], h["ty"])).collect();
    c16.insert("schema.relation-hook-on-object-name".into(), ob(bad.is_empty(), if bad.is_empty() { format!("{} relation-hooked fields, all of type ObjectName ({} of type Vec<ObjectName>, hooked per element: {})", rel_names.len(), each_names.len(), each_names.join(", ")) } else { bad.join("; ") }));
    // the derive decides "per element" on the spelling of the field type (`is_vec`: last path segment `Vec`);
    // the model decides on the resolved type (`.vec _` in Gen/Schema): the two must agree on every hooked field
    c16.insert("schema.hooked-vec-syntactic".into(), ob(each_mismatch.is_empty(), if each_mismatch.is_empty() { format!("{} hooked fields; written `Vec<..>` exactly when the resolved type is a Vec ({} such)", hooked_all.len(), each_names.len()) } else { each_mismatch.join("; ") }));

    // reachable from Statement: derives present
    let mut missing_v = vec![];
    let mut missing_s = vec![];
    for &i in &reach_any {
        let d = &sc.defs[insts[i].def];
        if reach_stmt.contains(&i) && !(d.attrs.derives.contains("Visit") && d.attrs.derives.contains("VisitMut")) {
            missing_v.push(insts[i].display.clone());
        }
        if !(d.attrs.derives.contains("Serialize") && d.attrs.derives.contains("Deserialize")) {
            missing_s.push(insts[i].display.clone());
        }
    }
    c16.insert("schema.reachable-derive-visit".into(), ob(missing_v.is_empty() && !reach_stmt.is_empty(), if missing_v.is_empty() { format!("{} types reachable from Statement, all derive Visit and VisitMut", reach_stmt.len()) } else { format!("lack Visit/VisitMut derive: {}", missing_v.join(", ")) }));
    c17.insert("schema.reachable-derive-serde".into(), ob(missing_s.is_empty() && !reach_stmt.is_empty() && !reach_tok.is_empty(), if missing_s.is_empty() { format!("{} types reachable from Statement, {} from Token, all derive Serialize and Deserialize", reach_stmt.len(), reach_tok.len()) } else { format!("lack Serialize/Deserialize derive: {}", missing_s.join(", ")) }));

    // manual impls: containers + noop set only; no derived type also has a manual impl
    let mut bad = vec![];
    for (t, ty, f) in &sc.manual {
        let okc = ["Option<T>", "Vec<T>", "Box<T>"].contains(&ty.as_str());
        // the two `$t` impls inside macro_rules! visit_noop are not items syn sees; anything else is listed
        if !okc {
            bad.push(format!("impl {t} for {ty} ({f})"));
        }
    }
    for n in &sc.noop {
        if !NOOP_EXPECTED.contains(&n.as_str()) {
            bad.push(format!("visit_noop!({n})"));
        }
        if by_name.contains_key(n) {
            bad.push(format!("visit_noop!({n}) on an AST type"));
        }
    }
    c16.insert("schema.manual-visit-impls".into(), ob(bad.is_empty(), if bad.is_empty() { format!("manual impls: {} container impls (Option/Vec/Box x Visit/VisitMut), visit_noop!({})", sc.manual.len(), sc.noop.join(", ")) } else { bad.join("; ") }));

    // every primitive that occurs in a reachable field has a no-op impl; nothing outside the model
    let mut bad = vec![];
    let mut prims: Set<String> = Set::new();
    for (i, owner, t) in &all_fields {
        if !reach_any.contains(i) {
            continue;
        }
        if any_ty(t, &|x| matches!(x, TyE::Other(_) | TyE::Named(..) | TyE::Var(_))) {
            bad.push(format!("{owner}: {}", ty_text(t, &insts)));
        }
        if reach_stmt.contains(i) {
            if any_ty(t, &|x| matches!(x, TyE::Tup(_) | TyE::Unit)) {
                bad.push(format!("{owner}: tuple/unit field has no Visit impl: {}", ty_text(t, &insts)));
            }
            fn ps(t: &TyE, o: &mut Set<String>) {
                match t {
                    TyE::Prim(p) => {
                        o.insert(p.clone());
                    }
                    TyE::Opt(x) | TyE::Vec(x) | TyE::Boxed(x) => ps(x, o),
                    TyE::Tup(xs) => xs.iter().for_each(|x| ps(x, o)),
                    _ => {}
                }
            }
            ps(t, &mut prims);
        }
    }
    for p in &prims {
        if !sc.noop.contains(p) {
            bad.push(format!("primitive {p} used in the AST has no visit_noop impl"));
        }
    }
    c16.insert("schema.field-types-modelled".into(), ob(bad.is_empty(), if bad.is_empty() { format!("primitives used: {}", prims.iter().cloned().collect::<Vec<_>>().join(", ")) } else { bad.join("; ") }));

    // C17
    c17.insert("schema.no-serde-attributes".into(), ob(n_serde_attrs == 0, format!("{n_serde_attrs} serde(...) attributes on {} definitions", sc.defs.len())));
    let mut bad = vec![];
    for (i, owner, t) in &all_fields {
        if !reach_any.contains(i) {
            continue;
        }
        if any_ty(t, &|x| matches!(x, TyE::Other(_) | TyE::Named(..) | TyE::Var(_))) {
            bad.push(format!("{owner}: {}", ty_text(t, &insts)));
        }
        if any_ty(t, &|x| matches!(x, TyE::Prim(p) if matches!(prim_class(p), "float" | "other"))) {
            bad.push(format!("{owner}: float or 128-bit field {}", ty_text(t, &insts)));
        }
        if any_ty(t, &|x| matches!(x, TyE::Opt(y) if matches!(**y, TyE::Opt(_) | TyE::Unit))) {
            bad.push(format!("{owner}: {} (None and Some(None)/Some(()) both serialise to null)", ty_text(t, &insts)));
        }
    }
    c17.insert("schema.field-types-modelled".into(), ob(bad.is_empty(), if bad.is_empty() { "no float, 128-bit, reference or unresolved field types; no Option<Option<_>> / Option<()>".to_string() } else { bad.join("; ") }));
    let disc: Vec<String> = sc.defs.iter().flat_map(|d| d.variants.iter().filter(|v| v.has_discriminant).map(move |v| format!("{}::{}", d.name, v.name))).collect();
    c17.insert("schema.keyword-enum-extracted".into(), ob(kw_variants.len() > 1 && kw_serde, format!("Keyword: {} unit variants read from define_keywords!; macro body derives serde: {kw_serde}, visit: {kw_visit}; explicit discriminants elsewhere: {}", kw_variants.len(), disc.len())));
    if !unresolved.is_empty() {
        let note = format!("named types without an extracted definition: {}", unresolved.iter().cloned().collect::<Vec<_>>().join(", "));
        // only a problem when reachable: reported by field-types-modelled; listed here for the evidence
        c16.insert("schema.unresolved-names".into(), ob(!all_fields.iter().any(|(i, _, t)| reach_any.contains(i) && any_ty(t, &|x| matches!(x, TyE::Other(s) if s.starts_with("unresolved")))), note.clone()));
    }
    let obl = json!({"C16": c16, "C17": c17});
    write_if_changed(&out.join("obl_schema.json"), &serde_json::to_string_pretty(&obl).unwrap());
    Ok(())
}

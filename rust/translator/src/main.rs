//! Translator: syntactic extraction from /repo's current sources (syn 2).
//! Subcommands write JSON / Lean files under the output directory given.
use std::collections::{BTreeMap, BTreeSet};
use std::fs;
use std::path::{Path, PathBuf};

mod callgraph;
mod corpus;
mod builder;
mod schema;
mod inventory;
mod display;
pub mod leanout;

fn main() {
    let args: Vec<String> = std::env::args().collect();
    if args.len() < 4 {
        eprintln!("usage: translator <cmd> <repo> <outdir>");
        std::process::exit(2);
    }
    let repo = PathBuf::from(&args[2]);
    let out = PathBuf::from(&args[3]);
    fs::create_dir_all(&out).unwrap();
    let r = match args[1].as_str() {
        "corpus" => corpus::run(&repo, &out),
        "srcsnap" => corpus::srcsnap(&repo, &out),
        "callgraph" => callgraph::run(&repo, &out),
        "builder" => builder::run(&repo, &out),
        "schema" => schema::run(&repo, &out),
        "inventory" => inventory::run(&repo, &out),
        "display" => display::run(&repo).map(|v| v.iter().for_each(|l| println!("{l}"))),
        "all" => {
            // the corpus is needed by every oracle: its failure is fatal.  Every other extraction
            // concerns specific properties: on failure it leaves an open obligation for exactly
            // those (obl_translator_<name>.json) and the remaining extractions still run.
            let r = corpus::run(&repo, &out);
            if r.is_ok() {
                let parts: [(&str, &[&str], fn(&Path, &Path) -> Result<(), String>); 4] = [
                    ("callgraph", &["C03"], callgraph::run),
                    ("builder", &["C19"], builder::run),
                    ("schema", &["C16", "C17"], schema::run),
                    ("inventory", &["C01", "C02", "C04", "C05", "C07", "C08", "C10", "C11", "C12", "C13", "C14", "C15", "C18"], inventory::run),
                ];
                for (name, props, f) in parts {
                    let file = out.join(format!("obl_translator_{name}.json"));
                    match f(&repo, &out) {
                        Ok(()) => { let _ = fs::remove_file(&file); }
                        Err(e) => {
                            eprintln!("translator {name}: {e}");
                            let mut m = serde_json::Map::new();
                            for p in props {
                                m.insert(p.to_string(), serde_json::json!({ format!("translator.{name}"): { "ok": false, "note": format!("extraction failed on the current source: {e}") } }));
                            }
                            write_if_changed(&file, &serde_json::to_string_pretty(&serde_json::Value::Object(m)).unwrap());
                        }
                    }
                }
            }
            r
        }
        c => Err(format!("unknown command {c}")),
    };
    if let Err(e) = r {
        eprintln!("translator error: {e}");
        std::process::exit(3);
    }
}

pub fn rs_files(dir: &Path) -> Vec<PathBuf> {
    let mut v = vec![];
    fn walk(d: &Path, v: &mut Vec<PathBuf>) {
        if let Ok(rd) = fs::read_dir(d) {
            let mut es: Vec<_> = rd.filter_map(|e| e.ok()).map(|e| e.path()).collect();
            es.sort();
            for p in es {
                if p.is_dir() {
                    walk(&p, v);
                } else if p.extension().map(|e| e == "rs").unwrap_or(false) {
                    v.push(p);
                }
            }
        }
    }
    walk(dir, &mut v);
    v
}

/// Write a file only when its content changes (keeps mtimes stable for lake).
pub fn write_if_changed(p: &Path, s: &str) {
    if let Ok(old) = fs::read_to_string(p) {
        if old == s {
            return;
        }
    }
    if let Some(d) = p.parent() {
        fs::create_dir_all(d).unwrap();
    }
    fs::write(p, s).unwrap();
}

pub type Map<K, V> = BTreeMap<K, V>;
pub type Set<K> = BTreeSet<K>;

//! C03: parser call graph, guard set, rank certificate — extracted from the program text.
//!
//! Nodes: every `fn` in src/parser/*.rs and src/dialect/*.rs (outside `#[cfg(test)]` modules),
//! keyed by (owner, name) where owner is `Parser`, `trait Dialect` (default bodies),
//! `<Type> as Dialect`, another impl type, or `free:<file stem>`.
//! Edges: every method call / path reference inside a body (closures count for the enclosing fn):
//!   * receiver `self` inside Parser            -> Parser::name
//!   * receiver `self` inside a Dialect impl    -> that impl's `name`, else the trait default, plus
//!                                                 every override (conservative)
//!   * receiver `…dialect` (field or variable)  -> every impl of `name` and the default
//!   * any other receiver                       -> Parser::name if Parser has such a fn
//!                                                 (closure parameters `p`, `parser`), else the
//!                                                 dialect impls if the trait has such a method
//!   * paths `Parser::name`, `Self::name`, bare `name` of a free fn in the same file
//! Guard set S: functions whose body starts with `let _guard = self.recursion_counter.try_decrease()?;`.
//! Certificate: rank : node -> Nat with rank v < rank u for every edge u->v with v not in S,
//! after removing the edges listed in /verif/c03_discharged.json.
use crate::leanout::lean_str;
use crate::*;
use syn::visit::Visit;

#[derive(Clone, Debug, PartialEq, Eq, PartialOrd, Ord)]
struct Node {
    owner: String,
    name: String,
}
impl Node {
    fn label(&self) -> String {
        format!("{}::{}", self.owner, self.name)
    }
}

struct FnInfo {
    /// takes a closure / function argument (`F: FnMut(&mut Parser) -> …`): a higher-order helper
    is_ho: bool,
    has_self: bool,
    node: Node,
    block: syn::Block,
    in_dialect_impl: bool,
    file: String,
}

fn sig_is_ho(sig: &syn::Signature) -> bool {
    let t = quote::quote!(#sig).to_string();
    t.contains("FnMut") || t.contains("FnOnce") || t.contains("Fn (")
}

fn is_cfg_test(attrs: &[syn::Attribute]) -> bool {
    attrs.iter().any(|a| a.path().is_ident("cfg") && quote::quote!(#a).to_string().contains("test"))
}

fn type_name(t: &syn::Type) -> String {
    match t {
        syn::Type::Path(p) => p.path.segments.last().map(|s| s.ident.to_string()).unwrap_or_default(),
        syn::Type::Reference(r) => type_name(&r.elem),
        syn::Type::TraitObject(_) => "dyn".into(),
        _ => quote::quote!(#t).to_string(),
    }
}

fn collect(file: &syn::File, stem: &str, out: &mut Vec<FnInfo>) {
    fn items(its: &[syn::Item], stem: &str, out: &mut Vec<FnInfo>) {
        for it in its {
            match it {
                syn::Item::Fn(f) if !is_cfg_test(&f.attrs) => out.push(FnInfo {
                    is_ho: sig_is_ho(&f.sig),
                    has_self: false,
                    node: Node { owner: format!("free:{stem}"), name: f.sig.ident.to_string() },
                    block: (*f.block).clone(),
                    in_dialect_impl: false,
                    file: stem.into(),
                }),
                syn::Item::Impl(im) if !is_cfg_test(&im.attrs) => {
                    let ty = type_name(&im.self_ty);
                    let is_d = im.trait_.as_ref().map(|t| t.1.segments.last().unwrap().ident == "Dialect").unwrap_or(false);
                    let owner = if is_d { format!("{ty} as Dialect") } else if let Some(t) = &im.trait_ { format!("{ty} as {}", t.1.segments.last().unwrap().ident) } else { ty.clone() };
                    for ii in &im.items {
                        if let syn::ImplItem::Fn(f) = ii {
                            if is_cfg_test(&f.attrs) { continue; }
                            out.push(FnInfo { is_ho: sig_is_ho(&f.sig), has_self: f.sig.receiver().is_some(), node: Node { owner: owner.clone(), name: f.sig.ident.to_string() }, block: f.block.clone(), in_dialect_impl: is_d, file: stem.into() });
                        }
                    }
                }
                syn::Item::Trait(t) if t.ident == "Dialect" => {
                    for ti in &t.items {
                        if let syn::TraitItem::Fn(f) = ti {
                            let block = f.default.clone().unwrap_or(syn::parse_quote!({}));
                            out.push(FnInfo { is_ho: sig_is_ho(&f.sig), has_self: f.sig.receiver().is_some(), node: Node { owner: "trait Dialect".into(), name: f.sig.ident.to_string() }, block, in_dialect_impl: true, file: stem.into() });
                        }
                    }
                }
                syn::Item::Mod(m) if !is_cfg_test(&m.attrs) => {
                    if let Some((_, its)) = &m.content {
                        items(its, stem, out);
                    }
                }
                _ => {}
            }
        }
    }
    items(&file.items, stem, out);
}

#[derive(Debug)]
enum Recv { SelfV, Dialect, Struct(String), Other }

struct Calls {
    method: Vec<(Recv, String)>,
    paths: Vec<(Option<String>, String)>,
    /// (callee name, calls made inside its arguments) for every method / path call with arguments
    arg_calls: Vec<(String, Calls)>,
}

fn calls_in_args<'a>(args: impl Iterator<Item = &'a syn::Expr>) -> Calls {
    let mut c = Calls { method: vec![], paths: vec![], arg_calls: vec![] };
    for a in args {
        c.visit_expr(a);
    }
    c
}

fn recv_kind(e: &syn::Expr) -> Recv {
    match e {
        syn::Expr::Path(p) if p.path.is_ident("self") => Recv::SelfV,
        syn::Expr::Path(p) if p.path.get_ident().map(|i| i.to_string().contains("dialect")).unwrap_or(false) => Recv::Dialect,
        syn::Expr::Field(f) => match &f.member {
            syn::Member::Named(n) if n == "dialect" => Recv::Dialect,
            _ => Recv::Other,
        },
        syn::Expr::Struct(st) => Recv::Struct(st.path.segments.last().map(|x| x.ident.to_string()).unwrap_or_default()),
        syn::Expr::Reference(r) => recv_kind(&r.expr),
        syn::Expr::Paren(p) => recv_kind(&p.expr),
        syn::Expr::Unary(u) => recv_kind(&u.expr),
        _ => Recv::Other,
    }
}

impl<'ast> Visit<'ast> for Calls {
    fn visit_expr_call(&mut self, c: &'ast syn::ExprCall) {
        if let syn::Expr::Path(p) = &*c.func {
            if let Some(last) = p.path.segments.last() {
                let sub = calls_in_args(c.args.iter());
                if !sub.method.is_empty() || !sub.paths.is_empty() { self.arg_calls.push((last.ident.to_string(), sub)); }
            }
        }
        syn::visit::visit_expr_call(self, c);
    }
    fn visit_expr_method_call(&mut self, m: &'ast syn::ExprMethodCall) {
        {
            let sub = calls_in_args(m.args.iter());
            if !sub.method.is_empty() || !sub.paths.is_empty() { self.arg_calls.push((m.method.to_string(), sub)); }
        }
        self.method.push((recv_kind(&m.receiver), m.method.to_string()));
        syn::visit::visit_expr_method_call(self, m);
    }
    fn visit_expr_path(&mut self, p: &'ast syn::ExprPath) {
        let segs: Vec<String> = p.path.segments.iter().map(|s| s.ident.to_string()).collect();
        if segs.len() >= 2 {
            self.paths.push((Some(segs[segs.len() - 2].clone()), segs[segs.len() - 1].clone()));
        } else if segs.len() == 1 {
            self.paths.push((None, segs[0].clone()));
        }
        syn::visit::visit_expr_path(self, p);
    }
    fn visit_macro(&mut self, m: &'ast syn::Macro) {
        // calls inside macro arguments (format!, parser_err!, dialect_of! ...): parse as expr list when possible
        if let Ok(args) = m.parse_body_with(syn::punctuated::Punctuated::<syn::Expr, syn::Token![,]>::parse_terminated) {
            for a in args.iter() {
                self.visit_expr(a);
            }
        }
    }
}

fn starts_with_guard(b: &syn::Block) -> bool {
    if let Some(syn::Stmt::Local(l)) = b.stmts.first() {
        let s = quote::quote!(#l).to_string().replace(' ', "");
        return s.contains("recursion_counter.try_decrease()?");
    }
    false
}

pub fn run(repo: &Path, out: &Path) -> Result<(), String> {
    let mut fns: Vec<FnInfo> = vec![];
    let mut files = rs_files(&repo.join("src/parser"));
    files.extend(rs_files(&repo.join("src/dialect")));
    for f in &files {
        let src = fs::read_to_string(f).map_err(|e| e.to_string())?;
        let file = syn::parse_file(&src).map_err(|e| format!("{f:?}: {e}"))?;
        let stem = f.strip_prefix(repo.join("src")).unwrap().to_string_lossy().replace(".rs", "").replace('/', "_");
        collect(&file, &stem, &mut fns);
    }
    fns.sort_by(|a, b| a.node.cmp(&b.node));
    fns.dedup_by(|a, b| a.node == b.node); // cfg(std)/cfg(not(std)) duplicates
    let idx: Map<Node, usize> = fns.iter().enumerate().map(|(i, f)| (f.node.clone(), i)).collect();
    let parser_fns: Set<String> = fns.iter().filter(|f| f.node.owner == "Parser" && f.has_self).map(|f| f.node.name.clone()).collect();
    let mut dialect_impls: Map<String, Vec<usize>> = Map::new(); // method name -> all impl nodes incl. default
    for (i, f) in fns.iter().enumerate() {
        if f.in_dialect_impl {
            dialect_impls.entry(f.node.name.clone()).or_default().push(i);
        }
    }
    let guarded: Vec<bool> = fns.iter().map(|f| starts_with_guard(&f.block)).collect();

    // resolve the calls found in a piece of code that lives in function `f`
    let resolve = |c: &Calls, f: &FnInfo| -> Vec<usize> {
        let mut out: Vec<usize> = vec![];
        for (rk, name) in &c.method {
            match rk {
                Recv::SelfV if f.node.owner == "Parser" => {
                    if let Some(&v) = idx.get(&Node { owner: "Parser".into(), name: name.clone() }) { out.push(v); }
                }
                Recv::SelfV if f.in_dialect_impl => {
                    if let Some(vs) = dialect_impls.get(name) { for &v in vs { out.push(v); } }
                }
                Recv::SelfV => {
                    if let Some(&v) = idx.get(&Node { owner: f.node.owner.clone(), name: name.clone() }) { out.push(v); }
                }
                Recv::Dialect => {
                    if let Some(vs) = dialect_impls.get(name) { for &v in vs { out.push(v); } }
                }
                Recv::Struct(ty) => {
                    // `PostgreSqlDialect {}.name(..)`: that impl's method, else the trait default
                    if let Some(&v) = idx.get(&Node { owner: format!("{ty} as Dialect"), name: name.clone() }) { out.push(v); }
                    else if let Some(&v) = idx.get(&Node { owner: "trait Dialect".into(), name: name.clone() }) { out.push(v); }
                }
                Recv::Other => {
                    if parser_fns.contains(name) {
                        out.push(idx[&Node { owner: "Parser".into(), name: name.clone() }]);
                    } else if let Some(vs) = dialect_impls.get(name) {
                        // only methods that take the parser (can recurse): conservative = all
                        for &v in vs { out.push(v); }
                    }
                }
            }
        }
        for (q, name) in &c.paths {
            match q.as_deref() {
                Some("Parser") | Some("Self") if f.node.owner == "Parser" || q.as_deref() == Some("Parser") => {
                    if let Some(&v) = idx.get(&Node { owner: "Parser".into(), name: name.clone() }) { out.push(v); }
                }
                Some("Self") => {
                    if let Some(&v) = idx.get(&Node { owner: f.node.owner.clone(), name: name.clone() }) { out.push(v); }
                }
                None => {
                    if let Some(&v) = idx.get(&Node { owner: format!("free:{}", f.file), name: name.clone() }) { out.push(v); }
                }
                _ => {}
            }
        }
        out
    };
    // names of higher-order helpers (take a closure/function argument)
    let ho_nodes: Map<String, Vec<usize>> = {
        let mut m: Map<String, Vec<usize>> = Map::new();
        for (i, f) in fns.iter().enumerate() { if f.is_ho { m.entry(f.node.name.clone()).or_default().push(i); } }
        m
    };
    fn all_arg_calls<'a>(c: &'a Calls, out: &mut Vec<&'a (String, Calls)>) {
        for ac in &c.arg_calls { out.push(ac); all_arg_calls(&ac.1, out); }
    }
    let mut edges: Set<(usize, usize)> = Set::new();
    for (u, f) in fns.iter().enumerate() {
        let mut c = Calls { method: vec![], paths: vec![], arg_calls: vec![] };
        c.visit_block(&f.block);
        for v in resolve(&c, f) { edges.insert((u, v)); }
        // a closure / function passed to a higher-order helper H is called BY H: edges H -> callee
        let mut acs = vec![];
        all_arg_calls(&c, &mut acs);
        // Context-insensitive edges H -> callee would merge all call sites of a helper and create
        // cycles no execution has (H called with closure A, A calls H with closure B, …). The helpers
        // are therefore TRANSPARENT: what a closure passed from `f` calls is an edge from `f` (already
        // in `resolve(&c, f)` because closures are visited as part of the body); the helper frames
        // themselves are listed in `ho_helpers` and removed from sampled stacks by the dynamic check.
        for (callee, sub) in acs {
            if let Some(_hs) = ho_nodes.get(callee) {
                for v in resolve(sub, f) { edges.insert((u, v)); }
            }
        }
    }

    // discharged edges (committed file): [{"from": "Parser::a", "to": "Parser::b", "kind": "finding"|"lemma", "ref": "..."}]
    let mut discharged: Vec<(usize, usize, String, String)> = vec![];
    let mut unmatched_discharges = vec![];
    if let Ok(t) = fs::read_to_string(format!("{}/c03_discharged.json", std::env::var("VERIF_ROOT").unwrap_or_else(|_| "/verif".to_string()))) {
        let j: serde_json::Value = serde_json::from_str(&t).map_err(|e| e.to_string())?;
        for e in j["edges"].as_array().cloned().unwrap_or_default() {
            let (a, b) = (e["from"].as_str().unwrap_or(""), e["to"].as_str().unwrap_or(""));
            let fa = fns.iter().position(|f| f.node.label() == a);
            let fb = fns.iter().position(|f| f.node.label() == b);
            match (fa, fb) {
                (Some(x), Some(y)) if edges.contains(&(x, y)) => discharged.push((x, y, e["kind"].as_str().unwrap_or("").into(), e["ref"].as_str().unwrap_or("").into())),
                _ => unmatched_discharges.push(format!("{a}->{b}")),
            }
        }
    }
    let dis: Set<(usize, usize)> = discharged.iter().map(|d| (d.0, d.1)).collect();

    // unguarded sub-graph: edges into non-guarded targets, minus discharged
    let n = fns.len();
    let mut adj: Vec<Vec<usize>> = vec![vec![]; n];
    for &(u, v) in &edges {
        if !guarded[v] && !dis.contains(&(u, v)) {
            adj[u].push(v);
        }
    }
    // Tarjan SCC (iterative)
    let sccs = tarjan(&adj);
    let mut cyc: Vec<Vec<usize>> = sccs.iter().filter(|c| c.len() > 1 || adj[c[0]].contains(&c[0])).cloned().collect();
    cyc.sort();
    // rank = longest unguarded path below (0 for nodes in cycles; certificate then fails in Lean)
    let mut rank = vec![usize::MAX; n];
    fn depth(u: usize, adj: &Vec<Vec<usize>>, rank: &mut Vec<usize>, on: &mut Vec<bool>) -> usize {
        if rank[u] != usize::MAX { return rank[u]; }
        if on[u] { return 0; }
        on[u] = true;
        let mut r = 0;
        for &v in &adj[u] {
            r = r.max(1 + depth(v, adj, rank, on));
        }
        on[u] = false;
        rank[u] = r;
        r
    }
    let mut on = vec![false; n];
    for u in 0..n {
        // run on a big stack? the graph is ~500 nodes, recursion depth is fine
        depth(u, &adj, &mut rank, &mut on);
    }

    let mut o = String::new();
    o.push_str("/- GENERATED by `translator callgraph` from src/parser/*.rs and src/dialect/*.rs. Do not edit. -/\nimport SqlVerif.Model.Graph\nnamespace SqlVerif.Gen.CallGraph\n\n");
    o.push_str(&format!("def nNodes : Nat := {n}\n"));
    o.push_str(&format!("def nodeNames : List String := [{}]\n", fns.iter().map(|f| lean_str(&f.node.label())).collect::<Vec<_>>().join(", ")));
    o.push_str(&format!("/-- functions whose first statement takes a depth guard -/\ndef guarded : List Bool := [{}]\n", guarded.iter().map(|b| b.to_string()).collect::<Vec<_>>().join(",")));
    let all_edges: Vec<String> = edges.iter().filter(|e| !dis.contains(e)).map(|(u, v)| format!("({u},{v})")).collect();
    o.push_str(&format!("/-- all call edges (minus the discharged ones) -/\ndef edges : List (Nat × Nat) := [{}]\n", all_edges.join(",")));
    o.push_str(&format!("/-- rank certificate (untrusted; checked by `decide`) -/\ndef rank : List Nat := [{}]\n", rank.iter().map(|r| r.to_string()).collect::<Vec<_>>().join(",")));
    fn bt(keys: &[(usize, usize)]) -> String {
        if keys.is_empty() { return ".leaf".into(); }
        let m = keys.len() / 2;
        format!("(.node {} {} {} {})", bt(&keys[..m]), keys[m].0, keys[m].1, bt(&keys[m + 1..]))
    }
    let rk: Vec<(usize, usize)> = rank.iter().enumerate().map(|(i, r)| (i, *r)).collect();
    let gk: Vec<(usize, usize)> = guarded.iter().enumerate().map(|(i, g)| (i, *g as usize)).collect();
    o.push_str(&format!("/-- `rank` as a balanced search tree (node id -> rank) -/\ndef rankTree : SqlVerif.Graph.BT := {}\n", bt(&rk)));
    o.push_str(&format!("/-- `guarded` as a balanced search tree (node id -> 0/1) -/\ndef guardedTree : SqlVerif.Graph.BT := {}\n", bt(&gk)));
    o.push_str(&format!("def maxRank : Nat := {}\n", rank.iter().max().copied().unwrap_or(0)));
    o.push_str(&format!("def dischargedEdges : List (Nat × Nat) := [{}]\n", discharged.iter().map(|d| format!("({},{})", d.0, d.1)).collect::<Vec<_>>().join(",")));
    o.push_str("\nend SqlVerif.Gen.CallGraph\n");
    write_if_changed(&out.join("lean/CallGraph.lean"), &o);

    let j = serde_json::json!({
        "nodes": fns.iter().map(|f| f.node.label()).collect::<Vec<_>>(),
        "guarded": fns.iter().zip(guarded.iter()).filter(|(_, g)| **g).map(|(f, _)| f.node.label()).collect::<Vec<_>>(),
        "n_edges": edges.len(),
        "unguarded_cycles": cyc.iter().map(|c| c.iter().map(|&i| fns[i].node.label()).collect::<Vec<_>>()).collect::<Vec<_>>(),
        "discharged": discharged.iter().map(|d| serde_json::json!({"from": fns[d.0].node.label(), "to": fns[d.1].node.label(), "kind": d.2, "ref": d.3})).collect::<Vec<_>>(),
        "unmatched_discharges": unmatched_discharges,
        "ho_helpers": fns.iter().filter(|f| f.is_ho).map(|f| f.node.label()).collect::<Vec<_>>(),
        "edges": edges.iter().map(|(u, v)| [fns[*u].node.label(), fns[*v].node.label()]).collect::<Vec<_>>(),
    });
    write_if_changed(&out.join("callgraph.json"), &serde_json::to_string(&j).unwrap());
    let cyc_names: Vec<Vec<String>> = cyc.iter().map(|c| c.iter().map(|&i| fns[i].node.label()).collect()).collect();
    let obl = serde_json::json!({"C03": {
        "callgraph.no-unguarded-cycle": {"ok": cyc.is_empty(), "note": format!("{} nodes, {} edges, {} guarded; unguarded cycles: {:?}", n, edges.len(), guarded.iter().filter(|g| **g).count(), cyc_names)},
        "callgraph.discharged-edges-exist": {"ok": unmatched_discharges.is_empty(), "note": format!("c03_discharged.json entries that match no extracted edge: {:?}", unmatched_discharges)},
        "callgraph.guard-set-nonempty": {"ok": guarded.iter().filter(|g| **g).count() >= 3, "note": "parse_statement, parse_subexpr, parse_query at least"},
    }});
    write_if_changed(&out.join("obl_callgraph.json"), &serde_json::to_string_pretty(&obl).unwrap());
    Ok(())
}

fn tarjan(adj: &Vec<Vec<usize>>) -> Vec<Vec<usize>> {
    let n = adj.len();
    let mut index = vec![usize::MAX; n];
    let mut low = vec![0; n];
    let mut onst = vec![false; n];
    let mut st = vec![];
    let mut out = vec![];
    let mut counter = 0;
    for s in 0..n {
        if index[s] != usize::MAX { continue; }
        let mut call: Vec<(usize, usize)> = vec![(s, 0)];
        index[s] = counter; low[s] = counter; counter += 1; st.push(s); onst[s] = true;
        while let Some(&mut (u, ref mut i)) = call.last_mut() {
            if *i < adj[u].len() {
                let v = adj[u][*i];
                *i += 1;
                if index[v] == usize::MAX {
                    index[v] = counter; low[v] = counter; counter += 1; st.push(v); onst[v] = true;
                    call.push((v, 0));
                } else if onst[v] {
                    low[u] = low[u].min(index[v]);
                }
            } else {
                call.pop();
                if let Some(&(p, _)) = call.last() { low[p] = low[p].min(low[u]); }
                if low[u] == index[u] {
                    let mut c = vec![];
                    loop { let w = st.pop().unwrap(); onst[w] = false; c.push(w); if w == u { break; } }
                    c.sort();
                    out.push(c);
                }
            }
        }
    }
    out
}

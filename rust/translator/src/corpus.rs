//! Harvest every string literal of /repo/tests/*.rs and of the in-crate test
//! modules: the seed corpus (the harness decides which ones are SQL).
use crate::*;
use proc_macro2::{TokenStream, TokenTree};

fn walk(ts: TokenStream, out: &mut Set<String>) {
    for tt in ts {
        match tt {
            TokenTree::Group(g) => walk(g.stream(), out),
            TokenTree::Literal(l) => {
                let repr = l.to_string();
                if repr.starts_with('"') || repr.starts_with("r\"") || repr.starts_with("r#") {
                    if let Ok(s) = syn::parse_str::<syn::LitStr>(&repr) {
                        out.insert(s.value());
                    }
                }
            }
            _ => {}
        }
    }
}

pub fn run(repo: &Path, out: &Path) -> Result<(), String> {
    let mut lits: Set<String> = Set::new();
    let mut files = rs_files(&repo.join("tests"));
    files.extend(rs_files(&repo.join("src")));
    files.extend(rs_files(&repo.join("examples")));
    let mut nfiles = 0;
    for f in files {
        let src = fs::read_to_string(&f).map_err(|e| format!("{f:?}: {e}"))?;
        match src.parse::<TokenStream>() {
            Ok(ts) => {
                nfiles += 1;
                walk(ts, &mut lits)
            }
            Err(e) => return Err(format!("{f:?}: {e}")),
        }
    }
    let v: Vec<&String> = lits.iter().filter(|s| !s.is_empty() && s.len() < 4000).collect();
    let j = serde_json::json!({ "files": nfiles, "literals": v });
    write_if_changed(&out.join("corpus.json"), &serde_json::to_string(&j).unwrap());
    Ok(())
}

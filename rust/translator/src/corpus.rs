//! Harvest every string literal of /repo/tests/*.rs and of the in-crate test
//! modules: the seed corpus (the harness decides which ones are SQL).
use crate::*;
use proc_macro2::{TokenStream, TokenTree};

fn lit_value(l: &proc_macro2::Literal) -> Option<String> {
    let repr = l.to_string();
    if repr.starts_with('"') || repr.starts_with("r\"") || repr.starts_with("r#") {
        return syn::parse_str::<syn::LitStr>(&repr).ok().map(|s| s.value());
    }
    None
}

fn walk(ts: TokenStream, out: &mut Set<String>) {
    let v: Vec<TokenTree> = ts.into_iter().collect();
    // `concat!("a", "b", …)` and `format!`-free multi-line statements: join the pieces
    for i in 0..v.len() {
        if let (TokenTree::Ident(id), Some(TokenTree::Punct(p)), Some(TokenTree::Group(g))) = (&v[i], v.get(i + 1), v.get(i + 2)) {
            if id == "concat" && p.as_char() == '!' {
                let mut joined = String::new();
                let mut all = true;
                for t in g.stream() {
                    match t {
                        TokenTree::Literal(l) => match lit_value(&l) { Some(s) => joined.push_str(&s), None => all = false },
                        TokenTree::Punct(_) => {}
                        _ => all = false,
                    }
                }
                if all && !joined.is_empty() { out.insert(joined); }
            }
        }
    }
    for tt in v {
        match tt {
            TokenTree::Group(g) => walk(g.stream(), out),
            TokenTree::Literal(l) => {
                let repr = l.to_string();
                if repr.starts_with('"') || repr.starts_with("r\"") || repr.starts_with("r#") {
                    if let Ok(s) = syn::parse_str::<syn::LitStr>(&repr) {
                        out.insert(s.value());
                    }
                }
            }
            _ => {}
        }
    }
}

fn harvest(files: Vec<PathBuf>, lits: &mut Set<String>) -> Result<usize, String> {
    let mut nfiles = 0;
    for f in files {
        let src = fs::read_to_string(&f).map_err(|e| format!("{f:?}: {e}"))?;
        match src.parse::<TokenStream>() {
            Ok(ts) => {
                nfiles += 1;
                walk(ts, lits)
            }
            Err(e) => return Err(format!("{f:?}: {e}")),
        }
    }
    Ok(nfiles)
}

/// The corpus of SQL texts for the real-code oracles.  Texts of `tests/` and `examples/` are
/// harvested from the working tree on every run.  Texts found in `src/` (doc comments, test
/// modules, messages) come from the committed snapshot `corpus/src_literals.json` when it exists:
/// a corpus is a set of INPUTS, not part of the tie between model and code, and an input set that
/// moves with every edited doc comment would turn known defects into fresh alarms on code where
/// the property holds.  (`translator srcsnap <repo> <verif>/corpus` refreshes the snapshot.)
pub fn run(repo: &Path, out: &Path) -> Result<(), String> {
    let mut lits: Set<String> = Set::new();
    let mut files = rs_files(&repo.join("tests"));
    files.extend(rs_files(&repo.join("examples")));
    let mut nfiles = harvest(files, &mut lits)?;
    let root = std::env::var("VERIF_ROOT").unwrap_or_else(|_| "/verif".to_string());
    let snap = Path::new(&root).join("corpus/src_literals.json");
    match fs::read_to_string(&snap).ok().and_then(|t| serde_json::from_str::<Vec<String>>(&t).ok()) {
        Some(v) => lits.extend(v),
        None => nfiles += harvest(rs_files(&repo.join("src")), &mut lits)?,
    }
    let v: Vec<&String> = lits.iter().filter(|s| !s.is_empty() && s.len() < 4000).collect();
    let j = serde_json::json!({ "files": nfiles, "literals": v });
    write_if_changed(&out.join("corpus.json"), &serde_json::to_string(&j).unwrap());
    Ok(())
}

/// developer command: write the snapshot of the string literals of `src/`
pub fn srcsnap(repo: &Path, out: &Path) -> Result<(), String> {
    let mut lits: Set<String> = Set::new();
    harvest(rs_files(&repo.join("src")), &mut lits)?;
    let v: Vec<&String> = lits.iter().filter(|s| !s.is_empty() && s.len() < 4000).collect();
    write_if_changed(&out.join("src_literals.json"), &serde_json::to_string(&v).unwrap());
    Ok(())
}

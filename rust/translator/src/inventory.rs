//! Syntactic inventories over the crate's non-test sources, compared with the committed
//! expectation file /verif/inventories/expected.json.  Every inventory is a sorted list of strings
//! "file::owner::fn[#k]: detail"; a difference in either direction is an open obligation.
use crate::*;
use syn::visit::Visit;

fn is_cfg_test(attrs: &[syn::Attribute]) -> bool {
    attrs.iter().any(|a| a.path().is_ident("cfg") && quote::quote!(#a).to_string().contains("test"))
}

struct Ctx {
    file: String,
    owner: String,
    func: String,
}

#[derive(Default)]
struct Inv {
    raw_access: Set<String>,      // fns touching self.tokens / self.index
    no_skip_callers: Set<String>, // fns calling *_no_skip
    location_literals: Set<String>, // `Location { .. }` struct literals: fn + fields text
    twl_literals: Set<String>,    // `TokenWithLocation { .. }` literals
    type_id_uses: Set<String>,    // type_id()/downcast/Any uses
    dialect_of_uses: Map<String, usize>, // fn -> count of dialect_of! uses
    panic_sites: Vec<String>,     // unwrap/expect/panic!/unreachable!/assert*/index expressions
    err_discard: Set<String>,     // .ok() / if let Ok(..) / Err(_) => on parser calls
    text_compare: Set<String>,    // comparisons of token spelling with string literals
    comma_loops: Set<String>,     // fns that consume Token::Comma themselves
    make_word_uses: Set<String>,  // tokens built from a spelling (comparisons by text)
    word_value_tests: Set<String>, // tests / transformations applied to the spelling of a word
}

struct V<'a> {
    ctx: &'a Ctx,
    inv: &'a mut Inv,
    rle_arm_depth: usize,
}

fn norm(ts: impl quote::ToTokens) -> String {
    let s = ts.to_token_stream().to_string();
    s.split_whitespace().collect::<Vec<_>>().join(" ")
}

impl<'a> V<'a> {
    fn key(&self) -> String {
        format!("{}::{}::{}", self.ctx.file, self.ctx.owner, self.ctx.func)
    }
}

impl<'a, 'ast> Visit<'ast> for V<'a> {
    fn visit_expr_field(&mut self, f: &'ast syn::ExprField) {
        if let syn::Member::Named(n) = &f.member {
            if (n == "tokens" || n == "index") && matches!(&*f.base, syn::Expr::Path(p) if p.path.is_ident("self")) && self.ctx.owner == "Parser" {
                self.inv.raw_access.insert(self.key());
            }
        }
        syn::visit::visit_expr_field(self, f);
    }
    fn visit_expr_method_call(&mut self, m: &'ast syn::ExprMethodCall) {
        let name = m.method.to_string();
        if name.ends_with("_no_skip") {
            self.inv.no_skip_callers.insert(format!("{} -> {name}", self.key()));
        }
        if name == "type_id" || name.starts_with("downcast") {
            self.inv.type_id_uses.insert(format!("{}: .{name}()", self.key()));
        }
        if name == "unwrap" || name == "expect" {
            self.inv.panic_sites.push(format!("{}: .{name}() on {}", self.key(), trunc(&norm(&m.receiver), 80)));
        }
        if name == "ok" && m.args.is_empty() {
            let recv = norm(&m.receiver);
            if recv.contains("parse_") || recv.contains("expect_") {
                self.inv.err_discard.insert(format!("{}: {}.ok()", self.key(), trunc(&recv, 80)));
            }
        }
        if ["to_uppercase", "to_lowercase", "to_ascii_uppercase", "to_ascii_lowercase", "as_str", "contains", "chars", "len", "is_empty", "parse", "find", "strip_prefix", "strip_suffix", "split", "bytes", "eq", "cmp", "binary_search"].contains(&name.as_str()) {
            let all = format!("{} ( {} )", norm(&m.receiver), norm(&m.args));
            if all.contains(". value") || (all.contains("to_string ()") && (all.contains("variable") || all.contains("ident") || all.contains("word"))) {
                self.inv.word_value_tests.insert(format!("{}: {}.{name}({})", self.key(), trunc(&norm(&m.receiver), 70), trunc(&norm(&m.args), 50)));
            }
        }
        if ["consume_token", "expect_token", "consume_tokens", "parse_keyword_with_tokens"].contains(&name.as_str()) {
            let a = norm(&m.args);
            if a.contains("Token :: Word") || a.contains("make_keyword") || a.contains("make_word") {
                self.inv.word_value_tests.insert(format!("{}: {name}({}) compares a word token by spelling", self.key(), trunc(&a, 60)));
            }
        }
        if name == "consume_token" {
            let a = norm(&m.args);
            if a.contains("Token :: Comma") && !["is_parse_comma_separated_end"].contains(&self.ctx.func.as_str()) {
                self.inv.comma_loops.insert(self.key());
            }
        }
        if name == "eq_ignore_ascii_case" || name == "starts_with" || name == "ends_with" {
            let recv = norm(&m.receiver);
            if recv.contains("value") || recv.contains("to_string") || recv.contains("w .") {
                self.inv.text_compare.insert(format!("{}: {}.{name}({})", self.key(), trunc(&recv, 60), trunc(&norm(&m.args), 40)));
            }
        }
        syn::visit::visit_expr_method_call(self, m);
    }
    fn visit_expr_binary(&mut self, b: &'ast syn::ExprBinary) {
        if matches!(b.op, syn::BinOp::Eq(_) | syn::BinOp::Ne(_)) {
            let (l, r) = (norm(&b.left), norm(&b.right));
            let lit = |s: &str| s.starts_with('"');
            if (lit(&l) || lit(&r)) && (l.contains("value") || r.contains("value") || l.contains("to_string") || r.contains("to_string")) {
                self.inv.text_compare.insert(format!("{}: {} {} {}", self.key(), trunc(&l, 60), if matches!(b.op, syn::BinOp::Eq(_)) { "==" } else { "!=" }, trunc(&r, 60)));
            }
        }
        syn::visit::visit_expr_binary(self, b);
    }
    fn visit_expr_struct(&mut self, s: &'ast syn::ExprStruct) {
        let n = s.path.segments.last().map(|x| x.ident.to_string()).unwrap_or_default();
        if n == "Location" {
            self.inv.location_literals.insert(format!("{}: {}", self.key(), norm(s)));
        }
        if n == "TokenWithLocation" {
            self.inv.twl_literals.insert(format!("{}: {}", self.key(), norm(s)));
        }
        syn::visit::visit_expr_struct(self, s);
    }
    fn visit_expr_index(&mut self, i: &'ast syn::ExprIndex) {
        self.inv.panic_sites.push(format!("{}: index {}", self.key(), trunc(&norm(i), 80)));
        syn::visit::visit_expr_index(self, i);
    }
    fn visit_expr_if(&mut self, e: &'ast syn::ExprIf) {
        if let syn::Expr::Let(l) = &*e.cond {
            let p = norm(&l.pat);
            let x = norm(&l.expr);
            if p.starts_with("Ok") && (x.contains("parse_") || x.contains("expect_")) {
                self.inv.err_discard.insert(format!("{}: if let {} = {}", self.key(), trunc(&p, 30), trunc(&x, 70)));
            }
        }
        syn::visit::visit_expr_if(self, e);
    }
    fn visit_expr_match(&mut self, m: &'ast syn::ExprMatch) {
        // a match that hands the limit error on explicitly (`Err(ParserError::RecursionLimitExceeded) => ..`)
        // does not discard it in its catch-all `Err(_)` arm
        let propagates = m.arms.iter().any(|a| norm(&a.pat).contains("RecursionLimitExceeded"));
        if propagates {
            self.rle_arm_depth += 1;
            syn::visit::visit_expr_match(self, m);
            self.rle_arm_depth -= 1;
        } else {
            syn::visit::visit_expr_match(self, m);
        }
    }
    fn visit_arm(&mut self, a: &'ast syn::Arm) {
        if let Some((_, g)) = &a.guard {
            let gs = norm(g);
            if gs.contains(". value") || gs.contains("to_lowercase") || gs.contains("to_uppercase") {
                self.inv.word_value_tests.insert(format!("{}: guard {}", self.key(), trunc(&gs, 90)));
            }
        }
        let p = norm(&a.pat);
        if p == "Err (_)" && self.rle_arm_depth == 0 {
            self.inv.err_discard.insert(format!("{}: Err(_) => {}", self.key(), trunc(&norm(&a.body), 50)));
        }
        syn::visit::visit_arm(self, a);
    }
    fn visit_expr_call(&mut self, c: &'ast syn::ExprCall) {
        let f = norm(&c.func);
        if f.ends_with("make_keyword") || f.ends_with("make_word") {
            self.inv.make_word_uses.insert(format!("{}: {}({})", self.key(), f, trunc(&norm(&c.args), 50)));
        }
        syn::visit::visit_expr_call(self, c);
    }
    fn visit_macro(&mut self, m: &'ast syn::Macro) {
        let name = m.path.segments.last().map(|s| s.ident.to_string()).unwrap_or_default();
        match name.as_str() {
            "panic" | "unreachable" | "unimplemented" | "todo" | "assert" | "assert_eq" | "assert_ne" => {
                self.inv.panic_sites.push(format!("{}: {name}!({})", self.key(), trunc(&norm(&m.tokens), 60)));
            }
            "dialect_of" => {
                *self.inv.dialect_of_uses.entry(self.key()).or_insert(0) += 1;
            }
            _ => {}
        }
        if let Ok(args) = m.parse_body_with(syn::punctuated::Punctuated::<syn::Expr, syn::Token![,]>::parse_terminated) {
            for a in args.iter() {
                self.visit_expr(a);
            }
        }
    }
}

fn trunc(s: &str, n: usize) -> String {
    if s.chars().count() <= n { s.to_string() } else { s.chars().take(n).collect::<String>() + "…" }
}

fn type_name(t: &syn::Type) -> String {
    match t {
        syn::Type::Path(p) => p.path.segments.last().map(|s| s.ident.to_string()).unwrap_or_default(),
        syn::Type::Reference(r) => type_name(&r.elem),
        _ => "?".into(),
    }
}

fn walk_items(items: &[syn::Item], file: &str, inv: &mut Inv) {
    for it in items {
        match it {
            syn::Item::Fn(f) if !is_cfg_test(&f.attrs) => {
                let ctx = Ctx { file: file.into(), owner: "free".into(), func: f.sig.ident.to_string() };
                V { ctx: &ctx, inv, rle_arm_depth: 0 }.visit_block(&f.block);
            }
            syn::Item::Impl(im) if !is_cfg_test(&im.attrs) => {
                let ty = type_name(&im.self_ty);
                let owner = match &im.trait_ { Some(t) => format!("{ty} as {}", t.1.segments.last().unwrap().ident), None => ty };
                for ii in &im.items {
                    if let syn::ImplItem::Fn(f) = ii {
                        if is_cfg_test(&f.attrs) { continue; }
                        let ctx = Ctx { file: file.into(), owner: owner.clone(), func: f.sig.ident.to_string() };
                        V { ctx: &ctx, inv, rle_arm_depth: 0 }.visit_block(&f.block);
                    }
                }
            }
            syn::Item::Trait(t) => {
                for ti in &t.items {
                    if let syn::TraitItem::Fn(f) = ti {
                        if let Some(b) = &f.default {
                            let ctx = Ctx { file: file.into(), owner: format!("trait {}", t.ident), func: f.sig.ident.to_string() };
                            V { ctx: &ctx, inv, rle_arm_depth: 0 }.visit_block(b);
                        }
                    }
                }
            }
            syn::Item::Mod(m) if !is_cfg_test(&m.attrs) => {
                if let Some((_, its)) = &m.content { walk_items(its, file, inv); }
            }
            syn::Item::Macro(m) => {
                // macro_rules bodies (dialect_of!, parser_err!) are not walked
                let _ = m;
            }
            _ => {}
        }
    }
}

/// the variants of `enum Token`: the exhaustive `prec` stream of C04 enumerates the payload-free
/// ones from a list in the harness; a new variant is an open obligation until that list follows
fn token_variants(repo: &Path) -> Result<Vec<String>, String> {
    enum_variants(repo, "src/tokenizer.rs", "Token")
}

/// `Variant` / `Variant(..)` names of a public enum (constructors the hand-written models enumerate)
fn enum_variants(repo: &Path, file: &str, name: &str) -> Result<Vec<String>, String> {
    let src = fs::read_to_string(repo.join(file)).map_err(|e| e.to_string())?;
    let f = syn::parse_file(&src).map_err(|e| e.to_string())?;
    for it in &f.items {
        if let syn::Item::Enum(e) = it {
            if e.ident == name {
                return Ok(e.variants.iter().map(|v| format!("{}{}", v.ident, if matches!(v.fields, syn::Fields::Unit) { "" } else { "(..)" })).collect());
            }
        }
    }
    Err(format!("enum {name} not found in {file}"))
}

pub fn run(repo: &Path, out: &Path) -> Result<(), String> {
    let mut inv = Inv::default();
    let mut inv_ast = Inv::default();
    let mut uses_nondeterminism: Set<String> = Set::new();
    for f in rs_files(&repo.join("src")) {
        let src = fs::read_to_string(&f).map_err(|e| e.to_string())?;
        let file = syn::parse_file(&src).map_err(|e| format!("{f:?}: {e}"))?;
        let rel = f.strip_prefix(repo.join("src")).unwrap().to_string_lossy().to_string();
        for pat in ["HashMap", "HashSet", "Instant::", "SystemTime::", "std::time", "rand::", "thread_rng"] {
            if src.contains(pat) { uses_nondeterminism.insert(format!("{rel}: {pat}")); }
        }
        if rel.starts_with("parser") || rel.starts_with("dialect") || rel == "tokenizer.rs" {
            walk_items(&file.items, &rel, &mut inv);
        } else {
            walk_items(&file.items, &rel, &mut inv_ast);
        }
    }
    // entry-point pipeline: normalised bodies of the public constructors / routes
    let mut pipeline: Vec<String> = vec![];
    {
        let src = fs::read_to_string(repo.join("src/parser/mod.rs")).map_err(|e| e.to_string())?;
        let file = syn::parse_file(&src).map_err(|e| e.to_string())?;
        let want = ["new", "with_recursion_limit", "with_options", "with_tokens_with_locations", "with_tokens", "try_with_sql", "parse_sql", "parse_statements", "index", "into_tokens"];
        for it in &file.items {
            if let syn::Item::Impl(im) = it {
                if type_name(&im.self_ty) != "Parser" { continue; }
                for ii in &im.items {
                    if let syn::ImplItem::Fn(f) = ii {
                        let n = f.sig.ident.to_string();
                        if want.contains(&n.as_str()) {
                            let b = &f.block;
                            pipeline.push(format!("{n}: {}", norm(b)));
                        }
                    }
                }
            }
        }
        pipeline.sort();
    }
    let mut panic_sites: Vec<String> = inv.panic_sites.clone();
    panic_sites.sort();
    // number duplicates so that a second identical site in the same fn is still a change
    let mut counted: Vec<String> = vec![];
    let mut last = String::new();
    let mut k = 0;
    for p in panic_sites {
        if p == last { k += 1; } else { k = 0; last = p.clone(); }
        counted.push(if k == 0 { p } else { format!("{p} #{k}") });
    }
    let mut ast_panics: Vec<String> = inv_ast.panic_sites.clone();
    ast_panics.sort();
    let mut counted_ast: Vec<String> = vec![];
    let (mut last, mut k) = (String::new(), 0);
    for p in ast_panics {
        if p == last { k += 1; } else { k = 0; last = p.clone(); }
        counted_ast.push(if k == 0 { p } else { format!("{p} #{k}") });
    }
    let cur = serde_json::json!({
        "raw_access": inv.raw_access,
        "no_skip_callers": inv.no_skip_callers,
        "location_literals": inv.location_literals,
        "twl_literals": inv.twl_literals,
        "type_id_uses": inv.type_id_uses.union(&inv_ast.type_id_uses).cloned().collect::<Vec<_>>(),
        "dialect_of_uses": inv.dialect_of_uses,
        "panic_sites": counted,
        "panic_sites_ast": counted_ast,
        "err_discard": inv.err_discard,
        "text_compare": inv.text_compare,
        "comma_loops": inv.comma_loops,
        "make_word_uses": inv.make_word_uses,
        "word_value_tests": inv.word_value_tests,
        "pipeline_bodies": pipeline,
        "nondeterminism": uses_nondeterminism,
        "display_unprinted": crate::display::run(repo)?,
        "token_variants": token_variants(repo)?,
        "ast_fields": crate::display::ast_fields(repo)?,
        "datatype_variants": enum_variants(repo, "src/ast/data_type.rs", "DataType")?,
    });
    write_if_changed(&out.join("inventory.json"), &serde_json::to_string_pretty(&cur).unwrap());

    // compare with the committed expectation
    let exp: serde_json::Value = fs::read_to_string(format!("{}/inventories/expected.json", std::env::var("VERIF_ROOT").unwrap_or_else(|_| "/verif".to_string()))).ok().and_then(|t| serde_json::from_str(&t).ok()).unwrap_or(serde_json::json!({}));
    // An inventory lists sites that need an argument (a panic site, a raw cursor access, a comparison
    // by spelling, ...).  Only sites that are NEW with respect to the committed expectation are open
    // obligations; a site that disappeared needs no argument any more (reported in the note only).
    // `pipeline_bodies` are whole normalised bodies, so a changed body shows up as a new entry.
    let diff = |name: &str| -> (bool, String) {
        let tolist = |v: &serde_json::Value| -> Set<String> {
            match v {
                serde_json::Value::Array(a) => a.iter().map(|x| x.as_str().unwrap_or("").to_string()).collect(),
                _ => Set::new(),
            }
        };
        if let (serde_json::Value::Object(c), e) = (&cur[name], &exp[name]) {
            // counted inventories (fn -> number of uses): an obligation when a count grows
            let mut grown: Vec<String> = vec![];
            let mut shrunk = 0;
            for (k, v) in c {
                let (n, m) = (v.as_u64().unwrap_or(0), e.get(k).and_then(|x| x.as_u64()).unwrap_or(0));
                if n > m { grown.push(format!("{k} x{n} (was x{m})")); } else if n < m { shrunk += 1; }
            }
            // a renamed function: a new key whose file::owner and count equal those of a key that
            // disappeared
            let owner = |k: &str| -> String { let mut p: Vec<&str> = k.split("::").collect(); p.pop(); p.join("::") };
            let mut gone: Vec<(String, u64)> = e.as_object().map(|m| m.iter().filter(|(k, _)| !c.contains_key(*k)).map(|(k, v)| (owner(k), v.as_u64().unwrap_or(0))).collect()).unwrap_or_default();
            let mut renamed = 0;
            let mut still: Vec<String> = vec![];
            for (k, v) in c {
                let (n, m) = (v.as_u64().unwrap_or(0), e.get(k).and_then(|x| x.as_u64()).unwrap_or(0));
                if n > m {
                    if m == 0 {
                        if let Some(pos) = gone.iter().position(|(o, cnt)| *o == owner(k) && *cnt == n) { gone.remove(pos); renamed += 1; continue; }
                    }
                    still.push(format!("{k} x{n} (was x{m})"));
                }
            }
            let _ = grown;
            return (still.is_empty(), format!("{} entries; grown: {:?}; shrunk: {}; moved to a renamed function: {}", c.len(), still.iter().take(6).collect::<Vec<_>>(), shrunk, renamed));
        }
        let (a, b) = (tolist(&cur[name]), tolist(&exp[name]));
        let mut added: Vec<&String> = a.difference(&b).collect();
        let mut removed: Vec<&String> = b.difference(&a).collect();
        // a RENAMED function: an entry `file::owner::new_fn: detail` that replaces an entry
        // `file::owner::old_fn: detail` with the same file, owner and detail is the same site
        let split = |e: &str| -> Option<(String, String)> {
            let (key, detail) = e.split_once(": ")?;
            let mut parts: Vec<&str> = key.split("::").collect();
            if parts.len() < 3 { return None; }
            parts.pop();
            Some((parts.join("::"), detail.trim_end_matches(|c: char| c == '#' || c.is_ascii_digit() || c == ' ').to_string()))
        };
        let mut renamed = 0;
        added.retain(|x| {
            if let Some(kx) = split(x) {
                if let Some(pos) = removed.iter().position(|y| split(y).as_ref() == Some(&kx)) {
                    removed.remove(pos);
                    renamed += 1;
                    return false;
                }
            }
            true
        });
        (added.is_empty(), format!("{} entries; new: {:?}; gone (no obligation): {:?}; moved to a renamed function: {}", a.len(), added.iter().take(6).collect::<Vec<_>>(), removed.iter().take(6).collect::<Vec<_>>(), renamed))
    };
    let mk = |names: &[&str]| -> serde_json::Value {
        let mut m = serde_json::Map::new();
        for n in names {
            let (ok, note) = diff(n);
            m.insert(format!("inventory.{n}"), serde_json::json!({"ok": ok, "note": note}));
        }
        serde_json::Value::Object(m)
    };
    let obl = serde_json::json!({
        "C02": mk(&["panic_sites", "panic_sites_ast", "raw_access"]),
        "C01": mk(&["display_unprinted", "ast_fields"]),
        "C11": mk(&["ast_fields"]),
        "C04": mk(&["token_variants"]),
        "C18": mk(&["datatype_variants"]),
        "C05": mk(&["err_discard", "display_unprinted", "ast_fields"]),
        "C07": mk(&["raw_access", "no_skip_callers", "pipeline_bodies"]),
        "C08": mk(&["text_compare", "make_word_uses", "word_value_tests"]),
        "C10": mk(&["location_literals", "twl_literals", "nondeterminism", "raw_access"]),
        "C12": mk(&["err_discard"]),
        "C13": mk(&["comma_loops", "ast_fields"]),
        "C14": mk(&["raw_access", "pipeline_bodies"]),
        "C15": mk(&["type_id_uses", "dialect_of_uses"]),
    });
    write_if_changed(&out.join("obl_inventory.json"), &serde_json::to_string_pretty(&obl).unwrap());
    Ok(())
}

"""Per-property registry used by bin/check."""
TB_COMMON = []

PROPS = {
    "C08": dict(
        lean=["SqlVerif.Props.C08", "SqlVerif.Props.C08Parser"],
        namespaces=["SqlVerif.Props.C08", "SqlVerif.Props.C08Parser"],
        required=["SqlVerif.Props.C08.table_sorted", "SqlVerif.Props.C08.index_table_is_identity",
                  "SqlVerif.Props.C08.recognised_iff", "SqlVerif.Props.C08.every_entry_recognised",
                  "SqlVerif.Props.C08.nothing_else_recognised", "SqlVerif.Props.C08.lookup_case_insensitive",
                  "SqlVerif.Props.C08.spelling_preserved", "SqlVerif.Props.C08.full_statement_lexer_half",
                  "SqlVerif.Props.C08Parser.case_blind", "SqlVerif.Props.C08Parser.helpers_are_kw_blind",
                  "SqlVerif.Props.C08Parser.keyword_case_irrelevant"],
        level_text="Proved in Lean for all words, all upper-casing functions and all quote styles: on the keyword table the crate defines now (re-dumped and re-checked strictly sorted by the kernel on every run) binary search finds exactly the table words, recognition depends on a word only through its upper-casing, quoted words are never keywords, and spelling/quoting survive make_word, to_ident and printing. The model of make_word is tied to the code by an exhaustive differential over the table x capitalisations x near misses; the parser half (keyword tests on token text) is decided by search (case-flip oracle over the corpus), which is why the claim is partial there. Parser half as a theorem over all cursor programs: a program that looks at unquoted keyword words only through the keyword field (it may copy their spelling into the tree) gives, on two token vectors that differ only in the spelling of such words, the same tree up to the copied spellings / the same error at the same token; parse_keyword, parse_keywords, parse_one_of_keywords, expect_keyword(s) and the peek test w.keyword == K are such programs (consume_token with a keyword word is proved NOT to be), and with lookup_case_insensitive the capitalisation of keywords in the text is irrelevant; these helper models are tied to the real functions by the kwhelpers op-sequence stream (results, index, error position; words with random capitalisation and words whose spelling contradicts their keyword field).",
        level_note="Trusted: Lean kernel (axioms propext, Quot.sound), the table dump (harness tabulate), the upper-casing function of make_word (str::to_ascii_uppercase since fix f406052) as a model parameter. Parser-side case-insensitivity is a theorem about keyword-blind cursor programs (Props/C08Parser.lean); that every parse function is keyword-blind is the inventory obligation plus the case-flip oracle.",
        technique="Lean 4 proof (binary search on kernel-checked sorted table) + exhaustive make_word differential + case-flip oracle",
        corr=["kw", "kwhelpers"],
        unique_output={"kw": True, "kwhelpers": False},
        oracle=["C08"],
        trusted_base=["the upper-casing function of make_word (str::to_ascii_uppercase) is a parameter of the model; its values travel with each request and the kw stream contains non-ASCII near misses (`ſELECT`, `ABſ`), so a switch back to Unicode upper-casing shows as a disagreement",
                      "parser-side keyword tests on token text are decided by the case-flip oracle, not by a theorem"],
        assumptions=["Gen/Keywords.lean is the table of the crate as built from /repo's working tree"],
    ),
}

PROPS["C19"] = dict(
    lean=["SqlVerif.Props.C19"],
    namespaces=["SqlVerif.Props.C19"],
    required=["SqlVerif.Props.C19.same_field_set", "SqlVerif.Props.C19.build_map_identity",
              "SqlVerif.Props.C19.tryfrom_map_identity", "SqlVerif.Props.C19.setters_simple",
              "SqlVerif.Props.C19.wildcard_arm_is_err", "SqlVerif.Props.C19.builder_roundtrip",
              "SqlVerif.Props.C19.builder_roundtrip'", "SqlVerif.Props.C19.setter_local"],
    corr=[],
    oracle=["C19"],
    level_text="Proved in Lean for records over any value type: two copy-every-field conversions whose field maps are the identity compose to the identity, and a setter changes exactly its field. The field maps of build(), try_from and every setter, the field sets of both structs and the shape of the `_ => Err` arm are re-extracted from the Rust source with syn on every run and the identity/shape side conditions are re-decided by the kernel, so the theorem is about the code as it is now (translator route, no hand-written model of the builder). Backed by the real round trip and generated per-setter tests on every parsed CREATE TABLE of the corpus.",
    level_note="Trusted: Lean kernel; the syn extraction (struct literals/patterns read syntactically; rustc guarantees each field occurs exactly once in a struct literal); Rust move semantics (copying a field does not alter it). The parser constructing CREATE TABLE through the builder is covered only by the oracle.",
    technique="Lean 4 generic record theorem + kernel-decided side conditions on field maps regenerated from source (syn)",
    trusted_base=["translator/builder.rs reads build(), try_from and setters syntactically"],
    assumptions=["a struct literal/pattern without `..` mentions every field exactly once (rustc)"],
)

PROPS["C03"] = dict(
    lean=["SqlVerif.Props.C03"],
    namespaces=["SqlVerif.Props.C03"],
    required=["SqlVerif.Props.C03.certificate_checks", "SqlVerif.Props.C03.trees_are_tables",
              "SqlVerif.Props.C03.rank_bounded", "SqlVerif.Props.C03.call_chain_bounded",
              "SqlVerif.Props.C03.guard_restores", "SqlVerif.Props.C03.limit_iff_too_deep",
              "SqlVerif.Props.C03.siblings_ok", "SqlVerif.Props.C03.setop_nesting_bounded", "SqlVerif.Props.C03.native_chain_bounded"],
    corr=[],
    oracle=["C03"],
    level_text="Proved in Lean for every finite call graph: if rank strictly decreases along every call edge whose target takes no depth guard, every call chain holding at most L guards is at most (L+1)(maxRank+1) frames long, for every input. The parser's call graph (552 functions of parser/*.rs and dialect/*.rs, receivers resolved conservatively, closures attributed to the enclosing function), its guard set and the rank certificate are re-extracted with syn on every run and the certificate is re-checked by the kernel; the counter is proved to be restored on every path and to raise the limit error exactly beyond the remaining depth; the one cycle bounded by a measure instead of a guard (set-operator climbing) has its own theorem. The extraction itself is validated on every run: call stacks sampled through a cfg hook while parsing the whole corpus must be paths of the extracted graph once the frames of the (transparent) higher-order helpers are removed (987 distinct dynamic caller/callee pairs, 0 missing). A removed guard or a new unguarded cycle breaks the certificate; the nesting oracle (32 construct families x dialects x limits x depths up to 10^5 in child processes, plus sibling forms) then looks for the crashing input.",
    level_note="Trusted: Lean kernel; translator/callgraph.rs (syntactic call resolution; dynamic dispatch over-approximated by all impls); a native call chain is a path of the static graph; stack bytes per frame are not modelled (measured by the oracle only). Edges listed in c03_discharged.json are outside the certificate (today: the set-operator edge, bounded by theorem setop_nesting_bounded on a model whose tie to the code is the nesting oracle and the C04 set-operator stream).",
    technique="Lean 4 graph theorem + kernel-checked rank certificate on the call graph regenerated from source (syn) + child-process nesting oracle",
    trusted_base=["translator/callgraph.rs call resolution", "Model/SetOps.lean mirrors parse_remaining_set_exprs (hand-written)"],
    assumptions=["every parser call chain is a path of the extracted static call graph"],
)

PROPS["C13"] = dict(
    lean=["SqlVerif.Props.C13", "SqlVerif.Props.C13Query"],
    namespaces=["SqlVerif.Props.C13", "SqlVerif.Props.C13Query"],
    required=["SqlVerif.Props.C13.trailing_comma_noop", "SqlVerif.Props.C13.option_inert",
              "SqlVerif.Props.C13.sep0_empty", "SqlVerif.Props.C13.projection_flag_restored",
              "SqlVerif.Props.C13.option_off_comma_continues", "SqlVerif.Props.C13.parseIdent_local",
              "SqlVerif.Props.C13Query.selectItem_local",
              "SqlVerif.Props.C13Query.groupByElem_local",
              "SqlVerif.Props.C13Query.orderByElem_local",
              "SqlVerif.Props.C13Query.projection_trailing_comma",
              "SqlVerif.Props.C13Query.projection_option_inert",
              "SqlVerif.Props.C13Query.group_by_trailing_comma",
              "SqlVerif.Props.C13Query.order_by_trailing_comma",
              "SqlVerif.Props.C13Query.projection_is_lists_model",
              "SqlVerif.Props.C13Query.projection_flag_leaks"],
    corr=["lists", "queries", "dml", "ddl"],
    unique_output={"lists": False, "queries": False},
    oracle=["C13"],
    level_text="Proved in Lean for every token type, every classification into commas and list-ending tokens, every element parser that is local on the list's elements, and every fuel: with the option on, parse_comma_separated returns the same values and leaves the cursor at the same token for `e1, ..., en, <end>` and `e1, ..., en <end>`; without a trailing comma the option is inert unless an element after a comma begins with a list-ending token; parse_comma_separated0 and the option flip of parse_projection are covered. The model of the three helpers is tied to the code by an exhaustive differential (all token sequences up to length 4/5 over a 13-letter alphabet x option on/off, real pub API driven on token vectors; the end set RESERVED_FOR_COLUMN_ALIAS is tabulated from the running crate). Whole-grammar: the parser reports every list it parsed (cfg hook), a comma is inserted at each reported list end and before each bracket closer, and the option is toggled on every accepted corpus text. For the three list kinds of the modelled query fragment (projection, GROUP BY, ORDER BY; Model/Query.lean, stream queries) the locality hypothesis is discharged: an element text that parse_select_item / parse_group_by_expr / parse_order_by_expr of the model accepts completely is parsed to the same value in front of a comma, a closer, `;` or a word of RESERVED_FOR_COLUMN_ALIAS (these have precedence 0 for the Pratt loop, fail the RESERVED test of parse_optional_alias and every keyword probe), with two exceptions that are part of the statements and kernel-checked on the model: `* EXCEPT` in dialects with wildcard EXCEPT, and `WITH` after an ORDER BY element in ClickHouse / Generic (WITH FILL); trailing_comma_noop and option_inert are instantiated for the three lists, and the projection of the model is shown to be Lists.projection - with the widened option also inside the items: in BigQuery / Snowflake / DuckDB `SELECT a IN (1,) FROM t` is accepted with the option off (parser state leaks into nested lists).",
    level_note="Trusted: Lean kernel; the hand-written model of the helpers (validated exhaustively on short sequences only); locality of the real element parsers is a hypothesis of the theorem, checked by the insertion oracle on corpus texts only. Lists parsed by ad-hoc comma loops and keywords outside the helper's end set are known findings, not theorems.",
    technique="Lean 4 generic list theorem + exhaustive helper differential + hook-driven trailing-comma insertion oracle",
    trusted_base=["Model/Lists.lean mirrors is_parse_comma_separated_end / parse_comma_separated / parse_comma_separated0 / parse_projection"],
    assumptions=["element parsers are local on list elements (hypothesis LocalOn)"],
)

PROPS["C09"] = dict(
    lean=["SqlVerif.Props.C09"],
    namespaces=["SqlVerif.Props.C09"],
    required=["SqlVerif.Props.C09.next_token_progress", "SqlVerif.Props.C09.tile", "SqlVerif.Props.C09.progress",
              "SqlVerif.Props.C09.token_count_le", "SqlVerif.Props.C09.never_out_of_fuel",
              "SqlVerif.Props.C09.loc_true", "SqlVerif.Props.C09.strictly_increasing",
              "SqlVerif.Props.C09.strictly_increasing_tokenize", "SqlVerif.Props.C09.suffix_stable",
              "SqlVerif.Props.C09.suffix_is_drop", "SqlVerif.Props.C09.slice_is_text",
              "SqlVerif.Props.C09.next_token_text"],
    corr=["tok"],
    unique_output={"tok": False},
    oracle=["C09"],
    level_text="Proved in Lean for every dialect row, both un-escape modes, arbitrary character predicates and every input, on a hand-written executable model of Tokenizer (State, tokenize_with_location, next_token branch by branch in source order, all literal scanners): the slices consumed by the tokens concatenate to exactly the input (nothing dropped, duplicated or reordered), every token consumes at least one character, the reported (line, col) of each token is 1 + the number of newlines / 1 + the number of characters after the last newline of the text before it, locations increase strictly, tokenizing from any token boundary yields the remaining tokens with the same slices (next_token never reads line/col), the loop never runs out of fuel, and for every token that determines its text (unquoted words, numbers, punctuation/operators, placeholders, custom operators, line and block comments, Tab, Char) the slice is exactly that text. All of it follows from one lemma proved for every branch of next_token (a token consumes a non-empty prefix of the remaining input). The model is tied to the code by the `tok` stream: full token vectors with locations and error values (message and location) of the real tokenize_with_location vs the compiled model on every corpus literal x rotating dialects x both modes and on a fragment soup (all operator spellings, quote/prefix/dollar/comment openers, numbers and exponents, every whitespace kind, identifiers with @ # $ _, non-ASCII and astral characters, backslash escapes: every fragment x 13 dialects, all ordered pairs adjacent and spaced, prefix x quote x body grids, dollar-quote and nested-comment grids, random concatenations); tokenize is a function, so a disagreement on a request is a violation of the tie.",
    level_note="Trusted: Lean kernel (axioms propext, Classical.choice, Quot.sound); the hand-written model (Model/Tokenizer.lean, Model/Scan.lean), validated by the differential only on the generated and corpus inputs; Rust's Unicode predicates, char::to_uppercase and the four char->bool dialect methods are parameters whose real values travel with each request; dialect_of! tests are modelled as tests on the dialect name (true for the 13 built-in dialects, not for wrapper dialects); Token.text (the text a token stands for) is a definition of the theorem file, not checked against Display. Not claimed: slice = text for quoted literals / delimited identifiers (C06/C20), Neq (<> or !=), Newline (\\n, \\r, \\r\\n), Space (any whitespace char), HexStringLiteral; no direct oracle on the real code yet (correspondence only).",
    technique="Lean 4 proof (generic tokenizer-loop theorems + per-branch suffix and text lemmas on an executable model) + differential tokenizer stream with locations and errors",
    trusted_base=["Model/Tokenizer.lean and Model/Scan.lean mirror src/tokenizer.rs 500-1881 by hand",
                  "Unicode predicates, the upper-casing of make_word and dialect char predicates are model parameters (real values sent per request)",
                  "dialect_of! is modelled as a test on the built-in dialect's name"],
    assumptions=["Gen/Dialects.lean and Gen/Keywords.lean are the tables of the crate as built from /repo's working tree"],
)

PROPS["C04"] = dict(
    lean=["SqlVerif.Props.C04"],
    namespaces=["SqlVerif.Props.C04"],
    required=["SqlVerif.Props.C04.yield", "SqlVerif.Props.C04.shape", "SqlVerif.Props.C04.shape_binary",
              "SqlVerif.Props.C04.shape_prefix", "SqlVerif.Props.C04.shape_between", "SqlVerif.Props.C04.shape_like",
              "SqlVerif.Props.C04.shape_levels", "SqlVerif.Props.C04.unique_bracketing",
              "SqlVerif.Props.C04.climbSpec_wellShaped", "SqlVerif.Props.C04.parse_eq_climbSpec",
              "SqlVerif.Props.C04.nested_preserved", "SqlVerif.Props.C04.nested_closes",
              "SqlVerif.Props.C04.levels_consistent", "SqlVerif.Props.C04.keyword_classes",
              "SqlVerif.Props.C04.setops_levels", "SqlVerif.Props.C04.setops_yield", "SqlVerif.Props.C04.setops_shape",
              "SqlVerif.Props.C04.setops_unique_bracketing", "SqlVerif.Props.C04.setops_parse_unique",
              "SqlVerif.Props.C04.setops_nested_preserved"],
    corr=["prec", "chains", "setops"],
    unique_output={"prec": False, "chains": False, "setops": False},
    oracle=["C04"],
    level_text="Proved in Lean on a hand-written executable model of the Pratt expression parser (parse_subexpr, get_next_precedence with the PostgreSQL/Snowflake overrides, parse_prefix on a fragment, parse_infix with MySQL DIV, NOT, unary sign, PostgreSQL prefix operators, IS-family, [NOT] IN list, [NOT] BETWEEN, LIKE-family with ESCAPE, AT TIME ZONE, ::type, ANY/ALL/SOME, parentheses, recursion counter), for EVERY precedence table and flag record (the 13 built-in rows are instances), every fuel, recursion depth, context precedence and token list: (yield) the consumed tokens are exactly the in-order yield of the tree; (shape) the tree is well shaped - at every binary/mixfix/postfix node nothing exposed on the right edge of the left operand binds looser than the node and nothing exposed on the left edge of the right operand binds looser-or-equal (left associativity), NOT / unary sign / PostgreSQL prefix operators parse their operand at UnaryNot / MulDivModOp / PlusMinus, BETWEEN bounds above Between, LIKE patterns above Like, IS DISTINCT FROM, AT TIME ZONE and casts at Is, AtTz, DoubleColon, and the loop stops only when the next token's precedence is <= the context; (unique_bracketing) two well-shaped trees over identifiers and binary operators with the same yield are equal, and (parse_eq_climbSpec) on operand (operator operand)* input the parser's tree is the tree of an independently defined left-to-right fold; (nested_preserved) a parenthesised group is parsed at level unknown whatever the context, appears as Nested and closes both edges. The model is tied to the code by an exhaustive differential of get_next_precedence (every dialect x token x look-ahead) and by all operator pairs (+ triples, prefixes, parentheses, truncations, nesting around the recursion limit, random chains) per dialect. The same yield / shape / uniqueness (parenthesis-free chains) / parentheses theorems are proved for a second model of parse_query_body / parse_remaining_set_exprs (UNION = EXCEPT = 10 < INTERSECT = 20, all set quantifiers, parenthesised bodies, recursion counter), tied by the stream setops. Partial: uniqueness is proved for identifier/binary-operator chains and parenthesis-free set-operation chains only (general statement kept as FullStatement).",
    level_note="Trusted: Lean kernel (axioms propext, Classical.choice, Quot.sound); the hand-written models (Model/Tok.lean, Model/Expr.lean, Model/Pratt.lean, Model/SetClimb.lean), validated by the differential on the generated chains only; Gen/Dialects.lean and Gen/Keywords.lean as dumped from the running crate; COLLATE_PREC/BRACKET_PREC of postgresql.rs are constants of Cfg.ofRow (120/130), checked by the prec stream. Outside the fragment (functions, subqueries, tuples, CASE/CAST, subscripts, COLLATE, typed strings, lambdas, OPERATOR(...), trailing commas in IN lists) the model answers UNSUPPORTED and the line is skipped (quick tier: 0.6% of lines). A disagreement on a pure infix chain is a violation (unique_bracketing); elsewhere it is reported as a broken tie.",
    technique="Lean 4 proof (simultaneous fuel induction over a mutual executable Pratt model; Cartesian-tree uniqueness; reference fold) + exhaustive precedence differential + pair/triple chain differential on the real parser",
    trusted_base=["Model/Pratt.lean mirrors src/parser/mod.rs parse_subexpr/parse_prefix/parse_infix/parse_not/parse_in/parse_between and src/dialect/{mod,postgresql,snowflake,mysql}.rs precedence code by hand",
                  "dialect_of! is modelled as a test on the built-in dialect's name; COLLATE_PREC=120 and BRACKET_PREC=130 are literals in Cfg.ofRow",
                  "tree nodes of the model keep the tokens they consumed; the S-expression compared with the real AST forgets them",
                  "Model/SetClimb.lean mirrors parse_query / parse_query_body / parse_remaining_set_exprs / parse_set_quantifier by hand; `SELECT n` is one abstract token (the driver groups the two real tokens)"],
    assumptions=["Gen/Dialects.lean and Gen/Keywords.lean are the tables of the crate as built from /repo's working tree",
                 "the input of the model is the non-whitespace token list the real tokenizer produced"],
)

CURSOR_TB = ["Model/Cursor.lean mirrors peek_nth_token / next_token / prev_token / *_no_skip / consume_tokens (hand-written; tied by the op-sequence stream)",
             "meta-step: Rust code that touches Parser.tokens/index only through the inventoried API behaves like some Prog (privacy of the fields is enforced by rustc; the set of functions with raw access is re-extracted and compared on every run)"]

PROPS["C07"] = dict(
    lean=["SqlVerif.Props.C07", "SqlVerif.Props.C07Lexer"],
    namespaces=["SqlVerif.Props.C07", "SqlVerif.Props.C07Lexer"],
    required=["SqlVerif.Props.C07.cursor_refinement", "SqlVerif.Props.C07.layout_blind", "SqlVerif.Props.C07.layout_blind_accepts",
              "SqlVerif.Props.C07Lexer.layout_lexer", "SqlVerif.Props.C07Lexer.layout_parse", "SqlVerif.Props.C07Lexer.prefix_stable"],
    corr=["cursor", "tok"],
    unique_output={"cursor": False, "tok": False},
    oracle=["C07"],
    level_text="Proved in Lean for ALL programs over the parser's cursor API (a deep embedding with function-typed continuations; tokens are handed over without locations), all token vectors and all whitespace predicates: a program that uses no *_no_skip operation behaves on the raw token vector exactly as on the list of non-whitespace tokens (refinement, incl. errors, reported positions and the prev_token panic), hence two vectors with the same non-whitespace tokens give the same tree / the same rejection whatever whitespace and comments lie between. The cursor model is tied to the code by an op-sequence differential on the real public API and by the regenerated inventory of functions with raw access to tokens/index and of *_no_skip callers. The lexer half is proved on the tokenizer model (tied to the code by the tok stream): for every non-Redshift dialect record, replacing a whitespace run that starts with a separator character by another such run (both lexing to whitespace tokens in context) leaves the non-whitespace tokens unchanged (layout_lexer, proved for every branch of next_token), and composed with the cursor theorem every whitespace-skipping program gives the same outcome (layout_parse). Redshift's look-ahead past whitespace after `[` is a proved counterexample (known finding). Runs that start with a comment opener directly after a token, and the meta-step from parse functions to programs, are covered by the layout-replacement oracle on the real code (every whitespace run of every corpus text x 13 layouts x 13 dialects, accepted and rejected texts).",
    level_note="Trusted: Lean kernel; hand-written cursor model; the meta-step that parse functions are programs over the inventoried API; the lexer lemma is not proved (oracle + tokenizer correspondence only). COPY payload and BigQuery hyphenated identifiers use *_no_skip by design (listed in the inventory).",
    technique="Lean 4 refinement proof over all cursor programs + op-sequence differential + raw-access inventory + exhaustive layout-replacement oracle",
    trusted_base=CURSOR_TB,
    assumptions=["every parse function is a Skipping program except the inventoried *_no_skip callers"],
)

PROPS["C10"] = dict(
    lean=["SqlVerif.Props.C10", "SqlVerif.Props.C10Lexer"],
    namespaces=["SqlVerif.Props.C10", "SqlVerif.Props.C10Lexer"],
    required=["SqlVerif.Props.C10.error_location_is_real", "SqlVerif.Props.C10.eof_error_has_no_position",
              "SqlVerif.Props.C10.expected_found_same_token", "SqlVerif.Props.C10.full_statement_parser_half",
              "SqlVerif.Props.C10Lexer.tok_error_loc_in_range", "SqlVerif.Props.C10Lexer.tok_error_anatomy"],
    corr=["cursor", "tok"],
    unique_output={"cursor": False, "tok": False},
    oracle=["C10"],
    level_text="Proved in Lean for ALL programs over the cursor API (so for every parse function, whatever it does) and all token vectors: a location that ends up in an error is the location of a token of the input that the program was handed, or the (0,0) of the EOF sentinel, which prints as no position; programs cannot compute with locations. Tied to the code by the cursor op-sequence differential (returned tokens AND locations compared) and by regenerated inventories (every Location{..} literal in the parser is (0,0); every TokenWithLocation{..} construction; no hash iteration/time/randomness in src/). Partial: which message is paired with which token at each error site, the lexical/syntactic kind, and the tokenizer's error positions are decided by the rejection oracle on the real code (token-level mutations of every corpus text, all dialects).",
    level_note="Trusted: Lean kernel; hand-written cursor model; meta-step as for C07. Two functions read tokens[index-1] directly for an error position (parse_literal_char, parse_create_role): modelled as a handle to the last consumed token. Lexer half: on the tokenizer model every lexical error position is the position of a prefix of the input (inside the text or just after its end) and the message is one of ten known shapes (tok_error_loc_in_range, tok_error_anatomy).",
    technique="Lean 4 theorem over all cursor programs (location soundness) + inventories + rejection-position oracle",
    trusted_base=CURSOR_TB,
    assumptions=["parser_err!/expected() are the only constructors of positioned parser errors"],
)

PROPS["C14"] = dict(
    lean=["SqlVerif.Props.C14", "SqlVerif.Props.C14State"],
    namespaces=["SqlVerif.Props.C14", "SqlVerif.Props.C14State"],
    required=["SqlVerif.Props.C14.with_tokens_agrees", "SqlVerif.Props.C14.retarget_forgets",
              "SqlVerif.Props.C14State.state_restored", "SqlVerif.Props.C14State.guard_balanced",
              "SqlVerif.Props.C14State.flags_do_not_leak_between_runs", "SqlVerif.Props.C14State.layout_blind_flags"],
    corr=["cursor", "cursorstate"],
    unique_output={"cursor": False, "cursorstate": False},
    oracle=["C14"],
    level_text="Proved in Lean for ALL programs over the cursor API (including no-skip ones) and all token vectors: feeding the tokens without locations (with_tokens) gives the same value / the same error message / a panic iff a panic as feeding them with locations, and re-targeting replaces the whole cursor state so a run depends only on its own tokens. Tied to the code by the cursor op-sequence differential and the raw-access inventory. Partial: equality of the five public routes on real texts, standalone-vs-embedded parse_expr/parse_data_type/parse_object_name and restoration of state/options/depth after every run (Ok or Err) are decided on the real code (every corpus literal x 13 dialects x option sets; fragments harvested from parsed trees; random reuse histories checked with the verif_state hook). state_restored is now also a theorem: for EVERY program over the cursor API extended by the only three idioms through which the parser writes its flags (parse_projection's save/|=/restore of trailing_commas, with_state, try_decrease + DepthGuard drop; plus reading the flags and swallowing errors), every token vector and every initial flags, a run that does not panic ends with state, trailing_commas and remaining depth exactly as it started (success, error and limit error alike), so a reused parser answers like a fresh one (history form) and the C07/C10/C14 cursor theorems carry over to programs with flags; the model programs of parse_projection, parse_expr, parse_connect_by and parse_query(CONNECT BY) are tied to the real functions by the cursorstate stream (outcome, index and verif_state() after every call, small recursion limits, one Parser value re-targeted over batches).",
    level_note="Trusted: Lean kernel; hand-written cursor model; meta-step as for C07. Parser flags (state, trailing_commas, depth) are modelled by ProgS (Model/CursorState.lean); that no other code writes these fields is a meta-step (inventory of assignments), and a panic is excluded from state_restored.",
    technique="Lean 4 theorem over all cursor programs (location erasure, retargeting) + route/embedded/reuse oracles with state hook",
    trusted_base=CURSOR_TB,
    assumptions=[],
)

NOT_CLAIMED = {}

PROPS["C02"] = dict(
    lean=["SqlVerif.Props.C02Lexer", "SqlVerif.Props.C02Parser", "SqlVerif.Props.C07", "SqlVerif.Props.C03"],
    namespaces=["SqlVerif.Props.C02Lexer", "SqlVerif.Props.C02Parser"],
    required=["SqlVerif.Props.C02Lexer.tok_total", "SqlVerif.Props.C02Lexer.tok_work_linear", "SqlVerif.Props.C02Lexer.no_panic_builtin",
              "SqlVerif.Props.C02Lexer.exponent_peek_safe", "SqlVerif.Props.C02Lexer.line_comment_assert_safe", "SqlVerif.Props.C02Lexer.keyword_index_safe",
              "SqlVerif.Props.C02Parser.pratt_never_out_of_fuel", "SqlVerif.Props.C02Parser.query_never_out_of_fuel",
              "SqlVerif.Props.C02Parser.script_never_out_of_fuel", "SqlVerif.Props.C02Parser.fuel_irrelevant",
              "SqlVerif.Props.C02Parser.fuel_irrelevant_of_need", "SqlVerif.Props.C02Parser.fuel_irrelevant_query",
              "SqlVerif.Props.C02Parser.fuel_irrelevant_script", "SqlVerif.Props.C02Parser.pratt_work_polynomial",
              "SqlVerif.Props.C02Parser.pratt_work_amortised", "SqlVerif.Props.C02Parser.pratt_no_panic",
              "SqlVerif.Props.C02Parser.query_no_panic", "SqlVerif.Props.C02Parser.comma_separated_nonempty",
              "SqlVerif.Props.C02Parser.limit_unwrap_guarded", "SqlVerif.Props.C02Parser.quant_keyword_guarded",
              "SqlVerif.Props.C02Parser.dml_never_out_of_fuel", "SqlVerif.Props.C02Parser.dml_script_never_out_of_fuel",
              "SqlVerif.Props.C02Parser.dml_never_out_of_fuel_all", "SqlVerif.Props.C02Parser.dml_column_type_never_out_of_fuel",
              "SqlVerif.Props.C02Parser.dml_fuel_irrelevant", "SqlVerif.Props.C02Parser.dml_fuel_irrelevant_of_need",
              "SqlVerif.Props.C02Parser.dml_fuel_irrelevant_script", "SqlVerif.Props.C02Parser.dml_fuel_irrelevant_script_of_need",
              "SqlVerif.Props.C02Parser.dml_no_panic"],
    corr=["tok", "cursor"],
    unique_output={"tok": False, "cursor": False},
    oracle=["C02"],
    level_text="Proved in Lean on the tokenizer model (tied to the code by the tok stream, >1M requests, 0 disagreements): tokenizing is total, makes at most |s|+1 token steps and consumes every character exactly once (linear work), and each panic site of the real tokenizer (matching_end_quote, the exponent unwrap, the single-line-comment assert, the keyword index) is unreachable for every input under the 13 built-in dialect records (side conditions decided on the tabulated dialect rows). The cursor operations never index out of range and prev_token panics exactly at abstract position 0 (cursor refinement theorem, C07), and call depth is bounded by the recursion limit (C03 certificate). Every panic/unwrap/unreachable/assert/index site of parser, tokenizer, dialects and AST code is inventoried from source on every run; a new or changed site is an open obligation. Parser fragment (Props/C02Parser.lean; models Model/Pratt.lean and Model/Query.lean with the parse_statements loop, tied by the streams chains/ladder/queries): for every configuration record, recursion limit and token list the modelled parser terminates - with fuel >= need(n, limit) = 2n+5 (n = token count; independent of the limit because every cycle of the modelled call graph consumes a token; tight up to +2) no run of parse_expr / parse_subexpr / parse_statement / a script ends in the model's out-of-fuel value; a run that does not end out of fuel is repeated verbatim under every larger fuel (fuel irrelevance, so the for-every-fuel theorems of C01/C04/C05/C11/C12/C13 speak about one outcome per input); the expression parser makes at most 4n+2 calls of its five mutually recursive functions (fewer than 4 per consumed token on success), i.e. linear work; the outcome is a tree with a strictly shorter rest or one of the error values RecursionLimitExceeded / ParserError / outside-the-fragment, and the guards of the unwrap/unreachable sites inside modelled functions (parse_comma_separated returns >= 1 element, limit.unwrap() in parse_query, ALL/ANY/SOME in parse_infix) hold on every path of the model. The deep oracle additionally checks real cursor steps <= 16 * need(tokens, limit) on the chain/list/nesting families that lie inside the fragment (signature work-bound/<family>). The same holds for the statement model (Model/Dml.lean: INSERT / UPDATE / DELETE / CREATE TABLE / DROP TABLE / VALUES, column types through the data-type model, stream dml): with the same need(n) = 2n+5 no statement and no script runs out of fuel - the ad-hoc loops of parse_columns and parse_column_def consume a token per round -, runs are fuel-irrelevant and value-only (dml_never_out_of_fuel, dml_script_never_out_of_fuel, dml_fuel_irrelevant, dml_no_panic). Partial: the parser's unreachable!/unwrap sites outside the modelled code and super-linear backtracking are decided by search on the real code (prefixes, deletions, duplications, splices of every corpus text, fragment soup, deep chains and nestings in child processes, under a cursor-step budget from the hook).",
    level_note="Trusted: Lean kernel; tokenizer and cursor models; the step counter hook (cursor operations as the work measure); wall time, allocation and real stack bytes are measured, not modelled. The modelled fragment contains no re-parse: the speculative sites of parse_prefix (typed-string probe, lambda probe, parenthesised-subquery probe) and the derived-table-vs-nested-join fall-back of parse_table_factor are modelled by their non-recursive outcome and answer outside-the-fragment where they would re-parse, so the exponential families (POSITION nesting, parenthesised FROM items) and the ~300 unmodelled parser functions stay search-only; for the query layer the call depth is proved linear but the number of calls is not instrumented (expression layer only). Known findings: deep left spines overflow the stack in Display/Debug/Clone/Eq/Drop; POSITION-as-function backtracking is exponential.",
    technique="Lean 4 theorems on the tokenizer model (totality, linear work, unreachable panic sites) and on the expression/query parser models (termination with an explicit fuel bound, fuel irrelevance, linear call count, value-only outcomes) + panic-site inventory + budgeted mutation/deep-input oracle with child-process isolation",
    trusted_base=["Model/Tokenizer.lean, Model/Cursor.lean (hand-written, tied by streams)", "Model/Pratt.lean, Model/Query.lean, Model/Stmts.lean (hand-written, tied by the streams chains/ladder/queries); the call counter Pratt.costSubexpr is a definition of Lemmas/PrattFuel.lean that follows the model's own run", "verif_hooks step counter"],
    assumptions=["custom dialects keep is_delimited_identifier_start within {\", [, `} (hypothesis of no_panic_of_delims)"],
)

PROPS["C15"] = dict(
    lean=["SqlVerif.Props.C15"],
    namespaces=["SqlVerif.Props.C15"],
    required=["SqlVerif.Props.C15.row_forward_eq", "SqlVerif.Props.C15.wrapped_tokenizes_alike",
              "SqlVerif.Props.C15.wrapped_parses_alike", "SqlVerif.Props.C15.interface_only"],
    corr=["tok", "prec", "chains"],
    corr_env={"VERIF_WRAP": "1"},
    unique_output={"tok": False, "prec": False, "chains": False},
    oracle=["C15"],
    level_text="The tokenizer and expression-parser models take the dialect as a record of interface values (every capability method, the precedence table, the character predicates, the identity reported by dialect()) and have no access to a concrete type; Lean proves that the record of a forwarding dialect (wrapper generated from the current trait definition) equals the inner one, hence both models behave identically, and that any function of the record is determined by the interface values. The tie carries the weight: in this check the tok, prec and chains streams run the REAL crate under the generated forwarding wrapper Wrapped(D) (every trait method forwarded, generated by build.rs from the current trait so that a new method is forwarded automatically) against the models under D's own tabulated record, so any consultation of the concrete type inside the modelled code is a disagreement; the inventory pins every type_id()/downcast and every dialect_of! use in src/. Whole grammar: real-vs-real oracle (wrapped vs built-in, parse and tokenize, every corpus literal x 13 dialects x 2 option sets) and no-panic under a wrapper that keeps its own identity.",
    level_note="Trusted: Lean kernel; the models (tokenizer, Pratt fragment) and their streams; build.rs wrapper generation. Outside the modelled fragment the property is decided by the real-vs-real oracle only.",
    technique="Lean 4 theorem (models depend on the interface record only) + model-vs-real-under-generated-wrapper streams + type_id/dialect_of inventory + real-vs-real wrapper oracle",
    trusted_base=["harness/build.rs generates Wrapped/WrappedOwnId from trait Dialect"],
    assumptions=[],
)

PROPS["C11"] = dict(
    lean=["SqlVerif.Props.C11", "SqlVerif.Props.C11Query"],
    namespaces=["SqlVerif.Props.C11", "SqlVerif.Props.C11Query"],
    required=["SqlVerif.Props.C11.script_concat", "SqlVerif.Props.C11.requires_separator",
              "SqlVerif.Props.C11.end_keyword_drops_tail", "SqlVerif.Props.C11.script_requires_separator", "SqlVerif.Props.C11.parseSelect_local",
              "SqlVerif.Props.C11Query.query_yield",
              "SqlVerif.Props.C11Query.query_local",
              "SqlVerif.Props.C11Query.script_concat_queries"],
    corr=["stmts", "queries"],
    unique_output={"stmts": False, "queries": False},
    oracle=["C11"],
    level_text="Proved in Lean for every token type and every statement parser that is local on the statements of the script (followed by EOF or `;` it consumes exactly the statement): the statements loop returns exactly [a1..an] for the script `;* s1 ;+ s2 ;+ ... sn ;*` (any separator layout, empty statements, leading/trailing `;`); a statement not followed by `;`/EOF is an error (script_requires_separator); the END-keyword break exists only in block bodies (BEGIN .. END of CREATE PROCEDURE, end_keyword_drops_tail) since the repair of the END tail-drop (fix cc0dcb4), and the script classes of the models have isEndKw = false. The loop model is tied to parse_statements by an exhaustive differential (all token sequences up to length 6/7 over SELECT/number/`;`/END/`)`/whitespace). Locality of the real statement parsers is not a theorem: it is searched on the real code for every corpus statement kind x dialect x followers {SELECT 1, itself, COMMIT} x layouts. For the query statements of the modelled fragment (Model/Query.lean, tied to the real parse_statements by stream queries on real token lists, 13 dialects, both option values, recursion limits 0-9 and 50) locality is no longer a hypothesis: query_local proves, for every configuration, fuel and limit, that a statement text the model accepts completely is parsed to the same tree and left exactly in front of a following `;` (every function of the Pratt model and of the query model repeats a successful run when `; ...` is appended: two simultaneous fuel inductions), and script_concat_queries instantiates the loop theorem with the real loop model and the real token classification.",
    level_note="Trusted: Lean kernel; hand-written loop model (validated exhaustively on short sequences); locality of each real statement parser is a hypothesis, checked by the follower oracle on corpus texts only. COPY ... FROM STDIN is excluded as the property says.",
    technique="Lean 4 loop theorem under a locality hypothesis + exhaustive loop differential + follower oracle over every corpus statement kind",
    trusted_base=["Model/Stmts.lean mirrors parse_statements"],
    assumptions=["statement parsers are local on the statements considered (hypothesis LocalOn)"],
)

PROPS["C16"] = dict(
    lean=["SqlVerif.Props.C16"],
    namespaces=["SqlVerif.Props.C16"],
    required=["SqlVerif.Props.C16.balanced", "SqlVerif.Props.C16.preorder", "SqlVerif.Props.C16.postorder",
              "SqlVerif.Props.C16.exactly_once", "SqlVerif.Props.C16.break_stops", "SqlVerif.Props.C16.no_break_complete",
              "SqlVerif.Props.C16.visit_eq_visitmut", "SqlVerif.Props.C16.identity_mut",
              "SqlVerif.Props.C16.node_kinds_hooked", "SqlVerif.Props.C16.relation_positions_hooked",
              "SqlVerif.Props.C16.relation_positions_consistent", "SqlVerif.Props.C16.hooks_known",
              "SqlVerif.Props.C16.hooked_vec_trace", "SqlVerif.Props.C16.each_positions_consistent",
              "SqlVerif.Props.C16.relation_hooks_on_object_names", "SqlVerif.Props.C16.relation_spec_typed",
              "SqlVerif.Props.C16.delete_targets_hooked_each"],
    corr=["visit"],
    unique_output={"visit": True},
    oracle=["C16"],
    level_text="Proved in Lean for every tree and every visitor (a visitor = the set of callback indices at which it returns Break): the traversal that derive(Visit, VisitMut) generates (type-level pre hook, fields in declaration order each wrapped in its field-level pre/post hook - for a field written Vec<..> each element in order wrapped in it instead (hooked_vec_trace) -, type-level post hook; Option/Vec/Box transparent; ? on ControlFlow) delivers a well-nested callback sequence in which every post closes the pre of the same node; the pre callbacks are exactly the hooked nodes and hooked fields of the tree in pre-order, each exactly once (positions identified by path); Break at callback k delivers exactly the first k+1 callbacks of the complete walk; the mutating walk with an identity visitor delivers the same sequence and returns an equal tree. Which types and fields carry which hook is not modelled by hand: the AST schema (265 types, every visit(with=...) attribute, the manual impls) is re-extracted from the Rust sources with syn on every run and the kernel re-decides that Expr/Statement/Query/TableFactor carry their hooks and that the relation positions of the specification table, the Vec<ObjectName> targets of a multi-table DELETE included, are fields of type ObjectName / Vec<ObjectName> carrying the relation hook, the Vec ones per element exactly where the derive does so. The model of the derive is tied to the code by running the real Visit and VisitMut walks on every distinct parsed corpus statement and on AST-first generated statements (random documents of the schema turned into real values by the crate's Deserialize, every Statement variant in turn), each reflected into the model through a serde Serializer and cross-checked against the schema, with Break at none/first/second/middle/last (thorough: every) callback. Because the theorems pin the callback sequence uniquely, a disagreement is a violation at that input. The relation-coverage oracle finds every FROM/JOIN/DML target position by pattern matching on the real AST and requires a pre_visit_relation callback for each (elements of a Vec position in order).",
    level_note="Trusted: Lean kernel; translator/schema.rs (attributes read syntactically, cfg evaluated for features std+serde+visitor); the hand-written model of derive/src/lib.rs and of the container impls (validated on corpus trees only, largest walk about 200 callbacks); reflection through derive(Serialize) shows fields in declaration order. The general mutating walk (callbacks that restructure the tree) is modelled with fuel but only its identity instance is tied to the code. The relation-position table is a hand-written spec (Props/C16.lean and, independently, pattern matching in harness c16.rs).",
    technique="Lean 4 generic traversal theorems (all trees, all break points) + kernel-decided side conditions on the AST schema regenerated from source (syn) + real Visit/VisitMut callback trace differential + relation-coverage oracle",
    trusted_base=["translator/schema.rs attribute and cfg extraction", "Model/Visit.lean mirrors derive/src/lib.rs and src/ast/visitor.rs:46-118 (hand-written)",
                  "harness/reflect.rs: derive(Serialize) announces fields in declaration order"],
    assumptions=["Gen/Schema.lean is the schema of the crate as built from /repo's working tree with features std, serde, visitor"],
)

PROPS["C17"] = dict(
    lean=["SqlVerif.Props.C17"],
    namespaces=["SqlVerif.Props.C17"],
    required=["SqlVerif.Props.C17.de_ser", "SqlVerif.Props.C17.de_ser_named", "SqlVerif.Props.C17.ser_injective",
              "SqlVerif.Props.C17.equal_trees_equal_documents", "SqlVerif.Props.C17.schema_serde_safe",
              "SqlVerif.Props.C17.no_serde_attributes", "SqlVerif.Props.C17.statement_roundtrip",
              "SqlVerif.Props.C17.statement_list_roundtrip", "SqlVerif.Props.C17.token_list_roundtrip"],
    corr=["serde"],
    unique_output={"serde": False},
    oracle=["C17"],
    level_text="Proved in Lean for every schema, type and value: in the data model that derive(Serialize, Deserialize) without serde attributes implements against serde_json (named structs as objects, newtype/tuple/unit structs, externally tagged enums with unit variants as strings, Option as null-or-value, Vec and tuples as arrays, Box transparent, strings, chars, bools, integers) decoding the document of a well-typed value returns the value, for every fuel above the size of the value, provided the schema satisfies a decidable condition (no serde attribute, no float or unclassified field type, no Option around a type that can serialise to null such as Option<Option<_>> / Option<()> / Option<UnitStruct>, distinct field names per struct/variant and distinct variant names per enum); corollary: different values have different documents. The condition is re-decided by the kernel on the schema of all 265 AST/token types (including the 768-variant Keyword enum) re-extracted from the Rust sources with syn on every run. The model's serialiser is tied to the derived Serialize impls by comparing, for every distinct parsed corpus statement, every AST-first generated statement (random documents of the schema through the crate's Deserialize, every Statement variant in turn) and every distinct token vector, the model's document of the reflected value with serde_json::to_value of the real value; the derived Deserialize impls are exercised directly: from_value(to_value(x)) == x and from_str(to_string(x)) == x on every parsed corpus statement list x 13 dialects and every token vector.",
    level_note="Trusted: Lean kernel; translator/schema.rs; serde/serde_json themselves (their behaviour IS the modelled data model; validated on the serialising side by the stream); the model's decoder `de` is a reference decoder for the data model, the real Deserialize impls are not compared with it case by case but only through the real round trip (oracle). Values are those reachable by parsing: the theorem covers all well-typed values, the tie covers corpus values. f32/f64 and 128-bit integers are outside the model (none occur today; their appearance breaks the side condition).",
    technique="Lean 4 generic serde/JSON round-trip theorem (all schemas satisfying a decidable condition) + kernel-decided condition on the schema regenerated from source (syn) + model-vs-serde_json document differential + real round-trip oracle",
    trusted_base=["translator/schema.rs", "Model/Serde.lean mirrors serde_derive's externally tagged representation and serde_json's Value mapping (hand-written)",
                  "serde, serde_json crates"],
    assumptions=["Gen/Schema.lean is the schema of the crate as built from /repo's working tree with features std, serde, visitor",
                 "every value of an AST type is a well-typed value of the schema (no float/128-bit payloads: decided)"],
)

ESCAPE_TB = ["Model/Escape.lean mirrors EscapeQuotedString / EscapeEscapedStringLiteral / EscapeUnicodeStringLiteral, Display for Value (string kinds), DollarQuotedString, Ident and Word by hand (tied by stream lits, print half)",
             "Model/Scan.lean and Model/Tokenizer.lean mirror src/tokenizer.rs by hand (tied by streams tok and lits)",
             "Unicode predicates, the upper-casing of make_word and dialect char predicates are model parameters (real values sent per request)"]

PROPS["C06"] = dict(
    lean=["SqlVerif.Props.C06"],
    namespaces=["SqlVerif.Props.C06"],
    required=["SqlVerif.Props.C06.escaped_roundtrip", "SqlVerif.Props.C06.escaped_roundtrip_token",
              "SqlVerif.Props.C06.hex4_roundtrip", "SqlVerif.Props.C06.hex6_roundtrip",
              "SqlVerif.Props.C06.unicode_roundtrip", "SqlVerif.Props.C06.unicode_roundtrip_token",
              "SqlVerif.Props.C06.quoted_roundtrip_partial", "SqlVerif.Props.C06.single_quoted_token_partial",
              "SqlVerif.Props.C06.doubled_quote_collapses", "SqlVerif.Props.C06.backslash_quote_unbalanced",
              "SqlVerif.Props.C06.backslash_dialect_reinterprets", "SqlVerif.Props.C06.leading_quote_opens_triple",
              "SqlVerif.Props.C06.verbatim_single_iff", "SqlVerif.Props.C06.verbatim_triple_iff",
              "SqlVerif.Props.C06.verbatim_kinds_partial", "SqlVerif.Props.C06.national_token_iff",
              "SqlVerif.Props.C06.national_quote_breaks", "SqlVerif.Props.C06.national_backslash_breaks",
              "SqlVerif.Props.C06.dollar_roundtrip_partial", "SqlVerif.Props.C06.dollar_trailing_breaks",
              "SqlVerif.Props.C06.dollar_tag_inside_breaks", "SqlVerif.Props.C06.dollar_partial_tag_breaks",
              "SqlVerif.Props.C06.ident_roundtrip_partial", "SqlVerif.Props.C06.ident_doubled_quote_collapses",
              "SqlVerif.Props.C06.bracket_close_breaks", "SqlVerif.Props.C06.fullStatement_false"],
    corr=["lits"],
    unique_output={"lits": False},
    oracle=["C06"],
    level_text="Proved in Lean, for ALL payloads (lists of code points) and all continuations that do not start with the closing quote, on hand-written executable models of the four escape printers of value.rs and of Display for Value / DollarQuotedString / Ident against the literal scanners of the tokenizer model: (1) E'..' : scanning the printed text gives the payload back, with no condition on the payload (a literal NUL is copied; the printer never emits an escape denoting NUL), and through next_token in EVERY dialect row and both un-escape modes; (2) U&'..' : the same for every payload whose non-ASCII code points are scalar values (every Rust char), with hex4/hex6 round trips over all values, through next_token in every dialect with supports_unicode_string_literal; (3) partial: the quote-doubling printer ('..', \"..\", quoted identifiers) gives the payload back under the decidable predicate CleanQ (no two adjacent quotes, no backslash directly before a quote, no backslash at all in a backslash-escape dialect), through next_token for '..' in every dialect (in triple-quote dialects only if the payload does not start with a quote); the kinds printed verbatim come back IFF the payload has no quote (N''/X'': and no backslash, in every dialect, proved as an iff through next_token; triple-quoted: no run of three quotes, no trailing quote); dollar-quoted and [..] / \"..\" / backquote identifiers under explicit predicates. Each way the full property fails on the current code has a kernel-checked witness (payload '' collapses, \\' unbalanced, backslash re-interpreted, leading quote opens a triple-quoted string, N'a'b', N'a\\nb', trailing quote in triple-quoted, $ at the end / tag inside / partial tag match in dollar quoting, \"\" identifier, ] in a bracket identifier); FullStatement is proved FALSE. The models are tied to the code by stream lits: for every payload of G-payload (all strings of length <= 2, thorough <= 3, over 19 characters incl. all quote characters, backslash, $, brackets, LF, CR, NUL, NBSP, non-ASCII and astral, plus quote/backslash/dollar patterns and random longer strings) x 32 literal/identifier forms: real to_string() vs model printer, and real Tokenizer vs model tokenizer on the printed text under 5 (thorough: 13) dialects x both modes. Direct oracle on the real code: tokens_d(print(k(p))) == [k(p)] and parse_expr gives the node back, for every dialect that lexes the trivial instance.",
    level_note="Trusted: Lean kernel (axioms propext, Classical.choice, Quot.sound); the hand-written printer and scanner models (validated by the differential on the generated payloads only); dialect_of! modelled as a test on the built-in dialect's name. Partial: no theorem at next_token level for \"..\" strings, byte/raw/triple kinds, dollar quoting and identifiers (dispatch on dialect and delimiter sets; decided by the oracle); the converse (necessity) of CleanQ / cleanDollar / cleanTag is shown only by witnesses. The full property is FALSE on the current tree; every failing (kind, payload feature, dialect class) found by the oracle is a known finding, anything else is a violation. {:06X} is modelled with exactly six digits (exact for every char; beyond 2^24 Rust would print more).",
    technique="Lean 4 proofs by induction on the payload against structurally recursive scanner models (all payloads; iff for verbatim kinds) + kernel-decided negation witnesses + print/tokenize differential on an exhaustive short-payload set + direct round-trip oracle on the real code",
    trusted_base=ESCAPE_TB,
    assumptions=["Gen/Dialects.lean and Gen/Keywords.lean are the tables of the crate as built from /repo's working tree",
                 "payload characters are Rust chars (scalar values); the continuation after a literal does not start with its closing quote"],
)

PROPS["C20"] = dict(
    lean=["SqlVerif.Props.C20"],
    namespaces=["SqlVerif.Props.C20"],
    required=["SqlVerif.Props.C20.raw_body_exact", "SqlVerif.Props.C20.raw_body_exact_quote",
              "SqlVerif.Props.C20.raw_body_exact_prefixed", "SqlVerif.Props.C20.raw_body_exact_single",
              "SqlVerif.Props.C20.raw_body_exact_ident", "SqlVerif.Props.C20.print_raw_identity",
              "SqlVerif.Props.C20.print_raw_identity_ident", "SqlVerif.Props.C20.print_raw_source",
              "SqlVerif.Props.C20.modes_same_shape", "SqlVerif.Props.C20.modes_same_shape'",
              "SqlVerif.Props.C20.modes_same_acceptance", "SqlVerif.Props.C20.escaped_ignores_raw_mode",
              "SqlVerif.Props.C20.escaped_ignores_raw_mode_general", "SqlVerif.Props.C20.fullStatement_false"],
    corr=["lits", "tok"],
    unique_output={"lits": False, "tok": False},
    oracle=["C20"],
    level_text="Proved in Lean on the tokenizer and printer models, for every dialect row, arbitrary character predicates and every input: (raw_body_exact) with un-escaping off, the payload returned by tokenize_quoted_string (single and triple form), tokenize_single_or_triple_quoted_string and parse_quoted_ident is exactly the source text between the delimiters (opening ++ payload ++ closing ++ rest = input), and the literal branches of next_token ('..', \"..\", triple-quoted, B/R/N/X prefixed, delimited identifiers) build their token from that slice; (print_raw_identity) EscapeQuotedString is the identity on EVERY payload in the image of the raw-mode scanner, with and without backslash escapes (induction along the scanner's run: quotes occur only as doubled pairs or behind a backslash, exactly the two cases the printer's look-ahead leaves alone), hence printing a raw-mode '..'/\"..\" literal or quoted identifier reproduces its source slice byte for byte, and the verbatim kinds do so by definition; (modes_same_shape) tokenize with and without un-escaping returns the same located error, or token lists of equal length with equal locations and tokens equal except for the payloads of the kinds read by tokenize_quoted_string / parse_quoted_ident (E'..', U&'..', dollar-quoted strings, numbers and words are equal in full), proved per branch of next_token and lifted through the loop. Negation with kernel-checked witnesses: E'..' and U&'..' un-escape whatever the option says (the two branches never read it), so the token-level FullStatement is proved FALSE. Tie: streams tok and lits compare the real tokenizer with the model in both modes, lits also the printers. Partial: the tree-level claims (printing the parsed tree reproduces the bodies; trees of the two modes differ only in payloads) are decided by the oracle on the real code (corpus + generated literals with doubled quotes, backslashes and escapes in every literal form x 13 dialects).",
    level_note="Trusted: Lean kernel (axioms propext, Classical.choice, Quot.sound); the hand-written tokenizer and printer models (validated by the differentials only on generated and corpus inputs). Not a theorem: anything about the parser (it inspects payload text at a few sites such as parse_literal_char and introducers) -- oracle only. E'..'/U&'..' ignoring the option is a known finding of the current tree.",
    technique="Lean 4 proofs (functional induction along the scanner runs; per-branch simulation of next_token in both modes lifted through the tokenizer loop) + kernel-decided negation witnesses + tokenizer/printer differentials in both modes + raw-body / print / tree-shape oracles on the real code",
    trusted_base=ESCAPE_TB,
    assumptions=["Gen/Dialects.lean and Gen/Keywords.lean are the tables of the crate as built from /repo's working tree"],
)

PRATT_TB = ["Model/Pratt.lean mirrors src/parser/mod.rs parse_subexpr/parse_prefix/parse_infix/parse_not/parse_in/parse_between and the precedence code of src/dialect/{mod,postgresql,snowflake,mysql}.rs by hand (tied by streams prec, chains, ladder)",
            "dialect_of! is modelled as a test on the built-in dialect's name; tree nodes of the model keep the tokens they consumed; the S-expression compared with the real AST forgets them"]

PROPS["C12"] = dict(
    lean=["SqlVerif.Props.C12", "SqlVerif.Props.C12Query"],
    namespaces=["SqlVerif.Props.C12", "SqlVerif.Props.C12Query"],
    required=["SqlVerif.Props.C12.limit_monotone", "SqlVerif.Props.C12.limit_monotone_expr",
              "SqlVerif.Props.C12.limit_monotone_all", "SqlVerif.Props.C12.limit_stable",
              "SqlVerif.Props.C12.limit_error_is_real", "SqlVerif.Props.C12.limit_tree_is_real",
              "SqlVerif.Props.C12.spec_limit_monotone", "SqlVerif.Props.C12.spec_limit_swallowed_error",
              "SqlVerif.Props.C12.spec_limit_swallowed_tree", "SqlVerif.Props.C12.limit_swallowed",
              "SqlVerif.Props.C12.spec_limit_propagated", "SqlVerif.Props.C12.fullStatement_fragment",
              "SqlVerif.Props.C12Query.query_limit_only_rle", "SqlVerif.Props.C12Query.query_limit_only_rle_all",
              "SqlVerif.Props.C12Query.query_limit_monotone", "SqlVerif.Props.C12Query.query_limit_ok_below",
              "SqlVerif.Props.C12Query.query_limit_error_is_real",
              "SqlVerif.Props.C12Query.dml_limit_only_rle", "SqlVerif.Props.C12Query.dml_limit_monotone",
              "SqlVerif.Props.C12Query.dml_limit_ok_below", "SqlVerif.Props.C12Query.dml_limit_error_is_real",
              "SqlVerif.Props.C12Query.dml_column_type_limit_only_rle",
              "SqlVerif.Props.C12Query.datatype_limit_only_rle", "SqlVerif.Props.C12Query.datatype_limit_monotone",
              "SqlVerif.Props.C12Query.query_script_limit_only_rle", "SqlVerif.Props.C12Query.query_script_limit_monotone",
              "SqlVerif.Props.C12Query.query_script_limit_ok_below",
              "SqlVerif.Props.C12Query.dml_script_limit_only_rle", "SqlVerif.Props.C12Query.dml_script_limit_monotone",
              "SqlVerif.Props.C12Query.dml_script_limit_ok_below",
              "SqlVerif.Props.C12Query.expr_limit_irrelevant_above", "SqlVerif.Props.C12Query.limit_irrelevant_above",
              "SqlVerif.Props.C12Query.dml_limit_irrelevant_above",
              "SqlVerif.Props.C12Query.query_script_limit_irrelevant_above",
              "SqlVerif.Props.C12Query.dml_script_limit_irrelevant_above",
              "SqlVerif.Props.C12Query.query_never_rle_above", "SqlVerif.Props.C12Query.dml_never_rle_above",
              "SqlVerif.Props.C12Query.fullStatement_query_fragment"],
    corr=["ladder", "queries", "dml"],
    unique_output={"ladder": False},
    oracle=["C12"],
    level_text="Proved in Lean on the executable model of the Pratt expression parser with its recursion counter (every parse_subexpr keeps one level, parse_prefix needs a free level for the typed-string probe behind maybe_parse, ::type takes one in parse_data_type), for EVERY configuration record, fuel, context precedence, token list and limits n <= m: the outcome under n is the limit error or is identical (same tree and rest, or the same error message) to the outcome under m (limit_monotone, for all five functions of the mutual block), hence an outcome that is not the limit error is the outcome under every larger limit (limit_stable), a syntax error reported under a small limit is the syntax error of the unlimited run and a tree returned under a small limit is the tree of the unlimited run. The proof is a simultaneous induction on the fuel with the invariant 'a run under n hits the limit or is step for step the run under m'; it goes through because the model contains no place where the limit error of a sub-parse is turned into anything else - the one speculative parse of the fragment (maybe_parse(parse_data_type) at the head of parse_prefix) passes RecursionLimitExceeded on, as the code does since the maybe_parse fix. Why that matters is proved on an abstract language of backtracking parsers with a depth guard: programs built with the propagating maybe_parse are limit-monotone (spec_limit_monotone), for the swallowing one (any Err => no match, the behaviour before the fix) there are kernel-checked counterexamples in which a small limit yields a syntax error, resp. silently another tree (limit_swallowed). The model is tied to the code by stream ladder: parenthesis / NOT / unary / right- and left-nested operands / IN lists / ANY / BETWEEN / LIKE / AT TIME ZONE / IS DISTINCT FROM / casts / broken nests / random nested expressions and their damaged variants x 13 dialects x limits (quick 13 limits 0..50, thorough every limit 0..60), real outcome vs model. Partial: the theorem covers the expression fragment; the whole grammar (every statement kind, every remaining error-discarding site) is decided on the real code by the limit-ladder oracle over every accepted corpus (text, dialect) pair and its truncation before the last token: outcome(n) must be RecursionLimitExceeded or equal to outcome(1000). Query and statement fragments (Props/C12Query.lean; models Model/Query.lean and Model/Dml.lean with the parse_statements loop, column types through Model/DataType.lean, tied by the streams queries and dml): for EVERY configuration record, fuel, token list and limits L <= L' the outcome of parse_statement (query statements; INSERT / UPDATE / DELETE / CREATE TABLE / DROP TABLE / VALUES) and of a script under L is the limit error or is identical to the outcome under L' - a tree accepted under L is the tree under every larger limit, a text accepted under L' gives under a smaller limit the same tree or exactly RecursionLimitExceeded, never another tree or a syntax error (*_limit_only_rle, *_limit_monotone, *_limit_ok_below, *_limit_error_is_real); no side condition is needed because the error-discarding sites of the fragment (maybe_parse around the derived table of parse_table_factor, the alias behind it) are modelled as the current code behaves: the limit error is passed on before any other error is replaced; the whole data-type parser of Model/DataType.lean (every recursive arm, any nesting) is limit-monotone as well (datatype_limit_only_rle). Moreover the limit is irrelevant beyond the nesting a text can contain: with the explicit bound B(ts) = |ts| + 3 (expressions |ts| + 2) every limit >= B gives the same outcome and never the limit error (limit_irrelevant_above, dml_limit_irrelevant_above, the script forms, *_never_rle_above), since every recursion level a run holds is paid for by a consumed token except the levels of parse_statement, parse_query / parse_subexpr and the free level of parse_prefix.",
    level_note="Trusted: Lean kernel (axioms propext, Quot.sound); the hand-written Pratt model (validated by the differentials on generated chains and nests only). Outside the expression fragment there is no theorem: sites that still discard an error of a recursive sub-parse (parse_set `if let Ok(expr) = self.parse_expr()`, SET TIME ZONE `match self.parse_expr() { Ok.., _ => expected }`, parse_pg_alter_role, the deferred error in parse_duckdb_struct_type_def) are found by the oracle and are known findings of the current tree; a new signature is a violation. The oracle compares with limit 1000, not with 'no limit': inputs whose unlimited parse needs more than 1000 levels are skipped (none in the corpus).",
    technique="Lean 4 proof (simultaneous fuel induction: limit-monotonicity of the mutual Pratt model; abstract backtracking-combinator theorem with kernel-decided counterexamples for the swallowing variant) + limit-ladder differential on the real parse_expr + whole-grammar limit-ladder oracle on the corpus",
    trusted_base=PRATT_TB,
    assumptions=["Gen/Dialects.lean and Gen/Keywords.lean are the tables of the crate as built from /repo's working tree",
                 "the input of the model is the non-whitespace token list the real tokenizer produced"],
)

EXPRPRINT_TB = PRATT_TB + ["Model/ExprPrint.lean mirrors impl Display for Expr (src/ast/mod.rs), BinaryOperator/UnaryOperator (src/ast/operator.rs), Value (src/ast/value.rs) and Ident on the expression fragment by hand, as a list of (token, blank-before, text) pieces (tied by stream exprprint: text byte for byte; printed tokens against the real tokenizer where the real round trip holds)",
                           "Model/Escape.lean escapeQ (escape_quoted_string) is reused for quoted identifiers and '..' / \"..\" literals"]

PROPS["C01"] = dict(
    lean=["SqlVerif.Props.C01", "SqlVerif.Props.C01Query", "SqlVerif.Props.C01Dml"],
    namespaces=["SqlVerif.Props.C01", "SqlVerif.Props.C01Query", "SqlVerif.Props.C01Dml"],
    required=["SqlVerif.Props.C01.norm_invariant", "SqlVerif.Props.C01.printer_emits_normal_forms",
              "SqlVerif.Props.C01.reparse_fixpoint_sub", "SqlVerif.Props.C01.reparse_fixpoint_partial",
              "SqlVerif.Props.C01.reparse_fixpoint_partial'", "SqlVerif.Props.C01.print_idempotent_partial",
              "SqlVerif.Props.C01.showToks_norm", "SqlVerif.Props.C01.sexp_norm",
              "SqlVerif.Props.C01.unary_minus_minus_lexsafe", "SqlVerif.Props.C01.ilike_any_escape_spaced",
              "SqlVerif.Props.C01Query.query_script_reparse_partial",
              "SqlVerif.Props.C01Query.fixpoint_instances",
              "SqlVerif.Props.C01Query.all_as_identifier_not_fixpoint",
              "SqlVerif.Props.C01Query.query_norm_invariant",
              "SqlVerif.Props.C01Query.query_printer_emits_normal_forms",
              "SqlVerif.Props.C01Query.query_reparse_fixpoint_sub",
              "SqlVerif.Props.C01Query.query_reparse_fixpoint_partial",
              "SqlVerif.Props.C01Query.query_reparse_fixpoint_normal",
              "SqlVerif.Props.C01Query.query_script_fixpoint_partial",
              "SqlVerif.Props.C01Query.sampleN_hyps",
              "SqlVerif.Props.C01Query.rewritten_shapes_reparse_to_norm",
              "SqlVerif.Props.C01Dml.stmt_norm_invariant",
              "SqlVerif.Props.C01Dml.stmt_norm_invariant_no_double_eq",
              "SqlVerif.Props.C01Dml.stmt_printer_emits_normal_forms",
              "SqlVerif.Props.C01Dml.stmt_reparse_fixpoint_sub",
              "SqlVerif.Props.C01Dml.stmt_reparse_fixpoint_partial",
              "SqlVerif.Props.C01Dml.stmt_reparse_fixpoint_printable",
              "SqlVerif.Props.C01Dml.stmt_reparse_fixpoint_normal",
              "SqlVerif.Props.C01Dml.stmt_print_idempotent_partial",
              "SqlVerif.Props.C01Dml.stmt_fixpoint_after_one_step",
              "SqlVerif.Props.C01Dml.stmt_script_reparse_partial",
              "SqlVerif.Props.C01Dml.stmt_script_fixpoint_partial",
              "SqlVerif.Props.C01Dml.sampleI_hyps", "SqlVerif.Props.C01Dml.sampleU_hyps",
              "SqlVerif.Props.C01Dml.sampleC_hyps", "SqlVerif.Props.C01Dml.sampleD_hyps",
              "SqlVerif.Props.C01Dml.sampleX_hyps",
              "SqlVerif.Props.C01Dml.rewritten_shapes_reparse_to_norm",
              "SqlVerif.Props.C01Dml.rewritten_temp_reparse_to_norm",
              "SqlVerif.Props.C01Dml.rewritten_nocols_reparse_to_norm",
              "SqlVerif.Props.C01Dml.rewritten_type_number_reparse_to_norm",
              "SqlVerif.Props.C01Dml.rewritten_swallowed_reparse_to_norm",
              "SqlVerif.Props.C01Dml.custom_type_reparse_to_norm",
              "SqlVerif.Props.C01Dml.custom_type_spelling_observed",
              "SqlVerif.Props.C01Dml.assignment_eq_observed"],
    corr=["exprprint", "chains", "queries"],
    unique_output={"exprprint": False, "chains": False, "queries": False},
    oracle=["C01"],
    level_text="Partial. Proved in Lean on the executable models of the Pratt expression parser and of Display for the same expression fragment (identifiers in every quoting style, compound identifiers, numbers, '..' and \"..\" strings, placeholders, TRUE/FALSE/NULL, parentheses, NOT / unary sign / PostgreSQL prefix operators, every regular binary operator incl. MySQL DIV and custom operators, ANY/ALL/SOME, the IS family, IS [NOT] DISTINCT FROM, [NOT] IN (list), [NOT] BETWEEN, [NOT] LIKE/ILIKE/SIMILAR TO/RLIKE/REGEXP with ESCAPE, AT TIME ZONE, ::type, postfix !), for EVERY configuration record, fuel, recursion limit and token list: (norm_invariant) on two token lists with the same observable image - of a word only its keyword and the leading-underscore flag, == and = one operator - the parser takes the same branches, consumes equally many tokens and builds trees with the same image (simultaneous fuel induction over the mutual block, one lemma per head function); (printer_emits_normal_forms) every token the parser stored in a tree is, token by token, the token the printer emits for it up to keyword spelling (second fuel induction); hence (reparse_fixpoint_partial) if parse_expr accepts the whole token list and returns a printable tree e, parse_expr on the printed token list, with the SAME fuel and limit, returns e with its tokens in printed normal form, a tree whose S-expression - what the real AST holds - is that of e; (print_idempotent_partial) the tree read back prints to the same tokens and the same text. Normal forms mirrored from the code: == prints =, keywords and type names print in table spelling, TRUE/FALSE in lower case, an ESCAPE operand prints as '..' without escaping, unary + - ~ @ |/ ||/ !! are glued to their operand. The theorem is at TOKEN level; that the printed TEXT lexes back to the printed tokens is decided by the exprprint stream and the oracle; two former counterexamples (`- - a` printed `--a`, a comment; `a ILIKE ANY b ESCAPE '!'` printed `ANYb`) were repaired in /repo with fix: commits and are kept as positive kernel-checked witnesses through the tokenizer model. Ties: stream exprprint (real parse_expr(tokens).to_string() vs model text, byte for byte, on every atom form x prefix operators x parentheses, every operator spelling, all ordered operator pairs, random nested expressions, 13 dialects; and real tokenizer on the printed text vs model printed tokens wherever the real round trip holds, the other lines being counted per root node as lex-unsafe) and stream chains (parser). The whole grammar (every statement kind, text level, 13 dialects x 4 option sets) is decided by the round-trip oracle on the real code: parse(print a) == [a], print idempotent, joined script. Query fragment (Model/Query.lean + Model/QueryPrint.lean: parse_statement for query statements, parse_query, set-operation climbing over real operands, parse_select with projection / FROM with aliases, joins and derived tables / WHERE / GROUP BY / HAVING, ORDER BY, LIMIT / OFFSET incl. the comma form; tied by stream queries: S-expression of the real tree and real to_string() text for every accepted line, 13 dialects): proved for every configuration that printed statements which re-parse one by one re-parse as a script to the same trees (query_script_reparse_partial, from the locality theorem of C11); the statement-level fixpoint is now a THEOREM over all inputs for the shapes Display prints token by token: (query_norm_invariant) on two token lists with the same image qc - identifiers, numbers, strings literally; of a keyword token its keyword, quote style and whether it is spelled `from` / starts with `_` / contains `.`; == and = one operator - every function of the query model takes the same branches and builds trees with the same image (one lemma per function, fuel induction over the mutual block); (query_printer_emits_normal_forms) the printed tokens are the consumed ones up to qc; hence (query_reparse_fixpoint_partial, _sub with a continuation, query_script_fixpoint_partial for scripts) for EVERY dialect record, option value, fuel, limit and token list: if parse_statement accepts ts completely with tree q, then parse_statement on the printed tokens, with the SAME fuel and limit, returns q.norm - q with every stored token replaced by the printed one - and q.norm has the S-expression of q. Side conditions, all decidable: q.printable (every expression printable in the sense above; LIMIT/OFFSET in printing order), q.normal (an alias is absent or written with AS; no SELECT ALL; joins without INNER/OUTER; no trailing comma; at most LIMIT e then OFFSET e), and LexOk ts (every keyword token is as a lexer makes it: unquoted, no leading underscore, no period, spelled `from` up to case exactly when it is FROM - the parser inspects word spellings in `SELECT from` and in BigQuery table names). For the shapes Display re-writes (alias without AS, SELECT ALL, INNER/OUTER, trailing commas, LIMIT ALL, OFFSET..LIMIT, LIMIT a, b) the fixpoint stays a def (QueryReparseFixpoint), decided by kernel evaluation (fixpoint_instances, rewritten_shapes_reparse_to_norm: they too re-parse to q.norm) and by the reparse statistics of the stream; inside the fragment the current code is not a fixpoint for `SELECT ALL ALL a` (prints `SELECT ALL AS a`), kept as a kernel-checked witness. Statement fragment (Model/Dml.lean + Model/DmlPrint.lean: parse_statement dispatch, INSERT, UPDATE, DELETE, CREATE TABLE with column definitions, options and data types, DROP TABLE, VALUES; tied by stream dml, see C11/C05): the same three theorems one layer up, for EVERY configuration record, fuel, limit and token list: (stmt_norm_invariant) on two token lists with the same image qc the statement parser takes the same branches and builds trees with the same image, given that the column types of a CREATE TABLE are keyword types and, for UPDATE, that the second list has `=` where the first has `=` - both conditions are needed, kernel-checked witnesses custom_type_spelling_observed (`a year` / `a YEAR`: a custom type name is stored with its spelling) and assignment_eq_observed (`SET a == 1` is rejected by parse_assignment while the expression parser reads == as =); (stmt_printer_emits_normal_forms) the printed tokens are the consumed ones up to qc; (stmt_reparse_fixpoint_partial, _sub, stmt_script_fixpoint_partial) if parseStmt accepts ts completely with tree s then parseStmt on the printed tokens, with the SAME fuel and limit, returns s.norm, which has the S-expression of s, and the `; `-joined print of a script of such statements re-parses through the real loop model to the list of normal forms. Side conditions, all decidable: s.printableQ (every expression printable, LIMIT/OFFSET in printing order, column types are non-recursive keyword types - numbers, ENUM/SET labels and [] suffixes allowed, custom type names not; implied by C05's Stmt.printable), s.normal (beyond Query.normal: ROW on every VALUES row or on none; no empty `()` column list; no trailing commas; no FROM swallowed by UPDATE in dialects without UPDATE..FROM; no LIMIT ALL in DELETE; TEMPORARY not TEMP; the column list of CREATE TABLE written; column types spelled as Display spells them up to keyword case, so `VARCHAR(010)` is excluded; no option keyword swallowed by a failed dialect test) and LexOk ts. For each excluded shape one instance is decided by kernel evaluation to re-parse to exactly s.norm, which is of the covered shape (rewritten_*_reparse_to_norm, custom_type_reparse_to_norm), and (stmt_fixpoint_after_one_step) for ANY accepted statement whose printed form re-parses to s.norm the normal form prints to the same tokens and re-parses to itself (norm is idempotent), so the fixpoint holds from the first print on; on the covered shapes (stmt_print_idempotent_partial) parse(show(parse(show s))) = parse(show s) literally; no statement of this fragment was found whose AST is not a fixpoint.",
    level_note="Trusted: Lean kernel (axioms propext, Classical.choice, Quot.sound); the hand-written parser and printer models (validated by the differentials on generated inputs only); Gen tables as dumped from the running crate. printable excludes four shapes whose printed token list is not a token-by-token image of the input (REGEXP RLIKE prints one operator, an ESCAPE operand written as a bare word or \"..\" prints as '..', :\"x\" loses its quotes, keyword tokens spelled with a leading underscore, which no lexer produces); they re-parse to the same S-expression (checked by evaluation in the theorem file and by the streams) but are outside the theorem. Not a theorem: LexSafe (text -> tokens) for the fragment - found failing by stream exprprint (lex-unsafe counts) and by the oracle; queries, statements, data types beyond the bare keyword (C18), functions, CASE/CAST, subqueries: oracle only. FullStatement is kept as a definition.",
    technique="Lean 4 proofs (parser respects a token equivalence: simultaneous fuel induction with per-head-function lemmas; printer emits the stored tokens up to that equivalence; uniqueness of a tree given its image and its yield) + kernel-decided text-level counterexamples through the tokenizer model + Display differential (text and printed tokens) + whole-grammar round-trip oracle",
    trusted_base=EXPRPRINT_TB,
    assumptions=["Gen/Dialects.lean and Gen/Keywords.lean are the tables of the crate as built from /repo's working tree",
                 "the input of the parser model is the non-whitespace token list the real tokenizer produced; printed text is compared as code points"],
)

PROPS["C05"] = dict(
    lean=["SqlVerif.Props.C05", "SqlVerif.Props.C05Query"],
    namespaces=["SqlVerif.Props.C05", "SqlVerif.Props.C05Query"],
    required=["SqlVerif.Props.C05.content_preserved_partial", "SqlVerif.Props.C05.content_preserved_expr",
              "SqlVerif.Props.C05.keywords_are_not_content", "SqlVerif.Props.C05.content_excluded_escape_word",
              "SqlVerif.Props.C05.content_quoted_placeholder_kept", "SqlVerif.Props.C05.loop_run",
              "SqlVerif.Props.C05.loop_consumes_all", "SqlVerif.Props.C05.script_consumes_all", "SqlVerif.Props.C05.no_statement_only_at_eof",
              "SqlVerif.Props.C05Query.query_content_preserved_partial",
              "SqlVerif.Props.C05Query.query_content_preserved_stmt",
              "SqlVerif.Props.C05Query.content_reordered_limit_comma",
              "SqlVerif.Props.C05Query.content_reordered_offset_limit"],
    corr=["exprprint", "stmts", "queries"],
    unique_output={"exprprint": False, "stmts": False, "queries": False},
    oracle=["C05"],
    level_text="Partial. Proved in Lean on the models of the Pratt expression parser and of Display for the same fragment (see C01), for EVERY configuration record, fuel, limit, context precedence and token list: if the parser accepts a prefix of the input and returns a printable tree e, the SEQUENCE (hence the multiset) of content tokens - identifiers with their quoting, numbers, string payloads, placeholders, the Content of the whole-grammar oracle - of the consumed prefix is exactly that of the printed token list of e: nothing lost, nothing invented, nothing reordered. It follows from yield (the tree holds exactly the consumed tokens, C04) and from the printer emitting the stored tokens one by one up to keyword spelling (second fuel induction, shared with C01). The two printable-excluded shapes that do change the content on the current code are kernel-checked witnesses: the bare-word operand of ESCAPE comes back as a string literal, the quotes of a quoted placeholder name (:\"x\") are dropped. For the statements loop (model of parse_statements, tied by stream stmts): a run that returns Ok is a derivation in which every token is consumed by a separator skip or handed to the statement parser, and for a script (script_consumes_all: a class that never recognises END, as the top-level loop since fix cc0dcb4) Ok is returned only when nothing but separators is left; only a block body (BEGIN .. END) stops directly after a complete statement at the keyword END. Ties: stream exprprint (real to_string vs model text; printed tokens vs the real tokenizer) and stream stmts. The whole grammar is decided by the content-bag oracle on the real code: for every accepted corpus (text, dialect) pair the bag of content tokens of the input (real tokenizer) equals that of the printed parse. Query fragment (models of parse_statement / parse_query / parse_select … and of Display for Query / Select / joins, tied by stream queries): for every configuration, fuel, limit and token list, if the modelled statement parser accepts a prefix and returns a printable query, the sequence of content tokens of the consumed prefix is exactly that of the printed token list (query_content_preserved_partial: yield for the query layer plus a second fuel induction; Display drops ALL / OUTER / INNER / trailing commas / LIMIT ALL, adds AS and respells keywords, none of which is content); printable excludes non-printable expressions and the two clause orders that Display reorders (`LIMIT a, b`, `OFFSET a LIMIT b`), for which the reordering is a kernel-checked witness (same bag, other order).",
    level_note="Trusted: Lean kernel (axioms propext, Classical.choice, Quot.sound); the hand-written parser, printer and loop models (validated by the differentials on generated inputs only). The theorem is at token level (printed tokens, not re-lexed text; see C01 for the text-level witnesses). Not a theorem: statement parsers (error-discarding sites that do not restore the cursor such as parse_identifier(..).ok(), greedy SHOW/identifier lists, quoted type modifiers): decided by the oracle only; failures there are findings with the statement variant and lost/invented token kind as signature.",
    technique="Lean 4 proof (content sequence preserved: corollary of yield and of the printer-faithfulness induction; derivation-style characterisation of the statements loop) + kernel-decided witnesses for the excluded shapes + Display / statements-loop differentials + whole-grammar content-bag oracle",
    trusted_base=EXPRPRINT_TB + ["Model/Stmts.lean mirrors parse_statements"],
    assumptions=["Gen/Dialects.lean and Gen/Keywords.lean are the tables of the crate as built from /repo's working tree",
                 "the input of the parser model is the non-whitespace token list the real tokenizer produced"],
)

PROPS["C18"] = dict(
    lean=["SqlVerif.Props.C18"],
    namespaces=["SqlVerif.Props.C18"],
    required=["SqlVerif.Props.C18.closing_brackets_balance", "SqlVerif.Props.C18.helper_roundtrip",
              "SqlVerif.Props.C18.dt_roundtrip", "SqlVerif.Props.C18.dt_roundtrip_alone",
              "SqlVerif.Props.C18.dt_roundtrip_before_rparen", "SqlVerif.Props.C18.dt_roundtrip_before_comma",
              "SqlVerif.Props.C18.dt_yield", "SqlVerif.Props.C18.print_injective", "SqlVerif.Props.C18.print_short",
              "SqlVerif.Props.C18.square_after_even_closers_differs", "SqlVerif.Props.C18.struct_then_comma_rejected",
              "SqlVerif.Props.C18.three_closers_rejected_where_gt_is_operator",
              "SqlVerif.Props.C18.string_modifier_stored_as_spelling", "SqlVerif.Props.C18.custom_string_modifier_roundtrips",
              "SqlVerif.Props.C18.string_modifier_spelling_lexes_back_partial",
              "SqlVerif.Props.C18.custom_string_modifier_roundtrips_lexer_partial",
              "SqlVerif.Props.C18.custom_string_modifier_backslash_quote_breaks",
              "SqlVerif.Props.C18.custom_quoted_word_modifier_quote_breaks",
              "SqlVerif.Props.C18.handbuilt_modifier_splits", "SqlVerif.Props.C18.handbuilt_empty_modifier_vanishes",
              "SqlVerif.Props.C18.datetime64_zone_quote_breaks", "SqlVerif.Props.C18.fullStatement_false"],
    corr=["dtparse", "dtprint"],
    unique_output={"dtparse": False, "dtprint": False},
    oracle=["C18"],
    level_text="Proved in Lean on a hand-written executable model of data-type printing and parsing (DT mirrors enum DataType constructor by constructor; printDT = the token sequence of Display for DataType after the lexer has merged adjacent `>` into `>>` - or into ONE custom operator for three or more where `>` is an operator character, i.e. PostgreSQL; parseDT mirrors parse_data_type / parse_data_type_helper branch by branch with the recursion guard, the MatchedTrailingBracket bookkeeping of expect_closing_angle_bracket, parse_struct_type_def, parse_struct_field_def, the DuckDB STRUCT(..)/UNION(..), ClickHouse Map/Tuple/Nested/Nullable/LowCardinality/Array(..)/FixedString/DateTime64 forms, ENUM/SET label lists, custom names with modifiers, the [] / [n] suffix loop and every dialect_of! test), for EVERY configuration record (the 13 dialects are instances), every environment, every fuel >= size t and recursion depth >= nesting depth, and UNBOUNDED nesting: (dt_roundtrip) parseDT (printDT t ++ rest) = ok (t, rest) for every Producible t and every follower that cannot extend the type, with the three contexts of the property as corollaries (alone; before `)` = CAST and last column; before `,` = column followed by a column); (closing_brackets_balance) the lexer regroups every maximal run of closing brackets on its total length, whatever the nesting, and (helper_roundtrip) the helper returns the value, the trailing-bracket flag `odd number of own closers and at least one outer closer` and exactly the unconsumed closers; (dt_yield, print_injective) the consumed prefix is the print of the result and different types print differently. Producible is a decidable predicate: which constructor exists under which dialect, numbers within u64, non-empty label lists, a custom name that is no type keyword of the dialect, modifiers lexing to one word, number or single-quoted string token that the parser stores back as the modifier itself (a string literal is stored in its SQL spelling, quotes included and embedded quotes doubled, since the fix 085e5ea), unnamed struct/tuple fields not starting with two words, and three exclusions that are DEFECTS of the code, each with a kernel-checked witness: a [] suffix after an even number of closing angle brackets (ARRAY<ARRAY<INT>>[] comes back as ARRAY<ARRAY<INT>[]>), an angle-bracket struct closed by the second half of `>>` in front of a comma (`unmatched > in STRUCT definition`), three or more closers under PostgreSQL (`>>>` is one operator token); custom modifiers: (string_modifier_stored_as_spelling) `foo('..')` is stored as the spelling for every payload, (custom_string_modifier_roundtrips) a string modifier whose spelling lexes to one string token of the same spelling comes back - `foo('a b')`, `foo('')`, and the doubled-quote quirk of the quote-doubling printer (`foo('a''''b')`) included - for every configuration, name and follower, and (string_modifier_spelling_lexes_back_partial, custom_string_modifier_roundtrips_lexer_partial) that lexing condition is discharged through the tokenizer model of C09 for every payload satisfying C06's CleanQ under any dialect row; further witnesses: a string modifier with a backslash in front of a quote (`foo('a\\''b')` without backslash escapes) is stored as `'a\\'b'`, which does not lex (residual defect of the quote-doubling printer), a quoted-word modifier with an embedded quote (`foo(\"a\"\"b\")`) is stored by Display for Word as `\"a\"b\"`, which does not lex either, hand-built modifier texts that are no single token split or vanish (Display prints modifiers verbatim; such values are not Producible and the parser never returns them), a quote in a DateTime64 zone ends the literal (through the tokenizer model); the unrestricted statement is proved FALSE. Tie: stream dtparse (real parse_data_type on real token vectors vs parseDT: 73 type keywords x 100 parameter/field tails, custom names, the nesting grid to depth 2/3 over 18 wrappers incl. `> >` spellings, truncations / deletions / replacements, the recursion-limit ladder, random nestings; x 13 dialects; values as S-expressions, error messages incl. the found token) and stream dtprint (AST-first: DataType values built directly, every constructor x parameter combination x nesting, real to_string() lexed by the real tokenizer vs printDT). Direct oracle on the real code: every value the real parser produces on the spelling corpus or reproduces from its own print, per dialect, stand-alone / as first of two columns / inside CAST.",
    level_note="Trusted: Lean kernel (axioms propext, Classical.choice, Quot.sound); the hand-written model (Model/DataType.lean), validated by the two differentials on generated inputs only; dialect_of! modelled as a test on the built-in dialect's name; Gen/Keywords.lean, Gen/Reserved.lean, Gen/Dialects.lean as dumped from the running crate (keyword classes, RESERVED_FOR_COLUMN_ALIAS, delimiter / custom-operator characters). Partial by design: the model is at TOKEN level - identifiers, ENUM/SET labels and the DateTime64 zone are tokens, so `printing this payload yields text that lexes back to this token` is C06's theorem for payloads satisfying its predicates and is outside C18's theorem (dtprint answers UNSUPPORTED for payloads with quotes/backslashes/non-ASCII: about 4% of quick lines); custom modifiers are SQL text printed verbatim, i.e. through a parameter (the real tokens of each modifier text travel with each request); that the spelling of a string modifier lexes back to its one token is proved through the tokenizer model for CleanQ payloads and checked by dtprint for the rest. A Nested column is name + type only (collation/options: UNSUPPORTED, the full ColumnDef grammar belongs to C01). When a DuckDB STRUCT( body fails AND `)` is missing the real code reports the `)` error instead of the body's: the model answers UNSUPPORTED there (0.1% of dtparse lines). `<>` (an empty element inside angle brackets, only with DataType::Unspecified, never producible) is outside retok. The unrestricted property is FALSE on the current tree; every failing (constructor, context, kind) found by the oracle is a known finding, anything else a violation.",
    technique="Lean 4 proof (compositional real-token stream `emit`, bridge lemma to the lexer by mutual structural recursion, per-arm parser lemmas, strong induction on the size of the type with the `[]` suffix list as an accumulator) + kernel-decided negation witnesses + parse differential on real token vectors + AST-first print differential + direct three-context round-trip oracle on the real code",
    trusted_base=["Display coverage inventory (translator/display.rs): the set of AST fields that no Display body mentions is compared with the committed expectation; a field that stops being printed is an open obligation", "Display coverage inventory (translator/display.rs): the set of AST fields that no Display body mentions is compared with the committed expectation; a field that stops being printed is an open obligation", "Model/DataType.lean mirrors src/ast/data_type.rs (Display) and src/parser/mod.rs parse_data_type* / parse_struct_* / parse_union_type_def / parse_click_house_* / parse_optional_* / parse_string_values / parse_object_name / parse_identifier by hand",
                  "dialect_of! is modelled as a test on the built-in dialect's name; Parser::new options (trailing_commas = supports_trailing_commas)",
                  "Driver/DataType.lean classifies keyword indices by name (checked on every printed word token) and refuses payloads outside C06's predicates",
                  "the lexing of raw custom-type modifiers is a parameter of the print model (real tokens sent per request)"],
    assumptions=["Gen/Keywords.lean, Gen/Reserved.lean and Gen/Dialects.lean are the tables of the crate as built from /repo's working tree",
                 "the input of the parser model is the non-whitespace token list the real tokenizer produced"],
)

# ---- statement fragment (Model/Dml.lean + DmlPrint.lean, stream `dml`): INSERT / UPDATE / DELETE / CREATE TABLE / DROP TABLE / VALUES
PROPS["C11"]["lean"].append("SqlVerif.Props.C11Dml")
PROPS["C11"]["namespaces"].append("SqlVerif.Props.C11Dml")
PROPS["C11"]["required"] += ["SqlVerif.Props.C11Dml.stmt_yield", "SqlVerif.Props.C11Dml.stmt_semi",
                             "SqlVerif.Props.C11Dml.stmt_local", "SqlVerif.Props.C11Dml.script_concat_dml"]
PROPS["C11"]["corr"].append("dml")
PROPS["C11"]["unique_output"]["dml"] = False
PROPS["C11"]["level_text"] += " The same is proved for a core of the DML/DDL statements (Model/Dml.lean: parse_statement dispatch, parse_insert generic path incl. VALUES / DEFAULT VALUES / RETURNING, parse_update with its single TableWithJoins and FROM, parse_delete, parse_create_table with the ad-hoc parse_columns loop, parse_column_def and ten column options over the non-recursive data types of the data-type model, parse_drop for tables; tied to the real parse_statements by stream dml on real token lists, 13 dialects, both option values): stmt_yield (a successful statement parse consumes exactly the token yield of its tree), stmt_local (a statement text accepted completely is parsed to the same tree in front of `;`: every function of the statement model, and the flat arms of the data-type model, repeat a successful run when `; ...` is appended) and script_concat_dml (the loop theorem instantiated with this statement parser)."
PROPS["C13"]["lean"].append("SqlVerif.Props.C13Dml")
PROPS["C13"]["namespaces"].append("SqlVerif.Props.C13Dml")
PROPS["C13"]["required"] += ["SqlVerif.Props.C13Dml.assignment_local", "SqlVerif.Props.C13Dml.valuesRow_local",
                             "SqlVerif.Props.C13Dml.insertColumn_local", "SqlVerif.Props.C13Dml.name_local",
                             "SqlVerif.Props.C13Dml.columnDef_local",
                             "SqlVerif.Props.C13Dml.assignments_trailing_comma", "SqlVerif.Props.C13Dml.values_rows_trailing_comma",
                             "SqlVerif.Props.C13Dml.insert_columns_trailing_comma", "SqlVerif.Props.C13Dml.names_trailing_comma",
                             "SqlVerif.Props.C13Dml.columns_trailing_comma", "SqlVerif.Props.C13Dml.columns_trailing_comma_off",
                             "SqlVerif.Props.C13Dml.columns_loop_is_ad_hoc"]
PROPS["C13"]["level_text"] += " For the statement fragment (Model/Dml.lean, stream dml, run under C11/C05) the locality assumption is discharged for UPDATE assignments, VALUES rows, INSERT / REFERENCES column lists and name lists (DROP TABLE, DELETE a, b FROM, tuple targets), which are parse_comma_separated lists (trailing-comma and option-inert instances); the column-definition list of CREATE TABLE is proved NOT to be one: parse_columns is an ad-hoc loop that honours the option (columns_trailing_comma / columns_trailing_comma_off, with columnDef_local for `,` `)` `;`) but ignores the end set of is_parse_comma_separated_end (columns_loop_is_ad_hoc: with the option on `CREATE TABLE t (a INT, FROM INT)` has two columns)."

PROPS["C05"]["lean"].append("SqlVerif.Props.C05Dml")
PROPS["C05"]["namespaces"].append("SqlVerif.Props.C05Dml")
PROPS["C05"]["required"] += ["SqlVerif.Props.C05Dml.stmt_content_preserved_partial", "SqlVerif.Props.C05Dml.stmt_content_preserved_stmt",
                             "SqlVerif.Props.C05Dml.content_changed_type_number",
                             "SqlVerif.Props.C05Dml.option_keyword_swallowed", "SqlVerif.Props.C05Dml.update_from_swallowed"]
PROPS["C05"]["corr"].append("dml")
PROPS["C05"]["unique_output"]["dml"] = False
PROPS["C05"]["level_text"] += " The same sequence-level content theorem is proved for a core of the DML/DDL statements (Model/Dml.lean + DmlPrint.lean: INSERT incl. VALUES / DEFAULT VALUES / RETURNING, UPDATE, DELETE, CREATE TABLE with column options, DROP TABLE; Display text tied to to_string() by stream dml, 13 dialects, both option values): stmt_content_preserved_partial, for printable statements (printable expressions and queries; column types that are keyword-only types written with keyword tokens). An excluded type shape that changes content on the current code is kept as a kernel-checked witness: numbers inside a type are re-rendered (VARCHAR(010) prints VARCHAR(10))."

# ---- second statement fragment (Model/Ddl.lean + DdlPrint.lean, stream `ddl`): CREATE VIEW / CREATE INDEX / ALTER TABLE / TRUNCATE / DROP <kind>, extends the Dml fragment
PROPS["C11"]["lean"].append("SqlVerif.Props.C11Ddl")
PROPS["C11"]["namespaces"].append("SqlVerif.Props.C11Ddl")
PROPS["C11"]["required"] += ["SqlVerif.Props.C11Ddl.ddl_yield", "SqlVerif.Props.C11Ddl.ddl_semi",
                             "SqlVerif.Props.C11Ddl.ddl_local", "SqlVerif.Props.C11Ddl.script_concat_ddl",
                             "SqlVerif.Props.C11Ddl.ddl_extends_dml"]
PROPS["C11"]["corr"].append("ddl")
PROPS["C11"]["unique_output"]["ddl"] = False
PROPS["C11"]["level_text"] += " A second statement fragment extends the first (Model/Ddl.lean: the prefix logic of parse_create, parse_create_view with parse_view_columns, parse_create_index, parse_alter with the ADD / DROP / RENAME / ALTER COLUMN arms of parse_alter_table_operation over the column-definition parser of the first fragment, parse_truncate, parse_drop for the eight kinds besides TABLE, everything else handed to the first statement model; tied to the real parse_statements by stream ddl, 13 dialects, both option values): ddl_yield, ddl_local and script_concat_ddl (scripts mixing both fragments), with ddl_extends_dml (the first fragment's statements keep their trees)."

PROPS["C13"]["lean"].append("SqlVerif.Props.C13Ddl")
PROPS["C13"]["namespaces"].append("SqlVerif.Props.C13Ddl")
PROPS["C13"]["required"] += ["SqlVerif.Props.C13Ddl.viewCol_local", "SqlVerif.Props.C13Ddl.viewCol_local_sep",
                             "SqlVerif.Props.C13Ddl.alterOp_local", "SqlVerif.Props.C13Ddl.alterOp_local_sep",
                             "SqlVerif.Props.C13Ddl.index_columns_is_lists_model", "SqlVerif.Props.C13Ddl.include_is_lists_model",
                             "SqlVerif.Props.C13Ddl.view_columns_is_lists_model", "SqlVerif.Props.C13Ddl.alter_ops_is_lists_model",
                             "SqlVerif.Props.C13Ddl.index_columns_trailing_comma", "SqlVerif.Props.C13Ddl.include_trailing_comma",
                             "SqlVerif.Props.C13Ddl.view_columns_trailing_comma", "SqlVerif.Props.C13Ddl.alter_ops_trailing_comma",
                             "SqlVerif.Props.C13Ddl.view_columns_not_ad_hoc", "SqlVerif.Props.C13Ddl.add_column_not_local_before_with"]
PROPS["C13"]["level_text"] += " For the second statement fragment (Model/Ddl.lean, stream ddl, run under C11/C05) all four lists are proved to BE parse_comma_separated lists (index columns, INCLUDE identifiers, view columns, ALTER TABLE operations: *_is_lists_model) - none is an ad-hoc loop; with the option on `CREATE VIEW v (a, FROM) AS ...` is rejected where the CREATE TABLE loop accepts `(a INT, FROM INT)` (view_columns_not_ad_hoc). Element locality and the trailing-comma / option-inert instances are proved for view columns outside ClickHouse and for the operations other than ADD; every view column and every operation (ADD coldef included) is repeated in front of `,` `)` `;` (viewCol_local_sep, alterOp_local_sep), and ADD is proved not to be local in front of a reserved word (add_column_not_local_before_with: `ADD a TIMESTAMP` in front of WITH)."

PROPS["C13"]["lean"].append("SqlVerif.Props.C13Types")
PROPS["C13"]["namespaces"].append("SqlVerif.Props.C13Types")
PROPS["C13"]["required"] += ["SqlVerif.Props.C13Types.strVals_is_commaSep", "SqlVerif.Props.C13Types.enum_labels_is_lists_model",
                             "SqlVerif.Props.C13Types.label_local", "SqlVerif.Props.C13Types.enum_labels_trailing_comma",
                             "SqlVerif.Props.C13Types.enum_type_trailing_comma", "SqlVerif.Props.C13Types.enum_labels_option_inert",
                             "SqlVerif.Props.C13Types.enum_labels_trailing_comma_off",
                             "SqlVerif.Props.C13Types.enum_column_trailing_comma"]
PROPS["C13"]["level_text"] += " Inside data types (Model/DataType.lean, streams dtparse / dml / ddl) the label list of ENUM(..) / SET(..) (parse_string_values) is proved to BE a parse_comma_separated list over single-string elements (strVals_is_commaSep, enum_labels_is_lists_model: answers and failures alike), a label is a local element, and the trailing-comma / option-inert instances hold without side conditions: with the option on `ENUM('a', 'b', )` and `ENUM('a', 'b')` are the same type (enum_type_trailing_comma), with it off the trailing comma is rejected (enum_labels_trailing_comma_off); enum_column_trailing_comma is the kernel-checked witness through the CREATE TABLE model."

PROPS["C05"]["lean"].append("SqlVerif.Props.C05Ddl")
PROPS["C05"]["namespaces"].append("SqlVerif.Props.C05Ddl")
PROPS["C05"]["required"] += ["SqlVerif.Props.C05Ddl.ddl_content_preserved_partial", "SqlVerif.Props.C05Ddl.ddl_content_preserved_stmt",
                             "SqlVerif.Props.C05Ddl.ddl_content_preserved_truncate_drop",
                             "SqlVerif.Props.C05Ddl.add_if_not_exists_dropped", "SqlVerif.Props.C05Ddl.drop_primary_key_swallowed",
                             "SqlVerif.Props.C05Ddl.temp_index_dropped", "SqlVerif.Props.C05Ddl.view_prefix_order_kept",
                             "SqlVerif.Props.C05Ddl.content_changed_type_number_alter"]
PROPS["C05"]["corr"].append("ddl")
PROPS["C05"]["unique_output"]["ddl"] = False
PROPS["C05"]["level_text"] += " The content theorem is extended to the second statement fragment (Model/Ddl.lean + DdlPrint.lean: CREATE VIEW, CREATE INDEX, ALTER TABLE with ADD / DROP / RENAME / ALTER COLUMN, TRUNCATE, DROP <kind>; Display text tied to to_string() by stream ddl): ddl_content_preserved_partial for printable statements (TRUNCATE and DROP unconditionally). What the real printer drops or rewrites inside this fragment is keywords only, kept as kernel-checked witnesses: IF NOT EXISTS of ADD outside four dialects, PRIMARY KEY / PROJECTION consumed by DROP before the dialect test (so `ALTER TABLE t DROP PRIMARY KEY a` drops column a in PostgreSQL) and TEMP of CREATE TEMP INDEX; the prefix order of `CREATE TEMPORARY MATERIALIZED VIEW` (printed form rejected by the parser) was found with this model, repaired in /repo and is kept as the positive witness view_prefix_order_kept."

PROPS["C01"]["lean"].append("SqlVerif.Props.C01Ddl")
PROPS["C01"]["namespaces"].append("SqlVerif.Props.C01Ddl")
PROPS["C01"]["required"] += ["SqlVerif.Props.C01Ddl.ddl_norm_invariant", "SqlVerif.Props.C01Ddl.ddl_printer_emits_normal_forms",
                             "SqlVerif.Props.C01Ddl.ddl_reparse_fixpoint_sub", "SqlVerif.Props.C01Ddl.ddl_reparse_fixpoint_partial",
                             "SqlVerif.Props.C01Ddl.ddl_reparse_fixpoint_normal", "SqlVerif.Props.C01Ddl.ddl_print_idempotent_partial",
                             "SqlVerif.Props.C01Ddl.ddl_fixpoint_after_one_step", "SqlVerif.Props.C01Ddl.ddl_script_reparse_partial",
                             "SqlVerif.Props.C01Ddl.ddl_script_fixpoint_partial",
                             "SqlVerif.Props.C01Ddl.sampleV_hyps", "SqlVerif.Props.C01Ddl.sampleN_hyps", "SqlVerif.Props.C01Ddl.sampleA_hyps",
                             "SqlVerif.Props.C01Ddl.sampleT_hyps", "SqlVerif.Props.C01Ddl.sampleX_hyps",
                             "SqlVerif.Props.C01Ddl.rewritten_ddl_shapes_reparse_to_norm",
                             "SqlVerif.Props.C01Ddl.view_prefix_fixpoint"]
PROPS["C01"]["level_text"] += " Second statement fragment (Model/Ddl.lean + Model/DdlPrint.lean: CREATE VIEW, CREATE INDEX, ALTER TABLE with ADD / DROP / RENAME / ALTER COLUMN operations, TRUNCATE, DROP <kind>, and through the dispatcher every statement of the first fragment; tied by stream ddl, see C11/C05): the same three theorems, for EVERY configuration record, fuel, limit and token list - (ddl_norm_invariant) the parser respects the image qc when the column types of ADD are keyword types and view columns carry no data type; (ddl_printer_emits_normal_forms) the printed tokens are the consumed ones up to qc; (ddl_reparse_fixpoint_partial, _sub, ddl_script_fixpoint_partial for scripts mixing both fragments) an accepted statement that is printableQ, of normal shape and lexer-like re-parses from its printed tokens, with the SAME fuel and limit, to s.norm, which has the S-expression of s. normal excludes what Display re-writes here (TEMP for TEMPORARY, a `()` view column list, trailing commas, TEMP of CREATE TEMP INDEX, DROP / RENAME / ALTER without COLUMN, keywords swallowed by DROP, IF NOT EXISTS of ADD dropped or moved); one instance of each is decided by kernel evaluation to re-parse to exactly s.norm (rewritten_ddl_shapes_reparse_to_norm, with ddl_fixpoint_after_one_step for the fixpoint from the first print on). A counterexample found with this model - `CREATE TEMPORARY MATERIALIZED VIEW v AS SELECT 1` printed `CREATE MATERIALIZED TEMPORARY VIEW ...`, which the parser rejects - was repaired in /repo with a fix: commit and is kept as the positive kernel-checked witness view_prefix_fixpoint; no statement of this fragment is left whose AST is not a fixpoint."

# ---- third statement fragment (Model/Tcl.lean + TclPrint.lean, stream `tcl`): transaction control (START TRANSACTION / BEGIN / COMMIT / END / ROLLBACK / SAVEPOINT / RELEASE), SET ..., USE / DISCARD / DEALLOCATE / CLOSE / ASSERT, extends the Ddl fragment
PROPS["C11"]["lean"].append("SqlVerif.Props.C11Tcl")
PROPS["C11"]["namespaces"].append("SqlVerif.Props.C11Tcl")
PROPS["C11"]["required"] += ["SqlVerif.Props.C11Tcl.tcl_yield", "SqlVerif.Props.C11Tcl.tcl_semi",
                             "SqlVerif.Props.C11Tcl.tcl_local", "SqlVerif.Props.C11Tcl.script_concat_tcl",
                             "SqlVerif.Props.C11Tcl.tcl_extends_ddl", "SqlVerif.Props.C11Tcl.end_is_commit"]
PROPS["C11"]["corr"].append("tcl")
PROPS["C11"]["unique_output"]["tcl"] = False
PROPS["C11"]["level_text"] += " A third statement fragment extends the second (Model/Tcl.lean: parse_start_transaction, parse_begin with the SQLite modifiers under supports_start_transaction_modifier, parse_commit / parse_end, parse_rollback with parse_commit_rollback_chain and parse_rollback_savepoint, parse_savepoint, parse_release, the ad-hoc loop of parse_transaction_modes, parse_set with its modifiers - ROLE, variable and parenthesised-tuple assignments, TIME ZONE, NAMES, TRANSACTION, SESSION CHARACTERISTICS -, parse_use with the dialect keywords, parse_discard, parse_deallocate, parse_close, parse_assert, everything else handed to the second statement model; tied to the real parse_statements by stream tcl, 13 dialects, both option values): tcl_yield, tcl_local and script_concat_tcl (scripts mixing all three fragments; a lone END at top level is the statement COMMIT, end_is_commit, since the statements loop no longer stops at END), with tcl_extends_ddl (the statements of the first two fragments keep their trees)."

PROPS["C13"]["lean"].append("SqlVerif.Props.C13Tcl")
PROPS["C13"]["namespaces"].append("SqlVerif.Props.C13Tcl")
PROPS["C13"]["required"] += ["SqlVerif.Props.C13Tcl.setValue_local", "SqlVerif.Props.C13Tcl.setTupleId_local",
                             "SqlVerif.Props.C13Tcl.set_values_loop_is_commaSep", "SqlVerif.Props.C13Tcl.set_values_is_lists_model",
                             "SqlVerif.Props.C13Tcl.set_tuple_is_lists_model",
                             "SqlVerif.Props.C13Tcl.set_values_trailing_comma", "SqlVerif.Props.C13Tcl.set_values_option_inert",
                             "SqlVerif.Props.C13Tcl.set_tuple_trailing_comma", "SqlVerif.Props.C13Tcl.set_tuple_option_inert",
                             "SqlVerif.Props.C13Tcl.modes_comma_commits", "SqlVerif.Props.C13Tcl.modes_comma_optional",
                             "SqlVerif.Props.C13Tcl.modes_not_comma_separated", "SqlVerif.Props.C13Tcl.modes_trailing_comma_rejected",
                             "SqlVerif.Props.C13Tcl.modes_with_commas_witness"]
PROPS["C13"]["level_text"] += " The third statement fragment (Model/Tcl.lean, stream tcl, run under C11/C05) has three lists of three kinds: the parenthesised variable tuple of SET is a parse_comma_separated list (set_tuple_is_lists_model, identifier elements local, trailing-comma / option-inert instances); the value list of SET is written in the real code as an ad-hoc loop around is_parse_comma_separated_end and is PROVED to be parse_comma_separated over the value parser on every input, failures included (set_values_loop_is_commaSep; setValue_local, set_values_trailing_comma, set_values_option_inert); the loop of parse_transaction_modes is proved NOT to be one: the comma is optional (modes_comma_optional; `READ ONLY READ WRITE` gives two modes where the list model stops after one, modes_not_comma_separated) and a consumed comma commits the loop to a further mode for every fuel and token list, whatever trailing_commas says - the function never reads the option (modes_comma_commits; `START TRANSACTION READ ONLY,` is rejected with the option on where `SET a = 1,` is accepted, modes_trailing_comma_rejected)."

PROPS["C05"]["lean"].append("SqlVerif.Props.C05Tcl")
PROPS["C05"]["namespaces"].append("SqlVerif.Props.C05Tcl")
PROPS["C05"]["required"] += ["SqlVerif.Props.C05Tcl.tcl_content_preserved_partial", "SqlVerif.Props.C05Tcl.tcl_content_preserved_stmt",
                             "SqlVerif.Props.C05Tcl.tcl_content_preserved_tx",
                             "SqlVerif.Props.C05Tcl.set_names_uppercased", "SqlVerif.Props.C05Tcl.set_names_string_unquoted", "SqlVerif.Props.C05Tcl.set_names_word_quoted",
                             "SqlVerif.Props.C05Tcl.set_time_zone_eq_renamed", "SqlVerif.Props.C05Tcl.set_session_dropped",
                             "SqlVerif.Props.C05Tcl.characteristics_uppercased", "SqlVerif.Props.C05Tcl.noise_words_dropped",
                             "SqlVerif.Props.C05Tcl.discard_temporary_renamed"]
PROPS["C05"]["corr"].append("tcl")
PROPS["C05"]["unique_output"]["tcl"] = False
PROPS["C05"]["level_text"] += " The content theorem is extended to the third statement fragment (Model/Tcl.lean + TclPrint.lean: transaction control, SET ..., USE / DISCARD / DEALLOCATE / CLOSE / ASSERT; Display text tied to to_string() by stream tcl): tcl_content_preserved_partial for printable statements (the transaction-control statements, SET ROLE, USE, DISCARD, DEALLOCATE and CLOSE unconditionally, tcl_content_preserved_tx). What the printer drops or rewrites is kept as kernel-checked witnesses: noise words (TRANSACTION / WORK, AND NO CHAIN, END for COMMIT, SESSION of SET SESSION x = ..., TO for =, TIME ZONE = v printed TIMEZONE = v) are keywords only; CONTENT changes where Display writes a word that is no keyword in upper case (`set names x` prints NAMES, `characteristics` prints CHARACTERISTICS) and where SET NAMES changes the kind of token of its charset / collation: a name that is one plain non-keyword word is written without quotes (`SET NAMES 'utf8'` loses the quotes: a string comes back as an identifier, set_names_string_unquoted; a string that is no plain word, `SET NAMES 'a b'`, prints itself), any other name as a single-quoted string (the quoted word of `SET NAMES \"x y\"` comes back as the string 'x y', set_names_word_quoted)."

PROPS["C01"]["lean"].append("SqlVerif.Props.C01Tcl")
PROPS["C01"]["namespaces"].append("SqlVerif.Props.C01Tcl")
PROPS["C01"]["required"] += ["SqlVerif.Props.C01Tcl.tcl_reparse_fixpoint_partial", "SqlVerif.Props.C01Tcl.tcl_reparse_fixpoint_normal",
                             "SqlVerif.Props.C01Tcl.tcl_reparse_fixpoint_tx", "SqlVerif.Props.C01Tcl.tcl_script_reparse_partial",
                             "SqlVerif.Props.C01Tcl.tcl_script_fixpoint_partial",
                             "SqlVerif.Props.C01Tcl.sampleS_hyps", "SqlVerif.Props.C01Tcl.sampleR_hyps", "SqlVerif.Props.C01Tcl.sampleC_hyps",
                             "SqlVerif.Props.C01Tcl.sampleZ_hyps", "SqlVerif.Props.C01Tcl.sampleX_hyps", "SqlVerif.Props.C01Tcl.sampleT_hyps", "SqlVerif.Props.C01Tcl.sampleA_hyps",
                             "SqlVerif.Props.C01Tcl.sampleV_hyps",
                             "SqlVerif.Props.C01Tcl.sampleN_hyps",
                             "SqlVerif.Props.C01Tcl.set_session_modifier_not_fixpoint", "SqlVerif.Props.C01Tcl.set_names_fixpoint"]
PROPS["C01"]["level_text"] += " Third statement fragment (Model/Tcl.lean + Model/TclPrint.lean: transaction control, SET ..., USE / DISCARD / DEALLOCATE / CLOSE / ASSERT, and through the dispatcher every statement of the first two fragments; tied by stream tcl, see C11/C05): (tcl_reparse_fixpoint_partial, tcl_script_fixpoint_partial for scripts mixing the three fragments) for EVERY configuration record, fuel, limit and token list, an accepted statement that satisfies the decidable condition fixOk over lexer-like tokens re-parses from its printed tokens, with the SAME fuel and limit, to s.norm, which has the S-expression of s. The token image qc forgets the spelling of keyword words and parse_set tests variable names by text, so the proof does not go through the simulation of the dispatcher: the parser is evaluated on the explicit printed token lists, expression operands are re-parsed through the simulation of the expression layer, statements of the first two fragments through the second fragment's theorem and an inversion of the dispatcher. fixOk asks nothing of the transaction-control statements, SET ROLE, SET NAMES, SET TRANSACTION / SESSION CHARACTERISTICS, USE, DISCARD, DEALLOCATE, CLOSE (tcl_reparse_fixpoint_tx: not even lexer-like input; all of Display's rewrites there - BEGIN WORK, END, noise words, AND NO CHAIN, TO a, RELEASE a, inserted mode commas, a SESSION added to CHARACTERISTICS, TEMPORARY - re-parse to the same AST), printable operands for ASSERT / SET TIME ZONE / SET variable = values (one-name, TIME ZONE and parenthesised-tuple targets, every modifier, no trailing comma after the values). SET NAMES charset [COLLATE collation] needs no condition either: Display writes a name that is one plain non-keyword word as it is and every other name as a single-quoted string, so the printed name is one word or one string token with the same text whatever it was read from (set_names_fixpoint: `SET NAMES 'a b'`, `''`, `'select'`, `'utf8 COLLATE x'`, which were rejected or re-parsed to another statement while the names were written raw - found with this model -, print themselves and re-parse to the same AST). One counterexample found with this model is kept as a kernel-checked witness and reproduces on the real parser: the dropped SESSION modifier exposes a variable called LOCAL / SESSION / HIVEVAR (`SET SESSION LOCAL = 1` prints `SET LOCAL = 1`, rejected; set_session_modifier_not_fixpoint)."

# entries still under construction by a sub-agent are not claimed in MANIFEST.json yet
for _hold in []:
    if _hold in PROPS:
        PROPS[_hold]["claimed"] = False

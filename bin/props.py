"""Per-property registry used by bin/check."""
TB_COMMON = []

PROPS = {
    "C08": dict(
        lean=["SqlVerif.Props.C08"],
        namespaces=["SqlVerif.Props.C08"],
        required=["SqlVerif.Props.C08.table_sorted", "SqlVerif.Props.C08.index_table_is_identity",
                  "SqlVerif.Props.C08.recognised_iff", "SqlVerif.Props.C08.every_entry_recognised",
                  "SqlVerif.Props.C08.nothing_else_recognised", "SqlVerif.Props.C08.lookup_case_insensitive",
                  "SqlVerif.Props.C08.spelling_preserved", "SqlVerif.Props.C08.full_statement_lexer_half"],
        level_text="Proved in Lean for all words, all upper-casing functions and all quote styles: on the keyword table the crate defines now (re-dumped and re-checked strictly sorted by the kernel on every run) binary search finds exactly the table words, recognition depends on a word only through its upper-casing, quoted words are never keywords, and spelling/quoting survive make_word, to_ident and printing. The model of make_word is tied to the code by an exhaustive differential over the table x capitalisations x near misses; the parser half (keyword tests on token text) is decided by search (case-flip oracle over the corpus), which is why the claim is partial there.",
        level_note="Trusted: Lean kernel (axioms propext, Quot.sound), the table dump (harness tabulate), Rust's to_uppercase as a model parameter. Parser-side case-insensitivity is not a theorem: oracle only.",
        technique="Lean 4 proof (binary search on kernel-checked sorted table) + exhaustive make_word differential + case-flip oracle",
        corr=["kw"],
        unique_output={"kw": True},
        oracle=["C08"],
        trusted_base=["Rust str::to_uppercase is a parameter of the model (its values travel with each request)",
                      "parser-side keyword tests on token text are decided by the case-flip oracle, not by a theorem"],
        assumptions=["Gen/Keywords.lean is the table of the crate as built from /repo's working tree"],
    ),
}

NOT_CLAIMED = {}

"""Per-property registry used by bin/check."""
TB_COMMON = []

PROPS = {
    "C08": dict(
        lean=["SqlVerif.Props.C08"],
        namespaces=["SqlVerif.Props.C08"],
        required=["SqlVerif.Props.C08.table_sorted", "SqlVerif.Props.C08.index_table_is_identity",
                  "SqlVerif.Props.C08.recognised_iff", "SqlVerif.Props.C08.every_entry_recognised",
                  "SqlVerif.Props.C08.nothing_else_recognised", "SqlVerif.Props.C08.lookup_case_insensitive",
                  "SqlVerif.Props.C08.spelling_preserved", "SqlVerif.Props.C08.full_statement_lexer_half"],
        level_text="Proved in Lean for all words, all upper-casing functions and all quote styles: on the keyword table the crate defines now (re-dumped and re-checked strictly sorted by the kernel on every run) binary search finds exactly the table words, recognition depends on a word only through its upper-casing, quoted words are never keywords, and spelling/quoting survive make_word, to_ident and printing. The model of make_word is tied to the code by an exhaustive differential over the table x capitalisations x near misses; the parser half (keyword tests on token text) is decided by search (case-flip oracle over the corpus), which is why the claim is partial there.",
        level_note="Trusted: Lean kernel (axioms propext, Quot.sound), the table dump (harness tabulate), Rust's to_uppercase as a model parameter. Parser-side case-insensitivity is not a theorem: oracle only.",
        technique="Lean 4 proof (binary search on kernel-checked sorted table) + exhaustive make_word differential + case-flip oracle",
        corr=["kw"],
        unique_output={"kw": True},
        oracle=["C08"],
        trusted_base=["Rust str::to_uppercase is a parameter of the model (its values travel with each request)",
                      "parser-side keyword tests on token text are decided by the case-flip oracle, not by a theorem"],
        assumptions=["Gen/Keywords.lean is the table of the crate as built from /repo's working tree"],
    ),
}

PROPS["C19"] = dict(
    lean=["SqlVerif.Props.C19"],
    namespaces=["SqlVerif.Props.C19"],
    required=["SqlVerif.Props.C19.same_field_set", "SqlVerif.Props.C19.build_map_identity",
              "SqlVerif.Props.C19.tryfrom_map_identity", "SqlVerif.Props.C19.setters_simple",
              "SqlVerif.Props.C19.wildcard_arm_is_err", "SqlVerif.Props.C19.builder_roundtrip",
              "SqlVerif.Props.C19.builder_roundtrip'", "SqlVerif.Props.C19.setter_local"],
    corr=[],
    oracle=["C19"],
    level_text="Proved in Lean for records over any value type: two copy-every-field conversions whose field maps are the identity compose to the identity, and a setter changes exactly its field. The field maps of build(), try_from and every setter, the field sets of both structs and the shape of the `_ => Err` arm are re-extracted from the Rust source with syn on every run and the identity/shape side conditions are re-decided by the kernel, so the theorem is about the code as it is now (translator route, no hand-written model of the builder). Backed by the real round trip and generated per-setter tests on every parsed CREATE TABLE of the corpus.",
    level_note="Trusted: Lean kernel; the syn extraction (struct literals/patterns read syntactically; rustc guarantees each field occurs exactly once in a struct literal); Rust move semantics (copying a field does not alter it). The parser constructing CREATE TABLE through the builder is covered only by the oracle.",
    technique="Lean 4 generic record theorem + kernel-decided side conditions on field maps regenerated from source (syn)",
    trusted_base=["translator/builder.rs reads build(), try_from and setters syntactically"],
    assumptions=["a struct literal/pattern without `..` mentions every field exactly once (rustc)"],
)

PROPS["C03"] = dict(
    lean=["SqlVerif.Props.C03"],
    namespaces=["SqlVerif.Props.C03"],
    required=["SqlVerif.Props.C03.certificate_checks", "SqlVerif.Props.C03.trees_are_tables",
              "SqlVerif.Props.C03.rank_bounded", "SqlVerif.Props.C03.call_chain_bounded",
              "SqlVerif.Props.C03.guard_restores", "SqlVerif.Props.C03.limit_iff_too_deep",
              "SqlVerif.Props.C03.siblings_ok", "SqlVerif.Props.C03.setop_nesting_bounded"],
    corr=[],
    oracle=["C03"],
    level_text="Proved in Lean for every finite call graph: if rank strictly decreases along every call edge whose target takes no depth guard, every call chain holding at most L guards is at most (L+1)(maxRank+1) frames long, for every input. The parser's call graph (552 functions of parser/*.rs and dialect/*.rs, receivers resolved conservatively, closures attributed to the enclosing function), its guard set and the rank certificate are re-extracted with syn on every run and the certificate is re-checked by the kernel; the counter is proved to be restored on every path and to raise the limit error exactly beyond the remaining depth; the one cycle bounded by a measure instead of a guard (set-operator climbing) has its own theorem. A removed guard or a new unguarded cycle breaks the certificate; the nesting oracle (32 construct families x dialects x limits x depths up to 10^5 in child processes, plus sibling forms) then looks for the crashing input.",
    level_note="Trusted: Lean kernel; translator/callgraph.rs (syntactic call resolution; dynamic dispatch over-approximated by all impls); a native call chain is a path of the static graph; stack bytes per frame are not modelled (measured by the oracle only). Edges listed in c03_discharged.json are outside the certificate (today: the set-operator edge, bounded by theorem setop_nesting_bounded on a model whose tie to the code is the nesting oracle and the C04 set-operator stream).",
    technique="Lean 4 graph theorem + kernel-checked rank certificate on the call graph regenerated from source (syn) + child-process nesting oracle",
    trusted_base=["translator/callgraph.rs call resolution", "Model/SetOps.lean mirrors parse_remaining_set_exprs (hand-written)"],
    assumptions=["every parser call chain is a path of the extracted static call graph"],
)

PROPS["C13"] = dict(
    lean=["SqlVerif.Props.C13"],
    namespaces=["SqlVerif.Props.C13"],
    required=["SqlVerif.Props.C13.trailing_comma_noop", "SqlVerif.Props.C13.option_inert",
              "SqlVerif.Props.C13.sep0_empty", "SqlVerif.Props.C13.projection_flag_restored",
              "SqlVerif.Props.C13.option_off_comma_continues", "SqlVerif.Props.C13.parseIdent_local"],
    corr=["lists"],
    unique_output={"lists": False},
    oracle=["C13"],
    level_text="Proved in Lean for every token type, every classification into commas and list-ending tokens, every element parser that is local on the list's elements, and every fuel: with the option on, parse_comma_separated returns the same values and leaves the cursor at the same token for `e1, ..., en, <end>` and `e1, ..., en <end>`; without a trailing comma the option is inert unless an element after a comma begins with a list-ending token; parse_comma_separated0 and the option flip of parse_projection are covered. The model of the three helpers is tied to the code by an exhaustive differential (all token sequences up to length 4/5 over a 13-letter alphabet x option on/off, real pub API driven on token vectors; the end set RESERVED_FOR_COLUMN_ALIAS is tabulated from the running crate). Whole-grammar: the parser reports every list it parsed (cfg hook), a comma is inserted at each reported list end and before each bracket closer, and the option is toggled on every accepted corpus text.",
    level_note="Trusted: Lean kernel; the hand-written model of the helpers (validated exhaustively on short sequences only); locality of the real element parsers is a hypothesis of the theorem, checked by the insertion oracle on corpus texts only. Lists parsed by ad-hoc comma loops and keywords outside the helper's end set are known findings, not theorems.",
    technique="Lean 4 generic list theorem + exhaustive helper differential + hook-driven trailing-comma insertion oracle",
    trusted_base=["Model/Lists.lean mirrors is_parse_comma_separated_end / parse_comma_separated / parse_comma_separated0 / parse_projection"],
    assumptions=["element parsers are local on list elements (hypothesis LocalOn)"],
)

NOT_CLAIMED = {}

import SqlVerif.Model.Query
import SqlVerif.Model.DataType
/-!
Executable model of a core of the STATEMENT grammar of `src/parser/mod.rs`, on top of the query model
(`Model/Query.lean`), the expression model (`Model/Pratt.lean`) and the data-type model
(`Model/DataType.lean`):

* `parse_statement` (guard, dispatch on the first word) for query statements (incl. a leading
  `VALUES`), `INSERT`, `UPDATE`, `DELETE`, `CREATE TABLE`, `DROP TABLE`;
* `parse_insert` (generic path: `[INTO] [TABLE] name [(cols)] <query | VALUES … | DEFAULT VALUES>
  [RETURNING items]`), `parse_parenthesized_column_list`, `parse_values`;
* `parse_update` (`parse_table_and_joins`, `SET` assignments, `FROM` — consumed in every dialect,
  parsed only in eight of them —, `WHERE`, `RETURNING`), `parse_assignment`;
* `parse_delete` (`[names] FROM` tables, `USING`, `WHERE`, `RETURNING`, `ORDER BY`, `LIMIT`);
* `parse_create` → `parse_create_table` → `parse_columns` (the ad-hoc loop) → `parse_column_def`
  → `parse_optional_column_option` (NULL, NOT NULL, DEFAULT e, PRIMARY KEY, UNIQUE, CHECK (e),
  COMMENT 's', REFERENCES t [(cols)], AUTO_INCREMENT / AUTOINCREMENT / ASC / DESC with the
  consume-then-test-the-dialect oddity);
* `parse_drop` for `DROP TABLE [IF EXISTS] names [CASCADE] [RESTRICT] [PURGE]`.

Conventions are those of `Model/Query.lean`: input = the non-whitespace tokens, `depth` =
`RecursionCounter::remaining_depth`, `fuel` only for structural recursion, every branch that leaves
the fragment answers `Err.unsupported` at the token where the real code takes it, error messages
are not modelled (class only), trees keep every consumed token.
Column types are parsed by `DTy.parseDataType` on the converted tokens; types whose first keyword
selects a recursive arm (ARRAY, STRUCT, MAP, …) and `DATETIME64` are outside the fragment.
-/
namespace SqlVerif.Dml
open SqlVerif.Pratt SqlVerif.Query SqlVerif.Gen

-- ------------------------------------------------------------------ configuration
structure DCfg where
  q : QCfg
  dt : SqlVerif.DTy.Cfg
  isSQLite : Bool
  isMySql : Bool
  isGeneric : Bool
  isPostgres : Bool
  isHive : Bool
  isSnowflake : Bool
  isBigQuery : Bool
  /-- `dialect_of!(self is Generic | PostgreSql | DuckDb | BigQuery | Snowflake | Redshift | MsSql | SQLite)` -/
  updateFrom : Bool
  /-- `supports_asc_desc_in_column_definition` -/
  ascDesc : Bool

def dtCfgOfRow (r : DialectRow) : SqlVerif.DTy.Cfg :=
  { isGeneric := r.name == "generic", isBigQuery := r.name == "bigquery",
    isClickHouse := r.name == "clickhouse", isDuckDb := r.name == "duckdb",
    isPostgres := r.name == "postgresql", isSnowflake := r.name == "snowflake",
    trailingCommas := r.flags.supports_trailing_commas,
    dqWord := r.asciiDelimStart.getD 34 false,
    lbWord := r.asciiDelimStart.getD 91 false && r.name != "redshift" }

def DCfg.ofRow (r : DialectRow) : DCfg :=
  { q := QCfg.ofRow r
    dt := dtCfgOfRow r
    isSQLite := r.name == "sqlite"
    isMySql := r.name == "mysql"
    isGeneric := r.name == "generic"
    isPostgres := r.name == "postgresql"
    isHive := r.name == "hive"
    isSnowflake := r.name == "snowflake"
    isBigQuery := r.name == "bigquery"
    updateFrom := ["generic", "postgresql", "duckdb", "bigquery", "snowflake", "redshift", "mssql", "sqlite"].contains r.name
    ascDesc := r.flags.supports_asc_desc_in_column_definition }

/-- the same dialect with `ParserOptions::trailing_commas` set explicitly -/
def DCfg.withTrailing (c : DCfg) (tc : Bool) : DCfg :=
  { c with q := c.q.withTrailing tc, dt := { c.dt with trailingCommas := tc } }

/-- `self.options.trailing_commas` -/
def DCfg.tc (c : DCfg) : Bool := c.q.e.trailingCommas

namespace DK
def INSERT := kwIndex "INSERT"
def INTO := kwIndex "INTO"
def OVERWRITE := kwIndex "OVERWRITE"
def LOCAL := kwIndex "LOCAL"
def DIRECTORY := kwIndex "DIRECTORY"
def TABLE := kwIndex "TABLE"
def DEFAULT := kwIndex "DEFAULT"
def VALUES := kwIndex "VALUES"
def PARTITION := kwIndex "PARTITION"
def ON := kwIndex "ON"
def AS := kwIndex "AS"
def OR := kwIndex "OR"
def REPLACE := kwIndex "REPLACE"
def LOW_PRIORITY := kwIndex "LOW_PRIORITY"
def DELAYED := kwIndex "DELAYED"
def HIGH_PRIORITY := kwIndex "HIGH_PRIORITY"
def IGNORE := kwIndex "IGNORE"
def RETURNING := kwIndex "RETURNING"
def ROW := kwIndex "ROW"
def UPDATE := kwIndex "UPDATE"
def SET := kwIndex "SET"
def FROM := kwIndex "FROM"
def WHERE := kwIndex "WHERE"
def DELETE := kwIndex "DELETE"
def USING := kwIndex "USING"
def ORDER := kwIndex "ORDER"
def BY := kwIndex "BY"
def LIMIT := kwIndex "LIMIT"
def ALL := kwIndex "ALL"
def SELECT := kwIndex "SELECT"
def UNION := kwIndex "UNION"
def EXCEPT := kwIndex "EXCEPT"
def INTERSECT := kwIndex "INTERSECT"
def CREATE := kwIndex "CREATE"
def GLOBAL := kwIndex "GLOBAL"
def TRANSIENT := kwIndex "TRANSIENT"
def TEMP := kwIndex "TEMP"
def TEMPORARY := kwIndex "TEMPORARY"
def PERSISTENT := kwIndex "PERSISTENT"
def IF := kwIndex "IF"
def NOT := kwIndex "NOT"
def EXISTS := kwIndex "EXISTS"
def LIKE := kwIndex "LIKE"
def ILIKE := kwIndex "ILIKE"
def CLONE := kwIndex "CLONE"
def CONSTRAINT := kwIndex "CONSTRAINT"
def UNIQUE := kwIndex "UNIQUE"
def PRIMARY := kwIndex "PRIMARY"
def FOREIGN := kwIndex "FOREIGN"
def CHECK := kwIndex "CHECK"
def INDEX := kwIndex "INDEX"
def KEY := kwIndex "KEY"
def FULLTEXT := kwIndex "FULLTEXT"
def SPATIAL := kwIndex "SPATIAL"
def COLLATE := kwIndex "COLLATE"
def REFERENCES := kwIndex "REFERENCES"
def GENERATED := kwIndex "GENERATED"
def CHARACTER := kwIndex "CHARACTER"
def NULL := kwIndex "NULL"
def COMMENT := kwIndex "COMMENT"
def MATERIALIZED := kwIndex "MATERIALIZED"
def ALIAS := kwIndex "ALIAS"
def EPHEMERAL := kwIndex "EPHEMERAL"
def AUTO_INCREMENT := kwIndex "AUTO_INCREMENT"
def AUTOINCREMENT := kwIndex "AUTOINCREMENT"
def ASC := kwIndex "ASC"
def DESC := kwIndex "DESC"
def OPTIONS := kwIndex "OPTIONS"
def IDENTITY := kwIndex "IDENTITY"
def DEFERRABLE := kwIndex "DEFERRABLE"
def INITIALLY := kwIndex "INITIALLY"
def ENFORCED := kwIndex "ENFORCED"
def WITHOUT := kwIndex "WITHOUT"
def PARTITIONED := kwIndex "PARTITIONED"
def CLUSTERED := kwIndex "CLUSTERED"
def STORED := kwIndex "STORED"
def LOCATION := kwIndex "LOCATION"
def WITH := kwIndex "WITH"
def TBLPROPERTIES := kwIndex "TBLPROPERTIES"
def ENGINE := kwIndex "ENGINE"
def CLUSTER := kwIndex "CLUSTER"
def STRICT := kwIndex "STRICT"
def DROP := kwIndex "DROP"
def CASCADE := kwIndex "CASCADE"
def RESTRICT := kwIndex "RESTRICT"
def PURGE := kwIndex "PURGE"
def VIEW := kwIndex "VIEW"
def POLICY := kwIndex "POLICY"
def EXTERNAL := kwIndex "EXTERNAL"
def FUNCTION := kwIndex "FUNCTION"
def TRIGGER := kwIndex "TRIGGER"
def MACRO := kwIndex "MACRO"
def SECRET := kwIndex "SECRET"
def EXTENSION := kwIndex "EXTENSION"
def VIRTUAL := kwIndex "VIRTUAL"
def SCHEMA := kwIndex "SCHEMA"
def DATABASE := kwIndex "DATABASE"
def ROLE := kwIndex "ROLE"
def SEQUENCE := kwIndex "SEQUENCE"
def TYPE := kwIndex "TYPE"
def PROCEDURE := kwIndex "PROCEDURE"
def STAGE := kwIndex "STAGE"
end DK

-- ------------------------------------------------------------------ AST (every node keeps its tokens)
deriving instance DecidableEq, Repr for SqlVerif.DTy.DT, SqlVerif.DTy.Fields

/-- one row of `VALUES`: `[ROW] ( exprs )` (`exprs = []` for the MySQL `()`) -/
structure Row where
  rowKw : List Tok
  lp : Tok
  exprs : Sep Expr
  rp : Tok
deriving Repr, DecidableEq

/-- a query whose body is `VALUES rows` -/
structure ValuesQ where
  kw : Tok
  rows : Sep Row
  tail : QueryTail
deriving Repr, DecidableEq

/-- what `parse_query` returns inside the fragment -/
inductive Source
  | query (q : Query)
  | values (v : ValuesQ)
deriving Repr, DecidableEq

/-- an optional parenthesised identifier list: `(` (or `[]`), the identifiers, `)` (or `[]`) -/
structure ParenIds where
  lp : List Tok
  ids : Sep Tok
  rp : List Tok
deriving Repr, DecidableEq

def ParenIds.none : ParenIds := ⟨[], [], []⟩

inductive InsSource
  /-- `DEFAULT VALUES` -/
  | defaultValues (toks : List Tok)
  | source (s : Source)
deriving Repr, DecidableEq

structure Insert where
  kw : Tok
  /-- `[INTO]` or `[]` -/
  into : List Tok
  /-- `[TABLE]` or `[]` -/
  tableKw : List Tok
  name : List Tok
  cols : ParenIds
  src : InsSource
  /-- `[RETURNING]` or `[]` -/
  retKw : List Tok
  returning : Sep SelectItem
deriving Repr, DecidableEq

inductive AssignTarget
  | col (name : List Tok)
  | tuple (lp : Tok) (names : Sep (List Tok)) (rp : Tok)
deriving Repr, DecidableEq

structure Assign where
  target : AssignTarget
  eq : Tok
  value : Expr
deriving Repr, DecidableEq

structure Update where
  /-- the `TableWithJoins`; its first connector holds the `UPDATE` keyword -/
  table : QNode
  setKw : Tok
  assigns : Sep Assign
  /-- a `FROM` keyword that was consumed without a table following it (dialects outside `updateFrom`) -/
  fromKw : List Tok
  /-- the `TableWithJoins` after `FROM` (first connector = the keyword), `fnil []` when absent -/
  frm : QNode
  whereKw : List Tok
  selection : Option Expr
  retKw : List Tok
  returning : Sep SelectItem
deriving Repr, DecidableEq

structure Delete where
  kw : Tok
  /-- the names of the multi-table form `DELETE a, b FROM …` -/
  tables : Sep (List Tok)
  /-- the `FROM` list (first connector = the keyword) -/
  frm : QNode
  /-- the `USING` list (first connector = the keyword), `fnil []` when absent -/
  usng : QNode
  whereKw : List Tok
  selection : Option Expr
  retKw : List Tok
  returning : Sep SelectItem
  orderKw : List Tok
  order : Sep OrderByExpr
  /-- `[]`, `[LIMIT]` + expression, or `[LIMIT, ALL]` -/
  limitKw : List Tok
  limit : Option Expr
deriving Repr, DecidableEq

inductive ColOpt
  | null (t : Tok)
  | notNull (toks : List Tok)
  | default (kw : Tok) (e : Expr)
  | primaryKey (toks : List Tok)
  | unique (t : Tok)
  | check (kw lp : Tok) (e : Expr) (rp : Tok)
  | comment (kw s : Tok)
  /-- `AUTO_INCREMENT`, `AUTOINCREMENT`, `ASC`, `DESC` (`ColumnOption::DialectSpecific`) -/
  | dialect (t : Tok)
  | references (kw : Tok) (name : List Tok) (cols : ParenIds)
deriving Repr, DecidableEq

structure ColDef where
  name : Tok
  ty : SqlVerif.DTy.DT
  /-- the tokens the type was parsed from (`[]` for the SQLite unspecified type) -/
  tyToks : List Tok
  opts : List ColOpt
  /-- a keyword that `parse_optional_column_option` consumed before its dialect test failed -/
  dropped : List Tok
deriving Repr, DecidableEq

structure CreateTable where
  kw : Tok
  /-- `[TEMP]` / `[TEMPORARY]` / `[]` -/
  temp : List Tok
  tableKw : Tok
  /-- `[IF, NOT, EXISTS]` or `[]` -/
  ifne : List Tok
  name : List Tok
  /-- `(` or `[]` -/
  lp : List Tok
  cols : Sep ColDef
  /-- `)` or `[]` -/
  rp : List Tok
deriving Repr, DecidableEq

structure Drop where
  kw : Tok
  tableKw : Tok
  /-- `[IF, EXISTS]` or `[]` -/
  ifExists : List Tok
  names : Sep (List Tok)
  cascade : List Tok
  restrict : List Tok
  purge : List Tok
deriving Repr, DecidableEq

inductive Stmt
  | query (s : Source)
  | insert (i : Insert)
  | update (u : Update)
  | delete (d : Delete)
  | createTable (ct : CreateTable)
  | drop (d : Drop)
deriving Repr, DecidableEq

-- ------------------------------------------------------------------ small helpers
/-- `parse_keyword(k)` as an optional token list: consumed tokens (`[k]` or `[]`) and the rest -/
def kwTail (k : Nat) (ts : List Tok) : List Tok × List Tok :=
  match eatKw ts k with
  | some (t, r) => ([t], r)
  | none => ([], ts)

/-- `parse_keywords(ks)` as an optional token list -/
def kwsTail (ks : List Nat) (ts : List Tok) : List Tok × List Tok :=
  match eatKws ts ks with
  | some p => p
  | none => ([], ts)

/-- `parse_object_name(false)` as a list element -/
def nameElem (ts : List Tok) : Res (List Tok) := objectName [] ts

/-- BigQuery re-splits a name one of whose parts contains a period: outside the fragment -/
def bqDotted (c : DCfg) (name : List Tok) : Bool := c.isBigQuery && bigQueryNameForeign name []

/-- a name of a list of names is re-split by BigQuery -/
def anyDotted (c : DCfg) (names : Sep (List Tok)) : Bool := names.any fun p => bqDotted c p.1

/-- a set operator follows (`parse_remaining_set_exprs` would continue) -/
def setOpAhead (ts : List Tok) : Bool := peekAnyKw ts [DK.UNION, DK.EXCEPT, DK.INTERSECT]

-- ------------------------------------------------------------------ VALUES
/-- the parenthesised part of a `VALUES` row, after the optional `ROW` -/
def rowBody (c : DCfg) (f d : Nat) (rowKw : List Tok) (ts : List Tok) : Res Row :=
  match eatSym ts .LParen with
  | none => .error (syn "(")
  | some (lp, r) =>
    match (if c.isMySql then eatSym r .RParen else none) with
    | some (rp, r') => .ok (⟨rowKw, lp, [], rp⟩, r')
    | none =>
      match commaSepE c.tc (parseE c.q f d) f r with
      | .error er => .error er
      | .ok (es, r1) =>
        match eatSym r1 .RParen with
        | some (rp, r2) => .ok (⟨rowKw, lp, es, rp⟩, r2)
        | none => .error (syn ")")

/-- the element parser of `parse_values` -/
def valuesRow (c : DCfg) (f d : Nat) (ts : List Tok) : Res Row :=
  rowBody c f d (kwTail DK.ROW ts).1 (kwTail DK.ROW ts).2

/-- `parse_query` on a text whose body begins with `VALUES` (`kw`, consumed): guard level, rows,
no set operation, ORDER BY / LIMIT / OFFSET -/
def valuesQuery (c : DCfg) (f : Nat) (depth : Nat) (kw : Tok) (ts : List Tok) : Res ValuesQ :=
  match depth with
  | 0 => .error .rle
  | d + 1 =>
    match commaSepE c.tc (valuesRow c f d) f ts with
    | .error er => .error er
    | .ok (rows, r1) =>
      if setOpAhead r1 then .error .unsupported
      else
        match queryTail c.q f d r1 with
        | .error er => .error er
        | .ok (qt, r2) => .ok (⟨kw, rows, qt⟩, r2)

/-- `parse_query` / `parse_boxed_query` inside the fragment -/
def parseSource (c : DCfg) (f d : Nat) (ts : List Tok) : Res Source :=
  match eatKw ts DK.VALUES with
  | some (kw, r) =>
    match valuesQuery c f d kw r with
    | .error er => .error er
    | .ok (v, r') => .ok (.values v, r')
  | none =>
    match parseQuery c.q f d ts with
    | .error er => .error er
    | .ok (q, r') => .ok (.query q, r')

-- ------------------------------------------------------------------ shared clauses
/-- `parse_parenthesized_column_list(Optional, allow_empty)` -/
def parenIds (c : DCfg) (f : Nat) (allowEmpty : Bool) (ts : List Tok) : Res ParenIds :=
  match eatSym ts .LParen with
  | none => .ok (ParenIds.none, ts)
  | some (lp, r) =>
    match (if allowEmpty then eatSym r .RParen else none) with
    | some (rp, r') => .ok (⟨[lp], [], [rp]⟩, r')
    | none =>
      match commaSepE c.tc identElem f r with
      | .error er => .error er
      | .ok (ids, r1) =>
        match eatSym r1 .RParen with
        | some (rp, r2) => .ok (⟨[lp], ids, [rp]⟩, r2)
        | none => .error (syn ")")

/-- `RETURNING items`: the keyword (or `[]`) and the list -/
def retPart (c : DCfg) (f d : Nat) (ts : List Tok) : Res (List Tok × Sep SelectItem) :=
  match eatKw ts DK.RETURNING with
  | some (kw, r) =>
    match commaSepE c.tc (selectItem c.q f d) f r with
    | .error er => .error er
    | .ok (items, r') => .ok (([kw], items), r')
  | none => .ok (([], []), ts)

-- ------------------------------------------------------------------ INSERT
/-- keywords directly after `INSERT` that leave the generic path -/
def insertHeadForeign (ts : List Tok) : Bool :=
  peekAnyKw ts [DK.OR, DK.REPLACE, DK.LOW_PRIORITY, DK.DELAYED, DK.HIGH_PRIORITY, DK.IGNORE, DK.OVERWRITE]

/-- what follows the table name of an `INSERT`: `DEFAULT VALUES`, or columns and a source -/
def insertBody (c : DCfg) (f d : Nat) (ts : List Tok) : Res (ParenIds × InsSource) :=
  match eatKws ts [DK.DEFAULT, DK.VALUES] with
  | some (toks, r) => .ok ((ParenIds.none, .defaultValues toks), r)
  | none =>
    match parenIds c f c.isMySql ts with
    | .error er => .error er
    | .ok (cols, r1) =>
      if peekKw r1 DK.PARTITION then .error .unsupported
      else if c.isHive && peekSym r1 .LParen then .error .unsupported
      else
        match parseSource c f d r1 with
        | .error er => .error er
        | .ok (s, r2) => .ok ((cols, .source s), r2)

/-- `parse_insert` (`kw` = the consumed `INSERT`) -/
def parseInsert (c : DCfg) (f d : Nat) (kw : Tok) (ts : List Tok) : Res Insert :=
  if insertHeadForeign ts then .error .unsupported
  else if peekAnyKw (kwTail DK.INTO ts).2 [DK.LOCAL, DK.DIRECTORY] then .error .unsupported
  else
    match nameElem (kwTail DK.TABLE (kwTail DK.INTO ts).2).2 with
    | .error er => .error er
    | .ok (name, r1) =>
      if bqDotted c name then .error .unsupported
      else if c.isPostgres && peekKw r1 DK.AS then .error .unsupported
      else
        match insertBody c f d r1 with
        | .error er => .error er
        | .ok (cs, r2) =>
          if peekAnyKw r2 [DK.AS, DK.ON] then .error .unsupported
          else
            match retPart c f d r2 with
            | .error er => .error er
            | .ok (ret, r3) =>
              .ok (⟨kw, (kwTail DK.INTO ts).1, (kwTail DK.TABLE (kwTail DK.INTO ts).2).1, name, cs.1, cs.2,
                    ret.1, ret.2⟩, r3)

-- ------------------------------------------------------------------ UPDATE
/-- the factor of `parse_table_factor` inside the fragment -/
inductive Factor
  | table (name alias : List Tok)
  | derived (lp : Tok) (body : QNode) (qt : QueryTail) (rp : Tok) (alias : List Tok)
deriving Repr, DecidableEq

def Factor.node (conn : Conn) (k : JoinCstr) (rest : QNode) : Factor → QNode
  | .table name al => .ftable conn name al k rest
  | .derived lp body qt rp al => .fderived conn lp body qt rp al k rest

/-- `parse_table_factor`: one guard level; a plain name with alias, or a derived table (any failure
inside the parentheses falls back to the nested-join branch: outside the fragment) -/
def factorPart (c : QCfg) (f d : Nat) (ts : List Tok) : Res Factor :=
  if d = 0 then .error .rle
  else
    match factorHead c ts with
    | .error er => .error er
    | .ok (.table name al r) => .ok (.table name al, r)
    | .ok (.paren lp r) =>
      match parseQuery c f (d - 1) r with
      | .error .rle => .error .rle
      | .error .fuel => .error .fuel
      | .error _ => .error .unsupported
      | .ok (q, r1) =>
        match eatSym r1 .RParen with
        | none => .error .unsupported
        | some (rp, r2) =>
          match optTableAlias r2 with
          | .error _ => .error .unsupported
          | .ok (al, r3) =>
            if peekAnyKw r3 [K.PIVOT, K.UNPIVOT] then .error .unsupported
            else .ok (.derived lp q.body q.tail rp al, r3)

/-- `parse_table_and_joins`: ONE `TableWithJoins` — a factor and the joins that follow it (a comma is
not looked at) -/
def twj (c : QCfg) : Nat → Nat → Conn → List Tok → Res QNode
  | 0, _, _, _ => .error .fuel
  | f + 1, d, conn, ts =>
    match factorPart c f d ts with
    | .error er => .error er
    | .ok (fac, r) =>
      match optCstr c f d conn.hasCstr r with
      | .error er => .error er
      | .ok (k, ts1) =>
        match joinHead ts1 with
        | .error er => .error er
        | .ok .stop => .ok (fac.node conn k (.fnil []), ts1)
        | .ok (.join jk toks r2) =>
          match twj c f d (.join jk toks) r2 with
          | .error er => .error er
          | .ok (rest, ts2) => .ok (fac.node conn k rest, ts2)

/-- `parse_assignment_target` -/
def assignTarget (c : DCfg) (f : Nat) (ts : List Tok) : Res AssignTarget :=
  match eatSym ts .LParen with
  | some (lp, r) =>
    match commaSepE c.tc nameElem f r with
    | .error er => .error er
    | .ok (names, r1) =>
      match eatSym r1 .RParen with
      | none => .error (syn ")")
      | some (rp, r2) => if anyDotted c names then .error .unsupported else .ok (.tuple lp names rp, r2)
  | none =>
    match nameElem ts with
    | .error er => .error er
    | .ok (name, r) => if bqDotted c name then .error .unsupported else .ok (.col name, r)

/-- `parse_assignment` -/
def assignment (c : DCfg) (f d : Nat) (ts : List Tok) : Res Assign :=
  match assignTarget c f ts with
  | .error er => .error er
  | .ok (tg, r) =>
    match eatSym r .Eq with
    | none => .error (syn "=")
    | some (eq, r1) =>
      match parseE c.q f d r1 with
      | .error er => .error er
      | .ok (e, r2) => .ok (⟨tg, eq, e⟩, r2)

/-- the `FROM` of `parse_update`: the keyword is consumed first, the dialect is tested second -/
def updateFromPart (c : DCfg) (f d : Nat) (ts : List Tok) : Res (List Tok × QNode) :=
  match eatKw ts DK.FROM with
  | none => .ok (([], .fnil []), ts)
  | some (kw, r) =>
    if c.updateFrom then
      match twj c.q f d (.from kw) r with
      | .error er => .error er
      | .ok (n, r') => .ok (([], n), r')
    else .ok (([kw], QNode.fnil []), r)

/-- `parse_update` (`kw` = the consumed `UPDATE`) -/
def parseUpdate (c : DCfg) (f d : Nat) (kw : Tok) (ts : List Tok) : Res Update :=
  match twj c.q f d (.from kw) ts with
  | .error er => .error er
  | .ok (tbl, r1) =>
    match eatKw r1 DK.SET with
    | none => .error (syn "SET")
    | some (setKw, r2) =>
      match commaSepE c.tc (assignment c f d) f r2 with
      | .error er => .error er
      | .ok (as, r3) =>
        match updateFromPart c f d r3 with
        | .error er => .error er
        | .ok (fr, r4) =>
          match kwExprPart c.q f d DK.WHERE r4 with
          | .error er => .error er
          | .ok (w, r5) =>
            match retPart c f d r5 with
            | .error er => .error er
            | .ok (ret, r6) => .ok (⟨tbl, setKw, as, fr.1, fr.2, w.1, w.2, ret.1, ret.2⟩, r6)

-- ------------------------------------------------------------------ DELETE
/-- the head of `parse_delete`: `FROM`, or (outside BigQuery / Generic) names and then `FROM`;
returns the names and the `FROM` keyword -/
def deleteHead (c : DCfg) (f : Nat) (ts : List Tok) : Res (Sep (List Tok) × Tok) :=
  match eatKw ts DK.FROM with
  | some (fk, r) => .ok (([], fk), r)
  | none =>
    if c.isBigQuery || c.isGeneric then .error .unsupported
    else
      match commaSepE c.tc nameElem f ts with
      | .error er => .error er
      | .ok (names, r1) =>
        match eatKw r1 DK.FROM with
        | none => .error (syn "FROM")
        | some (fk, r2) => if anyDotted c names then .error .unsupported else .ok ((names, fk), r2)

/-- `USING tables` -/
def usingPart (c : DCfg) (f d : Nat) (ts : List Tok) : Res QNode :=
  match eatKw ts DK.USING with
  | some (kw, r) => fromItems c.q f d (.from kw) r
  | none => .ok (.fnil [], ts)

/-- `ORDER BY list` of `parse_delete` (plain `parse_comma_separated(parse_order_by_expr)`) -/
def deleteOrderPart (c : DCfg) (f d : Nat) (ts : List Tok) : Res (List Tok × Sep OrderByExpr) :=
  match eatKws ts [DK.ORDER, DK.BY] with
  | some (kws, r) =>
    match commaSepE c.tc (orderByElem c.q f d) f r with
    | .error er => .error er
    | .ok (os, r') => .ok ((kws, os), r')
  | none => .ok (([], []), ts)

/-- `LIMIT e` / `LIMIT ALL` of `parse_delete` -/
def deleteLimitPart (c : DCfg) (f d : Nat) (ts : List Tok) : Res (List Tok × Option Expr) :=
  match eatKw ts DK.LIMIT with
  | some (kw, r) =>
    match eatKw r DK.ALL with
    | some (a, r') => .ok (([kw, a], none), r')
    | none =>
      match parseE c.q f d r with
      | .error er => .error er
      | .ok (e, r') => .ok (([kw], some e), r')
  | none => .ok (([], none), ts)

/-- `parse_delete` (`kw` = the consumed `DELETE`) -/
def parseDelete (c : DCfg) (f d : Nat) (kw : Tok) (ts : List Tok) : Res Delete :=
  match deleteHead c f ts with
  | .error er => .error er
  | .ok (hd, r1) =>
    match fromItems c.q f d (.from hd.2) r1 with
    | .error er => .error er
    | .ok (frm, r2) =>
      match usingPart c f d r2 with
      | .error er => .error er
      | .ok (us, r3) =>
        match kwExprPart c.q f d DK.WHERE r3 with
        | .error er => .error er
        | .ok (w, r4) =>
          match retPart c f d r4 with
          | .error er => .error er
          | .ok (ret, r5) =>
            match deleteOrderPart c f d r5 with
            | .error er => .error er
            | .ok (ob, r6) =>
              match deleteLimitPart c f d r6 with
              | .error er => .error er
              | .ok (lim, r7) =>
                .ok (⟨kw, hd.1, frm, us, w.1, w.2, ret.1, ret.2, ob.1, ob.2, lim.1, lim.2⟩, r7)

-- ------------------------------------------------------------------ data types of columns
open SqlVerif.DTy (DKw)

/-- keyword index ↦ the class the data-type grammar discriminates on -/
def dkwTable : List (Nat × DKw) :=
  [("BOOLEAN", DKw.BOOLEAN), ("BOOL", .BOOL), ("FLOAT", .FLOAT), ("REAL", .REAL), ("FLOAT4", .FLOAT4),
   ("FLOAT32", .FLOAT32), ("FLOAT64", .FLOAT64), ("FLOAT8", .FLOAT8), ("DOUBLE", .DOUBLE),
   ("TINYINT", .TINYINT), ("INT2", .INT2), ("SMALLINT", .SMALLINT), ("MEDIUMINT", .MEDIUMINT),
   ("INT", .INT), ("INT4", .INT4), ("INT8", .INT8), ("INT16", .INT16), ("INT32", .INT32),
   ("INT64", .INT64), ("INT128", .INT128), ("INT256", .INT256), ("INTEGER", .INTEGER),
   ("BIGINT", .BIGINT), ("UINT8", .UINT8), ("UINT16", .UINT16), ("UINT32", .UINT32),
   ("UINT64", .UINT64), ("UINT128", .UINT128), ("UINT256", .UINT256), ("VARCHAR", .VARCHAR),
   ("NVARCHAR", .NVARCHAR), ("CHARACTER", .CHARACTER), ("CHAR", .CHAR), ("CLOB", .CLOB),
   ("BINARY", .BINARY), ("VARBINARY", .VARBINARY), ("BLOB", .BLOB), ("BYTES", .BYTES), ("UUID", .UUID),
   ("DATE", .DATE), ("DATE32", .DATE32), ("DATETIME", .DATETIME), ("DATETIME64", .DATETIME64),
   ("TIMESTAMP", .TIMESTAMP), ("TIMESTAMPTZ", .TIMESTAMPTZ), ("TIME", .TIME), ("TIMETZ", .TIMETZ),
   ("INTERVAL", .INTERVAL), ("JSON", .JSON), ("JSONB", .JSONB), ("REGCLASS", .REGCLASS),
   ("STRING", .STRING), ("FIXEDSTRING", .FIXEDSTRING), ("TEXT", .TEXT), ("BYTEA", .BYTEA),
   ("NUMERIC", .NUMERIC), ("DECIMAL", .DECIMAL), ("DEC", .DEC), ("BIGNUMERIC", .BIGNUMERIC),
   ("BIGDECIMAL", .BIGDECIMAL), ("ENUM", .ENUM), ("SET", .SET), ("ARRAY", .ARRAY), ("STRUCT", .STRUCT),
   ("UNION", .UNION), ("NULLABLE", .NULLABLE), ("LOWCARDINALITY", .LOWCARDINALITY), ("MAP", .MAP),
   ("NESTED", .NESTED), ("TUPLE", .TUPLE), ("TRIGGER", .TRIGGER), ("PRECISION", .PRECISION),
   ("VARYING", .VARYING), ("LARGE", .LARGE), ("OBJECT", .OBJECT), ("UNSIGNED", .UNSIGNED),
   ("WITH", .WITH), ("WITHOUT", .WITHOUT), ("ZONE", .ZONE), ("MAX", .MAX), ("CHARACTERS", .CHARACTERS),
   ("OCTETS", .OCTETS),
   ("CONSTRAINT", .colOpt), ("COLLATE", .colOpt), ("NOT", .colOpt), ("COMMENT", .colOpt), ("NULL", .colOpt),
   ("DEFAULT", .colOpt), ("MATERIALIZED", .colOpt), ("ALIAS", .colOpt), ("EPHEMERAL", .colOpt),
   ("PRIMARY", .colOpt), ("UNIQUE", .colOpt), ("REFERENCES", .colOpt), ("CHECK", .colOpt),
   ("AUTO_INCREMENT", .colOpt), ("AUTOINCREMENT", .colOpt), ("ASC", .colOpt), ("DESC", .colOpt),
   ("ON", .colOpt), ("GENERATED", .colOpt), ("OPTIONS", .colOpt), ("AS", .colOpt), ("IDENTITY", .colOpt)].map
    fun p => (kwIndex p.1, p.2)

def dkwOf (kw : Option Nat) : DKw :=
  match kw with
  | none => .noKw
  | some k =>
    match dkwTable.lookup k with
    | some x => x
    | none => if reservedForColumnAlias.contains k then .otherRca else .other

/-- a token as the data-type model reads it (the payload of opaque tokens is not needed: the only
place that reads one is `DATETIME64`, which is outside the fragment) -/
def toDTok : Tok → SqlVerif.DTy.Tok
  | .word v q kw => .word v q (dkwOf kw)
  | .number s l => .number s l
  | .sqs s => .sqs s
  | .dqs s => .dqs s
  | .placeholder s => .other (some s)
  | .customOp s => .customOp s
  | .sym s => .sym s
  | .other _ _ => .other none

/-- the first token is a word whose keyword selects a non-recursive arm of `parse_data_type_helper`
(and is not `DATETIME64`) — or no word at all (a syntax error) -/
def typeHeadForeign (c : DCfg) (ts : List Tok) : Bool :=
  match ts with
  | .word _ _ kw :: _ => (SqlVerif.DTy.headOf c.dt (dkwOf kw)).isSome || dkwOf kw == .DATETIME64
  | _ => false

def dtErr : SqlVerif.DTy.Err → Err
  | .rle => .rle
  | .fuel => .fuel
  | .unsupported => .unsupported
  | _ => syn "data type"

/-- `parse_data_type` in a column definition: the type and the tokens it was read from -/
def colType (c : DCfg) (f d : Nat) (ts : List Tok) : Res (SqlVerif.DTy.DT × List Tok) :=
  if typeHeadForeign c ts then .error .unsupported
  else
    match SqlVerif.DTy.parseDataType c.dt f d (ts.map toDTok) with
    | .error e => .error (dtErr e)
    | .ok (t, rest) => .ok ((t, ts.take (ts.length - rest.length)), ts.drop (ts.length - rest.length))

/-- `is_column_type_sqlite_unspecified` (the SQLite test is made by the caller) -/
def sqliteUnspecified (ts : List Tok) : Bool :=
  match ts with
  | .word _ _ _ :: _ =>
    peekAnyKw ts [DK.CONSTRAINT, DK.PRIMARY, DK.NOT, DK.UNIQUE, DK.CHECK, DK.DEFAULT, DK.COLLATE, DK.REFERENCES,
      DK.GENERATED, DK.AS]
  | _ => true

-- ------------------------------------------------------------------ column options
/-- result of `parse_optional_column_option`: an option, or `None` — possibly after swallowing a keyword -/
inductive OptRes
  | opt (o : ColOpt)
  | none (dropped : List Tok)
deriving Repr, DecidableEq

/-- `parse_constraint_characteristics` would consume something: outside the fragment -/
def ccForeign (ts : List Tok) : Bool :=
  peekAnyKw ts [DK.DEFERRABLE, DK.INITIALLY, DK.ENFORCED] ||
    (eatKws ts [DK.NOT, DK.DEFERRABLE]).isSome || (eatKws ts [DK.NOT, DK.ENFORCED]).isSome

/-- keywords the tail of the option chain tests after a keyword was swallowed -/
def laterOptKws : List Nat :=
  [DK.AUTOINCREMENT, DK.ASC, DK.DESC, DK.ON, DK.GENERATED, DK.OPTIONS, DK.AS, DK.IDENTITY]

/-- `self.parse_keyword(K) && dialect_of!(…)`: the keyword `t` is consumed; when the dialect test
fails the chain goes on behind it and (no later keyword following) ends with `None` -/
def dialectOpt (ok : Bool) (t : Tok) (r : List Tok) : Res OptRes :=
  if ok then .ok (.opt (.dialect t), r)
  else if peekAnyKw r laterOptKws then .error .unsupported
  else .ok (.none [t], r)

/-- the end of the chain of `parse_optional_column_option`, from `AUTO_INCREMENT` on -/
def colOptionTail (c : DCfg) (ts : List Tok) : Res OptRes :=
  match eatKw ts DK.AUTO_INCREMENT with
  | some (t, r) => dialectOpt (c.isMySql || c.isGeneric) t r
  | none =>
  match eatKw ts DK.AUTOINCREMENT with
  | some (t, r) => dialectOpt (c.isSQLite || c.isGeneric) t r
  | none =>
  match eatKw ts DK.ASC with
  | some (t, r) => dialectOpt c.ascDesc t r
  | none =>
  match eatKw ts DK.DESC with
  | some (t, r) => dialectOpt c.ascDesc t r
  | none =>
    if peekAnyKw ts [DK.ON, DK.GENERATED, DK.OPTIONS, DK.AS, DK.IDENTITY] then .error .unsupported
    else .ok (.none [], ts)

/-- `COMMENT 'text'` -/
def commentTail (kw : Tok) (ts : List Tok) : Res OptRes :=
  match ts with
  | .sqs s :: r => .ok (.opt (.comment kw (.sqs s)), r)
  | _ => .error (syn "string")

/-- `CHECK ( expr )` -/
def checkTail (c : DCfg) (f d : Nat) (kw : Tok) (ts : List Tok) : Res OptRes :=
  match eatSym ts .LParen with
  | none => .error (syn "(")
  | some (lp, r) =>
    match parseE c.q f d r with
    | .error er => .error er
    | .ok (e, r1) =>
      match eatSym r1 .RParen with
      | none => .error (syn ")")
      | some (rp, r2) => .ok (.opt (.check kw lp e rp), r2)

/-- `REFERENCES name [(cols)]` without actions and characteristics -/
def referencesTail (c : DCfg) (f : Nat) (kw : Tok) (ts : List Tok) : Res OptRes :=
  match nameElem ts with
  | .error er => .error er
  | .ok (name, r) =>
    if bqDotted c name then .error .unsupported
    else
      match parenIds c f false r with
      | .error er => .error er
      | .ok (cols, r1) =>
        if peekKw r1 DK.ON || ccForeign r1 then .error .unsupported
        else .ok (.opt (.references kw name cols), r1)

/-- `DEFAULT expr` -/
def defaultTail (c : DCfg) (f d : Nat) (kw : Tok) (ts : List Tok) : Res OptRes :=
  match parseE c.q f d ts with
  | .error er => .error er
  | .ok (e, r) => .ok (.opt (.default kw e), r)

/-- a constraint keyword sequence followed by `parse_constraint_characteristics` -/
def ccTail (o : ColOpt) (ts : List Tok) : Res OptRes :=
  if ccForeign ts then .error .unsupported else .ok (.opt o, ts)

/-- `parse_optional_column_option` -/
def colOption (c : DCfg) (f d : Nat) (ts : List Tok) : Res OptRes :=
  if (eatKws ts [DK.CHARACTER, DK.SET]).isSome then .error .unsupported
  else
  match eatKws ts [DK.NOT, DK.NULL] with
  | some (toks, r) => .ok (.opt (.notNull toks), r)
  | none =>
  match eatKw ts DK.COMMENT with
  | some (kw, r) => commentTail kw r
  | none =>
  match eatKw ts DK.NULL with
  | some (t, r) => .ok (.opt (.null t), r)
  | none =>
  match eatKw ts DK.DEFAULT with
  | some (kw, r) => defaultTail c f d kw r
  | none =>
  if peekAnyKw ts [DK.MATERIALIZED, DK.ALIAS, DK.EPHEMERAL] then .error .unsupported
  else
  match eatKws ts [DK.PRIMARY, DK.KEY] with
  | some (toks, r) => ccTail (.primaryKey toks) r
  | none =>
  match eatKw ts DK.UNIQUE with
  | some (t, r) => ccTail (.unique t) r
  | none =>
  match eatKw ts DK.REFERENCES with
  | some (kw, r) => referencesTail c f kw r
  | none =>
  match eatKw ts DK.CHECK with
  | some (kw, r) => checkTail c f d kw r
  | none => colOptionTail c ts

/-- the `loop` of `parse_column_def`: the options and the tokens swallowed by the last attempt -/
def colOpts (c : DCfg) (f d : Nat) : Nat → List Tok → Res (List ColOpt × List Tok)
  | 0, _ => .error .fuel
  | n + 1, ts =>
    if peekKw ts DK.CONSTRAINT then .error .unsupported
    else
      match colOption c f d ts with
      | .error er => .error er
      | .ok (.none dr, r) => if peekKw r DK.COLLATE then .error .unsupported else .ok (([], dr), r)
      | .ok (.opt o, r) =>
        match colOpts c f d n r with
        | .error er => .error er
        | .ok (od, r') => .ok ((o :: od.1, od.2), r')

/-- the type of a column: nothing in SQLite when an option keyword (or no word) follows the name -/
def colTypePart (c : DCfg) (f d : Nat) (ts : List Tok) : Res (SqlVerif.DTy.DT × List Tok) :=
  if c.isSQLite && sqliteUnspecified ts then .ok ((.simple .unspecified, []), ts) else colType c f d ts

/-- `parse_column_def` -/
def columnDef (c : DCfg) (f d : Nat) (ts : List Tok) : Res ColDef :=
  match identElem ts with
  | .error er => .error er
  | .ok (name, r) =>
    match colTypePart c f d r with
    | .error er => .error er
    | .ok (ty, r1) =>
      if peekKw r1 DK.COLLATE then .error .unsupported
      else
        match colOpts c f d f r1 with
        | .error er => .error er
        | .ok (od, r2) => .ok (⟨name, ty.1, ty.2, od.1, od.2⟩, r2)

-- ------------------------------------------------------------------ CREATE TABLE
/-- the element starts a table constraint (`parse_optional_table_constraint`): outside the fragment -/
def constraintAhead (ts : List Tok) : Bool :=
  peekAnyKw ts [DK.CONSTRAINT, DK.UNIQUE, DK.PRIMARY, DK.FOREIGN, DK.CHECK, DK.INDEX, DK.KEY, DK.FULLTEXT, DK.SPATIAL]

def peekWord : List Tok → Bool
  | .word _ _ _ :: _ => true
  | _ => false

/-- after one element of `parse_columns`: `,`? then `)`?  `some (commaToks, rp, rest)` = the list ends -/
inductive ColEnd
  /-- the list goes on after the comma -/
  | more (commaToks rest : List Tok)
  /-- `)` consumed -/
  | close (commaToks : List Tok) (rp : Tok) (rest : List Tok)
  /-- neither `,` nor `)` -/
  | bad

/-- `let comma = consume(,); let rparen = peek == ); …` of `parse_columns` -/
def colEnd (tc : Bool) (ts : List Tok) : ColEnd :=
  match eatSym ts .Comma with
  | some (cm, r) =>
    match (if tc then eatSym r .RParen else none) with
    | some (rp, r') => .close [cm] rp r'
    | none => .more [cm] r
  | none =>
    match eatSym ts .RParen with
    | some (rp, r') => .close [] rp r'
    | none => .bad

/-- the `loop` of `parse_columns` (an ad-hoc loop, not `parse_comma_separated`) -/
def colLoop (c : DCfg) (f d : Nat) : Nat → List Tok → Res (Sep ColDef × Tok)
  | 0, _ => .error .fuel
  | n + 1, ts =>
    if constraintAhead ts then .error .unsupported
    else if !peekWord ts then .error (syn "column name or constraint definition")
    else
      match columnDef c f d ts with
      | .error er => .error er
      | .ok (cd, r1) =>
        match colEnd c.tc r1 with
        | .bad => .error (syn "',' or ')' after column definition")
        | .close cm rp r2 => .ok (([(cd, cm)], rp), r2)
        | .more cm r2 =>
          match colLoop c f d n r2 with
          | .error er => .error er
          | .ok (cr, r3) => .ok (((cd, cm) :: cr.1, cr.2), r3)

/-- `parse_columns`: `(`, columns, `)`; `(`/`)` are `[]` when there is no list -/
def parseColumns (c : DCfg) (f d : Nat) (ts : List Tok) : Res (List Tok × Sep ColDef × List Tok) :=
  match eatSym ts .LParen with
  | none => .ok (([], [], []), ts)
  | some (lp, r) =>
    match eatSym r .RParen with
    | some (rp, r') => .ok (([lp], [], [rp]), r')
    | none =>
      match colLoop c f d f r with
      | .error er => .error er
      | .ok (cr, r') => .ok (([lp], cr.1, [cr.2]), r')

/-- keywords after `CREATE` that the fragment does not follow -/
def createHeadForeign (ts : List Tok) : Bool := peekAnyKw ts [DK.OR, DK.LOCAL, DK.GLOBAL, DK.TRANSIENT]

/-- `TEMP` / `TEMPORARY` -/
def tempTail (ts : List Tok) : List Tok × List Tok :=
  match eatKw ts DK.TEMP with
  | some (t, r) => ([t], r)
  | none => kwTail DK.TEMPORARY ts

/-- clauses between the table name and the column list -/
def afterCreateNameForeign (ts : List Tok) : Bool := peekAnyKw ts [DK.ON, DK.LIKE, DK.ILIKE, DK.CLONE]

/-- every optional clause of `parse_create_table` after the column list is keyed by one of these -/
def createTailForeign (ts : List Tok) : Bool :=
  peekAnyKw ts [DK.COMMENT, DK.WITHOUT, DK.PARTITIONED, DK.CLUSTERED, DK.ROW, DK.STORED, DK.LOCATION, DK.WITH,
    DK.TBLPROPERTIES, DK.ENGINE, DK.AUTO_INCREMENT, DK.PRIMARY, DK.ORDER, DK.PARTITION, DK.CLUSTER, DK.OPTIONS,
    DK.DEFAULT, DK.COLLATE, DK.ON, DK.STRICT, DK.AS]

/-- the other object kinds `parse_create` dispatches on -/
def createOtherObject (ts : List Tok) : Bool :=
  peekAnyKw ts [DK.MATERIALIZED, DK.VIEW, DK.POLICY, DK.EXTERNAL, DK.FUNCTION, DK.TRIGGER, DK.CONSTRAINT, DK.MACRO, DK.SECRET,
    DK.EXTENSION, DK.INDEX, DK.UNIQUE, DK.VIRTUAL, DK.SCHEMA, DK.DATABASE, DK.ROLE, DK.SEQUENCE, DK.TYPE, DK.PROCEDURE]

/-- `parse_create` → `parse_create_table` (`kw` = the consumed `CREATE`) -/
def parseCreate (c : DCfg) (f d : Nat) (kw : Tok) (ts : List Tok) : Res CreateTable :=
  if c.isSnowflake then .error .unsupported
  else if createHeadForeign ts then .error .unsupported
  else if peekKw (tempTail ts).2 DK.PERSISTENT then .error .unsupported
  else
    match eatKw (tempTail ts).2 DK.TABLE with
    | none => if createOtherObject (tempTail ts).2 then .error .unsupported else .error (syn "an object type after CREATE")
    | some (tk, r0) =>
      match nameElem (kwsTail [DK.IF, DK.NOT, DK.EXISTS] r0).2 with
      | .error er => .error er
      | .ok (name, r1) =>
        if c.isBigQuery && bigQueryNameForeign name r1 then .error .unsupported
        else if afterCreateNameForeign r1 then .error .unsupported
        else
          match parseColumns c f d r1 with
          | .error er => .error er
          | .ok (cols, r2) =>
            if createTailForeign r2 then .error .unsupported
            else .ok (⟨kw, (tempTail ts).1, tk, (kwsTail [DK.IF, DK.NOT, DK.EXISTS] r0).1, name, cols.1, cols.2.1, cols.2.2⟩, r2)

-- ------------------------------------------------------------------ DROP TABLE
/-- the other object kinds `parse_drop` dispatches on -/
def dropOtherObject (ts : List Tok) : Bool :=
  peekAnyKw ts [DK.VIEW, DK.INDEX, DK.ROLE, DK.SCHEMA, DK.DATABASE, DK.SEQUENCE, DK.STAGE, DK.TYPE, DK.FUNCTION, DK.POLICY,
    DK.PROCEDURE, DK.SECRET, DK.TRIGGER]

/-- `parse_drop` for tables (`kw` = the consumed `DROP`) -/
def parseDrop (c : DCfg) (f : Nat) (kw : Tok) (ts : List Tok) : Res Drop :=
  if peekAnyKw ts [DK.TEMPORARY, DK.PERSISTENT] then .error .unsupported
  else
    match eatKw ts DK.TABLE with
    | none => if dropOtherObject ts then .error .unsupported else .error (syn "TABLE, VIEW, … after DROP")
    | some (tk, r0) =>
      match commaSepE c.tc nameElem f (kwsTail [DK.IF, DK.EXISTS] r0).2 with
      | .error er => .error er
      | .ok (names, r1) =>
        if anyDotted c names then .error .unsupported
        else if !(kwTail DK.CASCADE r1).1.isEmpty && !(kwTail DK.RESTRICT (kwTail DK.CASCADE r1).2).1.isEmpty then
          .error (syn "Cannot specify both CASCADE and RESTRICT in DROP")
        else
          .ok (⟨kw, tk, (kwsTail [DK.IF, DK.EXISTS] r0).1, names, (kwTail DK.CASCADE r1).1,
                (kwTail DK.RESTRICT (kwTail DK.CASCADE r1).2).1,
                (kwTail DK.PURGE (kwTail DK.RESTRICT (kwTail DK.CASCADE r1).2).2).1⟩,
               (kwTail DK.PURGE (kwTail DK.RESTRICT (kwTail DK.CASCADE r1).2).2).2)

-- ------------------------------------------------------------------ the dispatcher
def mapRes {α β : Type} (g : α → β) : Res α → Res β
  | .error er => .error er
  | .ok (v, r) => .ok (g v, r)

/-- `parse_statement`: one guard level, the dialect hook (Snowflake takes over every `CREATE`),
dispatch on the first word -/
def parseStmt (c : DCfg) (f limit : Nat) (ts : List Tok) : Res Stmt :=
  match limit with
  | 0 => .error .rle
  | d + 1 =>
    match ts with
    | [] => .error (syn "an SQL statement")
    | t :: r =>
      if t.isKw DK.SELECT then mapRes (fun q => .query (.query q)) (parseQuery c.q f d ts)
      else if t.isKw DK.VALUES then mapRes (fun v => .query (.values v)) (valuesQuery c f d t r)
      else if t.isKw DK.INSERT then mapRes .insert (parseInsert c f d t r)
      else if t.isKw DK.UPDATE then mapRes .update (parseUpdate c f d t r)
      else if t.isKw DK.DELETE then mapRes .delete (parseDelete c f d t r)
      else if t.isKw DK.CREATE then mapRes .createTable (parseCreate c f d t r)
      else if t.isKw DK.DROP then mapRes .drop (parseDrop c f t r)
      else
      match t with
      | .sym .LParen => mapRes (fun q => .query (.query q)) (parseQuery c.q f d ts)
      | .word _ _ _ => .error .unsupported
      | _ => .error (syn "an SQL statement")

/-- `parse_statements` on the fragment: the loop of `Model/Stmts.lean` around `parseStmt` -/
def parseScript (c : DCfg) (f limit : Nat) (ts : List Tok) : Except (SqlVerif.Stmts.Err Err) (List Stmt) :=
  SqlVerif.Stmts.parseStatements stmtClass (parseStmt c f limit) ts

end SqlVerif.Dml

/-
Generic call-graph model for C03.  A call chain is a path in the static call graph; the recursion
counter allows at most `L` guarded activations on any chain.  If the sub-graph of edges into
*unguarded* functions admits a rank certificate (rank strictly decreases along every such edge),
every chain has bounded length — whatever the input.
-/
namespace SqlVerif.Graph

/-- consecutive elements of the list are edges -/
def IsPath (edges : List (Nat × Nat)) : List Nat → Prop
  | [] => True
  | [_] => True
  | u :: v :: rest => (u, v) ∈ edges ∧ IsPath edges (v :: rest)

/-- number of guarded functions among the given activations -/
def guardedCount (guarded : Nat → Bool) (p : List Nat) : Nat := (p.filter guarded).length

/-- the decidable certificate: rank decreases along every edge whose target is not guarded -/
def certOk (edges : List (Nat × Nat)) (guarded : Nat → Bool) (rank : Nat → Nat) : Bool :=
  edges.all fun e => guarded e.2 || decide (rank e.2 < rank e.1)

/-- balanced search tree used for the generated node tables (log-time lookup in the kernel) -/
inductive BT
  | leaf
  | node (l : BT) (k v : Nat) (r : BT)

def BT.get : BT → Nat → Nat
  | .leaf, _ => 0
  | .node l k v r, x => if x < k then l.get x else if k < x then r.get x else v

/-- in-order list of (key, value) -/
def BT.toList : BT → List (Nat × Nat)
  | .leaf => []
  | .node l k v r => l.toList ++ (k, v) :: r.toList

def BT.all (p : Nat → Bool) : BT → Bool
  | .leaf => true
  | .node l _ v r => l.all p && p v && r.all p

/-- `RecursionCounter` as a state component: run `f` one level deeper, restore on every path -/
def withGuard {ε α : Type} (rle : ε) (f : Nat → Except ε α × Nat) (d : Nat) : Except ε α × Nat :=
  if d = 0 then (.error rle, 0)
  else
    let r := f (d - 1)
    (r.1, r.2 + 1)

/-- `k` guarded activations nested inside each other around `body` -/
def nestGuards {ε α : Type} (rle : ε) (body : Nat → Except ε α × Nat) : Nat → Nat → Except ε α × Nat
  | 0 => body
  | k + 1 => withGuard rle (nestGuards rle body k)

end SqlVerif.Graph
